#!/bin/bash
# usage: keep_seed.sh <ID> <name> <property> "<needs>" "<caught-by>" '<confirm-json>'
ID="$1"; NAME="$2"; PROP="$3"; NEEDS="$4"; CAUGHT="$5"; CONF="$6"
D=/verif/seeded/$NAME; mkdir -p $D
cp -r /tmp/seed-$ID/* $D/ 2>/dev/null
python3 - "$D" "$PROP" "$NEEDS" "$CAUGHT" "$CONF" <<'PY'
import json,sys
d,prop,needs,caught,conf=sys.argv[1:6]
json.dump({"property":prop,"needs_to_manifest":needs,"confirmation":json.loads(conf),
 "what_i_ran":"confirm_seed.sh: fresh scratch worktree of /repo HEAD; git apply patch.diff; go build ./...; go test -vet=off -count=1 ./...; demo.sh with the patch (must fail) and after git checkout (must pass); then try_seed.sh: git -C /repo apply, ./check <prop>, git -C /repo checkout -- .",
 "detected_by":caught}, open(d+"/meta.json","w"), indent=1)
PY
ls $D
