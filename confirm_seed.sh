#!/bin/bash
# usage: confirm_seed.sh <ID> [seed-dir]  — confirms a seeded change in a fresh scratch worktree of /repo HEAD:
# applies, builds, runs the unit tests, runs demo.sh with and without the patch. Prints a JSON summary.
ID="$1"; SD="${2:-/tmp/seed-$ID}"
WT=$(mktemp -d /tmp/cf-$ID-XXXX); rmdir $WT
export GOFLAGS=-mod=mod GOPROXY=off
git -C /repo worktree add -q --detach $WT HEAD || exit 2
cd $WT
APPLY=ok; git apply $SD/patch.diff || APPLY=fail
BUILD=fail; TESTS=fail
(cd tooling && go build ./... ) >/dev/null 2>&1 && BUILD=ok
(cd tooling && go test -vet=off -count=1 ./... ) > $WT.testlog 2>&1 && TESTS=ok
NTEST=$(cd tooling && go test -vet=off -count=1 -json ./... 2>/dev/null | grep -c '"Action":"pass"')
timeout 900 $SD/demo.sh $WT > $WT.demo_with 2>&1; WITH=$?
git checkout -q -- . ; git clean -fdq
timeout 900 $SD/demo.sh $WT > $WT.demo_without 2>&1; WITHOUT=$?
cd /; git -C /repo worktree remove --force $WT
echo "{\"id\":\"$ID\",\"apply\":\"$APPLY\",\"build\":\"$BUILD\",\"tests\":\"$TESTS\",\"test_pass_events\":$NTEST,\"demo_with_patch_rc\":$WITH,\"demo_without_patch_rc\":$WITHOUT}"
tail -3 $WT.demo_with | sed 's/^/  with: /'; tail -2 $WT.demo_without | sed 's/^/  without: /'
rm -f $WT.testlog $WT.demo_with $WT.demo_without
