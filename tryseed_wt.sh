#!/bin/sh
# usage: tryseed_wt.sh <seed dir name under seeded/> <PROP> [tier] [seed]
# Tries one kept change in a private scratch worktree of /repo (outside /repo and /verif), with a private evidence
# directory; the worktree is removed afterwards. /repo itself is not touched (detect.py is the form that applies to /repo).
set -u
S="$1"; PROP="$2"; TIER="${3:-quick}"; SEED="${4:-1}"
WT=$(mktemp -d /tmp/ts-w.XXXXXX); EV=$(mktemp -d /tmp/ts-ev.XXXXXX)
rmdir "$WT"
git -C /repo worktree add -q --detach "$WT" HEAD || exit 2
P=$(ls /verif/seeded/$S/patch_after_fix_*.diff 2>/dev/null | sort | tail -1)
[ -z "$P" ] && P=/verif/seeded/$S/patch.diff
git -C "$WT" apply "$P" || { echo "patch does not apply"; git -C /repo worktree remove --force "$WT"; exit 2; }
cd /verif
VERIF_SEED=$SEED VERIF_REPO="$WT" VERIF_EVIDENCE_DIR="$EV" ./check "$PROP" --tier "$TIER" 2>&1 | grep -v "^KNOWN-FINDING" | tail -${TAILN:-4}
python3 - "$EV" "$PROP" <<'PY'
import sys, json, glob, collections
c = collections.Counter(json.load(open(f))["key"] for f in glob.glob(f"{sys.argv[1]}/evidence/replays/{sys.argv[2]}-*.json"))
print(dict(c.most_common(6)))
PY
git -C /repo worktree remove --force "$WT"; git -C /repo worktree prune; rm -rf "$EV"
