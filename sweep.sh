#!/bin/bash
cd /verif
for p in C01 C02 C03 C04 C05 C06 C07 C08 C09 C10 C11 C12 C13 C14 C15 C16 C17 C18 C19 C20; do
  s=$(date +%s)
  out=$(./check $p --tier ${1:-quick} 2>&1)
  rc=$?
  echo "$p rc=$rc $(( $(date +%s) - s ))s :: $(echo "$out" | grep -c '^VIOLATION') violations :: $(echo "$out" | tail -1 | cut -c1-150)"
  echo "$out" | grep '^VIOLATION' | head -5
done
