#!/usr/bin/env python3
"""Regenerates MANIFEST.json from the table below (kept in one place so it stays valid)."""
import json, os
HERE = os.path.dirname(os.path.abspath(__file__))
props = [json.loads(l) for l in open(os.path.join(HERE, "properties.jsonl"))]
CLAIMED = {
 "C01": dict(
   engine="wire",
   text="Kernel-checked round-trip theorems for the compact binary format as implemented (every type, value, block partition, trailing bytes), tied to the code by a correspondence run: Lean-encoded reference streams are pushed through freshly generated C++ and Python readers+writers and what they emit is decoded by the Lean reference decoder.",
   note="Trusted: Lean kernel; the hand-written Lean transliteration of serializers.h/_binary.py (tied by differential runs only); model/value generators; C++ ndarray/date shims; HDF5 not covered.",
   technique="Lean 4 proof (structural induction on wire types) + differential correspondence with generated C++/Python",
   design="§7 C01"),
}
NOT_YET = "machinery for this property is not built yet in this round (see DESIGN.md §10 build order)"
checks, na = [], []
for p in props:
    pid = p["id"]
    if pid in CLAIMED:
        c = CLAIMED[pid]
        checks.append({
            "property_id": pid,
            "quick_cmd": f"./check {pid} --tier quick",
            "thorough_cmd": f"./check {pid} --tier thorough",
            "evidence_file": f"/verif/evidence/{pid}.json",
            "replay_cmd_template": f"./check {pid} --replay {{path}}",
            "engine": c["engine"],
            "level_claimed": {"category": "proof", "text": c["text"], "design_ref": c["design"]},
            "level_note": c["note"],
            "technique": c["technique"],
        })
    else:
        na.append({"property_id": pid, "reason": NOT_YET})
m = {
 "version": 1,
 "setup_cmd": "./setup.sh",
 "hooks": {"guard": "verif", "enable": "go build -tags verif (no hook commits exist yet; checks build /repo/tooling/cmd/yardl as is)",
           "baseline_off_cmd": "cd /repo/tooling && GOFLAGS=-mod=mod GOPROXY=off go test -vet=off -count=1 ./...",
           "source_commits": [], "add_only": True},
 "engines": [
   {"name": "wire", "path": "lean/YardlModel/Wire.lean", "serves_properties": ["C01", "C03", "C15", "C16", "C17"],
    "kind_free_text": "Lean model of the binary format + buffered stream implementations; line-protocol driver lean/Main/WireDriver.lean"},
 ],
 "checks": checks,
 "not_applicable": na,
 "notes": "All checks: ./check <ID> --tier quick|thorough; honour VERIF_SEED; evidence in evidence/<ID>.json; known findings in known_findings.json.",
}
json.dump(m, open(os.path.join(HERE, "MANIFEST.json"), "w"), indent=1)
print("claimed", [c["property_id"] for c in checks])
