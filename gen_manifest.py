#!/usr/bin/env python3
"""Regenerates MANIFEST.json from the table below (kept in one place so it stays valid)."""
import json, os
HERE = os.path.dirname(os.path.abspath(__file__))
props = [json.loads(l) for l in open(os.path.join(HERE, "properties.jsonl"))]
CLAIMED = {
 "C01": dict(
   engine="wire",
   text="Kernel-checked round-trip theorems for the compact binary format as implemented (every type, value, block partition, trailing bytes), tied to the code by a correspondence run: Lean-encoded reference streams are pushed through freshly generated C++ and Python readers+writers and what they emit is decoded by the Lean reference decoder.",
   note="Trusted: Lean kernel; the hand-written Lean transliteration of serializers.h/_binary.py (tied by differential runs only); model/value generators; C++ ndarray/date shims; HDF5 not covered.",
   technique="Lean 4 proof (structural induction on wire types) + differential correspondence with generated C++/Python",
   design="§7 C01"),
 "C15": dict(
   engine="wire",
   text="Kernel-checked theorems about the header acceptance decision (own schema accepted; foreign schema, bad magic, bad version, short header refused; headers self-delimiting), tied to generated C++ and Python binary readers by a differential run over corrupted headers, other protocols' streams and single-edit neighbour models; a refusal must precede any delivered value.",
   note="Trusted: Lean kernel; hand-written header model; NDJSON headers and C++ previous-version acceptance are not modelled here (see C05).",
   technique="Lean 4 proof + differential correspondence with generated C++/Python readers",
   design="§7 C15"),
 "C16": dict(
   engine="wire",
   text="Kernel-checked theorems: no proper prefix of a valid value/protocol body decodes (format is self-delimiting), the model of the C++ CodedInputStream raises end-of-stream on every cut of every primitive for every buffer capacity >= 10 without ever reading outside its valid window, and the model of the Python CodedInputStream (_binary.py: buffer window, short-read flag, underlying bytes; the larger-than-buffer path of read_view included) returns exactly the next bytes on every read for every buffer size and raises on every read that needs more than the stream holds (EOFError, or the BufferError of the off-by-one slice in _fill_buffer, proved to occur only on truncated input). Tied to the code by (1) token-for-token model-vs-runtime runs of the real C++ and Python coded streams at small capacities on every prefix and (2) every-prefix / refill-boundary cuts of reference streams through generated C++ and Python readers.",
   note="Trusted: Lean kernel; hand transliteration of coded_stream.h (tied by differential runs at capacities 10,11,16,64); hand transliteration of _binary.py's CodedInputStream (same tie); the lift from primitive reads to whole generated readers is by correspondence, not proof.",
   technique="Lean 4 proof (induction over varint/bytes loops) + differential correspondence on truncated streams",
   design="§7 C16"),
 "C17": dict(
   engine="wire",
   text="Kernel-checked theorems: any block partition decodes to the same items; a model of ReadBlock/ReadBlocksIntoVector (current_block_remaining_ carried across calls) delivers, for every mixture of single and batched reads of any capacities, the written items in order exactly once. Tied to generated C++ (output block structure must equal the model's predicted batch sizes) and Python (lazy and list write paths); consecutive items alternate large/minimal shapes to expose state carried between items.",
   note="Trusted: Lean kernel; hand-written batch reader model; item independence of the implementation (reused destination objects) is decided by correspondence only.",
   technique="Lean 4 proof (invariant over read-operation sequences) + differential correspondence",
   design="§7 C17"),
 "C19": dict(
   engine="expr",
   text="Kernel-checked theorems over tables regenerated on every run by executing yardl's own GetCommonType/GetPrimitiveKind on all 324 primitive pairs: static typing is symmetric in operand order, 8/16-bit arithmetic promotes to int32, ** never has an integer type, arithmetic is numeric-only; and the emitters' parenthesisation decision equals the target grammars' criterion for every (target, operator, operand operator, side). Tied to the code by exhaustive typing runs, by re-parsing emitted Python with CPython's parser and emitted MATLAB with MATLAB's precedence rules, and by evaluating generated Python and C++ against the Lean reference evaluation.",
   note="Trusted: Lean kernel; the table translator (executes the real functions); model of the emitters' decision (tied by correspondence); floats are compared on exactly representable values only; MATLAB is text-level only. Known finding: Python floors integer division.",
   technique="Lean 4 proof by kernel-checked case analysis over regenerated tables + differential correspondence",
   design="§7 C19"),
 "C18": dict(
   engine="imports",
   text="Kernel-checked theorems about a model of collectPackages that is structurally recursive on the tool's own depth counter (so loading terminates for every graph): a successful load contains the root, only reachable packages, every reachable package with all its imports, and binds each namespace to one directory; hence a reachable namespace conflict or missing import makes loading fail. Cycle, depth-limit and order-dependence witnesses are kernel-evaluated. Tied to the code by comparing model, an independent graph specification and the real CLI exhaustively on all worlds with <= 2 packages, sampled/all on 3, random larger ones, chains/diamonds at the depth limit and permuted import orders.",
   note="Trusted: Lean kernel; hand transliteration of collectPackages (tied by exhaustive small-world runs); git-URL imports and the cache are not modelled (local directories only). 'cycle => error' and 'too deep => error' in general are decided by the exhaustive/random correspondence, not by a theorem. Known finding: order dependence at the depth limit.",
   technique="Lean 4 proof (invariant over the recursive collection) + exhaustive small-world differential correspondence",
   design="§7 C18"),
 "C12": dict(
   engine="determinism",
   text="Kernel-checked: every `range` over a map in /repo/tooling (re-extracted with go/types on every run and classified against committed expectations) is in an order-free class; each class is order-free for all sizes (commutative fold, sorted keys, diagnostics sink sorted by a total key - any sorting algorithm); both sinks still compare file, line, column and message. Tied to the CLI by repeated executions (fresh map seeds per process) on packages that put >= 3 entries in every listed map, diffing every output byte, plus an idempotence run (no file touched).",
   note="Trusted: Lean kernel; the go/types extractor; the hand classification of the 14 loop bodies (a changed body invalidates it); filesystem, templates and WriteFileIfNeeded are only exercised, not modelled.",
   technique="Lean 4 proof (permutation invariance) + go/types site extraction + repeated-run differential",
   design="§7 C12"),
 "C11": dict(
   engine="cli",
   text="Kernel-checked: over the call list of generateImpl regenerated by go/ast on every run, nothing that may write precedes validatePackage and its error is returned (unknown callees count as writers); for every file system, every behaviour of the other calls and every writer effect, a failing validation leaves the file system unchanged and the command fails; every parse/validate/evolution call inside validatePackage and the recursive import parsing returns its error. Tied to the CLI by invalid packages (11 error sites: main, import, previous version, evolution, manifest, --config) x output configurations x empty/populated output directories with content+mtime snapshots.",
   note="Trusted: Lean kernel; the go/ast extractor and the list of callees known to be pure; the file system and the generators themselves are abstract (only 'may write' is modelled).",
   technique="Lean 4 proof over a regenerated call list + snapshot differential on the CLI",
   design="§7 C11"),
 "C07": dict(
   engine="proto",
   text="Kernel-checked bisimulations: the numeric state machines of the generated C++ and Python reader/writer base classes (transliterated from the generators) against descriptive specification machines, for every protocol shape and every finite call sequence, with the data-dependent outcomes of reads as adversarial parameters; close is accepted exactly at the end. Tied to the generated code by driving the generated C++ and Python base classes with scripted stubs: exhaustive short call sequences for all small shapes, random long ones, in-order runs, 130-step protocols; the index of the first rejected call must match.",
   note="Trusted: Lean kernel (+ grind's use of propext/Classical.choice/Quot.sound); hand transliteration of the generated state checks (tied by the exhaustive runs); MATLAB base classes are not executed (no MATLAB) and not covered; behaviour after a successful close() is unspecified and not compared.",
   technique="Lean 4 proof (bisimulation, lifted to runs by induction) + exhaustive/random differential on generated base classes",
   design="§7 C07"),
 "C04": dict(
   engine="schema",
   text="Kernel-checked: every binary stream starts with magic, format version and the schema, and a stream determines its schema; the visited-set traversal by which GetProtocolSchema collects the schema's types yields exactly the named types reachable from the protocol (any graph size), hence is insensitive to definition/field order and to adding or editing unreferenced definitions. Decided by correspondence: a Lean reader that sees only the schema text (planOfSchema) reconstructs the true wire types of every protocol of random and directed packages (so different encodings never share a schema), the schema literal is identical in generated C++, Python, MATLAB and in-process, neutral edits (comments, computed fields, unreferenced definitions, order, file layout, spelling) keep it and wire-affecting edits change it.",
   note="Trusted: Lean kernel; planOfSchema and the package generator's independent type resolution; json.go's marshalling itself is not modelled (the schema text is taken from the tool). 'visit returns some for fuel > #definitions' is evaluated, not proved. Known finding: enum vs flags is not recorded.",
   technique="Lean 4 proof (reachability closure) + schema-only reconstruction of the encoding compared with independently resolved wire types",
   design="§7 C04"),
 "C02": dict(
   engine="json",
   text="Lean model of the documented NDJSON mapping (toJ/fromJ, union tagging rule, omitted nullable fields, enum symbols, maps, arrays). Kernel-checked: fromJ (toJ v) = v for every well-formed type and typed value - primitives, enums, flags (array of the names found by the greedy bit-clearing decomposition, or the number itself), records (nullable fields holding null are omitted and read back as null; fields found by name), optionals, tagged and untagged unions, vectors, arrays of all kinds, maps with string and non-string keys, any nesting depth (mutual structural induction); the reader of an untagged union picks exactly the written case; the JSON data type of every mapped value is among those GetJsonDataType announces; the model's JSON data types of primitives and of enums, flags, records, vectors, arrays and maps equal what the current source computes (regenerated by executing GetJsonDataType); the line-oriented step reader with its one-line look-ahead (model of ReadProtocolValue / _read_json_line, driven as the generated readers drive it) returns exactly the written values for every protocol with distinct step names and every value sequence, empty streams anywhere included, and a missing non-stream step is an error. Hypotheses: distinct field names / tags / enum symbols, no optional of a nullable type (the collapse is proved as nested_optional_collapses), date formatter and parser inverse. Tied to generated C++ and Python by a writer leg (every NDJSON line written must denote the value toJ prescribes) and a reader leg (NDJSON rendered from toJ is read back to the same values), with stream items alternating optional presence, and by line sequences (valid and mutated: dropped, duplicated, swapped, moved, extra lines) through the generated readers and the step-reader model; the driver evaluates the theorem's hypothesis WF on every generated protocol.",
   note="A defect found by the proof (flags announced only JSON array although undeclared bits are written as a number) was fixed (ccb2b4a). Decimal<->float conversion is delegated to CPython (floats are bit patterns in the model); C++ NDJSON legs exclude date/time/datetime (date.h stand-in). Eight defects fixed.",
   technique="Lean 4 proof (mutual structural induction, JSON round trip; step-reader state machine) + differential correspondence through generated C++/Python",
   design="§7 C02"),
 "C03": dict(
   engine="wire",
   text="Kernel-checked: the C++ and Python coded output streams refine the same byte-level specification for every capacity >= 10 and every operation sequence, hence emit identical bytes for the same writes; the Python writer never indexes outside its staging buffer; union index encodings (1 byte vs varint) agree exactly below 128 cases. Tied to generated code by pushing value sequences through every ordered pair of (language, format): C++/Python x binary/NDJSON, including three-stage chains, and decoding the result with the Lean reference decoder.",
   note="Trusted: as C01/C02. MATLAB is not executed (covered by C14 only). Known finding: Python cannot represent some(none) of nested optionals. Unions with >= 128 cases (index encoding differs) are not exercised.",
   technique="Lean 4 proof (writer refinement) + all-pairs differential correspondence",
   design="§7 C03"),
 "C14": dict(
   engine="plan",
   text="Kernel-checked: encoder and decoder are functions of the serialization plan (the type with all names erased), so equal plans mean identical layout; the serializer expression printed by each back end's recursive type->serializer mapping (Python binary, MATLAB binary, Python NDJSON), read under the runtime constructor conventions (MATLAB's reversed fixed-array shapes included), denotes exactly the plan, for every type; what one back end writes every other reads back; denote is injective up to layout-irrelevant annotations, so an expression difference is always a plan difference. Tied to the code by parsing the serializer expressions out of freshly generated Python binary.py / ndjson.py (ast) and MATLAB +binary/*.m for random and directed packages, expanding record serializer classes, and comparing writer and reader side of every protocol step (hence every record field), stream flags, step order, record field order and NDJSON union type lists with Plan.emit of the resolved type; C++ and Python are also run on Lean-encoded streams of the same types. A deviation is reported with a value whose bytes under the plan and under the generated expression differ.",
   note="Trusted: Lean kernel; planparse.py (an expression it cannot parse is reported, never skipped); the constructor conventions of the MATLAB runtime classes (static .m files are not executed: no MATLAB/Octave in the sandbox); C++ is tied by execution only (its template expressions are not parsed).",
   technique="Lean 4 proof (mutual structural induction) + translation validation of generated serializer expressions against the Lean emitter",
   design="§7 C14"),
 "C13": dict(
   engine="syntax",
   text="Kernel-checked: in a Lean model of the front end's two type syntaxes (the shorthand AST participle hands to convertType/applyTypeTail, and the YAML nodes UnmarshalTypeYAML/UnmarshalTypeCases/Unmarshal{Vector,Array,Map,Union,Generic}YAML see) every shorthand, expanded or mixed spelling of a surface type - T? vs [null,T], !generic vs Name<...>, !vector/!array/!map vs * [] ->, dimensions: n vs [,], redundant parentheses - builds the same tree as every consumer sees it; primitive aliases resolve as documented and idempotently (over a table regenerated by executing resolveTypes of the current source). Tied to the code by parsing randomly spelled types with the real UnmarshalTypeYAML in-process (raw tree = model's tree; the harness's spellings satisfy the theorem's hypothesis; malformed nodes rejected by both). Artefact level (differential): respelled packages with non-documentation comments / blank lines are accepted together and give byte-identical C++, Python, MATLAB and JSON output; shuffled and re-split definitions (random packages and a directed package whose dependencies run through imported generics) give identical schemas, an importable Python package and identical re-serialized bytes; an injected rule violation is rejected under every spelling.",
   note="Trusted: Lean kernel; the text->token->AST step of participle and the YAML library are not modelled (exercised by the correspondence only); generated C++ of reordered packages is compared through schemas/plans, not compiled; the topological sort itself is exercised, not proved.",
   technique="Lean 4 proof (mutual structural induction over the surface type) + in-process correspondence with UnmarshalTypeYAML + artefact differential",
   design="§7 C13"),
 "C06": dict(
   engine="evolution",
   text="Lean model of the structural core of schema-evolution change detection (compareTypes and the detect*Changes family on resolved types with nominal records/enums, generic records as open definition + type arguments compared argument-wise (compareSemanticallyEquivalentTypes) with type parameters compared by position, the greedy union matching, record/enum definition comparison, and the error/warning/silent classification of validateTypeDefinitionChanges / validateProtocolChanges). Kernel-checked: the verdict function is total; its primitive-change classification equals, on all 324 ordered pairs, a table regenerated every run by executing ValidateEvolution of the current source; documented primitive classes (numbers and strings interconvert with a warning, complex with complex, everything else rejected, identical silent); rejection is symmetric; stream/vector/optional wrappers preserve errors and unchangedness; a well-formed type (distinct field / symbol names, non-empty unions - what validation enforces) compared with itself is unchanged, for every type incl. records, enums, unions (greedy matching pairs every case with itself) and generic instances, at any depth, and the hypothesis is necessary (witness); a protocol with distinct step names compared with itself gets the verdict ok whatever the new version defines; and every class docs/cpp/evolution.md lists (except alias renames), for all well-formed inputs: steps removed (error) / inserted anywhere (silent iff the step can be empty) / moved (error); scalar <-> optional (warning; vectors, arrays, maps rejected - the open finding as a theorem); optional <-> union (warning); union cases added / removed (warning) / reordered by any permutation (no message); record fields added / removed (silent iff nullable) / reordered by any permutation (silent); enum definitions changed (error) vs symbols added (silent); scalar <-> vector / array (error); type arguments changed in number or value (error). Tied to the code by judging random version pairs (1-3 random edits at any position: type rewrites, record/enum edits, edits of generic record bodies, protocol edits; versions with generic records instantiated several times) and a directed family (several instantiations of one generic reached from one step / several steps / a holder record x every documented edit in a definition only one type argument reaches) with the real ValidateEvolution in-process (and yardl validate on a sample) and with the model: verdicts must agree, no panic, same answer twice; every edit of a documented class at a position the documentation speaks about must get the documented verdict; the documentation's own examples, meaning-preserving rewrites of packages with generics/aliases (order, unused definitions, comments, rename through alias, re-spelling) must be silent, and type-argument changes (also behind an alias in one version) rejected.",
   note="Not modelled: pairing of definitions through *aliases* (SemanticPairs of renamed definitions) - exercised by the rewrite/edit-class differential only; generic aliases and multi-parameter generics are exercised by the directed examples only. Known finding: dimensioned types cannot be made optional / union members. One defect fixed (respelled previous version rejected).",
   technique="Lean 4 model + kernel-checked theorems (reflexivity for all well-formed types, primitive table regenerated from source) + differential correspondence with ValidateEvolution + documented-class oracle",
   design="§7 C06"),
 "C05": dict(
   engine="evolution",
   text="Lean model conv of the value conversions the generated C++ performs between schema versions (records field-by-name with added fields zeroed and removed ones dropped, element-wise vectors/streams/optionals, optional<->scalar<->union through the matched case with zero values, union<->union through the greedy matching with a runtime error for cases without counterpart, integer conversions with the generated overflow checks, integers<->canonical decimal strings). Kernel-checked: totality; a value converted between two identical well-formed types is unchanged, in both directions, for every type (records field by field through the by-name lookup, enums, unions through the self-matching of detectUnionChanges, optionals, vectors, arrays, maps; any depth) and every value of the type; adding a field, for every record and value: the new reader keeps every old field and zeroes the new one, the new writer for the previous version drops it, old data passes through unchanged; between any two integer types exactly the values inside the target's range convert, every other value is the documented runtime error; the documented record/overflow behaviours on concrete shapes. Tied to the code by execution: random and directed chains M0->M1->M2 of accepted edits (every documented compatible / partially compatible class at a field and at a step); M2 lists M0 and M1, its C++ is generated and compiled on every run; Lean-encoded streams of each listed version are read by the new reader and re-written, and newest-version values are written for each listed version; outputs are decoded by the Lean reference decoder (with the right schema in the header) and compared with conv; predicted runtime errors must be raised; crashes are violations.",
   note="PARTIAL: conversions involving floating point/complex numbers and non-canonical number<->string text are not modelled (checked for 'no crash' only); Python/MATLAB have no evolution support (documented). Trusted: Lean kernel, evogen.py, C++ ndarray shim (default dynamic array = 0-d with one element, as xtensor). Conversions between *different* types are tied by execution only (no theorem says what the right converted value is beyond the documented classes). Directed chains include same-width sign changes. Four defects fixed (stale values across stream items; three families of non-compiling conversion code).",
   technique="Lean 4 model + kernel-checked theorems (identity conversion for all well-formed types, totality) + differential execution of freshly generated C++ against the model",
   design="§7 C05"),
 "C09": dict(
   engine="rules",
   text="Kernel-checked: (model) a validation pass that applies a rule to every node its traversal reaches rejects a type as soon as any sub-term breaks the rule - directly, inside generic arguments, optionals, union cases, vectors, arrays, map keys/values, at any depth, for every rule; (facts regenerated from the current source by go/types+go/ast) every field of every dsl node struct that can hold child nodes is walked by VisitChildren except the listed derived back-references; all passes implementing the documented rules are in Validate's pipeline; errors of imported packages and previous versions are returned (from C11); (model of the rules themselves) the union / map / array rules as one predicate per type node (null first and never alone, no optional or union directly inside one, no two cases equal under TypesEqual, camelCase distinct tags with derived tags only for plain names, scalar primitive map keys, array dimension names and lengths), and a node breaking them is rejected wherever it occurs. Tied to the code by judging random types over primitive names (40% rule-breaking) with yardl validate and with the model (verdicts must agree, no crash), and by injecting one violation of each documented rule (names, casing, duplicates, unknown types, generic arity, unused type parameters, ill-formed unions and tags, streams outside steps, map keys, enum/flag values and bases, array dimensions, ill-typed computed fields, reference cycles through aliases / containers / local and imported generic arguments) into valid random packages at every kind of position (field, step, stream items, alias; direct, optional, vector, array, map value, union case, generic argument, nested) and placement (main file, second file, imported package, previous version): yardl validate must exit non-zero and name the offending file.",
   note="Trusted: Lean kernel; the fact extractor (go/types) and the allow-list of derived back-reference fields; the injection generator. The definition-level rule predicates (names, enums, computed fields) are not modelled (each is exercised by the matrix). Five defects fixed (two found while building the type-rules model), one open finding (map key rule not applied to generic instantiations) (nested streams in steps, union tags in generic arguments, diagnostics without file).",
   technique="Lean 4 proof (traversal completeness + type-rule predicates over the surface type) + kernel-checked facts regenerated from source + differential correspondence of the type rules + rule-violation injection matrix",
   design="§7 C09"),
 "C10": dict(
   engine="frontend",
   text="Kernel-checked (the logic that keeps the passes from running away): the dependency sort is total; an accepted namespace has a rank strictly decreasing along every reference, including references inside type arguments of imported generics, so passes and generators that recurse along references terminate; a reference cycle is never accepted; over the pass list regenerated from the current source, every pass after type resolution either returns at once when errors were reported or is on the reviewed list of passes that tolerate unresolved references; validation errors reach the exit status (C11 facts). That the Go process neither panics, hangs nor exhausts memory is decided by a time- and memory-limited fuzz run of the real CLI (yardl validate, yardl generate on a sample): arbitrary and corrupted bytes, structural YAML mutations of valid models (node kinds, tags, anchors, merge keys, indentation), random strings over the type-syntax alphabet at every site, random computed-field expressions, semantically arbitrary models (every C09 violation and cycle kind, self-referential and mutually recursive generics, nesting hundreds deep, alias chains), deep layered models (2^depth paths) through all four generators, arbitrary manifests (wrong types, missing / self imports, self versions, import cycles). Outcome must be exit 0, or exit 1 with an error naming a file of the package.",
   note="The theorem part covers termination logic only; totality of the process is evidence from fuzzing (not a proof) - this is what the model cannot carry. Nine defects fixed (two stack overflows, an infinite loop in the expression parser, two crashes on malformed YAML nodes, exponential type resolution, exponential generators, ...). Open known finding: evolution comparison of deeply layered models is still exponential.",
   technique="Lean 4 proof (termination rank from the dependency sort) + kernel-checked facts regenerated from source + resource-limited CLI fuzzing",
   design="§7 C10"),
 "C08": dict(
   engine="names",
   text="Kernel-checked (what a theorem can carry): for every name and every case conversion the identifier a back end derives (converted name, suffixed when it is in the back end's reserved table) is never a reserved word of its target, over the reserved-name tables regenerated from the current source; the tables contain the words that break generated code. Decided by execution: the real identifier functions of the three back ends agree with the model on every reserved word (as written, camelCase, PascalCase, upper/lower) and on random names; random accepted packages (imports, generics, unions, computed fields, all type shapes incl. the regions the codec labs avoid) x option sets {generateNDJson, generateHDF5, generateCMakeLists, overrideArrayHeader} x {cpp, python, matlab, json}: yardl generate must succeed, every generated Python module must compile and the package import (types, protocols, binary, ndjson), the generated C++ must compile as C++17; packages whose field, step, enum-symbol, computed-field, union-tag, type and namespace names are the reserved words of every target; the scaffold of yardl init for several names must generate, import and compile.",
   note="The theorem covers identifier escaping only; 'compiles and imports for every accepted package' is evidence from generating and building samples, not a proof. MATLAB output cannot be executed here (no MATLAB/Octave); HDF5 C++ is generated but not compiled (no HDF5 headers); C++ is compiled against the stand-in array header. Two defects fixed (names colliding after case conversion; Python keyword as union-case class). Open known findings: namespace named after a reserved word / runtime namespace; Python alias to a bare type parameter; inline union in an imported alias (Python); type parameter used only inside arrays (Python).",
   technique="Lean 4 proof over regenerated reserved-word tables + in-process correspondence of identifier functions + generate/compile/import matrix",
   design="§7 C08"),
 "C20": dict(
   engine="watch",
   text="Kernel-checked (the bookkeeping a theorem can carry): in the state-machine model of dedupLoop with at most one regeneration in flight and a remembered pending firing (the code after the fix), every quiescent state reachable by any interleaving of saves, timer firings and completions has the output of the final contents on disk (when those are valid), invalid intermediate contents never reach the disk; one goroutine per firing (the code before the fix) can be overtaken and leave stale output, converging only on first-in-first-out schedules; 'skip when busy' drops the last save. Runtime part by execution: the real yardl generate --watch, built from the current tree with the verif tag (one regeneration can be delayed after it has read the package), is driven with real file saves - a slow regeneration overtaken by a fast one, saves during a regeneration, bursts, invalid intermediate contents, edits of a second file, random timings - and once edits stop the output directories must equal those of a one-shot generate of the final contents, with the watcher still running.",
   note="The model cannot exhibit goroutine scheduling, fsnotify delivery or partially written files: those are covered only by the runs (timing-dependent, bounded). Hook: verifHook in generateImpl (build tag verif). One defect fixed (concurrent regenerations could leave stale output).",
   technique="Lean 4 proof (invariant over all interleavings of the watch state machine) + schedule-driven execution of the real watcher with a verif-tagged delay hook",
   design="§7 C20"),
}
NOT_YET = "machinery for this property is not built yet in this round (see DESIGN.md §10 build order)"
checks, na = [], []
for p in props:
    pid = p["id"]
    if pid in CLAIMED:
        c = CLAIMED[pid]
        checks.append({
            "property_id": pid,
            "quick_cmd": f"./check {pid} --tier quick",
            "thorough_cmd": f"./check {pid} --tier thorough",
            "evidence_file": f"/verif/evidence/{pid}.json",
            "replay_cmd_template": f"./check {pid} --replay {{path}}",
            "engine": c["engine"],
            "level_claimed": {"category": "proof", "text": c["text"], "design_ref": c["design"]},
            "level_note": c["note"],
            "technique": c["technique"],
        })
    else:
        na.append({"property_id": pid, "reason": NOT_YET})
m = {
 "version": 1,
 "setup_cmd": "./setup.sh",
 "hooks": {"guard": "verif", "enable": "go build -tags verif ./cmd/yardl (only checks/c20.py builds with the tag: verifHook(\"after-validate\") in generateImpl delays one regeneration when VERIF_WATCH_DELAY_FILE names an existing file; every other check builds /repo/tooling/cmd/yardl without the tag, where verifHook is an empty function)",
           "baseline_off_cmd": "cd /repo/tooling && GOFLAGS=-mod=mod GOPROXY=off go test -vet=off -count=1 ./...",
           "source_commits": ["1a3ef2c"], "add_only": True},
 "engines": [
   {"name": "expr", "path": "lean/YardlModel/Expr.lean", "serves_properties": ["C19"],
    "kind_free_text": "typing/parenthesisation model of computed fields over tables regenerated from /repo (harness/py/gen_tables.py, harness/go/cmd/inproc)"},
   {"name": "imports", "path": "lean/YardlModel/Imports.lean", "serves_properties": ["C18"],
    "kind_free_text": "model of collectPackages; worlds enumerated by checks/c18.py"},
   {"name": "determinism", "path": "lean/YardlModel/Determinism.lean", "serves_properties": ["C12"],
    "kind_free_text": "sorted sinks / map iteration as adversarial permutation; sites from harness/go/cmd/facts"},
   {"name": "cli", "path": "lean/YardlModel/Cli.lean", "serves_properties": ["C11"],
    "kind_free_text": "generateImpl as a fallible call sequence over an abstract FS; call list from harness/go/cmd/facts pipeline"},
   {"name": "plan", "path": "lean/YardlModel/Plan.lean", "serves_properties": ["C14"],
    "kind_free_text": "serializer expressions of the back ends and the plan they denote; harness/py/planparse.py parses them out of generated Python / MATLAB"},
   {"name": "syntax", "path": "lean/YardlModel/Syntax.lean", "serves_properties": ["C13"],
    "kind_free_text": "shorthand AST / YAML type nodes / dsl.Type tree and its consumer view; Topo.lean: dependency sort; harness/py/spellgen.py + inproc typetree"},
   {"name": "evolution", "path": "lean/YardlModel/Evolution.lean", "serves_properties": ["C05", "C06"],
    "kind_free_text": "change detection (cmp, verdicts) and value conversion (conv) between schema versions; harness/py/evogen.py generates version chains"},
   {"name": "rules", "path": "lean/YardlModel/Rules.lean", "serves_properties": ["C09"],
    "kind_free_text": "traversal completeness; rule-violation injection matrix in checks/c09.py; visitor facts from harness/go/cmd/facts"},
   {"name": "frontend", "path": "lean/YardlModel/Topo.lean", "serves_properties": ["C10"],
    "kind_free_text": "termination rank from the dependency sort; resource-limited CLI fuzzing in checks/c10.py"},
   {"name": "names", "path": "lean/YardlModel/Names.lean", "serves_properties": ["C08"],
    "kind_free_text": "identifier derivation over regenerated reserved-word tables; generate/compile/import matrix in checks/c08.py"},
   {"name": "watch", "path": "lean/YardlModel/Watch.lean", "serves_properties": ["C20"],
    "kind_free_text": "dedupLoop as a state machine over content versions; checks/c20.py drives the real watcher (verif-tagged build)"},
   {"name": "proto", "path": "lean/YardlModel/Proto.lean", "serves_properties": ["C07"],
    "kind_free_text": "reader/writer step-order state machines (implementation encodings vs specification positions)"},
   {"name": "schema", "path": "lean/YardlModel/Schema.lean", "serves_properties": ["C04", "C15"],
    "kind_free_text": "planOfSchema: schema text -> resolved wire types; Closure.lean: model of the type collection"},
   {"name": "json", "path": "lean/YardlModel/Json.lean", "serves_properties": ["C02", "C03"],
    "kind_free_text": "NDJSON mapping toJ/fromJ + union tagging rule; harness/py/jsonlab.py renders/judges NDJSON text"},
   {"name": "wire", "path": "lean/YardlModel/Wire.lean", "serves_properties": ["C01", "C03", "C15", "C16", "C17"],
    "kind_free_text": "Lean model of the binary format + buffered stream implementations; line-protocol driver lean/Main/WireDriver.lean"},
 ],
 "checks": checks,
 "not_applicable": na,
 "notes": "All checks: ./check <ID> --tier quick|thorough; honour VERIF_SEED; evidence in evidence/<ID>.json; known findings in known_findings.json.",
}
json.dump(m, open(os.path.join(HERE, "MANIFEST.json"), "w"), indent=1)
print("claimed", [c["property_id"] for c in checks])
