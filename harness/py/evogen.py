"""Versioned models for the evolution checks (C05/C06): a version = named record/enum definitions
plus one protocol; types are trees over ["prim",p] ["ref",name] ["opt",t] ["union",hasNull,[[tag,t]..]]
["vec",t,len] ["arr",t,kind] ["map",k,v]. `inline` turns a type into the wire-type JSON of the Lean
models with definition names attached (["rec",fields,name], ["enum",base,flags,syms,name])."""
import copy

PRIMS = ["bool", "int8", "int16", "int32", "int64", "uint8", "uint16", "uint32", "uint64", "size", "float32", "float64",
         "complexfloat32", "complexfloat64", "string", "date", "time", "datetime"]
NUMERIC = ["int8", "int16", "int32", "int64", "uint8", "uint16", "uint32", "uint64", "size", "float32", "float64"]
KEYS = ["string", "int32", "uint8", "int64", "uint16"]


class Version:
    def __init__(self):
        self.defs = {}      # name -> ["rec", [[fname, ty]...], name] | ["enum", base, flags, [[sym,val]...], name]
        self.order = []     # definition order
        self.steps = []     # [name, ty, stream]
        self.generics = {}  # generic record name -> [type parameter, [[fname, ty]...]]  (ty may hold ["tparam", p])
        self.instances = {} # name of an instantiated generic record ("G1<int32>", a key of defs) -> (generic name, argument type)

    def copy(self):
        return copy.deepcopy(self)


def inline(v, t, params=None, subst=False):
    """params: the type parameter names of the open generic definition being inlined (tparam -> position);
    subst: an instantiated generic record is the record it denotes on the wire (arguments substituted) instead of definition + arguments"""
    k = t[0]
    if k == "prim":
        return t
    if k == "tparam":
        return ["tparam", (params or [t[1]]).index(t[1])]
    if subst and k != "ref":
        if k == "opt":
            return ["opt", inline(v, t[1], params, True)]
        if k == "union":
            return ["union", t[1], [[tag, inline(v, c, params, True)] for tag, c in t[2]]]
        if k in ("vec", "arr"):
            return [k, inline(v, t[1], params, True), t[2]]
        if k == "map":
            return ["map", inline(v, t[1], params, True), inline(v, t[2], params, True)]
    if k == "ref" and v.defs.get(t[1], [None])[0] == "alias":
        # a named alias (directed versions only): on the wire, and for change detection, it is its target
        return inline(v, v.defs[t[1]][1], params, subst)
    if k == "ref":
        if subst:
            d = v.defs[t[1]]
            if d[0] == "enum":
                return ["enum", d[1] or "int32", d[2], d[3], d[4]]
            return ["rec", [[n, inline(v, ft, None, True)] for n, ft in d[1]], d[2]]
        if t[1] in v.instances:
            # a generic record applied to an argument: the open definition plus the arguments (change detection compares both)
            gname, arg = v.instances[t[1]]
            p, fields = v.generics[gname]
            return ["inst", gname, [inline(v, arg, params)], [[n, inline(v, ft, [p])] for n, ft in fields]]
        d = v.defs[t[1]]
        if d[0] == "enum":
            return ["enum", d[1] or "int32", d[2], d[3], d[4]]
        return ["rec", [[n, inline(v, ft)] for n, ft in d[1]], d[2]]
    if k == "opt":
        return ["opt", inline(v, t[1], params)]
    if k == "union":
        return ["union", t[1], [[tag, inline(v, c, params)] for tag, c in t[2]]]
    if k == "vec":
        return ["vec", inline(v, t[1], params), t[2]]
    if k == "arr":
        return ["arr", inline(v, t[1], params), t[2]]
    if k == "map":
        return ["map", inline(v, t[1], params), inline(v, t[2], params)]
    raise ValueError(t)


def defs_json(v):
    """the definitions of a version for the model's environment: records, enums and the open generic records"""
    out = [inline(v, ["ref", nm]) for nm in v.order if nm not in v.instances and v.defs[nm][0] != "alias"]
    for gname in sorted(v.generics):
        p, fields = v.generics[gname]
        out.append(["inst", gname, [], [[n, inline(v, ft, [p])] for n, ft in fields]])
    return out


def subst(t, p, arg):
    k = t[0]
    if k == "tparam":
        return copy.deepcopy(arg) if t[1] == p else t
    if k in ("prim", "ref"):
        return t
    if k == "union":
        return ["union", t[1], [[tag, subst(c, p, arg)] for tag, c in t[2]]]
    if k == "map":
        return ["map", subst(t[1], p, arg), subst(t[2], p, arg)]
    return [k, subst(t[1], p, arg)] + list(t[2:])


def instantiate(v, gname, arg):
    """the record a generic record denotes for one type argument; it is a definition of its own on the wire, named G<arg>"""
    name = f"{gname}<{ty_yaml(arg)}>"
    p, fields = v.generics[gname]
    v.defs[name] = ["rec", [[n, subst(ft, p, arg)] for n, ft in fields], name]
    v.instances[name] = (gname, arg)
    if name not in v.order:
        v.order.append(name)
    return name


def reinstantiate(v):
    for name, (gname, arg) in v.instances.items():
        p, fields = v.generics[gname]
        v.defs[name] = ["rec", [[n, subst(ft, p, arg)] for n, ft in fields], name]


def proto_json(v, subst=False):
    return [{"name": n, "ty": inline(v, t, None, subst), "stream": bool(s)} for n, t, s in v.steps]


# ------------------------------------------------------------------------------------- generation

class EvoGen:
    def __init__(self, rng, cpp_safe=True, generics=False):
        self.r = rng
        self.generics = generics
        self.cpp_safe = cpp_safe   # avoid regions where generated C++ does not compile / the shims cannot help (bool sequences, dates)
        self.n = 0

    def fresh(self, prefix):
        self.n += 1
        return f"{prefix}{self.n}"

    def prim(self):
        ps = [p for p in PRIMS if not (self.cpp_safe and p in ("date", "time", "datetime"))]
        return ["prim", self.r.choice(ps)]

    def scalar_leaf(self, v, allow_rec=True):
        r = self.r
        names = [n for n in v.order if allow_rec or v.defs[n][0] == "enum"]
        if names and r.random() < 0.4:
            return ["ref", r.choice(names)]
        return self.prim()

    def elem(self, v):
        """element of a vector / array / map value: not bool in sequences for C++"""
        t = self.scalar_leaf(v)
        while self.cpp_safe and t == ["prim", "bool"]:
            t = self.scalar_leaf(v)
        return t

    def gen_type(self, v, depth=2, top=False):
        r = self.r
        c = r.random()
        if depth <= 0 or c < 0.3:
            return self.scalar_leaf(v)
        if c < 0.42:
            return ["opt", self.non_nullable(v, depth - 1)]
        if c < 0.55:
            return self.gen_union(v, depth - 1)
        if c < 0.72:
            inner = self.gen_type(v, depth - 1) if r.random() < 0.4 else self.elem(v)
            if self.cpp_safe and inner == ["prim", "bool"]:
                inner = ["prim", "uint8"]
            return ["vec", inner, r.choice([None, None, 2, 3])]
        if c < 0.86:
            return ["arr", self.elem(v), r.choice([["dyn"], ["rank", 1], ["rank", 2], ["fixed", [2, 3]], ["fixed", [4]]])]
        return ["map", ["prim", r.choice(KEYS)], self.elem(v) if r.random() < 0.6 else ["vec", self.elem(v), None]]

    def non_nullable(self, v, depth):
        for _ in range(20):
            t = self.gen_type(v, depth)
            if t[0] not in ("opt", "union"):
                return t
        return self.prim()

    def union_case(self, v, depth, used):
        for _ in range(30):
            c = self.r.random()
            if c < 0.6:
                t = self.scalar_leaf(v)
            elif c < 0.8:
                t = ["vec", self.elem(v), None]
            else:
                t = ["map", ["prim", "string"], self.elem(v)]
            if t not in used:
                return t
        return None

    def gen_union(self, v, depth):
        r = self.r
        n = r.choice([2, 2, 3])
        cases = []
        for _ in range(n):
            c = self.union_case(v, depth, [x[1] for x in cases])
            if c is not None:
                cases.append([self.fresh("t"), c])
        if len(cases) < 2:
            return ["opt", self.prim()]
        return ["union", r.random() < 0.35, cases]

    def gen_version(self, n_enums=None, n_recs=None, n_steps=None):
        r = self.r
        v = Version()
        for _ in range(n_enums if n_enums is not None else r.choice([0, 1, 2])):
            name = self.fresh("E")
            flags = r.random() < 0.3
            k = r.choice([2, 3, 4])
            syms = [[f"s{i}", (1 << i) if flags else i * r.choice([1, 1, 3])] for i in range(k)]
            if not flags:
                syms = [[s, i if x == 0 and i > 0 else x] for i, (s, x) in enumerate(syms)]
                vals = set()
                syms2 = []
                for s, x in syms:
                    while x in vals:
                        x += 1
                    vals.add(x)
                    syms2.append([s, x])
                syms = syms2
            v.defs[name] = ["enum", r.choice([None, None, "uint8", "int16", "uint64"]), flags, syms, name]
            v.order.append(name)
        for _ in range(n_recs if n_recs is not None else r.choice([1, 2, 3])):
            name = self.fresh("R")
            fields = [[f"f{i}", self.gen_type(v, 2)] for i in range(r.choice([1, 2, 3, 4]))]
            v.defs[name] = ["rec", fields, name]
            v.order.append(name)
        if self.generics and r.random() < 0.7:
            plain = [n for n in v.order]
            for _ in range(r.choice([1, 1, 2])):
                gname = self.fresh("G")
                body = [[f"f{i}", r.choice([self.prim(), ["tparam", "T"], ["vec", ["tparam", "T"], None], ["opt", ["tparam", "T"]], ["map", ["prim", "string"], ["tparam", "T"]]])]
                        for i in range(r.choice([1, 2, 3]))]
                if not any(_uses_tparam(ft) for _, ft in body):
                    body[r.randrange(len(body))][1] = ["tparam", "T"]
                v.generics[gname] = ["T", body]
                cands = [["prim", p] for p in ("int32", "float32", "float64", "string", "uint8", "int64")] + [["ref", n] for n in plain]
                r.shuffle(cands)
                insts = [instantiate(v, gname, a) for a in cands[:r.choice([2, 2, 3])]]
                if r.random() < 0.7:
                    # several instantiations of one generic reached from one step
                    shape = r.choice(["union", "holder", "steps"])
                    if shape == "union":
                        v.steps.append([self.fresh("m"), ["union", r.random() < 0.3, [[self.fresh("t"), ["ref", n]] for n in insts]], r.random() < 0.5])
                    elif shape == "holder":
                        name = self.fresh("R")
                        v.defs[name] = ["rec", [[f"h{i}", ["ref", n] if r.random() < 0.6 else ["vec", ["ref", n], None]] for i, n in enumerate(insts)], name]
                        v.order.append(name)
                        v.steps.append([self.fresh("m"), ["ref", name], r.random() < 0.5])
                    else:
                        for n in insts:
                            v.steps.append([self.fresh("m"), ["ref", n], r.random() < 0.5])
        for i in range(n_steps if n_steps is not None else r.choice([1, 2, 3])):
            stream = r.random() < 0.4
            t = self.gen_type(v, 3)
            if stream and self.cpp_safe and t == ["prim", "bool"]:
                t = ["prim", "int8"]
            v.steps.append([f"s{i}", t, stream])
        return v

    # --------------------------------------------------------------------------------- edits
    def positions(self, v):
        """all (container, key, plain) slots holding a type: steps and record fields, recursively;
        plain = reached through optional / vector wrappers only (not inside arrays, maps, union cases)"""
        out = []

        def walk(holder, key, plain, owner):
            out.append((holder, key, plain, owner))
            t = holder[key]
            k = t[0]
            if k == "opt":
                walk(t, 1, plain, owner)
            elif k == "union":
                for c in t[2]:
                    walk(c, 1, False, owner)
            elif k == "vec":
                walk(t, 1, plain, owner)
            elif k == "arr":
                walk(t, 1, False, owner)
            elif k == "map":
                walk(t, 1, False, owner)
                walk(t, 2, False, owner)
        for s in v.steps:
            walk(s, 1, True, None)
        for name in v.order:
            d = v.defs[name]
            if d[0] == "rec" and name not in v.instances:
                for f in d[1]:
                    walk(f, 1, True, name)
        return out

    def restricted_defs(self, v):
        """definitions used (transitively) inside arrays, maps or union cases, or as fields of such records:
        any change to them is a change of an element type, which the tool rejects"""
        direct = set()
        uses = {n: set() for n in v.order}

        def refs(t, acc):
            if t[0] == "ref":
                acc.add(t[1])
            elif t[0] == "union":
                for c in t[2]:
                    refs(c[1], acc)
            elif t[0] == "map":
                refs(t[1], acc)
                refs(t[2], acc)
            elif t[0] in ("opt", "vec", "arr"):
                refs(t[1], acc)
        for holder, key, plain, _ in self.positions(v):
            if not plain:
                refs(holder[key], direct)
        for n in v.order:
            d = v.defs[n]
            if d[0] == "rec":
                for _, ft in d[1]:
                    refs(ft, uses[n])
        res = set(direct)
        changed = True
        while changed:
            changed = False
            for n in list(res):
                for m in uses.get(n, ()):
                    if m not in res:
                        res.add(m)
                        changed = True
        # and records that *contain* a restricted def are not themselves restricted; but a change to a def
        # propagates upward to every record using it: those users must not sit in a restricted position
        users_restricted = set(res)
        return users_restricted

    def users_closure(self, v, name):
        """name plus every record that (transitively) has a field mentioning it"""
        res = {name}
        changed = True

        def mentions(t, names):
            if t[0] == "ref":
                return t[1] in names
            if t[0] == "union":
                return any(mentions(c[1], names) for c in t[2])
            if t[0] == "map":
                return mentions(t[1], names) or mentions(t[2], names)
            if t[0] in ("opt", "vec", "arr"):
                return mentions(t[1], names)
            return False
        while changed:
            changed = False
            for n in v.order:
                d = v.defs[n]
                if n not in res and d[0] == "rec" and any(mentions(ft, res) for _, ft in d[1]):
                    res.add(n)
                    changed = True
        return res

    def edit_type(self, v, t):
        """a random local rewrite of the type t (may or may not be a compatible one); returns (class name, new type)"""
        r = self.r
        k = t[0]
        opts = ["prim-change", "to-optional", "to-union", "to-vector", "unrelated"]
        if k == "opt":
            opts += ["from-optional", "optional-to-union", "optional-inner"] * 2
        if k == "union":
            opts += ["union-add", "union-remove", "union-swap", "union-to-scalar", "union-to-optional"] * 2
        if k == "vec":
            opts += ["vec-length", "vec-to-array", "from-vector", "vec-inner"] * 2
        if k == "arr":
            opts += ["arr-kind", "arr-inner"] * 2
        if k == "map":
            opts += ["map-key", "map-value"] * 2
        if getattr(self, "accepted_bias", False):
            good = [o for o in opts if o in ("prim-change", "to-optional", "from-optional", "optional-to-union", "optional-inner", "union-add", "union-remove",
                                              "union-swap", "union-to-scalar", "union-to-optional", "to-union", "vec-inner")]
            if good and r.random() < 0.9:
                opts = good
        e = r.choice(opts)
        if e == "prim-change":
            if k != "prim":
                return None
            p = r.choice([x for x in (NUMERIC + ["string"] if r.random() < 0.7 else PRIMS) if x != t[1]])
            if self.cpp_safe and p in ("date", "time", "datetime"):
                return None
            return e, ["prim", p]
        if e == "to-optional":
            if k in ("opt", "union"):
                return None
            return e, ["opt", t]
        if e == "from-optional":
            return e, t[1]
        if e == "optional-inner":
            x = self.edit_type(v, t[1])
            if x is None or x[1][0] in ("opt", "union"):
                return None
            return "optional-inner:" + x[0], ["opt", x[1]]
        if e == "to-union":
            if k in ("opt", "union") or (k in ("vec", "map") and t[1][0] != "prim" and k == "vec") or k == "arr":
                return None
            other = self.union_case(v, 1, [t])
            if other is None:
                return None
            cases = [[self.fresh("t"), t], [self.fresh("t"), other]]
            if r.random() < 0.5:
                cases.reverse()
            return e, ["union", False, cases]
        if e == "union-to-scalar":
            return e, r.choice(t[2])[1]
        if e == "optional-to-union":
            if t[1][0] == "arr" or (t[1][0] == "vec" and t[1][1][0] != "prim" and t[1][1][0] != "ref"):
                return None
            other = self.union_case(v, 1, [t[1]])
            if other is None:
                return None
            return e, ["union", True, [[self.fresh("t"), t[1]], [self.fresh("t"), other]]]
        if e == "union-to-optional":
            if not t[1]:
                return None
            return e, ["opt", r.choice(t[2])[1]]
        if e == "union-add":
            other = self.union_case(v, 1, [c[1] for c in t[2]])
            if other is None:
                return None
            cases = list(t[2])
            cases.insert(r.randrange(len(cases) + 1), [self.fresh("t"), other])
            return e, ["union", t[1], cases]
        if e == "union-remove":
            if len(t[2]) < 3:
                return None
            cases = list(t[2])
            del cases[r.randrange(len(cases))]
            return e, ["union", t[1], cases]
        if e == "union-swap":
            cases = list(t[2])
            i, j = r.sample(range(len(cases)), 2)
            cases[i], cases[j] = cases[j], cases[i]
            return e, ["union", t[1], cases]
        if e == "to-vector":
            if k in ("arr",) or (self.cpp_safe and t == ["prim", "bool"]):
                return None
            return e, ["vec", t, None]
        if e == "from-vector":
            return e, t[1]
        if e == "vec-length":
            return e, ["vec", t[1], r.choice([x for x in [None, 2, 3, 5] if x != t[2]])]
        if e == "vec-to-array":
            if t[1][0] not in ("prim", "ref"):
                return None
            return e, ["arr", t[1], ["rank", 1]]
        if e == "vec-inner":
            x = self.edit_type(v, t[1])
            if x is None or (self.cpp_safe and x[1] == ["prim", "bool"]):
                return None
            return "vec-inner:" + x[0], ["vec", x[1], t[2]]
        if e == "arr-kind":
            return e, ["arr", t[1], r.choice([x for x in [["dyn"], ["rank", 1], ["rank", 2], ["rank", 3], ["fixed", [2, 3]], ["fixed", [3, 2]], ["fixed", [4]]] if x != t[2]])]
        if e == "arr-inner":
            x = self.edit_type(v, t[1])
            if x is None or x[1][0] not in ("prim", "ref") or (self.cpp_safe and x[1] == ["prim", "bool"]):
                return None
            return "arr-inner:" + x[0], ["arr", x[1], t[2]]
        if e == "map-key":
            return e, ["map", ["prim", r.choice([x for x in KEYS if x != t[1][1]])], t[2]]
        if e == "map-value":
            x = self.edit_type(v, t[2])
            if x is None or x[1][0] in ("opt", "union", "arr") or (self.cpp_safe and x[1] == ["prim", "bool"]):
                return None
            return "map-value:" + x[0], ["map", t[1], x[1]]
        if e == "unrelated":
            return e, self.gen_type(v, 2)
        return None

    def edit(self, v):
        """-> (description, new version) : one random edit of v (type position, definition or protocol level)"""
        r = self.r
        for _ in range(50):
            nv = v.copy()
            c = r.random()
            if c < (0.45 if getattr(self, "accepted_bias", False) else 0.5):
                pos = self.positions(nv)
                holder, key, plain, owner = r.choice(pos)
                scope = nv
                if owner is not None:
                    # inside a record only earlier definitions may be mentioned (no reference cycles)
                    scope = Version()
                    for n in nv.order[:nv.order.index(owner)]:
                        scope.defs[n] = nv.defs[n]
                        scope.order.append(n)
                x = self.edit_type(scope, holder[key])
                if x is None:
                    continue
                if isinstance(holder, list) and len(holder) == 3 and holder in nv.steps and holder[2] and self.cpp_safe and x[1] == ["prim", "bool"]:
                    continue
                old_t = holder[key]
                holder[key] = x[1]
                self.last = {"plain": plain, "old": old_t, "new": x[1], "in_record": owner}
                return "type:" + x[0], nv
            if c < (0.9 if getattr(self, "accepted_bias", False) else 0.8):
                recs = [n for n in nv.order if nv.defs[n][0] == "rec" and n not in nv.instances]
                enums = [n for n in nv.order if nv.defs[n][0] == "enum"]
                if nv.generics and r.random() < 0.3:
                    gname = r.choice(sorted(nv.generics))
                    param, body = nv.generics[gname]
                    e = r.choice(["field-add-nullable", "field-add-required", "field-remove", "field-swap", "field-rename", "param-field-to-optional", "param-field-to-vector", "field-prim-change"])
                    if e == "field-add-nullable":
                        body.insert(r.randrange(len(body) + 1), [self.fresh("g"), ["opt", self.prim() if r.random() < 0.5 else ["tparam", param]]])
                    elif e == "field-add-required":
                        body.insert(r.randrange(len(body) + 1), [self.fresh("g"), self.prim() if r.random() < 0.6 else ["tparam", param]])
                    elif e == "field-remove":
                        keep = [f for f in body]
                        del keep[r.randrange(len(keep))]
                        if not keep or not any(_uses_tparam(ft) for _, ft in keep):
                            continue
                        body[:] = keep
                    elif e == "field-swap":
                        if len(body) < 2:
                            continue
                        i, j = r.sample(range(len(body)), 2)
                        body[i], body[j] = body[j], body[i]
                    elif e == "field-rename":
                        body[r.randrange(len(body))][0] = self.fresh("h")
                    elif e in ("param-field-to-optional", "param-field-to-vector"):
                        fs = [f for f in body if f[1] == ["tparam", param]]
                        if not fs:
                            continue
                        f = r.choice(fs)
                        f[1] = ["opt", f[1]] if e.endswith("optional") else ["vec", f[1], None]
                    else:
                        fs = [f for f in body if f[1][0] == "prim"]
                        if not fs:
                            continue
                        f = r.choice(fs)
                        f[1] = ["prim", r.choice([x for x in NUMERIC + ["string"] if x != f[1][1]])]
                    reinstantiate(nv)
                    self.last = {"generic": gname}
                    return "generic:" + e, nv
                if recs and (not enums or r.random() < 0.7):
                    d = nv.defs[r.choice(recs)]
                    e = r.choice(["field-add-nullable", "field-add-required", "field-remove", "field-swap", "field-rename"])
                    if e == "field-add-nullable":
                        # only definitions that come before this record may be referenced
                        before = Version()
                        for n in nv.order[:nv.order.index(d[2])]:
                            before.defs[n] = nv.defs[n]
                            before.order.append(n)
                        d[1].insert(r.randrange(len(d[1]) + 1), [self.fresh("g"), ["opt", self.non_nullable(before, 1)]])
                    elif e == "field-add-required":
                        d[1].insert(r.randrange(len(d[1]) + 1), [self.fresh("g"), self.prim() if r.random() < 0.7 else ["vec", self.elem(Version()), None]])
                    elif e == "field-remove":
                        if len(d[1]) < 2:
                            continue
                        del d[1][r.randrange(len(d[1]))]
                    elif e == "field-swap":
                        if len(d[1]) < 2:
                            continue
                        i, j = r.sample(range(len(d[1])), 2)
                        d[1][i], d[1][j] = d[1][j], d[1][i]
                    else:
                        d[1][r.randrange(len(d[1]))][0] = self.fresh("h")
                    self.last = {"def": d[2]}
                    return "record:" + e, nv
                if enums:
                    d = nv.defs[r.choice(enums)]
                    e = r.choice(["enum-add-value", "enum-remove-value", "enum-change-value", "enum-base", "enum-flags-toggle"])
                    if getattr(self, "accepted_bias", False) and r.random() < 0.9:
                        e = "enum-add-value"
                    if e == "enum-add-value":
                        mx = max(x for _, x in d[3])
                        d[3].append([self.fresh("n"), (mx * 2 if mx > 0 else 1) if d[2] else mx + 1])
                    elif e == "enum-remove-value":
                        if len(d[3]) < 2:
                            continue
                        del d[3][r.randrange(len(d[3]))]
                    elif e == "enum-change-value":
                        mx = max(x for _, x in d[3])
                        d[3][r.randrange(len(d[3]))][1] = (mx * 2 if mx > 0 else 1) if d[2] else mx + 5
                    elif e == "enum-base":
                        d[1] = r.choice([x for x in ["uint8", "int16", "uint64", "int32"] if x != (d[1] or "int32")])
                    else:
                        if not d[2] and any(x <= 0 or (x & (x - 1)) for _, x in d[3]):
                            pass
                        d[2] = not d[2]
                    self.last = {"def": d[4]}
                    return "enum:" + e, nv
                continue
            e = r.choice(["step-add-empty-able", "step-add-required", "step-remove", "step-swap", "step-stream-toggle"])
            if getattr(self, "accepted_bias", False) and r.random() < 0.9:
                e = "step-add-empty-able"
            if e == "step-add-empty-able":
                t = r.choice([["opt", self.prim()], ["vec", self.elem(nv), None], ["map", ["prim", "string"], self.elem(nv)], self.elem(nv)])
                stream = t[0] in ("prim", "ref")
                nv.steps.insert(r.randrange(len(nv.steps) + 1), [self.fresh("a"), t, stream])
            elif e == "step-add-required":
                nv.steps.insert(r.randrange(len(nv.steps) + 1), [self.fresh("a"), self.prim(), False])
            elif e == "step-remove":
                if len(nv.steps) < 2:
                    continue
                del nv.steps[r.randrange(len(nv.steps))]
            elif e == "step-swap":
                if len(nv.steps) < 2:
                    continue
                i, j = r.sample(range(len(nv.steps)), 2)
                nv.steps[i], nv.steps[j] = nv.steps[j], nv.steps[i]
            else:
                s = r.choice(nv.steps)
                if self.cpp_safe and s[1] == ["prim", "bool"]:
                    continue
                s[2] = not s[2]
            self.last = {}
            return "protocol:" + e, nv
        return "identity", v.copy()


# --------------------------------------------------------------------------------------- YAML

def _uses_tparam(t):
    k = t[0]
    if k == "tparam":
        return True
    if k in ("prim", "ref"):
        return False
    if k == "union":
        return any(_uses_tparam(c) for _, c in t[2])
    if k == "map":
        return _uses_tparam(t[1]) or _uses_tparam(t[2])
    return _uses_tparam(t[1])


def ty_yaml(t):
    k = t[0]
    if k == "prim":
        return t[1]
    if k == "tparam":
        return t[1]
    if k == "ref":
        return t[1]
    if k == "opt":
        return "[null, " + ty_yaml(t[1]) + "]"
    if k == "union":
        items = (["null: null"] if t[1] else []) + [f"{tag}: {ty_yaml(c)}" for tag, c in t[2]]
        return "!union {" + ", ".join(items) + "}"
    if k == "vec":
        return "!vector {items: " + ty_yaml(t[1]) + ("" if t[2] is None else f", length: {t[2]}") + "}"
    if k == "arr":
        kind = t[2]
        r = "!array {items: " + ty_yaml(t[1])
        if kind[0] == "rank":
            r += f", dimensions: {kind[1]}"
        elif kind[0] == "fixed":
            r += ", dimensions: [" + ", ".join(str(d) for d in kind[1]) + "]"
        return r + "}"
    if k == "map":
        return "!map {keys: " + ty_yaml(t[1]) + ", values: " + ty_yaml(t[2]) + "}"
    raise ValueError(t)


def model_yaml(v, proto_name="P"):
    out = []
    for gname in sorted(v.generics):
        param, fields = v.generics[gname]
        out.append(f"{gname}<{param}>: !record")
        out.append("  fields:")
        for n, t in fields:
            out.append(f"    {n}: {ty_yaml(t)}")
        out.append("")
    for name in v.order:
        if name in v.instances:
            continue
        d = v.defs[name]
        if d[0] == "alias":
            out.append(f"{name}: {ty_yaml(d[1])}")
            out.append("")
            continue
        if d[0] == "enum":
            out.append(f"{name}: " + ("!flags" if d[2] else "!enum"))
            if d[1]:
                out.append(f"  base: {d[1]}")
            out.append("  values:")
            for s, x in d[3]:
                out.append(f"    {s}: {x}")
        else:
            out.append(f"{name}: !record")
            out.append("  fields:")
            for n, t in d[1]:
                out.append(f"    {n}: {ty_yaml(t)}")
        out.append("")
    out.append(f"{proto_name}: !protocol")
    out.append("  sequence:")
    for n, t, s in v.steps:
        if s:
            out.append(f"    {n}: !stream")
            out.append(f"      items: {ty_yaml(t)}")
        else:
            out.append(f"    {n}: {ty_yaml(t)}")
    return "\n".join(out) + "\n"
