"""Correspondence between the Lean COS/CIS models and the real runtime streams at small capacities.

The C++ driver is compiled against coded_stream.h from /repo's working tree; the Python driver imports
_binary.py copied from /repo's working tree. Every refill/flush offset is hit by sliding a filler of
0..cap bytes in front of each op sequence."""
import os
import random
import shutil
import subprocess

import vlib


class Drivers:
    def __init__(self, scratch):
        self.sc = scratch
        d = scratch.path("streamdrv")
        os.makedirs(os.path.join(d, "rt"), exist_ok=True)
        inc = os.path.join(vlib.REPO, "tooling", "internal", "cpp", "include", "detail", "binary")
        exe = os.path.join(d, "streamdrv")
        vlib.run(["g++", "-std=c++17", "-O1", "-I", inc, "-o", exe, os.path.join(vlib.HARNESS, "cpp", "streamdrv.cc")],
                 check=True, timeout=300)
        src = os.path.join(vlib.REPO, "tooling", "internal", "python", "static_files")
        for fn in os.listdir(src):
            if fn.endswith(".py"):
                shutil.copyfile(os.path.join(src, fn), os.path.join(d, "rt", fn))
        open(os.path.join(d, "rt", "__init__.py"), "w").close()
        self.exe, self.dir = exe, d
        self.cpp = self._start("cpp")
        self.py = self._start("py")

    def _start(self, which):
        if which == "cpp":
            return subprocess.Popen([self.exe], stdin=subprocess.PIPE, stdout=subprocess.PIPE, stderr=subprocess.DEVNULL)
        return subprocess.Popen(["python3-vt", os.path.join(vlib.HARNESS, "py", "pystreamdrv.py"), self.dir],
                                stdin=subprocess.PIPE, stdout=subprocess.PIPE)

    def ask(self, which, line):
        p = self.cpp if which == "cpp" else self.py
        try:
            p.stdin.write((line + "\n").encode())
            p.stdin.flush()
            r = p.stdout.readline()
        except (BrokenPipeError, OSError):
            r = b""
        if not r:
            # the runtime crashed (e.g. out-of-bounds access) on this request: restart, report CRASH
            try:
                p.kill()
            except Exception:
                pass
            if which == "cpp":
                self.cpp = self._start("cpp")
            else:
                self.py = self._start("py")
            return "CRASH"
        return r.decode().strip()

    def close(self):
        for p in (self.cpp, self.py):
            try:
                p.stdin.close()
                p.wait(timeout=10)
            except Exception:
                p.kill()


def wtok(op):
    k = op[0]
    if k == "f":
        return f"f{op[1]}:{op[2]}"
    if k == "fl":
        return "fl"
    return f"{k}:{op[1]}"


def rtok(op):
    k = op[0]
    if k == "f":
        return f"f{op[1]}"
    if k == "x":
        return f"x:{op[1]}"
    return k


def gen_wops(rng, n):
    ops = []
    for _ in range(n):
        k = rng.choice(["b", "v32", "v64", "s32", "s64", "f4", "f8", "x", "x", "fl"])
        if k == "b":
            ops.append(["b", rng.randrange(256)])
        elif k == "v32":
            ops.append(["v32", rng.choice([0, 1, 127, 128, 16383, 16384, 2**21 - 1, 2**21, 2**28, 2**32 - 1, rng.randrange(2**32)])])
        elif k == "v64":
            ops.append(["v64", rng.choice([0, 127, 128, 2**35, 2**56, 2**63, 2**64 - 1, rng.randrange(2**64)])])
        elif k == "s32":
            ops.append(["s32", rng.choice([0, -1, 1, -64, -65, 2**31 - 1, -2**31, rng.randrange(-2**31, 2**31)])])
        elif k == "s64":
            ops.append(["s64", rng.choice([0, -1, 63, 64, 2**63 - 1, -2**63, rng.randrange(-2**63, 2**63)])])
        elif k == "f4":
            ops.append(["f", 4, rng.choice([0, 1, 2**32 - 1, rng.randrange(2**32)])])
        elif k == "f8":
            ops.append(["f", 8, rng.choice([0, 1, 2**64 - 1, rng.randrange(2**64)])])
        elif k == "x":
            ln = rng.choice([0, 1, 2, 5, 9, 10, 11, 19, 20, 21, 33, 70])
            ops.append(["x", bytes(rng.randrange(256) for _ in range(ln)).hex()])
        else:
            ops.append(["fl"])
    return ops


def read_ops_for(wops):
    """Reader ops that consume what `wops` wrote, and the expected tokens."""
    rops, exp = [], []
    for op in wops:
        k = op[0]
        if k == "b":
            rops.append(["b"]); exp.append(f"b={op[1]}")
        elif k in ("v32", "v64"):
            rops.append([k]); exp.append(f"v={op[1]}")
        elif k in ("s32", "s64"):
            rops.append([k]); exp.append(f"s={op[1]}")
        elif k == "f":
            rops.append(["f", op[1]]); exp.append(f"f={op[2]}")
        elif k == "x":
            n = len(op[1]) // 2
            rops.append(["x", n]); exp.append(f"x={op[1]}")
    return rops, exp


def writer_corr(report, drv, lean, rng, caps, n_seqs, maxlen, on_mismatch):
    """Model vs real writers (flush timing after every op + final bytes)."""
    for cap in caps:
        for i in range(n_seqs):
            fill = rng.randrange(0, cap + 1)
            ops = ([["x", bytes(rng.randrange(256) for _ in range(fill)).hex()]] if fill else []) + gen_wops(rng, rng.randrange(1, maxlen + 1))
            ops = [o for o in ops if not (o[0] == "f" and o[1] > cap)]
            for lang in ("cpp", "py"):
                m = lean.ask({"op": "cos", "lang": lang, "cap": cap, "ops": ops})
                want = ("lens " + " ".join(str(x) for x in m["lens"]) + " hex " + m["hex"]).strip()
                got = drv.ask(lang, f"W {cap} " + " ".join(wtok(o) for o in ops))
                report.case(distinct_key=("W", lang, cap, repr(ops)), sample={"kind": "writer", "lang": lang, "cap": cap, "ops": ops} if i < 1 else None)
                report.count(f"stream.writer.{lang}")
                if m["oob"] or want != got:
                    on_mismatch("writer", lang, {"cap": cap, "ops": ops, "model": want, "model_oob": m["oob"], "impl": got})


def reader_corr(report, drv, lean, rng, caps, n_seqs, maxlen, on_mismatch, truncate=True):
    """Model vs real C++ reader on complete and on every-prefix-truncated inputs; the Python reader is
    judged against the written values directly (no Lean model of it)."""
    for cap in caps:
        for i in range(n_seqs):
            fill = rng.randrange(0, cap + 1)
            wops = ([["x", bytes(rng.randrange(256) for _ in range(fill)).hex()]] if fill else []) + gen_wops(rng, rng.randrange(1, maxlen + 1))
            wops = [o for o in wops if o[0] != "fl" and not (o[0] == "f" and o[1] > cap)]
            if not wops:
                continue
            data = lean.ask({"op": "cos", "lang": "cpp", "cap": 64, "ops": wops})["hex"]
            rops, exp = read_ops_for(wops)
            n = len(data) // 2
            if truncate == "all":
                cuts = list(range(0, n + 1))
            else:
                cuts = [n] + (sorted(set(rng.randrange(0, n) for _ in range(6))) if truncate and data else [])
            for cut in cuts:
                h = data[:2 * cut]
                full = cut == len(data) // 2
                ops_j = rops + [["vf"]]
                m = lean.ask({"op": "cis", "cap": cap, "hex": h, "ops": ops_j})["out"]
                got = drv.ask("cpp", f"R {cap} {h or '-'} " + " ".join(rtok(o) for o in ops_j)).split()
                report.case(distinct_key=("R", cap, h, repr(rops)), sample={"kind": "reader", "cap": cap, "hex": h, "ops": rops} if i < 1 and full else None)
                report.count("stream.reader.cpp.full" if full else "stream.reader.cpp.cut")
                if m != got:
                    on_mismatch("reader-model-vs-impl", "cpp", {"cap": cap, "hex": h, "ops": ops_j, "model": m, "impl": got})
                # property oracle on the implementation itself
                _oracle(on_mismatch, "cpp", cap, h, ops_j, got, exp, full)
                gp = drv.ask("py", f"R {cap} {h or '-'} " + " ".join(rtok(o) for o in rops)).split()
                report.count("stream.reader.py.full" if full else "stream.reader.py.cut")
                # the Python stream against its Lean model (PIS), token for token, EOFError vs BufferError included
                mp = lean.ask({"op": "pis", "cap": cap, "hex": h, "ops": rops})["out"]
                if "BUFERR" in mp:
                    report.count("stream.reader.py.model-buffer-error")
                if mp != gp:
                    on_mismatch("reader-model-vs-impl", "py", {"cap": cap, "hex": h, "ops": rops, "model": mp, "impl": gp})
                _oracle(on_mismatch, "py", cap, h, rops, ["EOS" if t == "BUFERR" else t for t in gp], exp, full, has_vf=False)


def _oracle(on_mismatch, lang, cap, h, ops, got, exp, full, has_vf=True):
    if full:
        want = exp + (["vf=ok"] if has_vf else [])
        if got != want:
            on_mismatch("reader-oracle-full", lang, {"cap": cap, "hex": h, "ops": ops, "impl": got, "expected": want})
    else:
        # delivered tokens must be a prefix of the expected ones and the run must end in an error
        vals = [t for t in got if "=" in t]
        ends_in_error = bool(got) and got[-1] in ("EOS", "NOTFINISHED")
        if vals != exp[:len(vals)] or not ends_in_error or (len(vals) == len(exp) and got[-1] != "EOS" and has_vf is False):
            if vals == exp and not has_vf:
                return  # python driver has no final check: all values present means the cut removed nothing needed
            on_mismatch("reader-oracle-cut", lang, {"cap": cap, "hex": h, "ops": ops, "impl": got, "expected_prefix_of": exp})
