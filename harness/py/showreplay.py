"""Developer aid: print a replay file compactly. usage: showreplay.py <replay.json> [--files]"""
import json, sys
sys.path.insert(0, '/verif/harness/py')
import modelgen
d = json.load(open(sys.argv[1]))
r = d['replay']
print("KEY", d['key'])
for k, v in r.items():
    if k in ('files', 'ref_hex', 'vals', 'got'): continue
    print(f"  {k}: {str(v)[:1500]}")
def diff(x, y, path):
    if x == y: return
    if isinstance(x, list) and isinstance(y, list) and len(x) == len(y):
        for i, (p, q) in enumerate(zip(x, y)): diff(p, q, path + [i])
        return
    print("  DIFF", path, 'want', json.dumps(x)[:200], 'got', json.dumps(y)[:200])
if 'got' in r and 'vals' in r:
    diff(modelgen.canon_stepvals(r['vals']), modelgen.canon_stepvals(r['got']), [])
if '--files' in sys.argv:
    for k, v in r.get('files', {}).items():
        if k.endswith('.yml') and not k.endswith('_package.yml'): print('---', k); print(v)
