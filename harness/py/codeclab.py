"""Codec lab: a generated package, its freshly generated + compiled C++ translator, the generated
Python package, and helpers to push byte streams through them. Shared by C01/C02/C03/C15/C16/C17."""
import concurrent.futures
import json
import os
import subprocess

import modelgen
import vlib


class Lab:
    def __init__(self, scratch, yardl_bin, idx, gen, pkg=None, ndjson=False, sanitize=False,
                 want_cpp=True, want_py=True, n_imports=None, want_matlab=False, compile_cpp=True):
        self.sc, self.yardl, self.idx, self.gen = scratch, yardl_bin, idx, gen
        self.root = scratch.path(f"lab{idx}")
        self.pkg = pkg if pkg is not None else gen.gen_package(n_imports=n_imports)
        self.ndjson = ndjson
        self.sanitize = sanitize
        self.want_cpp, self.want_py = want_cpp, want_py
        self.want_matlab = want_matlab
        self.compile_cpp = compile_cpp    # False: the C++ is generated (to be read) but not built
        self.spell_rng, self.expanded_p, self.text_filter = None, 0.25, None
        self.old_pkgs = []      # [(label, Package)]: previous versions declared by the package (written under <root>/old_<label>)
        self.ok = False
        self.err = ""
        self.seq = 0

    def prepare(self):
        os.makedirs(self.root, exist_ok=True)
        versions = []
        for label, old in self.old_pkgs:
            vlib.write_package(os.path.join(self.root, "old_" + label), old, self.spell_rng or self.gen.rng, cpp=False, python=False, js=False, expanded_p=self.expanded_p)
            versions.append((label, f"../old_{label}/pkg_{old.namespace}"))
        self.pkgdir = vlib.write_package(self.root, self.pkg, self.spell_rng or self.gen.rng, ndjson=self.ndjson,
                                         cpp=self.want_cpp, python=True, matlab=self.want_matlab,
                                         expanded_p=self.expanded_p, versions=versions or None)
        if self.text_filter:
            for dp, _, fns in os.walk(self.root):
                for fn in fns:
                    if fn.endswith(".yml") and not fn.startswith("_"):
                        fp = os.path.join(dp, fn)
                        txt = open(fp).read()
                        open(fp, "w").write(self.text_filter(txt))
        rc, out, err = vlib.yardl(self.yardl, self.pkgdir, "generate")
        if rc != 0:
            self.err = f"yardl generate failed rc={rc}: {err[-2000:]}"
            self.stage = "generate"
            return self
        self.out_cpp = os.path.join(self.root, "out_cpp")
        self.out_py = os.path.join(self.root, "out_py")
        self.out_matlab = os.path.join(self.root, "out_matlab")
        self.pymod = vlib.to_snake(self.pkg.namespace)
        self.schemas = vlib.py_schemas(self.out_py, self.pkg.namespace)
        self.protos = {p["name"]: modelgen.proto_json(self.pkg, p) for p in self.pkg.protocols()}
        if self.want_cpp and self.compile_cpp:
            plist = [(n, sum(1 for s in pj if s["stream"])) for n, pj in self.protos.items()]
            main = vlib.cpp_main(self.pymod, plist, ndjson=self.ndjson, out_cpp=self.out_cpp)
            self.exe = os.path.join(self.root, "xlate")
            ok, log = vlib.compile_cpp(self.out_cpp, main, self.exe, ndjson=self.ndjson, sanitize=self.sanitize)
            if not ok:
                self.err = "C++ compile failed: " + log[-3000:]
                self.stage = "compile"
                return self
        self.ok = True
        return self

    def tmp(self, suffix):
        self.seq += 1
        return os.path.join(self.root, f"io{self.seq}{suffix}")

    def run_cpp(self, proto, infmt, outfmt, inpath, outpath, bufsizes=(), timeout=60, empty_batches=False, prefill=False):
        env = dict(os.environ, ASAN_OPTIONS="detect_leaks=0:abort_on_error=0", UBSAN_OPTIONS="print_stacktrace=1")
        env.pop("VF_EMPTY_BATCHES", None)
        env.pop("VF_PREFILL", None)
        if empty_batches:
            env["VF_EMPTY_BATCHES"] = "1"
        if prefill:
            env["VF_PREFILL"] = "1"
        try:
            p = subprocess.run([self.exe, proto, infmt, outfmt, inpath, outpath] + [str(b) for b in bufsizes],
                               stdout=subprocess.PIPE, stderr=subprocess.PIPE, timeout=timeout, env=env)
            return p.returncode, p.stderr.decode(errors="replace")[-2000:]
        except subprocess.TimeoutExpired:
            return -9, "TIMEOUT"

    def run_cpp_multi(self, jobs, timeout=120):
        """jobs: [(proto, infmt, outfmt, inpath, outpath, bufsizes)] run one after the other in ONE process; -> ([rc per job], stderr)"""
        jf = self.tmp(".jobs.txt")
        with open(jf, "w") as f:
            for proto, infmt, outfmt, inp, outp, bufs in jobs:
                f.write(" ".join([proto, infmt, outfmt, inp, outp] + [str(b) for b in bufs]) + "\n")
        env = dict(os.environ, ASAN_OPTIONS="detect_leaks=0:abort_on_error=0", UBSAN_OPTIONS="print_stacktrace=1")
        env.pop("VF_EMPTY_BATCHES", None)
        try:
            p = subprocess.run([self.exe, "--multi", jf], stdout=subprocess.PIPE, stderr=subprocess.PIPE, timeout=timeout, env=env)
        except subprocess.TimeoutExpired:
            return [-9] * len(jobs), "TIMEOUT"
        rcs = [int(l[3:]) for l in p.stdout.decode(errors="replace").splitlines() if l.startswith("rc=")]
        rcs += [-(p.returncode or 1)] * (len(jobs) - len(rcs))      # the process died before these jobs
        return rcs, p.stderr.decode(errors="replace")[-3000:]

    def run_py(self, jobs, timeout=600):
        """jobs: list of dicts (see pyxlate.py); returns list of results."""
        jf, rf = self.tmp(".jobs.json"), self.tmp(".res.json")
        json.dump(jobs, open(jf, "w"))
        try:
            p = subprocess.run(["python3-vt", os.path.join(vlib.HARNESS, "py", "pyxlate.py"), self.out_py, self.pymod, jf, rf],
                               stdout=subprocess.PIPE, stderr=subprocess.PIPE, timeout=timeout)
        except subprocess.TimeoutExpired:
            return [{"rc": -9, "exc": "TIMEOUT"} for _ in jobs]
        if p.returncode != 0 or not os.path.exists(rf):
            return [{"rc": -1, "exc": "pyxlate crashed: " + p.stderr.decode(errors="replace")[-1500:]} for _ in jobs]
        return json.load(open(rf))


def prepare_labs(scratch, yardl_bin, gens, **kw):
    """Generate + compile several labs in parallel. gens: list of (idx, Gen)."""
    labs = [Lab(scratch, yardl_bin, i, g, **kw) for i, g in gens]
    with concurrent.futures.ThreadPoolExecutor(max_workers=max(1, vlib.NCPU // 4)) as ex:
        list(ex.map(lambda l: l.prepare(), labs))
    return labs
