"""Shared machinery for the /verif checks: scratch dirs, building yardl from /repo's working tree,
the Lean build + axiom audit, drivers, generated-code builds, evidence and known findings."""
import concurrent.futures
import hashlib
import json
import os
import re
import shutil
import subprocess
import sys
import tempfile
import time

VERIF = os.path.dirname(os.path.dirname(os.path.dirname(os.path.abspath(__file__))))
REPO = os.environ.get("VERIF_REPO", "/repo")
# VERIF_LEAN_DIR / VERIF_EVIDENCE_DIR: a private copy of the Lean project / a private evidence directory, for running several
# checks side by side against different scratch trees (seeded/pdetect.py); the registered commands use the defaults
LEAN_DIR = os.environ.get("VERIF_LEAN_DIR") or os.path.join(VERIF, "lean")
EVIDENCE_BASE = os.environ.get("VERIF_EVIDENCE_DIR") or VERIF
HARNESS = os.path.join(VERIF, "harness")
GOENV = dict(os.environ, GOFLAGS="-mod=mod", GOPROXY="off")
GOENV.pop("GOTOOLCHAIN", None) if os.environ.get("GOTOOLCHAIN") == "local" else None
NCPU = os.cpu_count() or 4
ALLOWED_AXIOMS = {"propext", "Classical.choice", "Quot.sound"}


class Scratch:
    """mktemp -d outside /repo and /verif, removed on exit."""

    def __init__(self, prefix="vf-"):
        base = os.environ.get("VERIF_SCRATCH_BASE", "/tmp")
        self.dir = tempfile.mkdtemp(prefix=prefix, dir=base)

    def path(self, *p):
        return os.path.join(self.dir, *p)

    def __enter__(self):
        return self

    def __exit__(self, *a):
        if not os.environ.get("VERIF_KEEP_SCRATCH"):
            shutil.rmtree(self.dir, ignore_errors=True)


def run(cmd, cwd=None, env=None, timeout=600, input=None, check=False):
    p = subprocess.run(cmd, cwd=cwd, env=env, timeout=timeout, input=input,
                       stdout=subprocess.PIPE, stderr=subprocess.PIPE)
    if check and p.returncode != 0:
        raise RuntimeError(f"command failed ({p.returncode}): {cmd}\n{p.stdout.decode(errors='replace')[-3000:]}\n{p.stderr.decode(errors='replace')[-3000:]}")
    return p


def build_yardl(scratch, tags=None):
    """Build the yardl CLI from /repo's current working tree."""
    out = scratch.path("bin", "yardl")
    os.makedirs(os.path.dirname(out), exist_ok=True)
    cmd = ["go", "build"]
    if tags:
        cmd += ["-tags", tags]
    cmd += ["-o", out, "./cmd/yardl"]
    run(cmd, cwd=os.path.join(REPO, "tooling"), env=GOENV, check=True)
    return out


def build_go_harness(scratch, name):
    """Build harness/go/cmd/<name> against the tooling module of the tree under test (a copy of the harness module in the
    scratch directory, its replace directive pointing at REPO/tooling)."""
    src = scratch.path("goharness")
    if not os.path.exists(src):
        shutil.copytree(os.path.join(HARNESS, "go"), src)
        mod = open(os.path.join(src, "go.mod")).read()
        mod = re.sub(r"(replace github\.com/microsoft/yardl/tooling => )\S+", lambda m: m.group(1) + os.path.join(REPO, "tooling"), mod)
        open(os.path.join(src, "go.mod"), "w").write(mod)
        shutil.copyfile(os.path.join(REPO, "tooling", "go.sum"), os.path.join(src, "go.sum"))
    out = scratch.path("bin", name)
    os.makedirs(os.path.dirname(out), exist_ok=True)
    run(["go", "build", "-tags", "verif", "-o", out, f"./cmd/{name}"], cwd=src, env=GOENV, check=True)
    return out


# ----------------------------------------------------------------------------- Lean

def lean_build(targets, timeout=1800):
    """lake build <targets>; returns (ok, output)."""
    p = run(["lake", "build"] + list(targets), cwd=LEAN_DIR, timeout=timeout)
    return p.returncode == 0, (p.stdout + p.stderr).decode(errors="replace")


def lean_axioms(module, theorems):
    """Run `#print axioms` for each theorem; returns {thm: [axioms]} (None when not found)."""
    src = f"import {module}\n" + "".join(f"#print axioms {t}\n" for t in theorems)
    with tempfile.NamedTemporaryFile("w", suffix=".lean", dir=LEAN_DIR, delete=False) as f:
        f.write(src)
        fn = f.name
    try:
        p = run(["lake", "env", "lean", fn], cwd=LEAN_DIR, timeout=900)
    finally:
        os.unlink(fn)
    out = (p.stdout + p.stderr).decode(errors="replace")
    res = {}
    for t in theorems:
        m = re.search(r"'" + re.escape(t) + r"' depends on axioms: \[([^\]]*)\]", out, re.S)
        if m:
            res[t] = [a.strip() for a in m.group(1).replace("\n", " ").split(",") if a.strip()]
        elif re.search(r"'" + re.escape(t) + r"' does not depend on any axioms", out):
            res[t] = []
        else:
            res[t] = None
    return res, out


def source_hygiene():
    """grep the Lean sources for forbidden constructs (outside comments)."""
    bad = []
    pat = re.compile(r"\b(sorry|admit|native_decide|bv_decide|implemented_by|unsafe)\b|^axiom |maxHeartbeats 0")
    for root, _, files in os.walk(LEAN_DIR):
        if ".lake" in root:
            continue
        for fn in files:
            if not fn.endswith(".lean"):
                continue
            in_block = 0
            for i, line in enumerate(open(os.path.join(root, fn), encoding="utf-8")):
                s = line
                # strip block comments (coarse) and line comments
                if in_block:
                    if "-/" in s:
                        in_block = 0
                        s = s.split("-/", 1)[1]
                    else:
                        continue
                if "/-" in s:
                    pre, rest = s.split("/-", 1)
                    if "-/" in rest:
                        s = pre + rest.split("-/", 1)[1]
                    else:
                        s = pre
                        in_block = 1
                s = s.split("--", 1)[0]
                if pat.search(s):
                    bad.append(f"{os.path.relpath(os.path.join(root, fn), LEAN_DIR)}:{i+1}: {line.strip()}")
    return bad


class LeanDriver:
    """A compiled line-protocol driver (lean_exe)."""

    def __init__(self, exe="wiredrv"):
        path = os.path.join(LEAN_DIR, ".lake", "build", "bin", exe)
        # the driver imports tables regenerated from /repo: make sure they exist, then let lake decide
        # whether anything has to be rebuilt (a no-op when the model and the tables are unchanged)
        if not os.path.exists(os.path.join(LEAN_DIR, "YardlGenerated", "Pipeline.lean")):
            import gen_tables
            with Scratch("vf-gen-") as gsc:
                gen_tables.generate(gsc)
        ok, out = lean_build([exe])
        if not ok:
            raise RuntimeError("cannot build " + exe + "\n" + out[-3000:])
        self.p = subprocess.Popen([path], stdin=subprocess.PIPE, stdout=subprocess.PIPE)

    def ask(self, req):
        self.p.stdin.write((json.dumps(req) + "\n").encode())
        self.p.stdin.flush()
        line = self.p.stdout.readline()
        if not line:
            raise RuntimeError("lean driver died")
        r = json.loads(line)
        if "fatal" in r:
            raise RuntimeError("lean driver: " + r["fatal"] + " on " + json.dumps(req)[:500])
        return r

    def close(self):
        try:
            self.p.stdin.close()
            self.p.wait(timeout=10)
        except Exception:
            self.p.kill()


# ----------------------------------------------------------------------------- packages on disk

def write_package(root, pkg, rng=None, *, cpp=True, python=True, matlab=False, js=True, ndjson=True,
                  versions=None, expanded_p=0.25, extra_manifest=""):
    """Write `pkg` (and its imports, as sibling dirs) under `root`; returns the package dir."""
    from modelgen import package_files
    done = {}

    def emit(p, top):
        if p.namespace in done:
            return done[p.namespace]
        d = os.path.join(root, "pkg_" + p.namespace)
        os.makedirs(d, exist_ok=True)
        done[p.namespace] = d
        for imp in p.imports:
            emit(imp, False)
        man = [f"namespace: {p.namespace}"]
        if p.imports:
            man.append("imports:")
            for imp in p.imports:
                man.append(f"  - ../pkg_{imp.namespace}")
        if top:
            if versions:
                man.append("versions:")
                for label, path in versions:
                    man.append(f"  {label}: {path}")
            if cpp:
                man += ["cpp:", "  sourcesOutputDir: ../out_cpp", "  generateCMakeLists: false", "  generateHDF5: false",
                        f"  generateNDJson: {'true' if ndjson else 'false'}", "  overrideArrayHeader: vf_ndarray.h"]
            if python:
                man += ["python:", "  outputDir: ../out_py"]
            if matlab:
                man += ["matlab:", "  outputDir: ../out_matlab"]
            if js:
                man += ["json:", "  outputDir: ../out_json"]
            if extra_manifest:
                man.append(extra_manifest)
        with open(os.path.join(d, "_package.yml"), "w") as f:
            f.write("\n".join(man) + "\n")
        for fn, text in package_files(p, rng, expanded_p).items():
            with open(os.path.join(d, fn), "w") as f:
                f.write(text)
        return d

    return emit(pkg, True)


def yardl(yardl_bin, pkgdir, *args, timeout=120):
    p = run([yardl_bin] + list(args), cwd=pkgdir, timeout=timeout)
    return p.returncode, p.stdout.decode(errors="replace"), p.stderr.decode(errors="replace")


def py_schemas(out_py, namespace):
    """Schema literals embedded in generated python protocols.py: {protocolName: schemaString}."""
    fn = os.path.join(out_py, to_snake(namespace), "protocols.py")
    text = open(fn, encoding="utf-8").read()
    res = {}
    for m in re.finditer(r'class (\w+)WriterBase\(abc\.ABC\):(.*?)schema = r"""(.*?)"""', text, re.S):
        res[m.group(1)] = m.group(3)
    return res


def to_snake(name):
    # mirrors formatting.ToSnakeCase closely enough for generated namespaces used by the harness
    s1 = re.sub(r"(.)([A-Z][a-z]+)", r"\1_\2", name)
    s2 = re.sub(r"([a-z0-9])([A-Z])", r"\1_\2", s1)
    return s2.lower()


# ----------------------------------------------------------------------------- generated C++

CPP_MAIN_HEAD = r'''
#include <cstdlib>
#include <fstream>
#include <iostream>
#include <sstream>
#include <string>
#include <vector>
#include "binary/protocols.h"
%(ndjson_include)s
template <class R, class W, class F>
int run(std::string const& in, std::string const& out, F copy) {
  std::ifstream is(in, std::ios::binary);
  std::ofstream os(out, std::ios::binary);
  int rc = 0;
  try {
    R r(is);
    W w(os);
    copy(r, w);
    r.Close();
    w.Close();
  } catch (std::exception const& e) {
    std::cerr << "EXC " << e.what() << "\n";
    rc = 3;
  }
  os.flush();
  return rc;
}
static int dispatch(std::string const& proto, std::string const& infmt, std::string const& outfmt, std::string const& in, std::string const& out,
                    std::vector<size_t> bs);
// one job:   xlate <protocol> <in format> <out format> <in file> <out file> [batch sizes...]
// many jobs in this one process (readers and writers of several protocols, one after the other):
//            xlate --multi <file with one job per line>        -> one line "rc=<n>" per job on stdout
int main(int argc, char** argv) {
  if (argc == 3 && std::string(argv[1]) == "--multi") {
    std::ifstream jobs(argv[2]);
    std::string line;
    while (std::getline(jobs, line)) {
      std::istringstream ls(line);
      std::string proto, infmt, outfmt, in, out;
      ls >> proto >> infmt >> outfmt >> in >> out;
      std::vector<size_t> bs;
      size_t b;
      while (ls >> b) bs.push_back(b);
      while (bs.size() < 64) bs.push_back(1);
      std::cerr << "JOB " << proto << " " << infmt << outfmt << "\n";
      std::cout << "rc=" << dispatch(proto, infmt, outfmt, in, out, bs) << std::endl;
    }
    return 0;
  }
  if (argc < 6) return 2;
  std::vector<size_t> bs;
  for (int i = 6; i < argc; i++) bs.push_back(std::stoul(argv[i]));
  while (bs.size() < 64) bs.push_back(1);
  return dispatch(argv[1], argv[2], argv[3], argv[4], argv[5], bs);
}
static int dispatch(std::string const& proto, std::string const& infmt, std::string const& outfmt, std::string const& in, std::string const& out,
                    std::vector<size_t> bs) {
'''


def cpp_steps_from_header(out_cpp, name):
    """the steps of protocol `name` as the generated protocols.h declares them: [(PascalCase step, C++ type, is stream)]"""
    try:
        text = open(os.path.join(out_cpp, "protocols.h")).read()
    except OSError:
        return None
    m = re.search(r"class " + re.escape(name) + r"WriterBase \{(.*?)\n\};", text, re.S)
    if not m:
        return None
    body, steps, seen = m.group(1), [], set()
    for sm in re.finditer(r"^\s*void Write(\w+)\((.+) const& value\);", body, re.M):
        step, ty = sm.group(1), sm.group(2)
        if step in seen:
            continue
        seen.add(step)
        steps.append((step, ty, re.search(r"^\s*void End" + re.escape(step) + r"\(\);", body, re.M) is not None))
    return steps


def cpp_main(namespace_ident, protocols, ndjson=True, out_cpp=None):
    """protocols: [(name, n_stream_steps)]. With VF_EMPTY_BATCHES set in the environment of the built translator, every stream
    is copied through the batch overload with an empty batch written before, between and after the batches read (the steps
    and their C++ types are taken from the generated protocols.h): an empty batch is no item and must not end the stream."""
    src = CPP_MAIN_HEAD % {"ndjson_include": '#include "ndjson/protocols.h"' if ndjson else ""}
    for name, nstreams in protocols:
        args = "".join(f", bs[{i}]" for i in range(nstreams))
        ns = namespace_ident
        src += f'  if (proto == "{name}") {{\n'
        steps = cpp_steps_from_header(out_cpp, name) if out_cpp else None
        explicit = ""
        prefilled = ""
        if steps:
            k = 0
            for step, ty, stream in steps:
                if stream:
                    explicit += (f" {{ std::vector<{ty}> b; b.reserve(bs[{k}]); std::vector<{ty}> none; w.Write{step}(none); "
                                 f"while (r.Read{step}(b)) {{ w.Write{step}(b); w.Write{step}(none); }} w.End{step}(); }}")
                    # VF_PREFILL: the vector handed to every batch read is not empty - it still holds some of what the previous call (of this or an
                    # earlier step) left in it, cut or padded to a size between 0 and its capacity: what is read must not depend on it
                    prefilled += (f" {{ std::vector<{ty}> b; b.reserve(bs[{k}]); size_t cap = b.capacity(); for (size_t it = 0;; it++) {{ b.resize((it * 7 + 3) % (cap + 1)); "
                                  f"if (!r.Read{step}(b)) break; w.Write{step}(b); }} w.End{step}(); }}")
                    k += 1
                else:
                    explicit += f" {{ {ty} v; r.Read{step}(v); w.Write{step}(v); }}"
                    prefilled += f" {{ {ty} v; r.Read{step}(v); w.Write{step}(v); }}"
            src += (f'    auto copy = [&](auto& r, auto& w) {{ if (std::getenv("VF_EMPTY_BATCHES")) {{{explicit} }} else if (std::getenv("VF_PREFILL")) {{{prefilled} }} '
                    f'else r.CopyTo(w{args}); }};\n')
        else:
            src += f'    auto copy = [&](auto& r, auto& w) {{ r.CopyTo(w{args}); }};\n'
        src += f'    if (infmt == "b" && outfmt == "b") return run<{ns}::binary::{name}Reader, {ns}::binary::{name}Writer>(in, out, copy);\n'
        if ndjson:
            src += f'    if (infmt == "b" && outfmt == "j") return run<{ns}::binary::{name}Reader, {ns}::ndjson::{name}Writer>(in, out, copy);\n'
            src += f'    if (infmt == "j" && outfmt == "b") return run<{ns}::ndjson::{name}Reader, {ns}::binary::{name}Writer>(in, out, copy);\n'
            src += f'    if (infmt == "j" && outfmt == "j") return run<{ns}::ndjson::{name}Reader, {ns}::ndjson::{name}Writer>(in, out, copy);\n'
        src += "  }\n"
    src += "  return 2;\n}\n"
    return src


def compile_cpp(out_cpp, main_src, exe, ndjson=True, sanitize=False, opt="-O0", extra_flags=()):
    """Compile generated C++ under out_cpp (all .cc found) plus main; returns (ok, log)."""
    with open(os.path.join(out_cpp, "vf_main.cc"), "w") as f:
        f.write(main_src)
    srcs = []
    for root, _, files in os.walk(out_cpp):
        for fn in files:
            if fn.endswith(".cc"):
                if not ndjson and os.path.basename(root) == "ndjson":
                    continue
                if os.path.basename(root) in ("hdf5", "mocks"):
                    continue
                srcs.append(os.path.join(root, fn))
    inc = ["-I", os.path.join(HARNESS, "cpp"), "-I", "/root/miniconda/include", "-I", out_cpp]
    flags = ["-std=c++17", opt, "-w"] + list(extra_flags)
    if sanitize:
        # memcpy(dst, nullptr, 0) on empty vectors / arrays is reported by -fsanitize=nonnull-attribute: no bytes move, no value depends on it
        flags += ["-fsanitize=address,undefined", "-fno-sanitize=nonnull-attribute", "-fno-sanitize-recover=undefined", "-g"]
    objs, logs = [], []

    def cc(src):
        obj = src + ".o"
        try:
            # 8 GiB address-space cap and 10 min per translation unit: a compile that needs more is
            # reported as a resource failure, not left to take the machine down
            p = run(["bash", "-c", 'ulimit -v 8388608; exec "$@"', "cc", "g++"] + flags + inc + ["-c", src, "-o", obj], timeout=600)
        except subprocess.TimeoutExpired:
            return obj, -9, "COMPILE-TIMEOUT " + src
        return obj, p.returncode, p.stderr.decode(errors="replace")

    with concurrent.futures.ThreadPoolExecutor(max_workers=min(len(srcs), NCPU)) as ex:
        for obj, rc, err in ex.map(cc, srcs):
            objs.append(obj)
            if rc != 0:
                logs.append(err[-4000:])
    if logs:
        return False, "\n".join(logs)
    p = run(["g++"] + flags + ["-o", exe] + objs, timeout=300)
    if p.returncode != 0:
        return False, p.stderr.decode(errors="replace")[-4000:]
    return True, ""


# ----------------------------------------------------------------------------- evidence / findings

def load_known_findings(prop):
    fn = os.path.join(VERIF, "known_findings.json")
    if not os.path.exists(fn):
        return []
    data = json.load(open(fn))
    return [e for e in data.get("findings", []) if e.get("property") == prop]


class Report:
    """Collects obligations, correspondence counts, violations; writes the evidence file and
    prints VIOLATION / KNOWN-FINDING lines."""

    def __init__(self, prop, tier, seed):
        self.prop, self.tier, self.seed = prop, tier, seed
        self.t0 = time.time()
        self.obligations = []      # [(name, ok, axioms)]
        self.evaluations = 0
        self.distinct = set()
        self.samples = []
        self.violations = []       # [(key, replay_path, note)]
        self.known_hit = []
        self.cov = {}
        self.assumptions = []
        self.trusted = ["Lean 4.33.0 kernel", "axioms: propext, Classical.choice, Quot.sound only (audited per theorem)"]
        self.extra = {}
        self.rule = ""
        self.known = load_known_findings(prop)
        import glob
        for f in glob.glob(os.path.join(EVIDENCE_BASE, "evidence", "replays", f"{prop}-*.json")):
            os.unlink(f)

    def count(self, key, n=1):
        self.cov[key] = self.cov.get(key, 0) + n

    def case(self, distinct_key=None, sample=None):
        self.evaluations += 1
        if distinct_key is not None:
            self.distinct.add(hashlib.sha1(repr(distinct_key).encode()).hexdigest())
        if sample is not None and len(self.samples) < 5:
            self.samples.append(sample)

    def obligation(self, name, ok, axioms=None):
        self.obligations.append((name, bool(ok), axioms))

    def violation(self, key, replay, note=""):
        """key: specific identity of the failure (compared against known_findings keys)."""
        for e in self.known:
            if e.get("status") == "open" and re.fullmatch(e["key"], key):
                if e["key"] not in [k for k, _ in self.known_hit]:
                    self.known_hit.append((e["key"], e["what"]))
                return False
        os.makedirs(os.path.join(EVIDENCE_BASE, "evidence", "replays"), exist_ok=True)
        h = hashlib.sha1((key + json.dumps(replay, sort_keys=True, default=str)).encode()).hexdigest()[:12]
        path = os.path.join("evidence", "replays", f"{self.prop}-{h}.json")
        with open(os.path.join(EVIDENCE_BASE, path), "w") as f:
            json.dump({"property": self.prop, "key": key, "note": note, "replay": replay}, f, indent=1, default=str)
        self.violations.append((key, path, note))
        return True

    def finish(self):
        wall = time.time() - self.t0
        nob = len(self.obligations)
        ndis = sum(1 for _, ok, _ in self.obligations if ok)
        cov = {
            "obligations": nob,
            "discharged": ndis,
            "checker_cmd": "cd /verif/lean && lake build Props && lake env lean <#print axioms for each property theorem>",
            "trusted_base": self.trusted,
            "theorems": [{"name": n, "checked": ok, "axioms": ax} for n, ok, ax in self.obligations],
            "evaluations": self.evaluations,
            "distinct_nontrivial": len(self.distinct),
            "rule": self.rule,
            "samples": self.samples if self.samples else [o[0] for o in self.obligations[:5]],
            "distribution": self.cov,
            "known_findings_reproduced": [w for _, w in self.known_hit],
        }
        cov.update(self.extra)
        ev = {"property_id": self.prop, "tier": self.tier, "seed": self.seed, "level": "proof",
              "coverage": cov, "assumptions": self.assumptions, "wall_s": round(wall, 2),
              "violations": len(self.violations)}
        os.makedirs(os.path.join(EVIDENCE_BASE, "evidence"), exist_ok=True)
        with open(os.path.join(EVIDENCE_BASE, "evidence", f"{self.prop}.json"), "w") as f:
            json.dump(ev, f, indent=1, default=str)
        for _, what in self.known_hit:
            print(f"KNOWN-FINDING: property={self.prop} {what}")
        seen = set()
        for key, path, note in self.violations:
            if path in seen:
                continue
            seen.add(path)
            suffix = " no-failing-input-found" if note == "no-failing-input-found" else ""
            print(f"VIOLATION property={self.prop} replay={path}{suffix}")
        print(f"[{self.prop}] tier={self.tier} seed={self.seed} obligations={ndis}/{nob} evaluations={self.evaluations} "
              f"distinct={len(self.distinct)} violations={len(self.violations)} wall={wall:.1f}s")
        return 1 if self.violations else 0


def check_lean(report, module, theorems, search_hint=None):
    """Build Props module + audit axioms. Records one obligation per theorem. Returns True if all ok."""
    ok, out = lean_build([module])
    bad = source_hygiene()
    if bad:
        ok = False
        out += "\nforbidden constructs:\n" + "\n".join(bad)
    if not ok:
        for t in theorems:
            report.obligation(t, False)
        report.extra["lean_build_log"] = out[-6000:]
        return False, out
    ax, raw = lean_axioms(module, theorems)
    allok = True
    for t in theorems:
        a = ax.get(t)
        good = a is not None and set(a) <= ALLOWED_AXIOMS
        report.obligation(t, good, a)
        allok = allok and good
    if not allok:
        report.extra["lean_axiom_log"] = raw[-6000:]
    return allok, raw


# ----------------------------------------------------------------------------- versioned C++ translator (C05)

CPP_MAIN_VERSIONS_HEAD = r'''
#include <fstream>
#include <cstdlib>
#include <fstream>
#include <type_traits>
#include <iostream>
#include <sstream>
#include <string>
#include <vector>
#include "binary/protocols.h"
template <class R, class W, class V, class F>
int runv(std::string const& in, std::string const& out, V ver, F copy) {
  std::ifstream is(in, std::ios::binary);
  std::ofstream os(out, std::ios::binary);
  int rc = 0;
  try {
    R r(is);
    W w(os, ver);
    copy(r, w);
    r.Close();
    w.Close();
  } catch (std::exception const& e) {
    std::cerr << "EXC " << e.what() << "\n";
    rc = 3;
  }
  os.flush();
  return rc;
}
int main(int argc, char** argv) {
  if (argc < 5) return 2;
  std::string proto = argv[1], target = argv[2], in = argv[3], out = argv[4];
  std::vector<size_t> bs;
  for (int i = 5; i < argc; i++) bs.push_back(std::stoul(argv[i]));
  while (bs.size() < 64) bs.push_back(1);
'''


def cpp_main_versions(namespace_ident, protocols, labels, out_cpp=None):
    """translator: reads a binary stream of any listed version, writes it for `target` ("cur" or a version label).
    With VF_STALE_FILE=<a stream of the same protocol> in the environment every value and vector the input is read into has just been filled
    from that other stream (step by step, item by item / batch by batch): what is read from the input must not depend on it."""
    src = CPP_MAIN_VERSIONS_HEAD
    ns = namespace_ident
    for name, nstreams in protocols:
        args = "".join(f", bs[{i}]" for i in range(nstreams))
        src += f'  if (proto == "{name}") {{\n'
        steps = cpp_steps_from_header(out_cpp, name) if out_cpp else None
        if steps:
            stale, k = "", 0
            for n, (step, ty, stream) in enumerate(steps):
                if not stream:
                    stale += f" {{ {ty} v; r0.Read{step}(v); r.Read{step}(v); w.Write{step}(v); }}"
                elif n % 2 == 0:
                    stale += (f" {{ {ty} v; bool m0 = true; for (;;) {{ if (m0) m0 = r0.Read{step}(v); if (!r.Read{step}(v)) break; w.Write{step}(v); }} "
                              f"while (m0) {{ {ty} t; m0 = r0.Read{step}(t); }} w.End{step}(); }}")
                    k += 1
                else:
                    stale += (f" {{ std::vector<{ty}> b; b.reserve(bs[{k}]); bool m0 = true; for (;;) {{ if (m0) m0 = r0.Read{step}(b); if (!r.Read{step}(b)) break; w.Write{step}(b); }} "
                              f"while (m0) {{ std::vector<{ty}> t; t.reserve(8); m0 = r0.Read{step}(t); }} w.End{step}(); }}")
                    k += 1
            src += (f'    auto copy = [&](auto& r, auto& w) {{ if (const char* sf = std::getenv("VF_STALE_FILE")) {{ std::ifstream is0(sf, std::ios::binary); '
                    f'std::decay_t<decltype(r)> r0(is0);{stale} }} else r.CopyTo(w{args}); }};\n')
        else:
            src += f'    auto copy = [&](auto& r, auto& w) {{ r.CopyTo(w{args}); }};\n'
        src += f'    {ns}::Version ver = {ns}::Version::Current;\n'
        for lb in labels:
            src += f'    if (target == "{lb}") ver = {ns}::Version::{lb};\n'
        src += f'    return runv<{ns}::binary::{name}Reader, {ns}::binary::{name}Writer>(in, out, ver, copy);\n'
        src += "  }\n"
    src += "  return 2;\n}\n"
    return src
