"""Translator: the method tables of generated MATLAB protocol base classes (`+ns/<P>WriterBase.m`, `<P>ReaderBase.m`).

Every public method of these classes has the shape
    if self.state_ ~= <guard> ... raise_unexpected_state_ / throw
    <delegating call>
    [self.state_ = <next>;]              (has_<step>: inside `if ~more`)
rows(...) returns [[kind, step ordinal, guard, next | None], ...] in file order, or raises ValueError naming what it cannot read
(an unreadable method is reported by the check, never skipped)."""
import re


def _methods(text):
    """(name, body) of every `function ... name(...)` of the first `methods` block (the public API)"""
    m = re.search(r"\n  methods\n(.*?)\n  end\n", text, re.S)
    if not m:
        raise ValueError("no public methods block")
    block = m.group(1)
    out = []
    for fm in re.finditer(r"\n    function (?:\w+ = )?(\w+)\(([^)]*)\)\n(.*?)\n    end(?=\n)", "\n" + block + "\n", re.S):
        out.append((fm.group(1), fm.group(3)))
    return out


def rows(text, step_names, writer):
    res = []
    cls_ctor = re.search(r"classdef (?:\(Abstract\) )?(\w+)", text).group(1)
    for name, body in _methods(text):
        if name == cls_ctor or name == "copy_to":
            continue
        guards = re.findall(r"self\.state_ ~= (\d+)", body)
        if len(guards) != 1:
            raise ValueError(f"method {name}: {len(guards)} state guards")
        guard = int(guards[0])
        sets = re.findall(r"self\.state_ = (\d+);", body)
        if len(sets) > 1:
            raise ValueError(f"method {name}: several state assignments")
        nxt = int(sets[0]) if sets else None
        if name == "close":
            if nxt is not None:
                raise ValueError("close assigns the state")
            res.append(["close", 0, guard, None])
            continue
        mm = re.fullmatch(r"(write|end|read|has)_(\w+)", name)
        if not mm or mm.group(2) not in step_names:
            raise ValueError(f"unexpected public method {name}")
        kind = {"write": "write", "end": "endS", "read": "read", "has": "has"}[mm.group(1)]
        if (kind in ("write", "endS")) != writer:
            raise ValueError(f"method {name} in a {'writer' if writer else 'reader'}")
        if kind == "has":
            # the transition of has_<step> is conditional on the delegate's answer
            if not re.search(r"if ~more\s*\n\s*self\.state_ = \d+;\s*\n\s*end", body):
                raise ValueError(f"method {name}: transition not under `if ~more`")
        elif nxt is not None and re.search(r"if [^\n]*\n\s*self\.state_ = \d+;", body.split("raise_unexpected_state_")[-1]):
            raise ValueError(f"method {name}: conditional transition")
        res.append([kind, step_names.index(mm.group(2)), guard, nxt])
    return res
