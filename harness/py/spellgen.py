"""Random surface types, random spellings of them (shorthand / expanded / mixed) as the Y JSON of
YardlModel/Syntax.lean, and their YAML text (C13)."""
import json

NAMES = ["int", "int32", "string", "float", "double", "byte", "Foo", "Bar", "basic.Image", "T", "complexfloat", "uint64", "size", "date"]
GENERICS = ["Pair", "Img", "basic.Box", "Tup"]
DIMNAMES = ["x", "y", "z", "ch", "t"]
TAGS = ["a", "b", "c", "d", "e"]


def gen_dims(r):
    k = r.choice(["none", "count", "names", "lengths", "both"])
    n = r.choice([1, 2, 3])
    if k == "none":
        return None
    if k == "count":
        return [[None, None] for _ in range(n)]
    names = r.sample(DIMNAMES, n)
    if k == "names":
        return [[x, None] for x in names]
    if k == "lengths":
        return [[None, r.choice([1, 2, 3, 7])] for _ in range(n)]
    return [[x, r.choice([1, 2, 5])] for x in names]


def gen_sur(r, depth=3):
    c = r.random()
    if depth <= 0 or c < 0.25:
        return ["named", r.choice(NAMES), []]
    if c < 0.37:
        return ["named", r.choice(GENERICS), [gen_sur(r, depth - 1) for _ in range(r.choice([1, 2]))]]
    if c < 0.52:
        inner = gen_sur(r, depth - 1)
        return ["opt", inner]
    if c < 0.64:
        n = r.choice([2, 3, 4])
        tagged = r.random() < 0.4
        tags = r.sample(TAGS, n)
        cases = [[tags[i] if tagged else None, gen_sur(r, depth - 1)] for i in range(n)]
        if r.random() < 0.4:
            cases.insert(0, ["null" if tagged else None, None])
        return ["union", cases]
    if c < 0.78:
        return ["vector", gen_sur(r, depth - 1), r.choice([None, None, 1, 3, 10])]
    if c < 0.9:
        return ["array", gen_sur(r, depth - 1), gen_dims(r)]
    return ["map", gen_sur(r, depth - 1), gen_sur(r, depth - 1)]


def short_of(r, t, paren_p=0.15):
    """S JSON for t, or None if t has no shorthand (contains a union)"""
    k = t[0]
    if k == "named":
        args = [short_of(r, a, paren_p) for a in t[2]]
        if any(a is None for a in args):
            return None
        s = ["named", t[1], args, []]
    elif k == "union":
        return None
    else:
        inner = short_of(r, t[1], paren_p)
        if inner is None:
            return None
        if k == "opt":
            tail = ["opt"]
        elif k == "vector":
            tail = ["vec", t[2]]
        elif k == "array":
            tail = ["arr", t[2] if t[2] is not None else []]
        else:
            v = short_of(r, t[2], paren_p)
            if v is None:
                return None
            tail = ["map", v]
        s = snoc(inner, tail)
    if r.random() < paren_p:
        s = ["sub", s, []]
    return s


def snoc(s, tail):
    if s[0] == "named":
        return ["named", s[1], s[2], s[3] + [tail]]
    return ["sub", s[1], s[2] + [tail]]


def spell(r, t, short_p=0.5, paren_p=0.15):
    """a random spelling (Y JSON) of the surface type t"""
    if r.random() < short_p:
        s = short_of(r, t, paren_p)
        if s is not None:
            return ["str", s]
    k = t[0]
    sub = lambda x: spell(r, x, short_p, paren_p)
    if k == "named":
        if not t[2]:
            return ["str", ["named", t[1], [], []]]
        return ["generic", t[1], [sub(a) for a in t[2]]]
    if k == "opt":
        return ["seq", [["null"], sub(t[1])]]
    if k == "union":
        if all(c[0] is None for c in t[1]):
            return ["seq", [["null"] if c[1] is None else sub(c[1]) for c in t[1]]]
        return ["union", [[c[0], ["null"] if c[1] is None else sub(c[1])] for c in t[1]]]
    if k == "vector":
        return ["vector", sub(t[1]), t[2]]
    if k == "array":
        d = t[2]
        if d is not None and all(x == [None, None] for x in d) and r.random() < 0.6:
            return ["arrayN", sub(t[1]), len(d)]
        return ["array", sub(t[1]), d]
    return ["map", sub(t[1]), sub(t[2])]


# --------------------------------------------------------------------------------------- rendering

def sp(r):
    return " " if r is not None and r.random() < 0.15 else ""


def render_dims(r, dims):
    out = []
    for name, length in dims:
        if name is not None and length is not None:
            out.append(f"{name}{sp(r)}:{sp(r)}{length}")
        elif name is not None:
            out.append(name)
        elif length is not None:
            out.append(str(length))
        else:
            out.append("()" if len(dims) == 1 else "")
    return ("," + sp(r)).join(out)


def render_s(r, s):
    if s[0] == "named":
        txt = s[1]
        if s[2]:
            txt += "<" + ("," + sp(r)).join(render_s(r, a) for a in s[2]) + ">"
        tails = s[3]
    else:
        txt = "(" + sp(r) + render_s(r, s[1]) + sp(r) + ")"
        tails = s[2]
    prev_map = False
    for t in tails:
        if prev_map:
            # a tail after `->V` would be taken by V: the AST we mean needs parentheses in text
            txt = "(" + txt + ")"
        prev_map = False
        if t[0] == "opt":
            txt += sp(r) + "?"
        elif t[0] == "vec":
            txt += sp(r) + "*" + ("" if t[1] is None else sp(r) + str(t[1]))
        elif t[0] == "arr":
            txt += sp(r) + "[" + render_dims(r, t[1]) + "]"
        else:
            txt += sp(r) + "->" + sp(r) + render_s(r, t[1])
            prev_map = True
    return txt


def q(s):
    return json.dumps(s)


def render_y(r, y):
    k = y[0]
    if k == "null":
        return "null"
    if k == "str":
        return q(render_s(r, y[1]))
    if k == "generic":
        return "!generic {name: " + q(y[1]) + ", args: [" + ", ".join(render_y(r, a) for a in y[2]) + "]}"
    if k == "seq":
        return "[" + ", ".join(render_y(r, a) for a in y[1]) + "]"
    if k == "vector":
        return "!vector {items: " + render_y(r, y[1]) + ("" if y[2] is None else f", length: {y[2]}") + "}"
    if k == "arrayN":
        return "!array {items: " + render_y(r, y[1]) + f", dimensions: {y[2]}" + "}"
    if k == "array":
        d = y[2]
        txt = "!array {items: " + render_y(r, y[1])
        if d is not None:
            if all(n is not None and l is not None for n, l in d):
                txt += ", dimensions: {" + ", ".join(f"{n}: {l}" for n, l in d) + "}"
            elif all(n is None and l is None for n, l in d):
                txt += ", dimensions: [" + ", ".join("null" for _ in d) + "]"
            elif all(n is not None and l is None for n, l in d):
                txt += ", dimensions: [" + ", ".join(n for n, _ in d) + "]"
            elif all(n is None and l is not None for n, l in d):
                txt += ", dimensions: [" + ", ".join(str(l) for _, l in d) + "]"
            else:
                raise ValueError(d)
        return txt + "}"
    if k == "map":
        return "!map {keys: " + render_y(r, y[1]) + ", values: " + render_y(r, y[2]) + "}"
    if k == "union":
        return "!union {" + ", ".join(f"{tag}: {render_y(r, c)}" for tag, c in y[1]) + "}"
    if k == "stream":
        return "!stream {items: " + render_y(r, y[1]) + "}"
    raise ValueError(y)


def malformed(r, y):
    """break a spelling in a way UnmarshalTypeYAML must reject: a null where a type is required"""
    k = y[0]
    if k in ("vector", "arrayN", "array", "stream") and r.random() < 0.5:
        return [k, ["null"]] + y[2:]
    if k == "map":
        return ["map", ["null"], y[2]] if r.random() < 0.5 else ["map", y[1], ["null"]]
    if k == "generic" and y[2]:
        return ["generic", y[1], [["null"]] + y[2][1:]]
    return ["vector", ["null"], None]
