"""NDJSON side of the codec lab: rendering the Lean model's exchange form to NDJSON text and judging
NDJSON lines written by generated code against it (as JSON values; floats by bit pattern; map entry
arrays as multisets; date/time strings by the instant they denote)."""
import datetime
import json
import re
import struct


def f32_of_bits(b):
    return struct.unpack("<f", struct.pack("<I", b))[0]


def f64_of_bits(b):
    return struct.unpack("<d", struct.pack("<Q", b))[0]


def bits_f32(x):
    try:
        return struct.unpack("<I", struct.pack("<f", float(x)))[0]
    except OverflowError:
        return None


def bits_f64(x):
    return struct.unpack("<Q", struct.pack("<d", float(x)))[0]


def fmt_time(prim, n):
    if prim == "date":
        return (datetime.date(1970, 1, 1) + datetime.timedelta(days=n)).isoformat()
    if prim == "time":
        h, r = divmod(n, 3_600_000_000_000)
        m, r = divmod(r, 60_000_000_000)
        s, ns = divmod(r, 1_000_000_000)
        return f"{h:02}:{m:02}:{s:02}.{ns:09}"
    days, r = divmod(n, 86_400_000_000_000)
    d = datetime.date(1970, 1, 1) + datetime.timedelta(days=days)
    h, r = divmod(r, 3_600_000_000_000)
    m, r = divmod(r, 60_000_000_000)
    s, ns = divmod(r, 1_000_000_000)
    return f"{d.isoformat()}T{h:02}:{m:02}:{s:02}.{ns:09}"


def parse_time(prim, s):
    """instant denoted by a date/time/datetime string -> integer (days / ns), or None"""
    try:
        if prim == "date":
            return (datetime.date.fromisoformat(s) - datetime.date(1970, 1, 1)).days
        def tod(t):
            m = re.fullmatch(r"(\d{2}):(\d{2})(?::(\d{2})(?:\.(\d{1,9}))?)?", t)
            if not m:
                raise ValueError(t)
            ns = int((m.group(4) or "").ljust(9, "0")) if m.group(4) else 0
            return int(m.group(1)) * 3_600_000_000_000 + int(m.group(2)) * 60_000_000_000 + int(m.group(3) or 0) * 1_000_000_000 + ns
        if prim == "time":
            return tod(s)
        s = s[:-1] if s.endswith("Z") else s
        d, t = s.split("T")
        return (datetime.date.fromisoformat(d) - datetime.date(1970, 1, 1)).days * 86_400_000_000_000 + tod(t)
    except Exception:
        return None


def render(ex):
    """exchange form -> python object ready for json.dumps"""
    if isinstance(ex, dict):
        if "$f32" in ex:
            return f32_of_bits(ex["$f32"])
        if "$f64" in ex:
            return f64_of_bits(ex["$f64"])
        if "$t" in ex:
            return fmt_time(ex["$t"][0], ex["$t"][1])
        if "$m" in ex:
            return [render(x) for x in ex["$m"]]
        if "$o" in ex:
            return {k: render(v) for k, v in ex["$o"]}
        raise ValueError(ex)
    if isinstance(ex, list):
        return [render(x) for x in ex]
    return ex


def matches(ex, actual, path="$"):
    """None if `actual` (parsed JSON) denotes the expected exchange value, else a description of the difference"""
    if isinstance(ex, dict):
        if "$f32" in ex:
            if isinstance(actual, bool) or not isinstance(actual, (int, float)):
                return f"{path}: expected a number, got {json.dumps(actual)[:80]}"
            if bits_f32(actual) != ex["$f32"] and not (f32_of_bits(ex["$f32"]) == actual == 0):
                return f"{path}: float32 {f32_of_bits(ex['$f32'])!r} expected, got {actual!r}"
            return None
        if "$f64" in ex:
            if isinstance(actual, bool) or not isinstance(actual, (int, float)):
                return f"{path}: expected a number, got {json.dumps(actual)[:80]}"
            if bits_f64(actual) != ex["$f64"] and not (f64_of_bits(ex["$f64"]) == actual == 0):
                return f"{path}: float64 {f64_of_bits(ex['$f64'])!r} expected, got {actual!r}"
            return None
        if "$t" in ex:
            if not isinstance(actual, str) or parse_time(ex["$t"][0], actual) != ex["$t"][1]:
                return f"{path}: {ex['$t'][0]} {fmt_time(*ex['$t'])} expected, got {json.dumps(actual)[:80]}"
            return None
        if "$m" in ex:
            if not isinstance(actual, list) or len(actual) != len(ex["$m"]):
                return f"{path}: expected an array of {len(ex['$m'])} map entries, got {json.dumps(actual)[:120]}"
            rest = list(actual)
            for e in ex["$m"]:
                for i, a in enumerate(rest):
                    if matches(e, a) is None:
                        del rest[i]
                        break
                else:
                    return f"{path}: map entry {json.dumps(render(e))[:120]} not found in {json.dumps(actual)[:200]}"
            return None
        if "$o" in ex:
            if not isinstance(actual, dict):
                return f"{path}: expected an object, got {json.dumps(actual)[:120]}"
            keys = [k for k, _ in ex["$o"]]
            if sorted(keys) != sorted(actual.keys()):
                return f"{path}: object keys {sorted(actual.keys())} but expected {sorted(keys)}"
            for k, v in ex["$o"]:
                r = matches(v, actual[k], f"{path}.{k}")
                if r:
                    return r
            return None
        raise ValueError(ex)
    if isinstance(ex, list):
        if not isinstance(actual, list) or len(actual) != len(ex):
            return f"{path}: expected an array of {len(ex)}, got {json.dumps(actual)[:120]}"
        for i, (e, a) in enumerate(zip(ex, actual)):
            r = matches(e, a, f"{path}[{i}]")
            if r:
                return r
        return None
    if isinstance(ex, bool) or isinstance(actual, bool):
        return None if (isinstance(ex, bool) and isinstance(actual, bool) and ex == actual) else f"{path}: expected {json.dumps(ex)}, got {json.dumps(actual)[:80]}"
    if ex is None:
        return None if actual is None else f"{path}: expected null, got {json.dumps(actual)[:80]}"
    if isinstance(ex, int):
        return None if (isinstance(actual, int) and actual == ex) else f"{path}: expected integer {ex}, got {json.dumps(actual)[:80]}"
    return None if ex == actual else f"{path}: expected {json.dumps(ex)[:80]}, got {json.dumps(actual)[:80]}"


def ndjson_text(schema, lines_ex):
    """the reference NDJSON stream: header + one line per value"""
    out = [json.dumps({"yardl": {"version": 1, "schema": json.loads(schema)}}, separators=(",", ":"), ensure_ascii=False)]
    for name, ex in lines_ex:
        out.append(json.dumps({name: render(ex)}, separators=(",", ":"), ensure_ascii=False))
    return "\n".join(out) + "\n"
