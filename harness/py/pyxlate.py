"""Runs under python3-vt. Drives generated Python readers/writers with copy_to.

usage: pyxlate.py <out_py dir> <module name> <jobs.json> <results.json>
job: {"proto": "P", "infmt": "b"|"j", "outfmt": "b"|"j", "in": path, "out": path,
      "chunk": optional int -> feed the reader through a raw stream that returns at most `chunk` bytes per read,
      "mode": "hold" + "steps": read everything, then write; with "reuse" streams are written from a generator that re-yields one mutated object;
      with "empty_batches" streams are written by several calls with empty lists between}
result: {"rc": 0|3, "exc": str}
"""
import enum
import importlib
import io
import json
import sys
import traceback


class ChunkedRaw(io.RawIOBase):
    def __init__(self, data, chunk):
        self.data, self.pos, self.chunk = data, 0, chunk

    def readable(self):
        return True

    def readinto(self, b):
        n = min(len(b), self.chunk, len(self.data) - self.pos)
        b[:n] = self.data[self.pos:self.pos + n]
        self.pos += n
        return n


def reusing(items):
    """a lazy producer that keeps ONE mutable object per shape and re-yields it with the next item's content (a preallocated
    acquisition buffer, one record instance updated in place): each item must be serialized before the next one is pulled"""
    import copy
    shared = None
    for item in items:
        same = shared is not None and type(shared) is type(item)
        if same and type(item).__module__ == "numpy" and hasattr(item, "shape") and item.shape == shared.shape and item.dtype == shared.dtype and item.shape != ():
            shared[...] = item
        elif same and isinstance(item, list):
            shared[:] = item
        elif same and isinstance(item, dict):
            shared.clear()
            shared.update(item)
        elif same and hasattr(item, "__dict__") and not isinstance(item, (type, enum.Enum)) and type(item).__module__ not in ("builtins", "numpy", "datetime"):
            shared.__dict__.clear()
            shared.__dict__.update(item.__dict__)
        else:
            shared = copy.deepcopy(item)
        yield shared


def main():
    out_py, modname, jobs_fn, res_fn = sys.argv[1:5]
    sys.path.insert(0, out_py)
    mod = importlib.import_module(modname)
    jobs = json.load(open(jobs_fn))
    results = []
    for job in jobs:
        p = job["proto"]
        R = getattr(mod, ("Binary" if job["infmt"] == "b" else "NDJson") + p + "Reader")
        W = getattr(mod, ("Binary" if job["outfmt"] == "b" else "NDJson") + p + "Writer")
        rc, exc = 0, ""
        fin = fout = w = None
        try:
            if job["infmt"] == "b":
                if job.get("chunk"):
                    fin = io.BufferedReader(ChunkedRaw(open(job["in"], "rb").read(), job["chunk"]), buffer_size=1)
                else:
                    fin = open(job["in"], "rb")
            else:
                fin = open(job["in"], "r", encoding="utf-8")
            fout = open(job["out"], "wb") if job["outfmt"] == "b" else open(job["out"], "w", encoding="utf-8")
            r = R(fin)
            w = W(fout)
            if job.get("mode") == "hold":
                # read every step completely (streams into lists) and keep all values alive until
                # the reader is closed; only then write them: a reader that hands out values aliasing
                # its internal buffers is caught by this mode
                held = []
                for st in job["steps"]:
                    v = getattr(r, "read_" + st["name"])()
                    held.append(list(v) if st["stream"] else v)
                r.close()
                for st, v in zip(job["steps"], held):
                    wr = getattr(w, "write_" + st["name"])
                    if st["stream"] and job.get("empty_batches"):
                        # several write calls for one stream, with empty batches before, between and after: an empty batch is no item
                        wr([])
                        i, n = 0, 1
                        while i < len(v):
                            wr(v[i:i + n])
                            wr([])
                            i, n = i + n, n % 3 + 1
                        wr(iter(()))
                    elif st["stream"] and job.get("reuse"):
                        wr(reusing(v))
                    else:
                        wr(v)
                w.close()
            else:
                r.copy_to(w)
                r.close()
                w.close()
        except BaseException as e:  # noqa
            try:
                # hand over what the writer had accepted before the error (harness reaches into the
                # writer's coded stream; generated writers only flush on close)
                if job["outfmt"] == "b":
                    w._stream.flush()
                else:
                    fout.flush()
            except BaseException:  # noqa
                pass
            rc = 3
            exc = type(e).__name__ + ": " + str(e)[:300]
            if job.get("trace"):
                exc += "\n" + traceback.format_exc()[-1500:]
        finally:
            for f in (fin, fout):
                try:
                    if f is not None:
                        f.close()
                except Exception:
                    pass
        results.append({"rc": rc, "exc": exc})
    json.dump(results, open(res_fn, "w"))


if __name__ == "__main__":
    main()
