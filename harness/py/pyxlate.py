"""Runs under python3-vt. Drives generated Python readers/writers with copy_to.

usage: pyxlate.py <out_py dir> <module name> <jobs.json> <results.json>
job: {"proto": "P", "infmt": "b"|"j", "outfmt": "b"|"j", "in": path, "out": path,
      "chunk": optional int -> feed the reader through a raw stream that returns at most `chunk` bytes per read,
      "mode": "hold" + "steps": read everything, then write; with "relayout" every multi-dimensional array is handed to the writer in Fortran order or as a strided view; with "reuse" streams are written from a generator that re-yields one mutated object; with "foreign_arrays" streams of scalars /
      flat records are written from one NumPy array of another byte order, width or field order holding the same values;
      with "empty_batches" streams are written by several calls with empty lists between}
result: {"rc": 0|3, "exc": str}
"""
import enum
import importlib
import io
import json
import sys
import traceback


class ChunkedRaw(io.RawIOBase):
    def __init__(self, data, chunk):
        self.data, self.pos, self.chunk = data, 0, chunk

    def readable(self):
        return True

    def readinto(self, b):
        n = min(len(b), self.chunk, len(self.data) - self.pos)
        b[:n] = self.data[self.pos:self.pos + n]
        self.pos += n
        return n


def reusing(items):
    """a lazy producer that keeps ONE mutable object per shape and re-yields it with the next item's content (a preallocated
    acquisition buffer, one record instance updated in place): each item must be serialized before the next one is pulled"""
    import copy
    shared = None
    for item in items:
        same = shared is not None and type(shared) is type(item)
        if same and type(item).__module__ == "numpy" and hasattr(item, "shape") and item.shape == shared.shape and item.dtype == shared.dtype and item.shape != ():
            shared[...] = item
        elif same and isinstance(item, list):
            shared[:] = item
        elif same and isinstance(item, dict):
            shared.clear()
            shared.update(item)
        elif same and hasattr(item, "__dict__") and not isinstance(item, (type, enum.Enum)) and type(item).__module__ not in ("builtins", "numpy", "datetime"):
            shared.__dict__.clear()
            shared.__dict__.update(item.__dict__)
        else:
            shared = copy.deepcopy(item)
        yield shared


def relayout(x, depth=0):
    """the same value with every multi-dimensional NumPy array in it stored in another memory layout (Fortran order, or a strided view of a larger
    buffer): what an array *is* does not depend on how NumPy keeps it in memory"""
    import numpy as np
    if depth > 6:
        return x
    if isinstance(x, np.ndarray):
        if x.ndim >= 2 and x.size > 1 and x.dtype.kind != "O":
            if x.shape[0] % 2:
                return np.asfortranarray(x)
            big = np.zeros(tuple(2 * d for d in x.shape), dtype=x.dtype)
            view = big[tuple(slice(0, 2 * d, 2) for d in x.shape)]
            view[...] = x
            return view
        if x.dtype.kind == "O":
            out = np.empty(x.shape, dtype=object)
            for idx in np.ndindex(x.shape):
                out[idx] = relayout(x[idx], depth + 1)
            return out
        return x
    if isinstance(x, list):
        return [relayout(y, depth + 1) for y in x]
    if isinstance(x, dict):
        return {k: relayout(y, depth + 1) for k, y in x.items()}
    if isinstance(x, tuple):
        return tuple(relayout(y, depth + 1) for y in x)
    if hasattr(x, "__dict__") and not isinstance(x, (type, enum.Enum)) and type(x).__module__ not in ("builtins", "numpy", "datetime"):
        import copy
        y = copy.copy(x)
        for k, val in list(vars(x).items()):
            try:
                setattr(y, k, relayout(val, depth + 1))
            except Exception:   # noqa: BLE001
                pass
        return y
    return x


def as_foreign_array(mod, items):
    """the items of a stream as ONE NumPy array whose dtype is not the generated one but holds the same values: scalars in big-endian byte order or
    in a wider type, records as a structured array with the fields in the opposite order. None when the items do not lend themselves to it."""
    import numpy as np
    if len(items) < 2:
        return None
    first = items[0]
    try:
        if isinstance(first, (float, np.floating)):
            if not all(isinstance(x, (float, np.floating)) for x in items):
                return None
            wide = np.array(items, dtype=np.float64)
            return wide.astype(wide.dtype.newbyteorder(">")) if len(items) % 2 else wide
        if isinstance(first, (bool, np.bool_)) or not hasattr(first, "__dict__") or isinstance(first, enum.Enum):
            return None
        if not all(type(x) is type(first) for x in items):
            return None
        dt = mod.get_dtype(type(first))
        names = list(dt.names or ())
        if len(names) < 2 or any(dt.fields[n][0].kind == "O" or dt.fields[n][0].names or dt.fields[n][0].shape for n in names):
            return None
        rd = np.dtype({"names": names[::-1], "formats": [dt.fields[n][0] for n in names[::-1]]})
        arr = np.empty(len(items), dtype=rd)
        for n in names:
            arr[n] = [getattr(it, n) for it in items]
        return arr
    except Exception:   # noqa: BLE001
        return None


def main():
    out_py, modname, jobs_fn, res_fn = sys.argv[1:5]
    sys.path.insert(0, out_py)
    mod = importlib.import_module(modname)
    jobs = json.load(open(jobs_fn))
    results = []
    for job in jobs:
        p = job["proto"]
        R = getattr(mod, ("Binary" if job["infmt"] == "b" else "NDJson") + p + "Reader")
        W = getattr(mod, ("Binary" if job["outfmt"] == "b" else "NDJson") + p + "Writer")
        rc, exc = 0, ""
        fin = fout = w = None
        try:
            if job["infmt"] == "b":
                if job.get("chunk"):
                    fin = io.BufferedReader(ChunkedRaw(open(job["in"], "rb").read(), job["chunk"]), buffer_size=1)
                else:
                    fin = open(job["in"], "rb")
            else:
                fin = open(job["in"], "r", encoding="utf-8")
            fout = open(job["out"], "wb") if job["outfmt"] == "b" else open(job["out"], "w", encoding="utf-8")
            r = R(fin)
            w = W(fout)
            if job.get("mode") == "hold":
                # read every step completely (streams into lists) and keep all values alive until
                # the reader is closed; only then write them: a reader that hands out values aliasing
                # its internal buffers is caught by this mode
                held = []
                for st in job["steps"]:
                    v = getattr(r, "read_" + st["name"])()
                    held.append(list(v) if st["stream"] else v)
                r.close()
                if job.get("relayout"):
                    held = [relayout(v) for v in held]
                for st, v in zip(job["steps"], held):
                    wr = getattr(w, "write_" + st["name"])
                    if st["stream"] and job.get("empty_batches"):
                        # several write calls for one stream, with empty batches before, between and after: an empty batch is no item
                        wr([])
                        i, n = 0, 1
                        while i < len(v):
                            wr(v[i:i + n])
                            wr([])
                            i, n = i + n, n % 3 + 1
                        wr(iter(()))
                    elif st["stream"] and job.get("reuse"):
                        wr(reusing(v))
                    elif st["stream"] and job.get("foreign_arrays") and as_foreign_array(mod, v) is not None:
                        wr(as_foreign_array(mod, v))
                    else:
                        wr(v)
                w.close()
            else:
                r.copy_to(w)
                r.close()
                w.close()
        except BaseException as e:  # noqa
            try:
                # hand over what the writer had accepted before the error (harness reaches into the
                # writer's coded stream; generated writers only flush on close)
                if job["outfmt"] == "b":
                    w._stream.flush()
                else:
                    fout.flush()
            except BaseException:  # noqa
                pass
            rc = 3
            exc = type(e).__name__ + ": " + str(e)[:300]
            if job.get("trace"):
                exc += "\n" + traceback.format_exc()[-1500:]
        finally:
            for f in (fin, fout):
                try:
                    if f is not None:
                        f.close()
                except Exception:
                    pass
        results.append({"rc": rc, "exc": exc})
    json.dump(results, open(res_fn, "w"))


if __name__ == "__main__":
    main()
