"""Mirror of formatting.ToPascalCase for the simple names the harness itself generates."""
import re


def to_pascal(s):
    if not s:
        return s
    if not re.search(r"[_ -]", s):
        return s[0].upper() + s[1:]
    return "".join(to_pascal(p) for p in re.split(r"[_ -]+", s) if p)
