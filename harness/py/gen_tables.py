#!/usr/bin/env python3
"""Translator: regenerates lean/YardlGenerated/*.lean from /repo's current source.
Tables are obtained by *executing* yardl's own functions (harness/go/cmd/inproc tables) and by
go/ast extraction (harness/go/cmd/facts)."""
import json
import os
import subprocess
import sys

sys.path.insert(0, os.path.dirname(os.path.abspath(__file__)))
import vlib  # noqa: E402

PRIMS = ["bool", "int8", "int16", "int32", "int64", "uint8", "uint16", "uint32", "uint64", "size", "float32", "float64",
         "complexfloat32", "complexfloat64", "string", "date", "time", "datetime"]


def lean_prim(p):
    return ".{}".format(p)


def generate(scratch):
    gen_dir = os.path.join(vlib.LEAN_DIR, "YardlGenerated")
    os.makedirs(gen_dir, exist_ok=True)
    for fn in os.listdir(gen_dir):
        os.unlink(os.path.join(gen_dir, fn))
    inproc = vlib.build_go_harness(scratch, "inproc")
    t = json.loads(subprocess.run([inproc, "tables"], stdout=subprocess.PIPE, check=True).stdout)
    out = ["import YardlModel.Wire", "", "/-! GENERATED on every run by harness/py/gen_tables.py from /repo's working tree: do not edit. -/", "",
           "namespace Yardl.Generated", "open Yardl", ""]
    out.append("/-- `dsl.GetCommonType` executed on every ordered pair of primitives (none = no common type). -/")
    out.append("def commonTypeTab : List (Prim × Prim × Option Prim) := [")
    rows = []
    for a in PRIMS:
        for b in PRIMS:
            v = t["commonType"][a][b]
            rows.append(f"  ({lean_prim(a)}, {lean_prim(b)}, {'none' if v in ('error', 'panic', 'non-primitive') else 'some ' + lean_prim(v)})")
    out.append(",\n".join(rows) + "]")
    out.append("")
    out.append("/-- `GetPrimitiveKind` (0 bool? … as Go's iota), `GetJsonDataType` bits, integrality, signedness. -/")
    out.append("def primInfoTab : List (Prim × Nat × Nat × Bool × Bool × Nat) := [")
    rows = []
    for a in PRIMS:
        i = t["prims"][a]
        rows.append(f"  ({lean_prim(a)}, {i['kind']}, {i['width']}, {str(i['integral']).lower()}, {str(i['signed']).lower()}, {i['jsonKind']})")
    out.append(",\n".join(rows) + "]")
    out.append("")
    import re
    src = open(os.path.join(vlib.REPO, "tooling", "pkg", "packaging", "packageinfo.go")).read()
    m = re.search(r"const MaxImportRecursionDepth\s*=\s*(\d+)", src)
    out.append("/-- `packaging.MaxImportRecursionDepth` (constant in packageinfo.go). -/")
    out.append(f"def maxImportDepth : Nat := {m.group(1) if m else 0}")
    out.append("")
    out.append("end Yardl.Generated")
    with open(os.path.join(gen_dir, "Tables.lean"), "w") as f:
        f.write("\n".join(out) + "\n")
    return t


if __name__ == "__main__":
    with vlib.Scratch("vf-gen-") as sc:
        generate(sc)
        print("generated", os.listdir(os.path.join(vlib.LEAN_DIR, "YardlGenerated")))
