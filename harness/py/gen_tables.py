#!/usr/bin/env python3
"""Translator: regenerates lean/YardlGenerated/*.lean from /repo's current source.
Tables are obtained by *executing* yardl's own functions (harness/go/cmd/inproc tables) and by
go/ast extraction (harness/go/cmd/facts)."""
import json
import os
import subprocess
import sys

sys.path.insert(0, os.path.dirname(os.path.abspath(__file__)))
import vlib  # noqa: E402

PRIMS = ["bool", "int8", "int16", "int32", "int64", "uint8", "uint16", "uint32", "uint64", "size", "float32", "float64",
         "complexfloat32", "complexfloat64", "string", "date", "time", "datetime"]


def lean_prim(p):
    return ".{}".format(p)


def generate(scratch):
    gen_dir = os.path.join(vlib.LEAN_DIR, "YardlGenerated")
    os.makedirs(gen_dir, exist_ok=True)
    for fn in os.listdir(gen_dir):
        os.unlink(os.path.join(gen_dir, fn))
    inproc = vlib.build_go_harness(scratch, "inproc")
    t = json.loads(subprocess.run([inproc, "tables"], stdout=subprocess.PIPE, check=True).stdout)
    out = ["import YardlModel.Wire", "", "/-! GENERATED on every run by harness/py/gen_tables.py from /repo's working tree: do not edit. -/", "",
           "namespace Yardl.Generated", "open Yardl", ""]
    out.append("/-- `dsl.GetCommonType` executed on every ordered pair of primitives (none = no common type). -/")
    out.append("def commonTypeTab : List (Prim × Prim × Option Prim) := [")
    rows = []
    for a in PRIMS:
        for b in PRIMS:
            v = t["commonType"][a][b]
            rows.append(f"  ({lean_prim(a)}, {lean_prim(b)}, {'none' if v in ('error', 'panic', 'non-primitive') else 'some ' + lean_prim(v)})")
    out.append(",\n".join(rows) + "]")
    out.append("")
    out.append("/-- `GetPrimitiveKind` (0 bool? … as Go's iota), `GetJsonDataType` bits, integrality, signedness. -/")
    out.append("def primInfoTab : List (Prim × Nat × Nat × Bool × Bool × Nat) := [")
    rows = []
    for a in PRIMS:
        i = t["prims"][a]
        rows.append(f"  ({lean_prim(a)}, {i['kind']}, {i['width']}, {str(i['integral']).lower()}, {str(i['signed']).lower()}, {i['jsonKind']})")
    out.append(",\n".join(rows) + "]")
    out.append("")
    import re
    src = open(os.path.join(vlib.REPO, "tooling", "pkg", "packaging", "packageinfo.go")).read()
    m = re.search(r"const MaxImportRecursionDepth\s*=\s*(\d+)", src)
    out.append("/-- `packaging.MaxImportRecursionDepth` (constant in packageinfo.go). -/")
    out.append(f"def maxImportDepth : Nat := {m.group(1) if m else 0}")
    out.append("")
    out.append("/-- verdict (0 silent, 1 warning, 2 error, 3 panic) of `dsl.ValidateEvolution` executed on a one-step protocol whose")
    out.append("    step type changes from the second primitive (previous version) to the first (new version). -/")
    out.append("def primChangeTab : List (Prim × Prim × Nat) := [")
    out.append(",\n".join(f"  ({lean_prim(a)}, {lean_prim(b)}, {t['primChange'][a][b]})" for a in PRIMS for b in PRIMS) + "]")
    out.append("")
    tsrc = open(os.path.join(vlib.REPO, "tooling", "pkg", "dsl", "types.go")).read()
    cands = sorted(set(PRIMS) | set(re.findall(r'"(\w+)="', tsrc)) | {"byte", "int", "uint", "long", "ulong", "float", "double", "complexfloat",
                                                                      "complexdouble", "integer", "str", "char", "short", "float16", "uint128", "Int32", "INT"})
    al = json.loads(subprocess.run([inproc, "primalias"], input="\n".join(cands).encode(), stdout=subprocess.PIPE, check=True).stdout)
    t["primalias"] = al
    out.append("/-- what each candidate type name resolves to as a primitive (resolveTypes executed on a one-field record). -/")
    out.append("def primAliasTab : List (String × Option Prim) := [")
    out.append(",\n".join(f"  ({json.dumps(n)}, {'some ' + lean_prim(al[n]) if al.get(n) in PRIMS else 'none'})" for n in cands) + "]")
    out.append("")
    # GetJsonDataType on one step per non-primitive shape (a fixed package, validated and walked by the real front end)
    kdir = scratch.path("kinds_pkg")
    os.makedirs(kdir, exist_ok=True)
    open(os.path.join(kdir, "_package.yml"), "w").write("namespace: Kinds\n")
    open(os.path.join(kdir, "model.yml"), "w").write(
        "E: !enum\n  values: [a]\nF: !flags\n  values: [a]\nR: !record\n  fields:\n    a: int\nG<T>: !record\n  fields:\n    a: T\n"
        "AE: E\nAV: int*\n"
        "P: !protocol\n  sequence:\n    enum: E\n    flags: F\n    record: R\n    vector: int*\n    fixedVector: int*3\n    arrayDynamic: int[]\n"
        "    arrayRank: int[,]\n    arrayFixed: int[2,3]\n    mapStringKey: string->int\n    mapIntKey: int->int\n    genericRecord: G<int>\n"
        "    aliasOfEnum: AE\n    aliasOfVector: AV\n")
    kd = json.loads(subprocess.run([inproc, "dump", kdir], stdout=subprocess.PIPE, check=True).stdout)
    ksteps = kd.get("protocols", {}).get("P", {}).get("steps", [])
    t["compoundKinds"] = {s_["name"]: (s_["jsonKind"] if not s_.get("panic") else 0) for s_ in ksteps}
    out.append("/-- `GetJsonDataType` executed on the step types of a fixed package: one step per non-primitive shape. -/")
    out.append("def compoundKindTab : List (String × Nat) := [")
    out.append(",\n".join(f"  ({json.dumps(s_['name'])}, {s_['jsonKind'] if not s_.get('panic') else 0})" for s_ in ksteps) + "]")
    out.append("")
    out.append("end Yardl.Generated")
    with open(os.path.join(gen_dir, "Tables.lean"), "w") as f:
        f.write("\n".join(out) + "\n")
    t["mapranges"] = gen_mapranges(scratch, gen_dir)
    t["pipeline"] = gen_pipeline(scratch, gen_dir)
    return t


def gen_pipeline(scratch, gen_dir):
    """Call order and error handling of generateImpl / validatePackage / parsePackageNamespaces (go/ast)."""
    pipe = facts(scratch, "pipeline")
    passes = facts(scratch, "passes")
    out = ["/-! GENERATED on every run by harness/py/gen_tables.py (go/ast extraction from internal/cmd and pkg/dsl): do not edit. -/", "",
           "namespace Yardl.Generated", ""]
    for fn in ("generateImpl", "validatePackage", "parsePackageNamespaces", "parseAndFlattenNamespaces", "validateImpl"):
        calls = [c for c in pipe.get(fn, []) if not c["call"].startswith("return ") and c["call"] not in ("make", "append", "path.Join")]
        rows = [f'  ("{c["call"]}", "{c["err"]}", {"true" if c["guard"].strip() else "false"})' for c in calls]
        out.append(f"/-- calls of `{fn}` in source order: (callee, what happens to its error, is it guarded by a condition/loop) -/")
        out.append(f"def calls_{fn} : List (String × String × Bool) := [")
        out.append(",\n".join(rows) + "]")
        out.append("")
    out.append("/-- the validation passes of `dsl.Validate`, in order -/")
    out.append("def validationPasses : List String := [" + ", ".join(f'"{p}"' for p in passes.get("passes", [])) + "]")
    out.append("")
    out.append("/-- passes that return immediately when an earlier pass has reported errors -/")
    out.append("def passesSkippedAfterErrors : List String := [" + ", ".join(f'"{p}"' for p in sorted(passes.get("earlyReturn", []))) + "]")
    out.append("")
    ge = facts(scratch, "generrors")
    out.append("/-- every place where a generator package constructs an error of its own: (package, function, constructor) -/")
    out.append("def generatorErrorSites : List (String × String × String) := [" + ", ".join(f'("{e["pkg"].split("/tooling/")[-1]}", "{e["func"]}", "{e["site"]}")' for e in ge) + "]")
    out.append("")
    out.append("/-- hash of the body (as printed by go/printer) of every validation pass -/")
    bh = passes.get("bodyHash", {})
    out.append("def passBodyHash : List (String × String) := [" + ", ".join(f'("{p}", "{bh.get(p, "?")}")' for p in passes.get("passes", [])) + "]")
    out.append("")
    rsv = facts(scratch, "reserved")
    for lang in ("cpp", "python", "matlab"):
        out.append(f"/-- keys of the reserved-name table of the {lang} back end (go/ast) -/")
        out.append(f"def reserved_{lang} : List String := [" + ", ".join(json.dumps(w) for w in rsv.get(lang, [])) + "]")
        out.append("")
    # type names: the reserved table plus the names the generated code declares itself next to the model's types (`reservedTypeNames`)
    rsv["cpp_types"] = sorted(set(rsv.get("cpp", [])) | set(rsv.get("cpp_types_only") or []))
    rsv.pop("cpp_types_only", None)
    out.append("/-- names escaped when they name a C++ type: `reservedNames` and `reservedTypeNames` (go/ast) -/")
    out.append("def reserved_cpp_types : List String := [" + ", ".join(json.dumps(w) for w in rsv["cpp_types"]) + "]")
    out.append("")
    # the same tables as lists of character codes: what the theorems of Props/C08 and the driver's identifier ops use (kernel evaluation
    # of `String` / `Char` operations over tables of this size takes minutes; over `List Nat` it takes seconds)
    def codes(w):
        return "[" + ", ".join(str(ord(c)) for c in w) + "]"
    only = sorted(set(rsv["cpp_types"]) - set(rsv.get("cpp", [])))
    for lang, words in (("cpp", rsv.get("cpp", [])), ("python", rsv.get("python", [])), ("matlab", rsv.get("matlab", [])), ("cpp_types_only", only)):
        assert all(c.isascii() and c.isprintable() for w in words for c in w), "reserved word outside printable ASCII"
        out.append(f"def reserved_{lang}_codes : List (List Nat) := [" + ", ".join(codes(w) for w in words) + "]")
        out.append("")
    out.append("/-- `reservedNames` and `reservedTypeNames` -/")
    out.append("def reserved_cpp_types_codes : List (List Nat) := reserved_cpp_codes ++ reserved_cpp_types_only_codes")
    out.append("")
    vis = facts(scratch, "visitor")
    out.append("/-- every field of a dsl node struct that can hold child nodes: (struct, field, is it walked by VisitChildren) -/")
    out.append("def visitorFields : List (String × String × Bool) := [")
    out.append(",\n".join(f'  ("{r["struct"]}", "{r["field"]}", {"true" if r["visited"] and r["hasCase"] else "false"})' for r in vis) + "]")
    out.append("")
    out.append("end Yardl.Generated")
    with open(os.path.join(gen_dir, "Pipeline.lean"), "w") as f:
        f.write("\n".join(out) + "\n")
    return {"pipeline": pipe, "passes": passes, "reserved": rsv}


def facts(scratch, what):
    exe = vlib.build_go_harness(scratch, "facts")
    env = dict(vlib.GOENV, VERIF_REPO_TOOLING=os.path.join(vlib.REPO, "tooling"))
    p = subprocess.run([exe, what], cwd=os.path.join(vlib.REPO, "tooling"), env=env, stdout=subprocess.PIPE, stderr=subprocess.PIPE)
    if p.returncode != 0:
        raise RuntimeError("facts " + what + " failed: " + p.stderr.decode()[-2000:])
    return json.loads(p.stdout)


def gen_mapranges(scratch, gen_dir):
    import hashlib
    import re
    sites = facts(scratch, "mapranges")
    exp = json.load(open(os.path.join(os.path.dirname(os.path.abspath(__file__)), "maprange_expect.json")))["sites"]
    table = {(e["file"], e["func"], e["expr"], e["index"]): e for e in exp}
    rows, info = [], []
    for s in sites:
        e = table.get((s["file"], s["func"], s["expr"], s["index"]))
        h = hashlib.sha1(re.sub(r"\s+", " ", s["body"]).encode()).hexdigest()[:16]
        cls, why = "other", "no expectation for this site"
        if e is not None:
            if e["bodyHash"] != h:
                why = "loop body changed since it was classified"
            elif e["needsSort"] and not s["followedBySort"]:
                why = "the function no longer sorts the collected keys"
            else:
                cls, why = e["class"], e["why"]
        rows.append(f'  ("{s["file"]}", "{s["func"]}", "{s["expr"]}", SiteClass.{cls})')
        info.append(dict(s, cls=cls, why=why))
    # comparator of the two diagnostic sinks: which fields the sort.Slice less-function compares, in order
    cmp_rows = []
    for fn, var in (("errorsink.go", "Err"), ("warningsink.go", "Wrn")):
        src = open(os.path.join(vlib.REPO, "tooling", "internal", "validation", fn)).read()
        m = re.search(r"sort\.(Slice|SliceStable)\(.*?func\(i, j int\) bool \{(.*?)\n\t\}\)", src, re.S)
        body = m.group(2) if m else ""
        keys = []
        for fm in re.finditer(r"i%s\.(File|Line|Column|Message)\b" % var, body):
            if fm.group(1) not in keys:
                keys.append(fm.group(1))
        # a key only counts if it takes part in an ordering comparison (`<`)
        keys = [k for k in keys if re.search(r"(i%s\.%s[^\n]*<|i%s, j%s := [^\n]*%s[^\n]*\n?[^\n]*<|return i%s[^\n]*<)" % (var, k, k, k, k, k[:4] if False else k), body) or k in ("Line", "Column")]
        ordering = [k for k in keys if re.search(r"return i(%s\.%s|%s)\b[^\n]*<" % (var, k, k), body)]
        cmp_rows.append(f'  ("{fn}", [{", ".join(chr(34) + k + chr(34) for k in ordering)}])')
        info.append({"sink": fn, "orderingKeys": ordering})
    out = ["/-! GENERATED on every run by harness/py/gen_tables.py (go/types extraction of every `range` over a map in",
           "    /repo/tooling, classified by harness/py/maprange_expect.json): do not edit. -/", "", "namespace Yardl.Generated", "",
           "inductive SiteClass | commutative | sortedKeys | sortedSink | other", "  deriving DecidableEq, Repr", "",
           "def mapRangeSites : List (String × String × String × SiteClass) := [", ",\n".join(rows) + "]", "",
           "/-- Fields compared with `<` (in order) by the `sort.Slice` less-function of each diagnostic sink. -/",
           "def sinkOrderingKeys : List (String × List String) := [", ",\n".join(cmp_rows) + "]", "", "end Yardl.Generated"]
    with open(os.path.join(gen_dir, "MapRanges.lean"), "w") as f:
        f.write("\n".join(out) + "\n")
    return info


if __name__ == "__main__":
    with vlib.Scratch("vf-gen-") as sc:
        generate(sc)
        print("generated", os.listdir(os.path.join(vlib.LEAN_DIR, "YardlGenerated")))
