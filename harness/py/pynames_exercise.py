"""Runs under python3-vt. Exercises a generated Python package beyond importing it, so that a member whose name shadows
something the generated code itself uses (a module alias, a parameter, a local) fails here and not in the user's hands:

  * every class of <module>.types that default-constructs is constructed, printed, compared with itself and each of its
    zero-argument public methods (the computed fields) is called;
  * every protocol whose steps are int32 values or default-constructible records (streams of them too) is written with
    the binary and the NDJSON writer, read back with the matching reader, and the values compared.

usage: python3-vt pynames_exercise.py <out_py> <module>   -> exit 0, or exit 1 with one line "<ErrorClass>: <message> (<where>)"
Only NameError / AttributeError / TypeError / SyntaxError / ImportError / a mismatch are failures: other exceptions (a
computed field indexing an empty default vector, ...) are what the model says.
"""
import importlib
import inspect
import io
import json
import re
import sys

FATAL = (NameError, AttributeError, TypeError, ImportError, SyntaxError)


def fail(e, where):
    print(f"{type(e).__name__ if isinstance(e, BaseException) else 'Mismatch'}: {e} ({where})")
    sys.exit(1)


def main():
    out_py, modname = sys.argv[1], sys.argv[2]
    sys.path.insert(0, out_py)
    mod = importlib.import_module(modname)
    types = importlib.import_module(modname + ".types")
    records = {}
    for name, cls in vars(types).items():
        if not (inspect.isclass(cls) and cls.__module__ == types.__name__ and "__init__" in vars(cls)):
            continue
        try:
            obj = cls()
        except FATAL as e:
            if isinstance(e, TypeError) and "required" in str(e):
                continue    # a field without a default (generic parameter)
            fail(e, f"{name}()")
        except Exception:   # noqa: BLE001
            continue
        records[name] = cls
        try:
            repr(obj)
            str(obj)
            if not (obj == cls()):
                fail("two default-constructed values differ", f"{name}() == {name}()")
        except FATAL as e:
            fail(e, f"repr / == of {name}()")
        except Exception:   # noqa: BLE001
            pass
        for mname, meth in vars(cls).items():
            if mname.startswith("_") or not inspect.isfunction(meth) or len(inspect.signature(meth).parameters) != 1:
                continue
            try:
                getattr(obj, mname)()
            except FATAL as e:
                fail(e, f"{name}().{mname}()")
            except Exception:   # noqa: BLE001
                pass
    # protocols
    for wname, wcls in vars(mod).items():
        m = re.fullmatch(r"Binary(\w+)Writer", wname)
        if not m or not inspect.isclass(wcls):
            continue
        proto = m.group(1)
        try:
            schema = json.loads(wcls.schema)
        except Exception:   # noqa: BLE001
            continue
        steps, ok = [], True
        for st in schema["protocol"]["sequence"]:
            t, stream = st["type"], False
            if isinstance(t, dict) and "stream" in t:
                t, stream = t["stream"]["items"], True
            if t == "int32":
                v = (lambda: 7)
            elif isinstance(t, str) and t.split(".")[-1] in records:
                v = records[t.split(".")[-1]]
            else:
                ok = False
                break
            steps.append((st["name"], stream, v))
        if not ok:
            continue
        # the public step methods in definition order are the steps in protocol order (no name conversion re-implemented here)
        wbase, rbase = getattr(mod, f"{proto}WriterBase", None), getattr(mod, f"{proto}ReaderBase", None)
        if wbase is None or rbase is None:
            continue
        wnames = [k for k, f in vars(wbase).items() if k.startswith("write_") and inspect.isfunction(f)]
        rnames = [k for k, f in vars(rbase).items() if k.startswith("read_") and inspect.isfunction(f)]
        if len(wnames) != len(steps) or len(rnames) != len(steps):
            fail(f"{len(steps)} steps but write methods {wnames} / read methods {rnames}", f"{proto}WriterBase / {proto}ReaderBase")
        for kind, mk in (("Binary", io.BytesIO), ("NDJson", io.StringIO)):
            w_cls, r_cls = getattr(mod, f"{kind}{proto}Writer", None), getattr(mod, f"{kind}{proto}Reader", None)
            if w_cls is None or r_cls is None:
                continue
            buf = mk()
            where = f"{kind}{proto}Writer"
            try:
                written = []
                with w_cls(buf) as w:
                    for (name, stream, v), wn in zip(steps, wnames):
                        val = [v(), v()] if stream else v()
                        written.append(val)
                        where = f"{kind}{proto}Writer.{wn}"
                        getattr(w, wn)(val)
                buf.seek(0)
                where = f"{kind}{proto}Reader"
                with r_cls(buf) as r:
                    for (name, stream, v), val, rn in zip(steps, written, rnames):
                        where = f"{kind}{proto}Reader.{rn}"
                        got = getattr(r, rn)()
                        if stream:
                            got = list(got)
                        if not (got == val):
                            fail(f"read back {got!r}, wrote {val!r}", where)
            except SystemExit:
                raise
            except FATAL as e:
                fail(e, where)
            except Exception as e:   # noqa: BLE001
                fail(e, where)
    sys.exit(0)


if __name__ == "__main__":
    main()
