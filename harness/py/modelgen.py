"""Type-directed generator of yardl packages, their resolved wire types and values.

Everything random derives from one `random.Random(seed)`.

Surface type IR (tuples):
  ("prim", name) | ("named", defname, [args]) | ("tparam", name) | ("opt", t)
  | ("union", hasNull, [(tag, t), ...]) | ("vec", t, len|None)
  | ("arr", t, kind)  kind = ("dyn",) | ("rank", n, names|None) | ("fixed", dims, names|None)
  | ("map", k, v)
Wire type JSON (consumed by the Lean driver) is documented in YardlModel/WireJson.lean.
"""
import random
import struct

PRIMS = ["bool", "int8", "int16", "int32", "int64", "uint8", "uint16", "uint32", "uint64", "size",
         "float32", "float64", "complexfloat32", "complexfloat64", "string", "date", "time", "datetime"]
PRIM_ALIASES = {"byte": "uint8", "int": "int32", "uint": "uint32", "long": "int64", "ulong": "uint64",
                "float": "float32", "double": "float64", "complexfloat": "complexfloat32",
                "complexdouble": "complexfloat64"}
ALIAS_OF = {}
for _a, _p in PRIM_ALIASES.items():
    ALIAS_OF.setdefault(_p, []).append(_a)
INT_RANGE = {"int8": (-2**7, 2**7 - 1), "int16": (-2**15, 2**15 - 1), "int32": (-2**31, 2**31 - 1),
             "int64": (-2**63, 2**63 - 1), "uint8": (0, 2**8 - 1), "uint16": (0, 2**16 - 1),
             "uint32": (0, 2**32 - 1), "uint64": (0, 2**64 - 1), "size": (0, 2**64 - 1)}
KEY_PRIMS = ["string", "int8", "int16", "int32", "int64", "uint8", "uint16", "uint32", "uint64", "size"]
ENUM_BASES = ["int8", "int16", "int32", "int64", "uint8", "uint16", "uint32", "uint64", "size"]


class Package:
    def __init__(self, namespace):
        self.namespace = namespace
        self.defs = []          # list of dicts, in file order
        self.imports = []       # list of Package
        self.files = None       # optional: list of lists of def names (file split)

    def find(self, name):
        if "." in name:
            ns, n = name.split(".", 1)
            for p in self.all_packages():
                if p.namespace == ns:
                    return p.find(n)[0], p
            raise KeyError(name)
        for d in self.defs:
            if d["name"] == name:
                return d, self
        raise KeyError(name)

    def all_packages(self):
        seen, out = set(), []

        def go(p):
            if p.namespace in seen:
                return
            seen.add(p.namespace)
            for i in p.imports:
                go(i)
            out.append(p)
        go(self)
        return out

    def protocols(self):
        return [d for d in self.defs if d["kind"] == "protocol"]


# ----------------------------------------------------------------------------- YAML emission

def q(s):
    return '"' + s + '"'


def is_simple(t):
    return t[0] in ("prim", "tparam") or (t[0] == "named")


def short(t, rng=None):
    """Shorthand string of a type if it has one (without quotes), else None."""
    k = t[0]
    if k == "raw":
        return None
    if k == "prim":
        if rng is not None and t[1] in ALIAS_OF and rng.random() < 0.4:
            return rng.choice(ALIAS_OF[t[1]])
        return t[1]
    if k == "tparam":
        return t[1]
    if k == "named":
        if not t[2]:
            return t[1]
        args = [short(a, rng) for a in t[2]]
        if any(a is None for a in args):
            return None
        return t[1] + "<" + ", ".join(args) + ">"
    if k == "opt":
        s = short(t[1], rng)
        if s is None or not is_simple(t[1]):
            return None
        return s + "?"
    if k == "vec":
        s = short(t[1], rng)
        if s is None or not (is_simple(t[1]) or t[1][0] == "opt"):
            return None
        return s + "*" + (str(t[2]) if t[2] is not None else "")
    if k == "arr":
        s = short(t[1], rng)
        if s is None or not (is_simple(t[1]) or t[1][0] == "opt"):
            return None
        kind = t[2]
        if kind[0] == "dyn":
            return s + "[]"
        if kind[0] == "rank":
            n, names = kind[1], kind[2]
            if names:
                return s + "[" + ",".join(names) + "]"
            if n == 1:
                return s + "[()]"
            return s + "[" + "," * (n - 1) + "]"
        dims, names = kind[1], kind[2]
        if names:
            return s + "[" + ", ".join(f"{n}:{d}" for n, d in zip(names, dims)) + "]"
        return s + "[" + ", ".join(str(d) for d in dims) + "]"
    if k == "map":
        ks, vs = short(t[1], rng), short(t[2], rng)
        if ks is None or vs is None or not is_simple(t[2]):
            return None
        return ks + "->" + vs
    return None


def ty_yaml(t, rng=None, expanded_p=0.25):
    """Inline (flow) YAML for a type; uses shorthand when available unless the coin says expanded."""
    s = short(t, rng)
    use_short = s is not None and (rng is None or rng.random() >= expanded_p or is_simple(t))
    if use_short:
        return q(s)
    k = t[0]
    if k == "raw":
        return t[1]     # YAML text injected verbatim (rule-violation tests)
    if k == "named":
        return "!generic {name: " + q(t[1]) + ", args: [" + ", ".join(ty_yaml(a, rng, expanded_p) for a in t[2]) + "]}"
    if k == "opt":
        return "[null, " + ty_yaml(t[1], rng, expanded_p) + "]"
    if k == "union":
        has_null, cases = t[1], t[2]
        if all(c[0] is None for c in cases):
            items = (["null"] if has_null else []) + [ty_yaml(c[1], rng, expanded_p) for c in cases]
            return "[" + ", ".join(items) + "]"
        items = (["null: null"] if has_null else []) + [f"{yname(c[0])}: {ty_yaml(c[1], rng, expanded_p)}" for c in cases]
        return "!union {" + ", ".join(items) + "}"
    if k == "vec":
        r = "!vector {items: " + ty_yaml(t[1], rng, expanded_p)
        if t[2] is not None:
            r += f", length: {t[2]}"
        return r + "}"
    if k == "arr":
        r = "!array {items: " + ty_yaml(t[1], rng, expanded_p)
        kind = t[2]
        if kind[0] == "rank":
            n, names = kind[1], kind[2]
            if names:
                r += ", dimensions: [" + ", ".join(names) + "]"
            else:
                r += f", dimensions: {n}"
        elif kind[0] == "fixed":
            dims, names = kind[1], kind[2]
            if names:
                r += ", dimensions: {" + ", ".join(f"{n}: {d}" for n, d in zip(names, dims)) + "}"
            else:
                r += ", dimensions: [" + ", ".join(str(d) for d in dims) + "]"
        return r + "}"
    if k == "map":
        return "!map {keys: " + ty_yaml(t[1], rng, expanded_p) + ", values: " + ty_yaml(t[2], rng, expanded_p) + "}"
    raise ValueError(t)


YAML_SPECIAL = {"true", "false", "null", "yes", "no", "on", "off", "y", "n", "~"}


def yname(n):
    """a mapping key that YAML would not read as a string is quoted"""
    return '"' + n + '"' if n.lower() in YAML_SPECIAL else n


def def_header(d):
    if d.get("tparams"):
        return d["name"] + "<" + ", ".join(d["tparams"]) + ">"
    return yname(d["name"])


def def_yaml(d, rng=None, expanded_p=0.25):
    out = []
    if d.get("comment"):
        out.append("# " + d["comment"])
    k = d["kind"]
    if k == "record":
        out.append(def_header(d) + ": !record")
        out.append("  fields:")
        for (n, t) in d["fields"]:
            out.append(f"    {yname(n)}: {ty_yaml(t, rng, expanded_p)}")
        if d.get("computed"):
            out.append("  computedFields:")
            for (n, e) in d["computed"]:
                out.append(f"    {yname(n)}: {e}")
    elif k == "enum":
        out.append(yname(d["name"]) + (": !flags" if d["flags"] else ": !enum"))
        if d.get("base"):
            out.append(f"  base: {d['base']}")
        if d.get("auto"):
            out.append("  values: [" + ", ".join(yname(s) for s, _ in d["values"]) + "]")
        else:
            out.append("  values:")
            for (s, v) in d["values"]:
                out.append(f"    {yname(s)}: {v}")
    elif k == "alias":
        out.append(def_header(d) + ": " + ty_yaml(d["type"], rng, expanded_p))
    elif k == "protocol":
        out.append(yname(d["name"]) + ": !protocol")
        out.append("  sequence:")
        for (n, t, st) in d["steps"]:
            if st:
                out.append(f"    {yname(n)}: !stream")
                out.append(f"      items: {ty_yaml(t, rng, expanded_p)}")
            else:
                out.append(f"    {yname(n)}: {ty_yaml(t, rng, expanded_p)}")
    else:
        raise ValueError(k)
    return "\n".join(out) + "\n"


# ----------------------------------------------------------------------------- block style

def block_lines(key, t, ind):
    """block-style YAML for `key: <type>` (every node on its own line, so that a comment can precede any of them)"""
    pad = " " * ind
    k = t[0]
    if k == "arr" and t[2][0] in ("rank", "fixed") and (t[2][0] == "fixed" or t[2][2]):
        out = [f"{pad}{key}: !array"]
        out += block_lines("items", t[1], ind + 2)
        kind = t[2]
        out.append(f"{pad}  dimensions:")
        if kind[0] == "rank":
            out += [f"{pad}    - {n}" for n in kind[2]]
        elif kind[2]:
            out += [f"{pad}    {n}: {d}" for n, d in zip(kind[2], kind[1])]
        else:
            out += [f"{pad}    - {d}" for d in kind[1]]
        return out
    if k == "vec":
        out = [f"{pad}{key}: !vector"] + block_lines("items", t[1], ind + 2)
        if t[2] is not None:
            out.append(f"{pad}  length: {t[2]}")
        return out
    if k == "map":
        return [f"{pad}{key}: !map"] + block_lines("keys", t[1], ind + 2) + block_lines("values", t[2], ind + 2)
    if k == "union" and all(c[0] is not None for c in t[2]):
        out = [f"{pad}{key}: !union"]
        if t[1]:
            out.append(f"{pad}  \"null\": null")
        for tag, c in t[2]:
            out += block_lines(yname(tag), c, ind + 2)
        return out
    if k == "opt":
        out = [f"{pad}{key}:", f"{pad}  - null"]
        inner = block_lines("x", t[1], ind + 4)
        # a sequence item: "- " replaces the dummy key
        first = inner[0].strip()
        out.append(f"{pad}  - " + first.split(": ", 1)[1] if ": " in first else f"{pad}  - " + first)
        out += inner[1:]
        return out
    return [f"{pad}{key}: {ty_yaml(t, None)}"]


def def_yaml_block(d):
    out = []
    k = d["kind"]
    if k == "record":
        out.append(def_header(d) + ": !record")
        out.append("  fields:")
        for (n, t) in d["fields"]:
            out += block_lines(yname(n), t, 4)
        if d.get("computed"):
            out.append("  computedFields:")
            for (n, e) in d["computed"]:
                out.append(f"    {yname(n)}: {e}")
    elif k == "enum":
        out.append(yname(d["name"]) + (": !flags" if d["flags"] else ": !enum"))
        if d.get("base"):
            out.append(f"  base: {d['base']}")
        out.append("  values:")
        if d.get("auto"):
            out += [f"    - {yname(s)}" for s, _ in d["values"]]
        else:
            out += [f"    {yname(s)}: {v}" for s, v in d["values"]]
    elif k == "alias":
        out += block_lines(def_header(d), d["type"], 0)
    elif k == "protocol":
        out.append(yname(d["name"]) + ": !protocol")
        out.append("  sequence:")
        for (n, t, st) in d["steps"]:
            if st:
                out.append(f"    {yname(n)}: !stream")
                out += block_lines("items", t, 6)
            else:
                out += block_lines(yname(n), t, 4)
    else:
        raise ValueError(k)
    return out


def comment_every_line(lines, tag="c"):
    """a comment line (same indentation) in front of every line — or, for tag = (text, probability, seed), in front of a
    random subset of the lines (a documented node under an undocumented one and the reverse): whatever node a comment
    attaches to, it is documentation"""
    import random as _random
    prob, rng = 1.0, None
    if isinstance(tag, tuple):
        tag, prob, seed = tag
        rng = _random.Random(seed)
    out = []
    for i, ln in enumerate(lines):
        ind = len(ln) - len(ln.lstrip())
        if rng is None or rng.random() < prob:
            out.append(" " * ind + f"# {tag}{i} documentation text, with: punctuation [and] {{braces}}")
        out.append(ln)
    return out


def detached_comment_blocks(lines, seed):
    """comment blocks that are NOT documentation: one to three blocks, each followed by an empty line, above some nodes (above the
    documentation comment of the node when it has one), and comments at the end of some lines. Documentation is only the run of
    comment lines directly above a node."""
    import random as _random
    rng = _random.Random(seed)
    out, i = [], 0
    notes = ["-------- section --------", "TODO: revisit", "NOTE: keep in sync with the firmware", "(was an int before v2)", "licence: MIT"]
    while i < len(lines):
        j = i
        while j < len(lines) and lines[j].lstrip().startswith("#"):
            j += 1            # lines[i:j] is the documentation of the node at lines[j]
        if j < len(lines):
            ind = len(lines[j]) - len(lines[j].lstrip())
            if rng.random() < 0.45 and not lines[j].lstrip().startswith("- "):
                for _ in range(rng.choice([1, 2, 2, 3])):
                    for _ in range(rng.choice([1, 1, 2])):
                        out.append(" " * ind + "# " + rng.choice(notes))
                    out.append("")
            out += lines[i:j]
            ln = lines[j]
            if rng.random() < 0.2 and ln.rstrip().endswith(":"):
                ln = ln + "   # " + rng.choice(notes)
            out.append(ln)
            if rng.random() < 0.1:
                out.append("")
            i = j + 1
        else:
            out += lines[i:j]
            i = j
    return out


def package_files(pkg, rng=None, expanded_p=0.25):
    """-> {filename: text} for the model files of one package (no _package.yml)."""
    if getattr(pkg, "block", False):
        def render(defs):
            lines = []
            for d in defs:
                lines += def_yaml_block(d) + [""]
            if getattr(pkg, "comment_lines", False):
                lines = comment_every_line([ln for ln in lines if ln.strip()], getattr(pkg, "comment_lines"))
            if getattr(pkg, "detached_comments", None) is not None:
                lines = detached_comment_blocks([ln for ln in lines if ln.strip()], getattr(pkg, "detached_comments"))
            return "\n".join(lines) + "\n"
        if pkg.files:
            return {f"m{i}.yml": render([d for d in pkg.defs if d["name"] in names]) for i, names in enumerate(pkg.files)}
        return {"model.yml": render(pkg.defs)}
    # pkg.documents = k: the definitions of every file are spread over YAML documents ('---'), a new document after every k-th definition
    docs = getattr(pkg, "documents", None)

    def join(defs):
        parts = [def_yaml(d, rng, expanded_p) for d in defs]
        if not docs:
            return "\n".join(parts)
        out = []
        for i, part in enumerate(parts):
            if i and i % docs == 0:
                out.append("---")
            out.append(part)
        return "\n".join(out)
    if pkg.files:
        res = {}
        for i, names in enumerate(pkg.files):
            defs = [d for d in pkg.defs if d["name"] in names]
            res[f"m{i}.yml"] = join(defs)
        return res
    return {"model.yml": join(pkg.defs)}


# ----------------------------------------------------------------------------- resolution

def subst(t, env):
    k = t[0]
    if k == "tparam":
        return env[t[1]]
    if k == "prim":
        return t
    if k == "named":
        return ("named", t[1], [subst(a, env) for a in t[2]])
    if k == "opt":
        return ("opt", subst(t[1], env))
    if k == "union":
        return ("union", t[1], [(c[0], subst(c[1], env)) for c in t[2]])
    if k == "vec":
        return ("vec", subst(t[1], env), t[2])
    if k == "arr":
        return ("arr", subst(t[1], env), t[2])
    if k == "map":
        return ("map", subst(t[1], env), subst(t[2], env))
    raise ValueError(t)


def enum_default_base(d, home=None):
    """the integer primitive an enum is stored as: int32 when no base is given; a base may also be a named alias (chain) of an integer primitive"""
    b = d.get("base") or "int32"
    for _ in range(10):
        if b in INT_RANGE or home is None:
            return b
        a, home2 = home.find(b)
        t = a["type"]
        b = t[1]
        if t[0] == "named":
            home = home2
    return b


def resolve(pkg, t):
    """Surface type (closed) -> wire type JSON. `pkg` is the package in whose scope `t` is written."""
    k = t[0]
    if k == "prim":
        return ["prim", t[1]]
    if k == "named":
        d, home = pkg.find(t[1])
        if d["kind"] == "enum":
            return ["enum", enum_default_base(d, home), d["flags"], [[s, v] for s, v in d["values"]]]
        args = [a for a in t[2]]
        # type arguments are written in pkg's scope; the body in home's scope. Resolve args first by
        # closing them over pkg: we substitute *resolved markers*.
        env = {p: ("resolved", resolve(pkg, a)) for p, a in zip(d.get("tparams", []), args)}
        if d["kind"] == "alias":
            return resolve(home, subst_r(d["type"], env))
        if d["kind"] == "record":
            return ["rec", [[n, resolve(home, subst_r(ft, env))] for n, ft in d["fields"]]]
        raise ValueError(d["kind"])
    if k == "resolved":
        return t[1]
    if k == "opt":
        return ["opt", resolve(pkg, t[1])]
    if k == "union":
        # list-form unions get yardl's derived tags: TypeToShortSyntax(type, qualified=false)
        def derived(ct):
            if ct[0] == "prim":
                return ct[1]
            if ct[0] == "named":
                return ct[1].split(".")[-1]
            return ""
        cases = [[c[0] or derived(c[1]), resolve(pkg, c[1])] for c in t[2]]
        if t[1] and len(cases) == 1:
            return ["opt", cases[0][1]]
        return ["union", t[1], cases]
    if k == "vec":
        return ["vec", resolve(pkg, t[1]), t[2]]
    if k == "arr":
        kind = t[2]
        kk = ["dyn"] if kind[0] == "dyn" else (["rank", kind[1]] if kind[0] == "rank" else ["fixed", list(kind[1])])
        return ["arr", resolve(pkg, t[1]), kk]
    if k == "map":
        return ["map", resolve(pkg, t[1]), resolve(pkg, t[2])]
    raise ValueError(t)


def subst_r(t, env):
    k = t[0]
    if k == "tparam":
        return env[t[1]]
    if k in ("prim", "resolved"):
        return t
    if k == "named":
        return ("named", t[1], [subst_r(a, env) for a in t[2]])
    if k == "opt":
        return ("opt", subst_r(t[1], env))
    if k == "union":
        return ("union", t[1], [(c[0], subst_r(c[1], env)) for c in t[2]])
    if k == "vec":
        return ("vec", subst_r(t[1], env), t[2])
    if k == "arr":
        return ("arr", subst_r(t[1], env), t[2])
    if k == "map":
        return ("map", subst_r(t[1], env), subst_r(t[2], env))
    raise ValueError(t)


def proto_json(pkg, proto):
    return [{"name": n, "ty": resolve(pkg, t), "stream": bool(st)} for (n, t, st) in proto["steps"]]


# ----------------------------------------------------------------------------- model generation

class Gen:
    def __init__(self, seed, *, json_safe=False, cpp_json_safe=False, allow_imports=True,
                 allow_generics=True, max_depth=3, features=None):
        self.rng = random.Random(seed)
        self.json_safe = json_safe          # avoid NaN/inf floats in values
        self.cpp_json_safe = cpp_json_safe  # avoid date/time/datetime (shim cannot format them)
        self.allow_imports = allow_imports
        self.allow_generics = allow_generics
        self.max_depth = max_depth
        self.bare_tparam_alias = False
        self.allow_some_none = False
        # regions of known findings, avoided by default (each has a witness replayed by its owner):
        self.avoid_bool_sequences = True      # C08: `bool*` / stream of bool does not compile in C++
        self.avoid_py_array_regions = True    # C03: Python arrays of variable-length vectors / of records
                                              #      holding optional date/time/datetime
        self.avoided = {}
        self.avoid_alias_inline_union = True
        self.simple_array_elements = True     # arrays hold scalars or records of scalars (see DESIGN §8)
        self.counter = 0
        self.cov = {}

    def hit(self, k):
        self.cov[k] = self.cov.get(k, 0) + 1

    def fresh(self, prefix):
        self.counter += 1
        return f"{prefix}{self.counter}"

    def prims(self):
        ps = list(PRIMS)
        if self.cpp_json_safe:
            ps = [p for p in ps if p not in ("date", "time", "datetime")]
        return ps

    # --- types
    def gen_type(self, pkg, depth, tparams=(), allow_union=True, avail=None):
        """Random surface type valid in `pkg`'s scope, using definitions in `avail` (name list)."""
        r = self.rng
        avail = avail if avail is not None else self.avail(pkg)
        if depth <= 0:
            # no generic instantiation at the leaves: keeps the size of type expressions bounded
            avail = [n for n in avail if not pkg.find(n)[0].get("tparams")]
        choices = ["prim"] * 5
        if avail:
            choices += ["named"] * 4
        if tparams:
            choices += ["tparam"] * 3
        if depth > 0:
            choices += ["opt", "vec", "vec", "arr", "arr", "map"]
            if allow_union:
                choices += ["union", "union"]
        c = r.choice(choices)
        self.hit("ty." + c)
        if c == "prim":
            return ("prim", r.choice(self.prims()))
        if c == "tparam":
            return ("tparam", r.choice(list(tparams)))
        if c == "named":
            name = r.choice(avail)
            d, _ = pkg.find(name)
            args = []
            for _ in d.get("tparams", []):
                # type arguments are never nullable/unions: `T?` or `[T, x]` inside the generic
                # definition would become a nested union, which yardl rejects
                for _try in range(20):
                    a = self.gen_type(pkg, max(depth - 1, 0), tparams, allow_union=False, avail=avail)
                    if self.avoid_bool_sequences and self.canon(pkg, a) == ["prim", "bool"]:
                        # `G<bool>` may instantiate `T*` as std::vector<bool> (C08 finding region)
                        self.avoided["bool_type_arg"] = self.avoided.get("bool_type_arg", 0) + 1
                        continue
                    if self.avoid_alias_inline_union and has_inline_union(a):
                        # inline union inside a type argument: Python back end emits a bad union
                        # class reference (C08 finding region)
                        self.avoided["typearg_inline_union"] = self.avoided.get("typearg_inline_union", 0) + 1
                        continue
                    if a[0] == "tparam" or not (self.is_nullable(pkg, a) or self.is_union(pkg, a)):
                        break
                else:
                    a = ("prim", "int32")
                args.append(a)
            if args:
                self.hit("generic.instance")
            if "." in name:
                self.hit("imported.ref")
            return ("named", name, args)
        if c == "opt":
            inner = self.gen_type(pkg, depth - 1, tparams, allow_union=False, avail=avail)
            if self.is_nullable(pkg, inner):
                return inner
            if inner[0] in ("vec", "arr", "map") and inner[-2 if inner[0] != "map" else -1][0] in ("opt", "union"):
                return inner  # `[null, <container of inline union>]` is rejected by yardl
            return ("opt", inner)
        if c == "vec":
            inner = self.gen_type(pkg, depth - 1, tparams, avail=avail)
            if self.avoid_bool_sequences and self.canon(pkg, inner) == ["prim", "bool"]:
                self.avoided["vec_of_bool"] = self.avoided.get("vec_of_bool", 0) + 1
                inner = ("prim", "uint8")
            return ("vec", inner, r.choice([None, None, 1, 2, 3]))
        if c == "arr":
            inner = self.gen_type(pkg, depth - 1, tparams, avail=avail)
            if self.avoid_py_array_regions and self.py_array_risky(pkg, inner):
                self.avoided["py_array_region"] = self.avoided.get("py_array_region", 0) + 1
                inner = ("prim", r.choice(self.prims()))
            kk = r.choice(["dyn", "rank", "rank", "fixed", "fixed"])
            if kk == "dyn":
                kind = ("dyn",)
            elif kk == "rank":
                n = r.choice([1, 2, 3])
                names = [f"d{i}" for i in range(n)] if r.random() < 0.3 else None
                kind = ("rank", n, names)
            else:
                n = r.choice([1, 2, 3])
                dims = [r.choice([1, 2, 3]) for _ in range(n)]
                names = [f"d{i}" for i in range(n)] if r.random() < 0.3 else None
                kind = ("fixed", dims, names)
            return ("arr", inner, kind)
        if c == "map":
            kt = ("prim", r.choice(KEY_PRIMS))
            # a named alias of a scalar primitive is a legal key as well (the rule looks at the underlying type)
            key_aliases = [n for n in avail if not pkg.find(n)[0].get("tparams") and pkg.find(n)[0]["kind"] == "alias"
                           and self.canon(pkg, ("named", n, []))[0] == "prim" and self.canon(pkg, ("named", n, []))[1] in KEY_PRIMS]
            if key_aliases and r.random() < 0.4:
                kt = ("named", r.choice(key_aliases), [])
                self.hit("map.key-through-alias")
            vt = self.gen_type(pkg, depth - 1, tparams, avail=avail)
            return ("map", kt, vt)
        if c == "union":
            n = r.choice([2, 2, 3, 4])
            has_null = r.random() < 0.4
            cases, seen = [], set()
            tries = 0
            while len(cases) < n and tries < 30:
                tries += 1
                # no type parameters inside union cases: instantiation may make two cases equal
                # (rejected by yardl), and open-generic cases are the region of a known finding (C02)
                ct = self.gen_type(pkg, depth - 1, (), allow_union=False, avail=avail)
                if self.is_nullable(pkg, ct) or self.is_union(pkg, ct):
                    continue
                if ct[0] in ("vec", "arr", "map") and ct[-2 if ct[0] != "map" else -1][0] in ("opt", "union"):
                    # yardl rejects a union case that is a container of an inline union/optional
                    # ("unions may not immediately contain other unions")
                    continue
                key = repr(self.canon(pkg, ct)).replace("'size'", "'uint64'")  # yardl: size ≡ uint64 here
                if key in seen:
                    continue
                seen.add(key)
                cases.append(ct)
            if len(cases) < 2:
                return ("prim", "int32")
            simple = all(c[0] == "prim" or (c[0] == "named" and not c[2]) for c in cases) and r.random() < 0.6
            if simple:
                # yardl derives tags from the type names; they must be distinct
                names = [c[1].split(".")[-1] for c in cases]
                if len(set(n.lower() for n in names)) == len(names):
                    return ("union", has_null, [(None, c) for c in cases])
            self.counter += 1
            return ("union", has_null, [(f"u{self.counter}c{i}", c) for i, c in enumerate(cases)])
        raise ValueError(c)

    def py_array_risky(self, pkg, t):
        w = self.canon(pkg, t)

        def has_opt_time(x):
            if not isinstance(x, list):
                return False
            if x[0] == "opt" and x[1][0] == "prim" and x[1][1] in ("date", "time", "datetime"):
                return True
            if x[0] == "rec":
                return any(has_opt_time(f[1]) for f in x[1])
            if x[0] in ("opt", "vec", "arr"):
                return has_opt_time(x[1])
            if x[0] == "union":
                return any(has_opt_time(c[1]) for c in x[2])
            if x[0] == "map":
                return has_opt_time(x[2])
            return False

        def has_tparam(x):
            return isinstance(x, list) and (x[0] == "tparam" or any(has_tparam(y) for y in x if isinstance(y, list)))
        if not isinstance(w, list):
            return True
        if has_tparam(w):
            return True   # element type depends on a type parameter: cannot rule the regions out
        if self.simple_array_elements:
            # default profile: numeric-style arrays (primitives, enums/flags, records of scalars)
            def scalar(x):
                return x[0] in ("prim", "enum")
            return not (scalar(w) or (w[0] == "rec" and all(
                scalar(f[1]) and f[1][1] not in ("string", "date", "time", "datetime") for f in w[1])))
        if w[0] == "vec" and w[2] is None:
            return True
        return has_opt_time(w)

    def canon(self, pkg, t):
        """Canonical form used only to keep union cases distinct after alias resolution."""
        try:
            return resolve(pkg, subst_all_tparams(t))
        except Exception:
            return t

    def is_nullable(self, pkg, t):
        w = self.canon(pkg, t)
        return isinstance(w, list) and (w[0] == "opt" or (w[0] == "union" and w[1]))

    def is_union(self, pkg, t):
        w = self.canon(pkg, t)
        return isinstance(w, list) and w[0] in ("union", "opt")

    def avail(self, pkg):
        names = [d["name"] for d in pkg.defs if d["kind"] != "protocol"]
        for imp in pkg.imports:
            for p in imp.all_packages():
                if p is imp:
                    names += [p.namespace + "." + d["name"] for d in p.defs if d["kind"] != "protocol"]
        return names

    # --- definitions
    def gen_enum(self, pkg):
        r = self.rng
        flags = r.random() < 0.4
        name = self.fresh("F" if flags else "E")
        n = r.choice([1, 2, 3, 5])
        base = r.choice(ENUM_BASES) if r.random() < 0.5 else None
        eff = base or "int32"
        lo, hi = INT_RANGE[eff]
        auto = r.random() < 0.4
        vals = []
        if auto:
            for i in range(n):
                vals.append((f"v{i}", (1 << i) if flags else i))
        else:
            used = set()
            for i in range(n):
                while True:
                    if flags:
                        v = 1 << r.randrange(0, min(7, hi.bit_length()))
                        if r.random() < 0.2:
                            v |= 1 << r.randrange(0, min(7, hi.bit_length()))
                    else:
                        v = r.choice([0, 1, 2, 5, 17, hi, lo, r.randint(lo, hi)])
                    if v not in used and lo <= v <= hi:
                        used.add(v)
                        break
                vals.append((f"v{i}", v))
        self.hit("def.flags" if flags else "def.enum")
        if base is not None and r.random() < 0.35:
            # the base type through a named alias (the enum is stored as the alias's primitive)
            alias = self.fresh("Base")
            pkg.defs.append({"kind": "alias", "name": alias, "tparams": [], "type": ("prim", base)})
            base = alias
            self.hit("def.enum-base-through-alias")
        d = {"kind": "enum", "name": name, "flags": flags, "base": base, "values": vals, "auto": auto}
        pkg.defs.append(d)
        return d

    def gen_record(self, pkg, generic=False):
        r = self.rng
        name = self.fresh("G" if generic else "R")
        tparams = []
        if generic:
            tparams = ["T"] if r.random() < 0.7 else ["T", "U"]
        avail = self.avail(pkg)
        nf = r.choice([1, 2, 3, 4, 6])
        fields = []
        for i in range(nf):
            fields.append((f"f{i}", self.gen_type(pkg, self.max_depth, tparams, avail=avail)))
        # every type parameter must be used
        for i, tp in enumerate(tparams):
            if not any(uses_tparam(ft, tp) for _, ft in fields):
                fields.append((f"g{i}", r.choice([("tparam", tp), ("vec", ("tparam", tp), None), ("opt", ("tparam", tp))])))
        self.hit("def.generic_record" if generic else "def.record")
        d = {"kind": "record", "name": name, "tparams": tparams, "fields": fields}
        pkg.defs.append(d)
        return d

    def gen_alias(self, pkg, generic=False):
        r = self.rng
        name = self.fresh("GA" if generic else "A")
        tparams = ["T"] if generic else []
        avail = self.avail(pkg)
        t = self.gen_type(pkg, self.max_depth, tparams, avail=avail)
        if self.avoid_alias_inline_union:
            for _try in range(30):
                if not has_inline_union(t):
                    break
                # an inline union (>= 2 non-null cases) inside an alias definition: the Python back end
                # does not emit/export its union class (C08 finding region), avoided
                self.avoided["alias_inline_union"] = self.avoided.get("alias_inline_union", 0) + 1
                t = self.gen_type(pkg, self.max_depth, tparams, avail=avail)
            else:
                t = ("prim", "int32")
        if generic and (not uses_tparam(t, "T") or (t[0] == "tparam" and not self.bare_tparam_alias)):
            # `GA<T>: T` (alias of a bare type parameter) is the region of a known finding (C08:
            # generated Python `GA = T` is not subscriptable); avoided unless asked for
            t = r.choice([("vec", ("tparam", "T"), None), ("vec", ("tparam", "T"), 2),
                          ("map", ("prim", "string"), ("tparam", "T"))]
                         + ([] if self.avoid_py_array_regions else [("arr", ("tparam", "T"), ("dyn",))])
                         + ([("tparam", "T")] if self.bare_tparam_alias else []))
        self.hit("def.generic_alias" if generic else "def.alias")
        d = {"kind": "alias", "name": name, "tparams": tparams, "type": t}
        pkg.defs.append(d)
        return d

    def gen_protocol(self, pkg, nsteps=None):
        r = self.rng
        name = self.fresh("P")
        n = nsteps or r.choice([1, 2, 3, 4, 6])
        steps = []
        avail = self.avail(pkg)
        for i in range(n):
            st = r.random() < 0.5
            t = self.gen_type(pkg, self.max_depth, (), avail=avail)
            if st and self.avoid_bool_sequences and self.canon(pkg, t) == ["prim", "bool"]:
                self.avoided["stream_of_bool"] = self.avoided.get("stream_of_bool", 0) + 1
                t = ("prim", "int8")
            steps.append((f"s{i}", t, st))
            self.hit("step.stream" if st else "step.single")
        d = {"kind": "protocol", "name": name, "steps": steps}
        pkg.defs.append(d)
        return d

    def gen_package(self, namespace="Ns", n_imports=None, n_defs=None, n_protocols=None, imported=False):
        r = self.rng
        pkg = Package(namespace)
        if self.allow_imports and not imported:
            k = n_imports if n_imports is not None else r.choice([0, 0, 1, 2])
            for i in range(k):
                pkg.imports.append(self.gen_package(f"{namespace}Imp{i}", n_defs=r.choice([2, 3, 4]),
                                                    n_protocols=0, imported=True))
                self.hit("pkg.import")
        nd = n_defs if n_defs is not None else r.choice([3, 5, 7])
        for _ in range(nd):
            c = r.choice(["enum", "record", "record", "alias", "grecord", "galias"] if self.allow_generics
                         else ["enum", "record", "record", "alias"])
            if c == "enum":
                self.gen_enum(pkg)
            elif c == "record":
                self.gen_record(pkg)
            elif c == "alias":
                self.gen_alias(pkg)
            elif c == "grecord":
                self.gen_record(pkg, generic=True)
            else:
                self.gen_alias(pkg, generic=True)
        np_ = n_protocols if n_protocols is not None else r.choice([1, 2])
        for _ in range(np_):
            self.gen_protocol(pkg)
        return pkg

    # --- values
    def gen_int(self, p):
        r = self.rng
        if p in ("date",):
            return r.choice([0, 1, -1, 19000, -719162, 2932896, r.randint(-100000, 100000)])
        if p == "time":
            return r.choice([0, 1, 86399999999999, 3600 * 10**9, r.randint(0, 86399999999999)])
        if p == "datetime":
            return r.choice([0, 1, -1, 1700000000 * 10**9, r.randint(-2**40, 2**62)])
        lo, hi = INT_RANGE[p]
        edge = [lo, hi, 0, 1, 127, 128, 255, 256, 16383, 16384, 2**31 - 1, 2**31, 2**32 - 1, 2**32, 2**63 - 1]
        if lo < 0:
            edge += [-1, -64, -65, -128, -129, -2**31, -2**31 - 1]
        edge = [e for e in edge if lo <= e <= hi]
        if r.random() < 0.5:
            return r.choice(edge)
        return r.randint(lo, hi)

    def gen_f32bits(self):
        r = self.rng
        specials = [0, 0x80000000, 0x3f800000, 0xbf800000, 0x7f7fffff, 0x00000001, 0x3dcccccd]
        if not self.json_safe:
            specials += [0x7f800000, 0xff800000, 0x7fc00000, 0x7fc00001, 0xffc12345]
        if r.random() < 0.5:
            return r.choice(specials)
        while True:
            b = r.getrandbits(32)
            if self.json_safe and (b >> 23) & 0xff == 0xff:
                continue
            return b

    def gen_f64bits(self):
        r = self.rng
        specials = [0, 1 << 63, 0x3ff0000000000000, 0xbff0000000000000, 0x7fefffffffffffff, 1, 0x3fb999999999999a]
        if not self.json_safe:
            specials += [0x7ff0000000000000, 0xfff0000000000000, 0x7ff8000000000000, 0x7ff8000000000001, 0xfff8123456789abc]
        if r.random() < 0.5:
            return r.choice(specials)
        while True:
            b = r.getrandbits(64)
            if self.json_safe and (b >> 52) & 0x7ff == 0x7ff:
                continue
            return b

    def gen_string(self, maxlen=12):
        r = self.rng
        n = r.choice([0, 0, 1, 2, 5, maxlen])
        alphabet = ["a", "b", "Z", "0", " ", "é", "ß", "€", "漢", "😀", "\"", "\\", "/", "\n", "\t", " ", "{", "}"]
        return "".join(r.choice(alphabet) for _ in range(n))

    def gen_value(self, ty, size=3):
        """ty is a wire type JSON; returns a Val JSON."""
        r = self.rng
        k = ty[0]
        if k == "prim":
            p = ty[1]
            if p == "bool":
                return ["b", r.random() < 0.5]
            if p in INT_RANGE or p in ("date", "time", "datetime"):
                return ["i", self.gen_int(p)]
            if p == "float32":
                return ["f32", self.gen_f32bits()]
            if p == "float64":
                return ["f64", self.gen_f64bits()]
            if p == "complexfloat32":
                return ["c32", self.gen_f32bits(), self.gen_f32bits()]
            if p == "complexfloat64":
                return ["c64", self.gen_f64bits(), self.gen_f64bits()]
            if p == "string":
                return ["s", self.gen_string().encode("utf-8").hex()]
            raise ValueError(p)
        if k == "enum":
            base, flags, syms = ty[1], ty[2], ty[3]
            lo, hi = INT_RANGE[base]
            if flags:
                v = 0
                for _, sv in syms:
                    if r.random() < 0.5:
                        v |= sv
                if r.random() < 0.15:
                    # undefined bits are fine; negative values (sign bit of a signed base) are the
                    # region of a known finding (C03: Python IntFlag drops the sign bit), avoided
                    v = r.choice([0, hi, r.randint(0, hi)])
                return ["i", v]
            if r.random() < 0.85:
                return ["i", r.choice(syms)[1]]
            return ["i", r.randint(lo, hi)]
        if k == "rec":
            return ["rec", [self.gen_value(ft, size) for _, ft in ty[1]]]
        if k == "opt":
            if r.random() < 0.35:
                return ["none"]
            inner = self.gen_value(ty[1], size)
            if (self.json_safe or not self.allow_some_none) and inner == ["none"]:
                # some(none) of a nested optional (only reachable through an alias) is not representable
                # in JSON (both are null) nor in Python (Optional[Optional[T]] collapses): region of a
                # known finding (C03), avoided unless asked for
                for _ in range(20):
                    inner = self.gen_value(ty[1], size)
                    if inner != ["none"]:
                        break
                else:
                    return ["none"]
            return ["some", inner]
        if k == "union":
            has_null, cases = ty[1], ty[2]
            if has_null and r.random() < 0.25:
                return ["none"]
            i = r.randrange(len(cases))
            return ["case", i, self.gen_value(cases[i][1], size)]
        if k == "vec":
            n = ty[2] if ty[2] is not None else r.choice([0, 1, 2, size])
            return ["list", [self.gen_value(ty[1], max(size - 1, 1)) for _ in range(n)]]
        if k == "arr":
            kind = ty[2]
            if kind[0] == "dyn":
                nd = r.choice([0, 1, 2, 3])
                shape = [r.choice([0, 1, 2, 3]) for _ in range(nd)]
            elif kind[0] == "rank":
                shape = [r.choice([0, 1, 2, 3]) for _ in range(kind[1])]
            else:
                shape = list(kind[1])
            n = 1
            for d in shape:
                n *= d
            return ["arr", shape, [self.gen_value(ty[1], max(size - 1, 1)) for _ in range(n)]]
        if k == "map":
            n = r.choice([0, 1, 2, size])
            kvs, seen = [], set()
            for _ in range(n):
                kv = self.gen_value(ty[1], 1)
                key = repr(kv)
                if key in seen:
                    continue
                seen.add(key)
                kvs.append([kv, self.gen_value(ty[2], max(size - 1, 1))])
            return ["map", kvs]
        raise ValueError(ty)

    def gen_step_vals(self, proto_js, stream_len=None, size=3):
        vals = []
        for s in proto_js:
            if s["stream"]:
                n = stream_len if stream_len is not None else self.rng.choice([0, 1, 2, 3, 5, 9])
                vals.append(["stream", [self.gen_value(s["ty"], size) for _ in range(n)]])
            else:
                vals.append(["single", self.gen_value(s["ty"], size)])
        return vals

    def gen_partition(self, n):
        """Random block partition of n items (positive block sizes summing to n)."""
        r = self.rng
        parts = []
        left = n
        while left > 0:
            b = r.choice([1, 1, 2, 3, left])
            b = min(b, left)
            parts.append(b)
            left -= b
        return parts


def has_inline_union(t):
    k = t[0]
    if k == "union":
        return True
    if k in ("opt", "vec", "arr"):
        return has_inline_union(t[1])
    if k == "map":
        return has_inline_union(t[1]) or has_inline_union(t[2])
    if k == "named":
        return any(has_inline_union(a) for a in t[2])
    return False


def uses_tparam(t, name):
    k = t[0]
    if k == "tparam":
        return t[1] == name
    if k == "prim":
        return False
    if k == "named":
        return any(uses_tparam(a, name) for a in t[2])
    if k == "opt":
        return uses_tparam(t[1], name)
    if k == "union":
        return any(uses_tparam(c[1], name) for c in t[2])
    if k in ("vec", "arr"):
        return uses_tparam(t[1], name)
    if k == "map":
        return uses_tparam(t[1], name) or uses_tparam(t[2], name)
    return False


def subst_all_tparams(t):
    """Replace type parameters by distinct fresh primitive markers (for distinctness checks)."""
    k = t[0]
    if k == "tparam":
        return ("resolved", ["tparam", t[1]])
    if k == "prim":
        return t
    if k == "named":
        return ("named", t[1], [subst_all_tparams(a) for a in t[2]])
    if k == "opt":
        return ("opt", subst_all_tparams(t[1]))
    if k == "union":
        return ("union", t[1], [(c[0], subst_all_tparams(c[1])) for c in t[2]])
    if k == "vec":
        return ("vec", subst_all_tparams(t[1]), t[2])
    if k == "arr":
        return ("arr", subst_all_tparams(t[1]), t[2])
    if k == "map":
        return ("map", subst_all_tparams(t[1]), subst_all_tparams(t[2]))
    return t


# ----------------------------------------------------------------------------- value canonicalisation

def canon_val(v):
    """Sort map entries (by canonical JSON of the key) so values compare up to map order."""
    import json
    k = v[0]
    if k == "f32":
        return ["f32", "nan"] if (v[1] >> 23) & 0xff == 0xff and v[1] & 0x7fffff else v
    if k == "f64":
        return ["f64", "nan"] if (v[1] >> 52) & 0x7ff == 0x7ff and v[1] & ((1 << 52) - 1) else v
    if k == "c32":
        return ["c32"] + [canon_val(["f32", x])[1] for x in v[1:]]
    if k == "c64":
        return ["c64"] + [canon_val(["f64", x])[1] for x in v[1:]]
    if k in ("some",):
        return ["some", canon_val(v[1])]
    if k == "case":
        return ["case", v[1], canon_val(v[2])]
    if k == "list":
        return ["list", [canon_val(x) for x in v[1]]]
    if k == "arr":
        return ["arr", v[1], [canon_val(x) for x in v[2]]]
    if k == "rec":
        return ["rec", [canon_val(x) for x in v[1]]]
    if k == "map":
        kvs = [[canon_val(a), canon_val(b)] for a, b in v[1]]
        kvs.sort(key=lambda kv: json.dumps(kv[0]))
        return ["map", kvs]
    return v


def first_diff(a, b, path="$"):
    """path and the two sub-values at the first place where two (canonical) values differ, or None"""
    if a == b:
        return None
    if isinstance(a, list) and isinstance(b, list) and len(a) == len(b):
        for i, (x, y) in enumerate(zip(a, b)):
            d = first_diff(x, y, f"{path}[{i}]")
            if d:
                return d
    import json
    return {"path": path, "expected": json.dumps(a)[:300], "got": json.dumps(b)[:300]}


def canon_stepvals(vals):
    out = []
    for sv in vals:
        if sv[0] == "single":
            out.append(["single", canon_val(sv[1])])
        else:
            out.append(["stream", [canon_val(x) for x in sv[1]]])
    return out


# ----------------------------------------------------------------------------- directed models

def padding_defs():
    """records with padding between fields but none after the last one (not a contiguous run of their fields' bytes), at every
    position where a back end may take a whole-value shortcut: scalar, vector, fixed vector, arrays"""
    P = lambda n: ("prim", n)
    defs = []
    class _P:   # noqa: N801
        pass
    pkg = _P()
    pkg.defs = defs
    # records with padding between fields but none after the last one: not a contiguous run of their fields' bytes
    pkg.defs.append({"kind": "record", "name": "PadA", "tparams": [], "fields": [("gain", P("float32")), ("offset", P("float64"))]})
    pkg.defs.append({"kind": "record", "name": "PadB", "tparams": [], "fields": [("flag", P("bool")), ("value", P("float32"))]})
    pkg.defs.append({"kind": "record", "name": "PadC", "tparams": [], "fields": [("id", P("uint8")), ("z", P("complexfloat64"))]})
    pkg.defs.append({"kind": "record", "name": "PadD", "tparams": [], "fields": [("a", P("int8")), ("b", P("int16")), ("c", P("float32")), ("d", P("float64"))]})
    pkg.defs.append({"kind": "record", "name": "PadE", "tparams": [], "fields": [("p", ("named", "PadB", [])), ("q", ("vec", P("float64"), 2))]})
    # array elements holding a nested record whose fields are not fixed-width (read element by element)
    pkg.defs.append({"kind": "record", "name": "NestInner", "tparams": [], "fields": [("a", P("int32")), ("u", P("uint64"))]})
    pkg.defs.append({"kind": "record", "name": "NestOuter", "tparams": [], "fields": [("inner", ("named", "NestInner", [])), ("b", P("float32")), ("deep", ("named", "PadE", []))]})
    steps = []
    for i, nme in enumerate(["PadA", "PadB", "PadC", "PadD", "PadE", "NestOuter"]):
        steps.append((f"s{i}", ("named", nme, []), i % 2 == 0))
        steps.append((f"v{i}", ("vec", ("named", nme, []), None), i % 2 == 1))
        steps.append((f"w{i}", ("vec", ("named", nme, []), 2), False))
        steps.append((f"r{i}", ("arr", ("named", nme, []), ("rank", 1, None)), True))
        steps.append((f"f{i}", ("arr", ("named", nme, []), ("fixed", [2], None)), False))
    pkg.defs.append({"kind": "protocol", "name": "PPad", "steps": steps})
    return defs


def padding_package(namespace="Pad"):
    pkg = Package(namespace)
    pkg.defs = padding_defs()
    return pkg


def nullable_package(namespace="Nul"):
    """Records whose fields can be null in every way a type can say so (directly, through aliases, alias chains, generic
    aliases, unions with a null case, named unions with a null case, nested records) next to fields that cannot, as single
    steps and as streams. NDJSON omits a null field: a reader that fills a reused object must reset it. No date / time types
    (the C++ stand-in for date.h cannot format them)."""
    pkg = Package(namespace)
    P = lambda n: ("prim", n)
    pkg.defs.append({"kind": "enum", "name": "NE", "flags": False, "base": None, "auto": True, "values": [("a", 0), ("b", 1), ("c", 2)]})
    pkg.defs.append({"kind": "alias", "name": "MaybeInt", "tparams": [], "type": ("opt", P("int32"))})
    pkg.defs.append({"kind": "alias", "name": "MaybeIntAgain", "tparams": [], "type": ("named", "MaybeInt", [])})
    pkg.defs.append({"kind": "alias", "name": "MaybeStr", "tparams": [], "type": ("opt", P("string"))})
    pkg.defs.append({"kind": "alias", "name": "Opt", "tparams": ["T"], "type": ("opt", ("tparam", "T"))})
    pkg.defs.append({"kind": "alias", "name": "OptU", "tparams": [], "type": ("union", True, [(None, P("int32")), (None, P("string"))])})
    pkg.defs.append({"kind": "alias", "name": "OptTagged", "tparams": [], "type": ("union", True, [("num", P("float64")), ("txt", P("string")), ("lst", ("vec", P("int32"), None))])})
    pkg.defs.append({"kind": "record", "name": "Inner", "tparams": [],
                     "fields": [("x", ("named", "MaybeInt", [])), ("y", P("string")), ("z", ("opt", ("named", "NE", [])))]})
    pkg.defs.append({"kind": "alias", "name": "MaybeInner", "tparams": [], "type": ("opt", ("named", "Inner", []))})
    pkg.defs.append({"kind": "record", "name": "Nulls", "tparams": [],
                     "fields": [("direct", ("opt", P("int32"))), ("aliased", ("named", "MaybeInt", [])), ("chained", ("named", "MaybeIntAgain", [])),
                                ("text", ("named", "MaybeStr", [])), ("generic", ("named", "Opt", [P("float64")])), ("genericRec", ("named", "Opt", [("named", "Inner", [])])),
                                ("untagged", ("named", "OptU", [])), ("tagged", ("named", "OptTagged", [])), ("inline", ("union", True, [(None, P("int32")), (None, P("string"))])),
                                ("inner", ("named", "Inner", [])), ("maybeInner", ("named", "MaybeInner", [])), ("plain", P("int32")),
                                ("vec", ("vec", P("int32"), None)), ("optVec", ("opt", ("vec", P("string"), None))), ("map", ("map", P("string"), ("named", "MaybeInt", []))),
                                ("en", ("opt", ("named", "NE", []))), ("last", ("named", "MaybeStr", []))]})
    pkg.defs.append({"kind": "record", "name": "Box", "tparams": ["T"], "fields": [("v", ("tparam", "T")), ("o", ("opt", ("tparam", "T"))), ("n", P("int32"))]})
    pkg.defs.append({"kind": "protocol", "name": "PNul", "steps": [
        ("head", ("named", "Nulls", []), False),
        ("items", ("named", "Nulls", []), True),
        ("inners", ("named", "Inner", []), True),
        ("boxes", ("named", "Box", [("named", "MaybeInt", [])]), True),
        ("boxed", ("named", "Box", [("named", "Inner", [])]), True),
        ("aliased", ("named", "MaybeInner", []), True),
        ("tail", ("named", "MaybeIntAgain", []), False)]})
    return pkg


def untagged_unions_package(namespace="Unt", small=False):
    """Unions of every ordered pair of types whose JSON representations differ (boolean, number, string, object, array):
    NDJSON writes them without a tag and the reader recovers the case from the JSON type of the value alone - for both orders
    of the cases, with and without a null case, as steps, stream items, record fields and vector elements."""
    pkg = Package(namespace)
    P = lambda n: ("prim", n)
    pkg.defs.append({"kind": "record", "name": "URec", "tparams": [], "fields": [("a", P("int32")), ("b", P("string"))]})
    pkg.defs.append({"kind": "enum", "name": "UEn", "flags": False, "base": None, "auto": True, "values": [("one", 0), ("two", 1)]})
    reps = [("b", P("bool"), "boolean"), ("i", P("int32"), "number"), ("f", P("float64"), "number"), ("s", P("string"), "string"),
            ("r", ("named", "URec", []), "object"), ("v", ("vec", P("int32"), None), "array")]
    if not small:
        reps += [("u", P("uint64"), "number"), ("e", ("named", "UEn", []), "string"), ("m", ("map", P("string"), P("int32")), "object")]
    pairs = [(a, b) for a in reps for b in reps if a[2] != b[2]]
    fields, steps = [], []
    for k, (a, b) in enumerate(pairs):
        u = ("union", False, [(None, a[1]), (None, b[1])]) if a[1][0] in ("prim", "named") and b[1][0] in ("prim", "named") else \
            ("union", False, [(f"x{a[0]}{k}", a[1]), (f"y{b[0]}{k}", b[1])])
        steps.append((f"p{a[0]}{b[0]}", u, True))
        if k % 3 == 0:
            un = ("union", True, list(u[2]))
            fields.append((f"n{a[0]}{b[0]}", un))
        if k % 3 == 1:
            fields.append((f"w{a[0]}{b[0]}", ("vec", u, None)))
    pkg.defs.append({"kind": "record", "name": "UFields", "tparams": [], "fields": fields})
    half = len(steps) // 2
    pkg.defs.append({"kind": "protocol", "name": "PUntA", "steps": steps[:half] + [("recs", ("named", "UFields", []), True)]})
    pkg.defs.append({"kind": "protocol", "name": "PUntB", "steps": steps[half:]})
    # cases that are named aliases (of a primitive, a record, a vector) and instances of a generic alias
    pkg.defs.append({"kind": "alias", "name": "UIntAlias", "tparams": [], "type": P("int32")})
    pkg.defs.append({"kind": "alias", "name": "URecAlias", "tparams": [], "type": ("named", "URec", [])})
    pkg.defs.append({"kind": "alias", "name": "UVecAlias", "tparams": [], "type": ("vec", P("float32"), None)})
    pkg.defs.append({"kind": "alias", "name": "UGenAlias", "tparams": ["T"], "type": ("vec", ("tparam", "T"), None)})
    pkg.defs.append({"kind": "protocol", "name": "PUntAliases", "steps": [
        ("ia", ("union", False, [(None, ("named", "UIntAlias", [])), (None, P("string"))]), True),
        ("ra", ("union", True, [(None, ("named", "URecAlias", [])), (None, P("bool"))]), True),
        ("va", ("union", False, [("vecA", ("named", "UVecAlias", [])), ("intA", ("named", "UIntAlias", [])), ("recA", ("named", "URecAlias", []))]), True),
        ("ga", ("union", False, [("genA", ("named", "UGenAlias", [P("int32")])), ("strA", P("string"))]), False)]})
    # three distinct kinds at once, every rotation
    tri = [P("bool"), P("int32"), P("string")]
    pkg.defs.append({"kind": "protocol", "name": "PUntC", "steps": [
        (f"t{i}", ("union", i % 2 == 1, [(None, tri[i % 3]), (None, tri[(i + 1) % 3]), (None, tri[(i + 2) % 3])]), True) for i in range(3)]})
    return pkg


def instantiations_package(namespace="Inst"):
    """one generic record instantiated many times in one protocol, with type arguments that share their outermost constructor and differ inside
    (vectors, optionals, maps, arrays, enums, nested instantiations of different element types): whatever a back end keeps per instantiation
    (serializer objects, dtypes, converters) must be kept per *whole* type argument"""
    pkg = Package(namespace)
    P = lambda n: ("prim", n)
    pkg.defs.append({"kind": "record", "name": "Labeled", "tparams": ["T"], "fields": [("label", P("string")), ("v", ("tparam", "T"))]})
    pkg.defs.append({"kind": "record", "name": "Two", "tparams": ["A", "B"], "fields": [("a", ("tparam", "A")), ("b", ("tparam", "B"))]})
    pkg.defs.append({"kind": "enum", "name": "Ea", "flags": False, "base": "uint8", "auto": True, "values": [("x", 0), ("y", 1)]})
    pkg.defs.append({"kind": "enum", "name": "Eb", "flags": False, "base": "int64", "auto": False, "values": [("p", -5), ("q", 70000)]})
    L = lambda t: ("named", "Labeled", [t])
    T = lambda a, b: ("named", "Two", [a, b])
    args = [("vec", P("float32"), None), ("vec", P("float64"), None), ("vec", P("int16"), None), ("opt", P("int32")), ("opt", P("string")), ("opt", P("float64")),
            ("map", P("string"), P("int8")), ("map", P("string"), P("float64")), ("map", P("uint32"), P("string")),
            ("arr", P("float32"), ("fixed", [2], None)), ("arr", P("int32"), ("fixed", [2], None)), ("vec", P("uint8"), 3), ("vec", P("float64"), 3),
            ("named", "Ea", []), ("named", "Eb", []), L(P("int32")), L(P("float32")), L(("vec", P("string"), None)), L(("vec", P("uint64"), None))]
    steps = [(f"l{i}", L(a), i % 3 == 0) for i, a in enumerate(args)]
    steps += [(f"t{i}", T(args[i], args[(i * 7 + 3) % len(args)]), i % 2 == 1) for i in range(0, len(args), 2)]
    steps.append(("vl", ("vec", L(("vec", P("float32"), None)), None), False))
    steps.append(("vd", ("vec", L(("vec", P("float64"), None)), None), False))
    pkg.defs.append({"kind": "protocol", "name": "PInst", "steps": steps})
    return pkg


def arrays_package(namespace="Arr"):
    """multi-dimensional arrays of every element encoding (fixed-size scalars, variable-length integers, flat records) in every array form, as steps,
    stream items and record fields: small enough for the quick tier"""
    pkg = Package(namespace)
    P = lambda n: ("prim", n)
    pkg.defs.append({"kind": "record", "name": "Px", "tparams": [], "fields": [("r", P("uint8")), ("g", P("uint8"))]})
    pkg.defs.append({"kind": "record", "name": "Holder", "tparams": [], "fields": [("a", ("arr", P("float32"), ("rank", 2, None))), ("b", ("arr", P("complexfloat64"), ("fixed", [2, 3], None))),
                                                                                  ("c", ("arr", P("int32"), ("rank", 3, None))), ("n", P("int16"))]})
    steps = []
    for i, e in enumerate(["float32", "float64", "complexfloat32", "uint8", "int8", "int32", "uint64"]):
        steps.append((f"r{i}", ("arr", P(e), ("rank", 2, None)), i % 2 == 0))
        steps.append((f"f{i}", ("arr", P(e), ("fixed", [3, 2], None)), i % 2 == 1))
    steps.append(("d0", ("arr", P("float64"), ("dyn",)), True))
    steps.append(("px", ("arr", ("named", "Px", []), ("rank", 2, None)), True))
    steps.append(("h", ("named", "Holder", []), True))
    # records with enum / flags fields as array elements: in NumPy the element holds the integer value (default base: a variable-length integer on the
    # wire, no raw-memory path; an 8-bit base: raw memory)
    pkg.defs.append({"kind": "enum", "name": "Kind", "flags": False, "base": None, "auto": True, "values": [("ka", 0), ("kb", 1), ("kc", 2)]})
    pkg.defs.append({"kind": "enum", "name": "Bits", "flags": True, "base": None, "auto": True, "values": [("ba", 1), ("bb", 2), ("bc", 4)]})
    pkg.defs.append({"kind": "enum", "name": "Small", "flags": False, "base": "uint8", "auto": False, "values": [("sa", 0), ("sb", 7), ("sc", 255)]})
    pkg.defs.append({"kind": "record", "name": "Tagged", "tparams": [], "fields": [("kind", ("named", "Kind", [])), ("bits", ("named", "Bits", [])), ("n", P("int16"))]})
    pkg.defs.append({"kind": "record", "name": "TaggedSmall", "tparams": [], "fields": [("s", ("named", "Small", [])), ("t", ("named", "Small", []))]})
    steps.append(("tg", ("arr", ("named", "Tagged", []), ("rank", 2, None)), False))
    steps.append(("tgs", ("arr", ("named", "Tagged", []), ("dyn",)), True))
    steps.append(("tgf", ("arr", ("named", "TaggedSmall", []), ("fixed", [2, 2], None)), True))
    steps.append(("ks", ("arr", ("named", "Kind", []), ("rank", 1, None)), True))
    pkg.defs.append({"kind": "protocol", "name": "PArrays", "steps": steps})
    return pkg


def pair_alias_defs():
    """generic aliases of the generic record Pair<A, B> (declared by the caller) that do not simply pass on their own parameters, and a protocol using them"""
    P = lambda n: ("prim", n)
    defs = []
    # generic aliases of a generic record that do not simply pass on their own parameters: some closed, swapped, repeated, nested
    N_ = lambda n, *a: ("named", n, list(a))
    T_ = lambda n: ("tparam", n)
    defs.append({"kind": "alias", "name": "PairHalf", "tparams": ["T"], "type": N_("Pair", P("int32"), T_("T"))})
    defs.append({"kind": "alias", "name": "PairSwap", "tparams": ["A", "B"], "type": N_("Pair", T_("B"), T_("A"))})
    defs.append({"kind": "alias", "name": "PairTwice", "tparams": ["T"], "type": N_("Pair", T_("T"), T_("T"))})
    defs.append({"kind": "alias", "name": "PairNest", "tparams": ["T"], "type": N_("Pair", N_("Pair", T_("T"), P("string")), ("vec", T_("T"), None))})
    defs.append({"kind": "alias", "name": "PairSame", "tparams": ["A", "B"], "type": N_("Pair", T_("A"), T_("B"))})
    defs.append({"kind": "alias", "name": "PairHalfAgain", "tparams": ["U"], "type": N_("PairHalf", T_("U"))})
    defs.append({"kind": "record", "name": "WithPairAliases", "tparams": [],
                     "fields": [("h", N_("PairHalf", P("string"))), ("s", N_("PairSwap", P("string"), P("uint8"))), ("t", N_("PairTwice", P("float32"))),
                                ("n", N_("PairNest", P("int16"))), ("hh", N_("PairHalf", N_("PairHalf", P("bool")))), ("g", N_("PairHalfAgain", P("float64")))]})
    defs.append({"kind": "protocol", "name": "PPairAliases", "steps": [
        ("half", N_("PairHalf", P("string")), False), ("swaps", N_("PairSwap", P("string"), P("uint8")), True), ("twice", N_("PairTwice", P("float32")), False),
        ("nests", N_("PairNest", P("int16")), True), ("same", N_("PairSame", P("uint16"), P("string")), False), ("recs", N_("WithPairAliases"), True)]})
    return defs


def directed_package(namespace="Dir"):
    """A fixed package that systematically crosses type constructors with element types, so that
    coverage of the (constructor x primitive) matrix does not depend on luck."""
    pkg = Package(namespace)
    P = lambda n: ("prim", n)
    prims_seq = [p for p in PRIMS if p != "bool"]     # bool sequences: C08 finding region (C++)
    pkg.defs.append({"kind": "enum", "name": "DE", "flags": False, "base": "uint16", "auto": False,
                     "values": [("a", 0), ("b", 7), ("c", 65535)]})
    pkg.defs.append({"kind": "enum", "name": "DF", "flags": True, "base": None, "auto": True,
                     "values": [("x", 1), ("y", 2), ("z", 4)]})
    pkg.defs.append({"kind": "alias", "name": "RegWidth", "tparams": [], "type": P("uint8")})
    pkg.defs.append({"kind": "alias", "name": "WideReg", "tparams": [], "type": P("uint16")})
    pkg.defs.append({"kind": "alias", "name": "WideRegAgain", "tparams": [], "type": ("named", "WideReg", [])})
    pkg.defs.append({"kind": "enum", "name": "DEA", "flags": False, "base": "RegWidth", "auto": False, "values": [("a", 0), ("b", 200), ("c", 255)]})
    pkg.defs.append({"kind": "enum", "name": "DFA", "flags": True, "base": "WideRegAgain", "auto": False, "values": [("x", 1), ("y", 256), ("z", 32768)]})
    pkg.defs.append({"kind": "record", "name": "Pix", "tparams": [],
                     "fields": [("r", P("uint8")), ("g", P("uint8")), ("b", P("uint8"))]})
    pkg.defs.append({"kind": "record", "name": "Mixed", "tparams": [],
                     "fields": [("a", P("int8")), ("b", P("float64")), ("c", P("uint16"))]})
    pkg.defs.append({"kind": "record", "name": "Frame", "tparams": [],
                     "fields": [("index", P("uint32")), ("label", P("string")),
                                ("data", ("arr", P("float32"), ("rank", 2, None))),
                                ("tail", ("opt", P("int64")))]})
    # named / sized dimensions (block-style YAML can document each dimension)
    pkg.defs.append({"kind": "record", "name": "DimNames", "tparams": [],
                     "fields": [("named", ("arr", P("float32"), ("rank", 2, ["x", "y"]))), ("sized", ("arr", P("int16"), ("fixed", [2, 3], ["p", "q"]))),
                                ("unnamed", ("arr", P("uint8"), ("fixed", [4], None))), ("n", P("int32"))]})
    pkg.defs.append({"kind": "record", "name": "Pair", "tparams": ["A", "B"],
                     "fields": [("first", ("tparam", "A")), ("second", ("tparam", "B"))]})
    pkg.defs.append({"kind": "alias", "name": "Img", "tparams": ["T"], "type": ("arr", ("tparam", "T"), ("dyn",))})
    pkg.defs.append({"kind": "alias", "name": "StrKey", "tparams": [], "type": P("string")})
    pkg.defs.append({"kind": "record", "name": "Lookup", "tparams": ["K", "V"], "fields": [("entries", ("map", ("tparam", "K"), ("tparam", "V"))), ("n", P("int32"))]})
    pkg.defs.append({"kind": "alias", "name": "Dict", "tparams": ["K", "V"], "type": ("map", ("tparam", "K"), ("tparam", "V"))})
    pkg.defs.append({"kind": "alias", "name": "MaybeInt", "tparams": [], "type": ("opt", P("int32"))})
    pkg.defs.append({"kind": "alias", "name": "MaybeIntAgain", "tparams": [], "type": ("named", "MaybeInt", [])})
    pkg.defs.append({"kind": "alias", "name": "OptU", "tparams": [], "type": ("union", True, [(None, P("int32")), (None, P("string"))])})
    pkg.defs.append({"kind": "alias", "name": "Opt", "tparams": ["T"], "type": ("opt", ("tparam", "T"))})
    pkg.defs.append({"kind": "record", "name": "WithAliases", "tparams": [],
                     "fields": [("a", ("named", "MaybeInt", [])), ("b", ("named", "OptU", [])), ("c", ("named", "Opt", [P("string")])),
                                ("d", ("named", "MaybeIntAgain", [])), ("e", P("int32")), ("f", ("opt", P("float64"))),
                                # optional of an alias that is itself optional: two presence flags on the wire
                                ("g", ("opt", ("named", "MaybeInt", []))), ("h", ("vec", ("opt", ("named", "MaybeIntAgain", [])), None))]})
    pkg.defs += padding_defs()
    # one alias per position that can hold a type, referenced from that position only (nothing else makes the schema, the dependency order or a
    # back end's imports mention it)
    only = {"Direct": "int16", "Optional": "string", "Vector": "float64", "Fixed": "uint8", "Key": "uint32", "KeyStr": "string", "Value": "float32", "Arr": "int16", "Dyn": "float32",
            "Case": "string", "NCase": "uint64", "Arg": "int8", "Target": "uint64", "Step": "uint16", "Item": "int64"}
    for nm, prim in only.items():
        pkg.defs.append({"kind": "alias", "name": "Only" + nm, "tparams": [], "type": P(prim)})
    O = lambda nm: ("named", "Only" + nm, [])
    pkg.defs.append({"kind": "record", "name": "OnlyHolder", "tparams": ["T"], "fields": [("v", ("tparam", "T"))]})
    pkg.defs.append({"kind": "alias", "name": "AliasOfOnly", "tparams": [], "type": ("vec", O("Target"), None)})
    pkg.defs.append({"kind": "record", "name": "OnlyPositions", "tparams": [],
                     "fields": [("direct", O("Direct")), ("optional", ("opt", O("Optional"))), ("vector", ("vec", O("Vector"), None)), ("fixedVector", ("vec", O("Fixed"), 3)),
                                ("mapKey", ("map", O("Key"), P("int32"))), ("mapKeyStr", ("map", O("KeyStr"), P("float64"))), ("mapValue", ("map", P("string"), O("Value"))),
                                ("arrayElem", ("arr", O("Arr"), ("fixed", [2], None))), ("dynArrayElem", ("arr", O("Dyn"), ("dyn",))),
                                ("unionCase", ("union", False, [("ucA", P("int32")), ("ucB", O("Case"))])), ("nullableUnionCase", ("union", True, [("nuA", P("bool")), ("nuB", O("NCase"))])),
                                ("genericArg", ("named", "OnlyHolder", [O("Arg")])), ("throughAlias", ("named", "AliasOfOnly", []))]})
    pkg.defs.append({"kind": "protocol", "name": "POnly", "steps": [("all", ("named", "OnlyPositions", []), False), ("step", O("Step"), False), ("items", O("Item"), True),
                                                                     ("more", ("named", "OnlyPositions", []), True)]})
    ts_elems = ["int8", "uint8", "float32", "float64", "complexfloat32", "complexfloat64", "bool"]
    steps = []
    for i, e in enumerate(ts_elems):
        steps.append((f"d{i}", ("arr", P(e), ("dyn",)), True))
        steps.append((f"r{i}", ("arr", P(e), ("rank", 2, None)), True))
        steps.append((f"f{i}", ("arr", P(e), ("fixed", [2, 3], None)), True))
    pkg.defs.append({"kind": "protocol", "name": "PArrTs", "steps": steps})
    steps = []
    for i, e in enumerate(["int16", "int32", "int64", "uint16", "uint32", "uint64", "size", "string", "date", "time", "datetime"]):
        steps.append((f"a{i}", ("arr", P(e), ("rank", 1, None)), i % 2 == 0))
    steps.append(("en", ("arr", ("named", "DE", []), ("dyn",)), True))
    steps.append(("fl", ("arr", ("named", "DF", []), ("fixed", [3], None)), False))
    steps.append(("pix", ("arr", ("named", "Pix", []), ("rank", 2, None)), True))
    steps.append(("mixed", ("arr", ("named", "Mixed", []), ("dyn",)), True))
    pkg.defs.append({"kind": "protocol", "name": "PArrVar", "steps": steps})
    pkg.defs.append({"kind": "protocol", "name": "PFrames", "steps": [
        ("header", ("named", "Frame", []), False),
        ("dims", ("named", "DimNames", []), True),
        ("dimsStep", ("arr", P("float64"), ("fixed", [2, 2], ["r", "c"])), False),
        ("frames", ("named", "Frame", []), True),
        ("images", ("named", "Img", [P("float64")]), True),
        ("pairs", ("named", "Pair", [("named", "Img", [P("uint8")]), ("vec", ("named", "Pix", []), None)]), True)]})
    pkg.defs.extend(pair_alias_defs())
    # records that are array elements (in Python: NumPy structured elements, with their own NDJSON path) whose field names are not their
    # Python identifiers: several words, a Python keyword
    pkg.defs.append({"kind": "record", "name": "CamelSample", "tparams": [], "fields": [("channelId", P("uint16")), ("phaseOffset", P("float32")), ("lambda", P("int8")), ("isValid", P("bool"))]})
    pkg.defs.append({"kind": "protocol", "name": "PCamelArrays", "steps": [("grid", ("arr", ("named", "CamelSample", []), ("rank", 2, None)), True),
                                                                           ("pair", ("arr", ("named", "CamelSample", []), ("fixed", [2], None)), False),
                                                                           ("any", ("arr", ("named", "CamelSample", []), ("dyn",)), False),
                                                                           ("plain", ("vec", ("named", "CamelSample", []), None), False)]})
    # streams whose items have a fixed-size encoding (scalars, flat records): the writers have raw-memory paths for batches of them
    pkg.defs.append({"kind": "protocol", "name": "PFixedItems", "steps": [("pixs", ("named", "Pix", []), True), ("mixeds", ("named", "Mixed", []), True), ("floats", P("float32"), True),
                                                                           ("doubles", P("float64"), True), ("bytes", P("uint8"), True), ("n", P("int32"), False)]})
    steps = [(f"v{i}", ("vec", P(e), None), i % 3 != 0) for i, e in enumerate(prims_seq)]
    steps += [(f"w{i}", ("vec", P(e), 3), i % 3 == 0) for i, e in enumerate(prims_seq)]
    # a fixed length of zero is a length like any other: no count on the wire, and not the same type as the vector without a length
    steps.append(("z0", ("vec", P("int32"), 0), False))
    steps.append(("z0s", ("vec", P("string"), 0), True))
    steps.append(("vp", ("vec", ("named", "Pix", []), None), True))
    steps.append(("vm", ("vec", ("named", "Mixed", []), 2), True))
    pkg.defs.append({"kind": "protocol", "name": "PVec", "steps": steps})
    steps = [(f"p{i}", P(e), i % 2 == 1 and e != "bool") for i, e in enumerate(PRIMS)]
    steps += [(f"o{i}", ("opt", P(e)), i % 2 == 0) for i, e in enumerate(PRIMS)]
    pkg.defs.append({"kind": "protocol", "name": "PPrim", "steps": steps})
    steps = [(f"m{i}", ("map", P(k), P(PRIMS[(3 * i + 1) % len(PRIMS)])), i % 2 == 0) for i, k in enumerate(KEY_PRIMS)]
    steps.append(("mu", ("map", P("string"), ("union", True, [("uA", P("int32")), ("uB", P("string")), ("uC", ("vec", P("float32"), None))])), True))
    steps.append(("un", ("union", False, [(None, P("int32")), (None, P("float32")), (None, P("string")), (None, ("named", "Pix", []))]), True))
    steps.append(("uu", ("union", True, [("dArr", ("arr", P("float64"), ("dyn",))), ("dMap", ("map", P("string"), P("int64"))), ("dEn", ("named", "DE", []))]), True))
    # record fields whose nullable type is reached through aliases (omitted when null in NDJSON)
    steps.append(("wa", ("named", "WithAliases", []), True))
    steps.append(("ui", ("union", False, [(None, P("int32")), (None, ("named", "DE", []))]), True))
    # unions whose cases share a JSON representation must be tagged (date/time/datetime are strings)
    steps.append(("ud", ("union", False, [(None, P("string")), (None, P("date"))]), True))
    steps.append(("ut", ("union", True, [(None, P("time")), (None, P("string")), (None, P("int32"))]), True))
    steps.append(("ue", ("union", False, [(None, ("named", "DE", [])), (None, P("string"))]), True))
    steps.append(("uf", ("union", False, [("ufF", ("named", "DF", [])), ("ufV", ("vec", P("int32"), None))]), False))
    # a flags value outside the declared bits is written as a number: next to a numeric case the union must be tagged
    steps.append(("ufi", ("union", False, [(None, ("named", "DF", [])), (None, P("int32"))]), True))
    steps.append(("ufs", ("union", True, [(None, ("named", "DF", [])), (None, P("string"))]), True))
    # maps keyed by a type parameter: whether the JSON form is an object (string keys) or an array of pairs is only known per instantiation
    steps.append(("lkS", ("named", "Lookup", [P("string"), P("int32")]), True))
    steps.append(("lkI", ("named", "Lookup", [P("uint16"), P("string")]), False))
    steps.append(("lkA", ("named", "Lookup", [("named", "StrKey", []), P("float64")]), True))
    steps.append(("dS", ("named", "Dict", [P("string"), ("named", "Pix", [])]), False))
    steps.append(("dI", ("named", "Dict", [P("int64"), P("bool")]), True))
    # enums / flags stored as the primitive their aliased base names: as steps, vector items, map values, array elements
    steps.append(("dea", ("named", "DEA", []), True))
    steps.append(("dfa", ("named", "DFA", []), False))
    steps.append(("deav", ("vec", ("named", "DEA", []), None), True))
    steps.append(("dfam", ("map", P("string"), ("named", "DFA", [])), False))
    steps.append(("deaa", ("arr", ("named", "DEA", []), ("rank", 1, None)), True))
    pkg.defs.append({"kind": "protocol", "name": "PMapUnion", "steps": steps})
    return pkg


def shrink_value(ty, v):
    """The 'smallest' value of the same type: empty containers, absent optionals, first union case
    kept. Used to build consecutive stream items of very different shape."""
    k = ty[0]
    if k in ("prim", "enum"):
        return v
    if k == "rec":
        return ["rec", [shrink_value(ft, fv) for (_, ft), fv in zip(ty[1], v[1])]]
    if k == "opt":
        return ["none"]
    if k == "union":
        if ty[1]:
            return ["none"]
        return ["case", v[1], shrink_value(ty[2][v[1]][1], v[2])] if v[0] == "case" else v
    if k == "vec":
        if ty[2] is None:
            return ["list", []]
        return ["list", [shrink_value(ty[1], x) for x in v[1]]]
    if k == "arr":
        kind = ty[2]
        if kind[0] == "fixed":
            return ["arr", v[1], [shrink_value(ty[1], x) for x in v[2]]]
        if kind[0] == "rank":
            return ["arr", [0] * kind[1], []]
        return ["arr", [0], []]
    if k == "map":
        return ["map", []]
    return v


def spelling_directed_package(namespace="Sp"):
    """Definitions whose dependencies run through *imported* generics and aliases, local generics used
    inside them, and nested containers: written in any order / file split they are the same model (C13)."""
    base = Package(namespace + "Base")
    P = lambda n: ("prim", n)
    base.defs.append({"kind": "record", "name": "Box", "tparams": ["T"], "fields": [("value", ("tparam", "T")), ("n", P("uint8"))]})
    base.defs.append({"kind": "alias", "name": "Wrap", "tparams": ["T"], "type": ("vec", ("tparam", "T"), None)})
    base.defs.append({"kind": "enum", "name": "Tag", "flags": False, "base": None, "auto": True, "values": [("a", 0), ("b", 1)]})
    base.defs.append({"kind": "record", "name": "Two", "tparams": ["A", "B"], "fields": [("a", ("tparam", "A")), ("b", ("tparam", "B"))]})
    pkg = Package(namespace)
    pkg.imports.append(base)
    B = namespace + "Base."
    pkg.defs.append({"kind": "record", "name": "Sample", "tparams": [], "fields": [("t", P("float32")), ("tag", ("named", B + "Tag", []))]})
    pkg.defs.append({"kind": "record", "name": "Inner", "tparams": ["T"], "fields": [("v", ("tparam", "T"))]})
    pkg.defs.append({"kind": "record", "name": "Pair2", "tparams": ["T"], "fields": [("a", ("named", "Inner", [("tparam", "T")])), ("b", ("tparam", "T"))]})
    pkg.defs.append({"kind": "alias", "name": "BoxedSample", "tparams": [], "type": ("named", B + "Box", [("named", "Sample", [])])})
    pkg.defs.append({"kind": "alias", "name": "BoxedPair", "tparams": [], "type": ("named", B + "Box", [("named", "Pair2", [P("int32")])])})
    pkg.defs.append({"kind": "alias", "name": "WrapS", "tparams": [], "type": ("named", B + "Wrap", [("named", "Sample", [])])})
    pkg.defs.append({"kind": "alias", "name": "TwoLocal", "tparams": [], "type": ("named", B + "Two", [("named", "WrapS", []), ("named", "BoxedPair", [])])})
    pkg.defs.append({"kind": "record", "name": "Holder", "tparams": [],
                     "fields": [("x", ("named", "BoxedSample", [])),
                                ("y", ("named", B + "Box", [("named", B + "Wrap", [("named", "Sample", [])])])),
                                ("z", ("map", P("string"), ("named", "BoxedPair", []))),
                                ("w", ("opt", ("named", "TwoLocal", [])))]})
    # containers of nullable elements: the shorthand (`int?*`) and the expanded spelling (`!vector {items: [null, int]}`) nest differently in the front end
    pkg.defs.append({"kind": "record", "name": "Nullables", "tparams": [],
                     "fields": [("vo", ("vec", ("opt", P("int32")), None)), ("fo", ("vec", ("opt", P("string")), 2)), ("mo", ("map", P("string"), ("opt", P("float64")))),
                                ("vu", ("vec", ("union", True, [(None, P("int32")), (None, P("string"))]), None)),
                                ("vvo", ("vec", ("vec", ("opt", ("named", "Sample", [])), None), None)), ("ov", ("opt", ("vec", P("int32"), None))),
                                ("plain", ("opt", P("int32"))),
                                # optional containers of nullable elements: in expanded YAML the item cases sit on the container node itself
                                ("ovo", ("opt", ("vec", ("opt", P("int32")), None))), ("omo", ("opt", ("map", P("string"), ("opt", P("float32"))))),
                                ("uvo", ("union", False, [("s", P("string")), ("v", ("vec", ("opt", P("int32")), None))]))]})
    pkg.defs.append({"kind": "protocol", "name": "PSp", "steps": [
        ("head", ("named", "Holder", []), False),
        ("nullables", ("named", "Nullables", []), True),
        ("boxes", ("named", B + "Box", [("named", "Pair2", [("named", "Sample", [])])]), True),
        ("wraps", ("named", "WrapS", []), True)]})
    return pkg
