"""Small-capacity driver for the Python CodedOutputStream / CodedInputStream of _binary.py
(static_files copied from /repo's working tree as package `rt`). Same line protocol as streamdrv.cc.
usage: python3-vt pystreamdrv.py <dir containing rt/>"""
import io
import struct
import sys

sys.path.insert(0, sys.argv[1])
from rt import _binary as B  # noqa: E402

U32 = struct.Struct("<I")
U64 = struct.Struct("<Q")


class Sink(io.RawIOBase):
    def __init__(self):
        self.data = bytearray()

    def writable(self):
        return True

    def write(self, b):
        self.data += bytes(b)
        return len(b)


for line in sys.stdin:
    t = line.split()
    if not t:
        continue
    kind, cap = t[0], int(t[1])
    if kind == "W":
        sink = Sink()
        w = B.CodedOutputStream(sink, buffer_size=cap)
        lens = []
        err = None
        try:
            for tok in t[2:]:
                op, _, arg = tok.partition(":")
                if op == "b":
                    w.ensure_capacity(1)
                    w.write_byte_no_check(int(arg))
                elif op == "bn":
                    w.write_byte_no_check(int(arg))
                elif op in ("v32", "v64"):
                    w.write_unsigned_varint(int(arg))
                elif op in ("s32", "s64"):
                    w.write_signed_varint(int(arg))
                elif op == "f4":
                    w.write(U32, int(arg))
                elif op == "f8":
                    w.write(U64, int(arg))
                elif op == "x":
                    w.write_bytes(bytes.fromhex(arg))
                elif op == "fl":
                    w.flush()
                lens.append(len(sink.data))
            w.flush()
        except Exception as e:  # noqa
            err = type(e).__name__
        print("lens " + " ".join(map(str, lens)) + (" hex " + sink.data.hex() if err is None else " OOB:" + err), flush=True)
    else:
        h = "" if t[2] == "-" else t[2]
        r = B.CodedInputStream(io.BytesIO(bytes.fromhex(h)), buffer_size=cap)
        out = []
        try:
            for tok in t[3:]:
                op, _, arg = tok.partition(":")
                if op == "b":
                    out.append(f"b={r.read_byte()}")
                elif op in ("v32", "v64"):
                    out.append(f"v={r.read_unsigned_varint()}")
                elif op in ("s32", "s64"):
                    out.append(f"s={r.read_signed_varint()}")
                elif op == "f4":
                    out.append(f"f={r.read(U32)[0]}")
                elif op == "f8":
                    out.append(f"f={r.read(U64)[0]}")
                elif op == "x":
                    out.append("x=" + bytes(r.read_bytearray(int(arg))).hex())
                elif op == "xv":
                    out.append("x=" + bytes(r.read_view(int(arg))).hex())
        except EOFError:
            out.append("EOS")
        except BufferError:
            out.append("BUFERR")
        except Exception as e:  # noqa
            out.append("ERR:" + type(e).__name__)
        print(" ".join(out), flush=True)
