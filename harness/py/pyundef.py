"""Static check of a generated Python package: every name a module refers to is bound somewhere it can be found
(module level, an enclosing function / class scope, a star import of a sibling module, or builtins).
A name that is not is a NameError waiting for the line to run — in a default argument, a base-class list, an
annotation evaluated at definition time, or a rarely executed branch.

usage: python3-vt pyundef.py <package dir> [module.py ...]   -> JSON list of {"module", "name", "scope", "line"}
"""
import ast
import builtins
import json
import os
import symtable
import sys


def top_level_names(path):
    """names bound at the top level of a module file (for `from .x import *`)"""
    try:
        tree = ast.parse(open(path, encoding="utf-8").read())
    except (OSError, SyntaxError):
        return set()
    names = set()
    for node in tree.body:
        if isinstance(node, (ast.FunctionDef, ast.AsyncFunctionDef, ast.ClassDef)):
            names.add(node.name)
        elif isinstance(node, (ast.Assign, ast.AnnAssign, ast.AugAssign)):
            targets = node.targets if isinstance(node, ast.Assign) else [node.target]
            for t in targets:
                for n in ast.walk(t):
                    if isinstance(n, ast.Name):
                        names.add(n.id)
        elif isinstance(node, ast.Import):
            for a in node.names:
                names.add((a.asname or a.name).split(".")[0])
        elif isinstance(node, ast.ImportFrom):
            for a in node.names:
                if a.name != "*":
                    names.add(a.asname or a.name)
    all_decl = None
    for node in tree.body:
        if isinstance(node, ast.Assign) and any(isinstance(t, ast.Name) and t.id == "__all__" for t in node.targets):
            try:
                all_decl = set(ast.literal_eval(node.value))
            except Exception:   # noqa: BLE001
                pass
    if all_decl is not None:
        return all_decl
    return {n for n in names if not n.startswith("_")}


def check_module(pkgdir, fn):
    path = os.path.join(pkgdir, fn)
    src = open(path, encoding="utf-8").read()
    tree = ast.parse(src)
    star = set()
    for node in ast.walk(tree):
        if isinstance(node, ast.ImportFrom) and any(a.name == "*" for a in node.names):
            if node.level >= 1 and node.module:
                star |= top_level_names(os.path.join(pkgdir, *([".."] * (node.level - 1)), node.module.replace(".", os.sep) + ".py"))
            else:
                return []   # star import of something outside the package: cannot be resolved statically
    top = symtable.symtable(src, fn, "exec")
    module_bound = {s.get_name() for s in top.get_symbols() if s.is_assigned() or s.is_imported() or s.is_namespace() or s.is_parameter()}
    known = module_bound | star | set(dir(builtins)) | {"__name__", "__file__", "__doc__", "__package__", "__spec__", "__builtins__", "__class__", "__qualname__", "__module__"}
    lines = {}
    for node in ast.walk(tree):
        if isinstance(node, ast.Name) and isinstance(node.ctx, ast.Load):
            lines.setdefault(node.id, node.lineno)
    bad = []

    def walk(tab, path_):
        for s in tab.get_symbols():
            if not s.is_referenced():
                continue
            name = s.get_name()
            if tab.get_type() == "module":
                unresolved = not (s.is_assigned() or s.is_imported() or s.is_namespace())
            else:
                # anything not bound in this scope or an enclosing function scope is looked up at module level, then in builtins
                unresolved = s.is_global()
            if unresolved and name not in known:
                bad.append({"module": fn, "name": name, "scope": "/".join(path_), "line": lines.get(name)})
        for child in tab.get_children():
            walk(child, path_ + [child.get_name()])
    walk(top, [fn])
    seen, out = set(), []
    for b in bad:
        k = (b["module"], b["name"])
        if k not in seen:
            seen.add(k)
            out.append(b)
    return out


def main():
    pkgdir = sys.argv[1]
    mods = sys.argv[2:] or [f for f in sorted(os.listdir(pkgdir)) if f.endswith(".py")]
    res = []
    for fn in mods:
        if os.path.exists(os.path.join(pkgdir, fn)):
            try:
                res += check_module(pkgdir, fn)
            except SyntaxError as e:
                res.append({"module": fn, "name": "<syntax error>", "scope": str(e), "line": getattr(e, "lineno", None)})
    json.dump(res, sys.stdout)


if __name__ == "__main__":
    main()
