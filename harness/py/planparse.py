"""Extraction of serializer expressions from freshly generated code (C14).

Python `binary.py` / `ndjson.py` are parsed with `ast`; MATLAB `+<ns>/+binary/*.m` with a small
expression parser. Every expression is turned into the SE JSON form of YardlModel/Plan.lean:
  ["prim",p] | ["none"] | ["enum",base,flags] | ["opt",e] | ["union",[e…],simple,[kinds…]] | ["vec",e]
  | ["fvec",e,n] | ["nd",e,rank] | ["fnd",e,[dims]] | ["dyn",e] | ["map",k,v] | ["rec",[e…]]
Record serializer classes (possibly generic, possibly from an imported namespace) are expanded in
place with their constructor parameters substituted. Steps are returned in the order they occur.
Anything the parser does not understand raises ParseError (reported as a broken correspondence,
never silently skipped).
"""
import ast
import os
import re

PRIMS = ["bool", "int8", "int16", "int32", "int64", "uint8", "uint16", "uint32", "uint64", "size", "float32", "float64",
         "complexfloat32", "complexfloat64", "string", "date", "time", "datetime"]
PY_KIND = {"bool": 2, "int": 4, "float": 4, "str": 8, "list": 16, "dict": 32}
NP_PRIM = {"int8": "int8", "int16": "int16", "int32": "int32", "int64": "int64", "uint8": "uint8", "uint16": "uint16",
           "uint32": "uint32", "uint64": "uint64"}


class ParseError(Exception):
    pass


# ------------------------------------------------------------------------------------------- Python

class PyPackage:
    """out_py/<module>/{binary,ndjson}.py of the package and of the namespaces it imports"""

    def __init__(self, out_py, kind, top):
        self.out_py, self.kind, self.top = out_py, kind, top   # kind: "binary" | "ndjson"; top: the package's own module
        self.mods = {}

    def module(self, name):
        if name not in self.mods:
            path = os.path.join(self.out_py, self.top, f"{self.kind}.py")
            if name != self.top:   # imported namespaces are sub-packages of the top module
                path = os.path.join(self.out_py, self.top, name, f"{self.kind}.py")
            if not os.path.exists(path):
                raise ParseError(f"no generated module {path}")
            try:
                tree = ast.parse(open(path, encoding="utf-8").read())
            except SyntaxError as e:
                # generated Python that does not even parse: reported as unparsed generated code (and by C08), not a crash of this check
                raise ParseError(f"generated module {path} is not valid Python: {e}")
            self.mods[name] = {n.name: n for n in tree.body if isinstance(n, ast.ClassDef)}
        return self.mods[name]

    # --- expressions
    def conv(self, e, env, mod):
        suffix = "_serializer" if self.kind == "binary" else "_converter"
        lib = "_binary" if self.kind == "binary" else "_ndjson"
        if isinstance(e, ast.Constant) and e.value is None:
            return ["none"]
        if isinstance(e, ast.Name):
            if e.id in env:
                return env[e.id]
            raise ParseError(f"unbound name {e.id}")
        if isinstance(e, ast.Attribute) and isinstance(e.value, ast.Name) and e.value.id == lib:
            if e.attr.endswith(suffix):
                p = e.attr[:-len(suffix)]
                if p == "none":
                    return ["none"]
                if p in PRIMS:
                    return ["prim", p]
            raise ParseError(f"unknown library object {lib}.{e.attr}")
        if isinstance(e, ast.Attribute) and isinstance(e.value, ast.Name) and e.value.id == "self" and ("self." + e.attr) in env:
            return env["self." + e.attr]
        if not isinstance(e, ast.Call):
            raise ParseError(f"unexpected expression {ast.dump(e)[:200]}")
        f, a = e.func, e.args
        if isinstance(f, ast.Attribute) and isinstance(f.value, ast.Name) and f.value.id == lib:
            c = f.attr
            rec = lambda x: self.conv(x, env, mod)
            if self.kind == "binary":
                table = {"OptionalSerializer": "opt", "VectorSerializer": "vec", "DynamicNDArraySerializer": "dyn", "StreamSerializer": "stream"}
                if c in table and len(a) == 1:
                    return [table[c], rec(a[0])]
                if c == "FixedVectorSerializer" and len(a) == 2:
                    return ["fvec", rec(a[0]), _int(a[1])]
                if c == "NDArraySerializer" and len(a) == 2:
                    return ["nd", rec(a[0]), _int(a[1])]
                if c == "FixedNDArraySerializer" and len(a) == 2 and isinstance(a[1], ast.Tuple):
                    return ["fnd", rec(a[0]), [_int(x) for x in a[1].elts]]
                if c == "MapSerializer" and len(a) == 2:
                    return ["map", rec(a[0]), rec(a[1])]
                if c == "EnumSerializer" and len(a) == 2:
                    return ["enum", rec(a[0]), False]
                if c == "UnionSerializer" and len(a) == 2 and isinstance(a[1], ast.List):
                    cases = []
                    for opt in a[1].elts:
                        if isinstance(opt, ast.Constant) and opt.value is None:
                            cases.append(["none"])
                        elif isinstance(opt, ast.Tuple) and len(opt.elts) == 2:
                            cases.append(rec(opt.elts[1]))
                        else:
                            raise ParseError("union option " + ast.dump(opt)[:200])
                    return ["union", cases, False, []]
            else:
                table = {"OptionalConverter": "opt", "VectorConverter": "vec", "DynamicNDArrayConverter": "dyn"}
                if c in table and len(a) == 1:
                    return [table[c], rec(a[0])]
                if c == "FixedVectorConverter" and len(a) == 2:
                    return ["fvec", rec(a[0]), _int(a[1])]
                if c == "NDArrayConverter" and len(a) == 2:
                    return ["nd", rec(a[0]), _int(a[1])]
                if c == "FixedNDArrayConverter" and len(a) == 2 and isinstance(a[1], ast.Tuple):
                    return ["fnd", rec(a[0]), [_int(x) for x in a[1].elts]]
                if c == "MapConverter" and len(a) == 2:
                    return ["map", rec(a[0]), rec(a[1])]
                if c in ("EnumConverter", "FlagsConverter") and len(a) == 4:
                    d = a[1]
                    if not (isinstance(d, ast.Attribute) and isinstance(d.value, ast.Name) and d.value.id == "np" and d.attr in NP_PRIM):
                        raise ParseError("enum base dtype " + ast.dump(d)[:100])
                    return ["enum", ["prim", NP_PRIM[d.attr]], c == "FlagsConverter"]
                if c == "UnionConverter" and len(a) == 3 and isinstance(a[1], ast.List):
                    cases, kinds = [], []
                    for opt in a[1].elts:
                        if isinstance(opt, ast.Constant) and opt.value is None:
                            cases.append(["none"])
                        elif isinstance(opt, ast.Tuple) and len(opt.elts) == 3 and isinstance(opt.elts[2], ast.List):
                            cases.append(rec(opt.elts[1]))
                            k = 0
                            for ty in opt.elts[2].elts:
                                if not (isinstance(ty, ast.Name) and ty.id in PY_KIND):
                                    raise ParseError("json type " + ast.dump(ty)[:100])
                                k |= PY_KIND[ty.id]
                            kinds.append(k)
                        else:
                            raise ParseError("union option " + ast.dump(opt)[:200])
                    if not isinstance(a[2], ast.Constant) or not isinstance(a[2].value, bool):
                        raise ParseError("union simple flag")
                    return ["union", cases, a[2].value, kinds]
            raise ParseError(f"unknown library constructor {lib}.{c}/{len(a)}")
        # a record class of this or an imported namespace
        if isinstance(f, ast.Name):
            return self.record(mod, f.id, [self.conv(x, env, mod) for x in a])
        if (isinstance(f, ast.Attribute) and isinstance(f.value, ast.Attribute) and isinstance(f.value.value, ast.Name)
                and f.value.attr == self.kind):
            return self.record(f.value.value.id, f.attr, [self.conv(x, env, mod) for x in a])
        raise ParseError("unexpected call " + ast.dump(f)[:200])

    def record(self, mod, cls, args):
        classes = self.module(mod)
        if cls not in classes:
            raise ParseError(f"no class {cls} in {mod}.{self.kind}")
        init = next((n for n in classes[cls].body if isinstance(n, ast.FunctionDef) and n.name == "__init__"), None)
        if init is None:
            raise ParseError(f"{cls} has no __init__")
        params = [p.arg for p in init.args.args[1:]]
        if len(params) != len(args):
            raise ParseError(f"{cls} takes {len(params)} serializers, given {len(args)}")
        env = dict(zip(params, args))
        if self.kind == "binary":
            for st in init.body:
                call = st.value if isinstance(st, ast.Expr) else None
                if (isinstance(call, ast.Call) and isinstance(call.func, ast.Attribute) and call.func.attr == "__init__"
                        and len(call.args) == 1 and isinstance(call.args[0], ast.List)):
                    fields, names = [], []
                    for el in call.args[0].elts:
                        if not (isinstance(el, ast.Tuple) and len(el.elts) == 2 and isinstance(el.elts[0], ast.Constant)):
                            raise ParseError("record field entry " + ast.dump(el)[:200])
                        names.append(el.elts[0].value)
                        fields.append(self.conv(el.elts[1], env, mod))
                    self.check_record_order(mod, cls, classes[cls], names)
                    return ["rec", fields]
            raise ParseError(f"{cls}.__init__ does not pass a field list to super().__init__")
        fields, names = [], []
        dtype_names = None
        for st in init.body:
            if (isinstance(st, ast.Assign) and len(st.targets) == 1 and isinstance(st.targets[0], ast.Attribute)
                    and isinstance(st.targets[0].value, ast.Name) and st.targets[0].value.id == "self"
                    and st.targets[0].attr.endswith("_converter")):
                names.append(st.targets[0].attr[1:-len("_converter")])
                fields.append(self.conv(st.value, env, mod))
            elif isinstance(st, ast.Expr) and isinstance(st.value, ast.Call):
                src = ast.unparse(st.value)
                dtype_names = re.findall(r"\('([^']*)', self\._([A-Za-z0-9_]+)_converter\.overall_dtype\(\)\)", src)
        if dtype_names is None or [b for _, b in dtype_names] != names:
            raise ParseError(f"{cls}: dtype field list {dtype_names} does not follow the converters {names}")
        return ["rec", fields]

    def check_record_order(self, mod, cls, node, names):
        """write() hands value.<f> to _write in field order; read() builds the record from field_values in order"""
        for fn in node.body:
            if isinstance(fn, ast.FunctionDef) and fn.name == "write":
                for c in ast.walk(fn):
                    if isinstance(c, ast.Call) and isinstance(c.func, ast.Attribute) and c.func.attr == "_write":
                        got = [x.attr for x in c.args[1:] if isinstance(x, ast.Attribute)]
                        if len(got) != len(names):
                            raise ParseError(f"{cls}.write passes {len(got)} fields, serializer list has {len(names)}")
                        self.field_orders.append((mod, cls, "write", got, names))
            if isinstance(fn, ast.FunctionDef) and fn.name == "read":
                for c in ast.walk(fn):
                    if isinstance(c, ast.Call) and c.keywords and all(isinstance(k.value, ast.Subscript) for k in c.keywords):
                        idx = [(k.arg, _int(k.value.slice)) for k in c.keywords]
                        self.field_orders.append((mod, cls, "read", idx, names))

    field_orders = None

    # --- protocol steps
    def steps(self, mod, proto_pascal):
        """{'writer': [(method, se, is_stream)…], 'reader': […]} for protocol class names"""
        self.field_orders = []
        classes = self.module(mod)
        prefix = "Binary" if self.kind == "binary" else "NDJson"
        out = {}
        for role, meth in (("Writer", "_write_"), ("Reader", "_read_")):
            cname = f"{prefix}{proto_pascal}{role}"
            if cname not in classes:
                raise ParseError(f"no class {cname} in {mod}.{self.kind}")
            res = []
            for fn in classes[cname].body:
                if not (isinstance(fn, ast.FunctionDef) and fn.name.startswith(meth)):
                    continue
                res.append((fn.name[len(meth):],) + self.step_expr(fn, mod))
            out[role.lower()] = res
        return out

    def step_expr(self, fn, mod):
        if self.kind == "binary":
            for c in ast.walk(fn):
                if (isinstance(c, ast.Call) and isinstance(c.func, ast.Attribute) and c.func.attr in ("write", "read")
                        and len(c.args) >= 1 and "_stream" in ast.unparse(c.args[0])):
                    se = self.conv(c.func.value, {}, mod)
                    if se[0] == "stream":
                        return se[1], True
                    return se, False
            raise ParseError(f"{fn.name}: no serializer call")
        se = None
        loop = False
        for c in ast.walk(fn):
            if isinstance(c, ast.Assign) and len(c.targets) == 1 and isinstance(c.targets[0], ast.Name) and c.targets[0].id == "converter":
                se = self.conv(c.value, {}, mod)
            if isinstance(c, (ast.For, ast.While)):
                loop = True
        if se is None:
            raise ParseError(f"{fn.name}: no converter")
        return se, loop


def _int(e):
    if isinstance(e, ast.Constant) and isinstance(e.value, int) and not isinstance(e.value, bool):
        return e.value
    raise ParseError("integer literal expected: " + ast.dump(e)[:100])


# ------------------------------------------------------------------------------------------- MATLAB

TOKEN = re.compile(r"\s*(?:(?P<str>'[^']*')|(?P<num>\d+)|(?P<id>@?[A-Za-z_][A-Za-z0-9_.]*)|(?P<p>[(){}\[\],]))")
MAT_PRIM = {"Bool": "bool", "Int8": "int8", "Int16": "int16", "Int32": "int32", "Int64": "int64", "Uint8": "uint8", "Uint16": "uint16",
            "Uint32": "uint32", "Uint64": "uint64", "Size": "size", "Float32": "float32", "Float64": "float64",
            "Complexfloat32": "complexfloat32", "Complexfloat64": "complexfloat64", "String": "string", "Date": "date",
            "Time": "time", "Datetime": "datetime"}


def mat_tokens(s):
    pos, out = 0, []
    s = s.strip()
    while pos < len(s):
        m = TOKEN.match(s, pos)
        if not m:
            raise ParseError(f"MATLAB token at {s[pos:pos + 40]!r}")
        pos = m.end()
        for k in ("str", "num", "id", "p"):
            if m.group(k) is not None:
                out.append((k, m.group(k)))
    return out


def mat_parse(tokens):
    """-> tree: ('call', name, [args]) | ('id', name) | ('num', n) | ('str', s) | ('cell', [..]) | ('arr', [..])"""
    pos = 0

    def item():
        nonlocal pos
        if pos >= len(tokens):
            raise ParseError("unexpected end of MATLAB expression")
        k, v = tokens[pos]
        pos += 1
        if k == "num":
            return ("num", int(v))
        if k == "str":
            return ("str", v[1:-1])
        if k == "id":
            if pos < len(tokens) and tokens[pos] == ("p", "("):
                pos += 1
                return ("call", v, seq(")"))
            return ("id", v)
        if v == "{":
            return ("cell", seq("}"))
        if v == "[":
            return ("arr", seq("]"))
        raise ParseError(f"unexpected MATLAB token {v}")

    def seq(close):
        nonlocal pos
        xs = []
        if tokens[pos] == ("p", close):
            pos += 1
            return xs
        while True:
            xs.append(item())
            if pos >= len(tokens):
                raise ParseError("unterminated MATLAB list")
            k, v = tokens[pos]
            pos += 1
            if (k, v) == ("p", close):
                return xs
            if (k, v) != ("p", ","):
                raise ParseError(f"expected , or {close}, got {v}")

    t = item()
    if pos != len(tokens):
        raise ParseError("trailing MATLAB tokens")
    return t


class MatPackage:
    def __init__(self, out_matlab):
        self.root = out_matlab
        self.field_orders = []

    def conv(self, t, env):
        kind = t[0]
        if kind == "id":
            name = t[1]
            if name in env:
                return env[name]
            if name.startswith("yardl.binary.") and name.endswith("Serializer"):
                p = name[len("yardl.binary."):-len("Serializer")]
                if p == "None":
                    return ["none"]
                if p in MAT_PRIM:
                    return ["prim", MAT_PRIM[p]]
            raise ParseError(f"unknown MATLAB object {name}")
        if kind != "call":
            raise ParseError(f"unexpected MATLAB node {t}")
        name, a = t[1], t[2]
        rec = lambda x: self.conv(x, env)
        if name.startswith("yardl.binary."):
            c = name[len("yardl.binary."):]
            table = {"OptionalSerializer": "opt", "VectorSerializer": "vec", "DynamicNDArraySerializer": "dyn", "StreamSerializer": "stream"}
            if c in table and len(a) == 1:
                return [table[c], rec(a[0])]
            if c == "FixedVectorSerializer" and len(a) == 2 and a[1][0] == "num":
                return ["fvec", rec(a[0]), a[1][1]]
            if c == "NDArraySerializer" and len(a) == 2 and a[1][0] == "num":
                return ["nd", rec(a[0]), a[1][1]]
            if c == "FixedNDArraySerializer" and len(a) == 2 and a[1][0] == "arr" and all(x[0] == "num" for x in a[1][1]):
                return ["fnd", rec(a[0]), [x[1] for x in a[1][1]]]
            if c == "MapSerializer" and len(a) == 2:
                return ["map", rec(a[0]), rec(a[1])]
            if c == "EnumSerializer" and len(a) == 3:
                return ["enum", rec(a[2]), False]
            if c == "UnionSerializer" and len(a) == 3 and a[1][0] == "cell" and a[2][0] == "cell":
                sers, facs = a[1][1], a[2][1]
                if len(sers) != len(facs):
                    raise ParseError("UnionSerializer: serializers and factories differ in length")
                cases = [rec(x) for x in sers]
                for s, f in zip(cases, facs):
                    if (s == ["none"]) != (f == ("id", "yardl.None")):
                        raise ParseError("UnionSerializer: NoneSerializer and yardl.None are not paired")
                return ["union", cases, False, []]
            raise ParseError(f"unknown MATLAB constructor {name}/{len(a)}")
        m = re.fullmatch(r"([A-Za-z0-9_]+)\.binary\.([A-Za-z0-9_]+Serializer)", name)
        if m:
            return self.record(m.group(1), m.group(2), [rec(x) for x in a])
        raise ParseError(f"unexpected MATLAB call {name}")

    def record(self, ns, cls, args):
        path = os.path.join(self.root, "+" + ns, "+binary", cls + ".m")
        if not os.path.exists(path):
            raise ParseError(f"no MATLAB class file {path}")
        text = open(path, encoding="utf-8").read()
        m = re.search(r"function self = %s\(([^)]*)\)" % re.escape(cls), text)
        if not m:
            raise ParseError(f"{cls}.m: no constructor")
        params = [p.strip() for p in m.group(1).split(",") if p.strip()]
        if len(params) != len(args):
            raise ParseError(f"{cls} takes {len(params)} serializers, given {len(args)}")
        env = dict(zip(params, args))
        entries = re.findall(r"^\s*field_serializers\{(\d+)\} = (.*);\s*$", text, re.M)
        if [int(i) for i, _ in entries] != list(range(1, len(entries) + 1)):
            raise ParseError(f"{cls}.m: field_serializers indices {[i for i, _ in entries]}")
        fields = [self.conv(mat_parse(mat_tokens(e)), env) for _, e in entries]
        w = re.search(r"self\.write_\(outstream((?:, value\.[A-Za-z0-9_]+)*)\);", text)
        r = re.search(r"value = [A-Za-z0-9_.]+\(((?:\s*[A-Za-z0-9_]+=fields\{\d+\},?)*)\);", text)
        wn = re.findall(r"value\.([A-Za-z0-9_]+)", w.group(1)) if w else None
        rn = re.findall(r"([A-Za-z0-9_]+)=fields\{(\d+)\}", r.group(1)) if r else None
        self.field_orders.append((ns, cls, wn, rn, len(fields)))
        return ["rec", fields]

    def steps(self, ns, proto_pascal):
        out = {}
        for role in ("Writer", "Reader"):
            path = os.path.join(self.root, "+" + ns, "+binary", f"{proto_pascal}{role}.m")
            if not os.path.exists(path):
                raise ParseError(f"no MATLAB file {path}")
            text = open(path, encoding="utf-8").read()
            res = []
            for name, expr in re.findall(r"^\s*self\.([A-Za-z0-9_]+)_serializer = (.*);\s*$", text, re.M):
                se = self.conv(mat_parse(mat_tokens(expr)), {})
                res.append((name, se[1], True) if se[0] == "stream" else (name, se, False))
            # each step method uses its own serializer
            verb = "write" if role == "Writer" else "read"
            uses = re.findall(r"function (?:value = )?%s_([A-Za-z0-9_]+)_\(self(?:, value)?\)\s*\n\s*(?:value = )?self\.([A-Za-z0-9_]+)_serializer\.%s\(" % (verb, verb), text)
            out[role.lower()] = res
            out[role.lower() + "_uses"] = uses
        return out
