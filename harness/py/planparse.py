"""Extraction of serializer expressions from freshly generated code (C14).

Python `binary.py` / `ndjson.py` are parsed with `ast`; MATLAB `+<ns>/+binary/*.m` with a small
expression parser. Every expression is turned into the SE JSON form of YardlModel/Plan.lean:
  ["prim",p] | ["none"] | ["enum",base,flags] | ["opt",e] | ["union",[e…],simple,[kinds…]] | ["vec",e]
  | ["fvec",e,n] | ["nd",e,rank] | ["fnd",e,[dims]] | ["dyn",e] | ["map",k,v] | ["rec",[e…]]
Record serializer classes (possibly generic, possibly from an imported namespace) are expanded in
place with their constructor parameters substituted. Steps are returned in the order they occur.
Anything the parser does not understand raises ParseError (reported as a broken correspondence,
never silently skipped).
"""
import ast
import json
import os
import re

PRIMS = ["bool", "int8", "int16", "int32", "int64", "uint8", "uint16", "uint32", "uint64", "size", "float32", "float64",
         "complexfloat32", "complexfloat64", "string", "date", "time", "datetime"]
PY_KIND = {"bool": 2, "int": 4, "float": 4, "str": 8, "list": 16, "dict": 32}
NP_PRIM = {"int8": "int8", "int16": "int16", "int32": "int32", "int64": "int64", "uint8": "uint8", "uint16": "uint16",
           "uint32": "uint32", "uint64": "uint64"}


class ParseError(Exception):
    pass


# ------------------------------------------------------------------------------------------- Python

class PyPackage:
    """out_py/<module>/{binary,ndjson}.py of the package and of the namespaces it imports"""

    def __init__(self, out_py, kind, top):
        self.out_py, self.kind, self.top = out_py, kind, top   # kind: "binary" | "ndjson"; top: the package's own module
        self.mods = {}

    def module(self, name):
        if name not in self.mods:
            path = os.path.join(self.out_py, self.top, f"{self.kind}.py")
            if name != self.top:   # imported namespaces are sub-packages of the top module
                path = os.path.join(self.out_py, self.top, name, f"{self.kind}.py")
            if not os.path.exists(path):
                raise ParseError(f"no generated module {path}")
            try:
                tree = ast.parse(open(path, encoding="utf-8").read())
            except SyntaxError as e:
                # generated Python that does not even parse: reported as unparsed generated code (and by C08), not a crash of this check
                raise ParseError(f"generated module {path} is not valid Python: {e}")
            self.mods[name] = {n.name: n for n in tree.body if isinstance(n, ast.ClassDef)}
        return self.mods[name]

    # --- expressions
    def conv(self, e, env, mod):
        suffix = "_serializer" if self.kind == "binary" else "_converter"
        lib = "_binary" if self.kind == "binary" else "_ndjson"
        if isinstance(e, ast.Constant) and e.value is None:
            return ["none"]
        if isinstance(e, ast.Name):
            if e.id in env:
                return env[e.id]
            raise ParseError(f"unbound name {e.id}")
        if isinstance(e, ast.Attribute) and isinstance(e.value, ast.Name) and e.value.id == lib:
            if e.attr.endswith(suffix):
                p = e.attr[:-len(suffix)]
                if p == "none":
                    return ["none"]
                if p in PRIMS:
                    return ["prim", p]
            raise ParseError(f"unknown library object {lib}.{e.attr}")
        if isinstance(e, ast.Attribute) and isinstance(e.value, ast.Name) and e.value.id == "self" and ("self." + e.attr) in env:
            return env["self." + e.attr]
        if not isinstance(e, ast.Call):
            raise ParseError(f"unexpected expression {ast.dump(e)[:200]}")
        f, a = e.func, e.args
        if isinstance(f, ast.Attribute) and isinstance(f.value, ast.Name) and f.value.id == lib:
            c = f.attr
            rec = lambda x: self.conv(x, env, mod)
            if self.kind == "binary":
                table = {"OptionalSerializer": "opt", "VectorSerializer": "vec", "DynamicNDArraySerializer": "dyn", "StreamSerializer": "stream"}
                if c in table and len(a) == 1:
                    return [table[c], rec(a[0])]
                if c == "FixedVectorSerializer" and len(a) == 2:
                    return ["fvec", rec(a[0]), _int(a[1])]
                if c == "NDArraySerializer" and len(a) == 2:
                    return ["nd", rec(a[0]), _int(a[1])]
                if c == "FixedNDArraySerializer" and len(a) == 2 and isinstance(a[1], ast.Tuple):
                    return ["fnd", rec(a[0]), [_int(x) for x in a[1].elts]]
                if c == "MapSerializer" and len(a) == 2:
                    return ["map", rec(a[0]), rec(a[1])]
                if c == "EnumSerializer" and len(a) == 2:
                    return ["enum", rec(a[0]), False]
                if c == "UnionSerializer" and len(a) == 2 and isinstance(a[1], ast.List):
                    cases = []
                    for opt in a[1].elts:
                        if isinstance(opt, ast.Constant) and opt.value is None:
                            cases.append(["none"])
                        elif isinstance(opt, ast.Tuple) and len(opt.elts) == 2:
                            cases.append(rec(opt.elts[1]))
                        else:
                            raise ParseError("union option " + ast.dump(opt)[:200])
                    return ["union", cases, False, []]
            else:
                table = {"OptionalConverter": "opt", "VectorConverter": "vec", "DynamicNDArrayConverter": "dyn"}
                if c in table and len(a) == 1:
                    return [table[c], rec(a[0])]
                if c == "FixedVectorConverter" and len(a) == 2:
                    return ["fvec", rec(a[0]), _int(a[1])]
                if c == "NDArrayConverter" and len(a) == 2:
                    return ["nd", rec(a[0]), _int(a[1])]
                if c == "FixedNDArrayConverter" and len(a) == 2 and isinstance(a[1], ast.Tuple):
                    return ["fnd", rec(a[0]), [_int(x) for x in a[1].elts]]
                if c == "MapConverter" and len(a) == 2:
                    return ["map", rec(a[0]), rec(a[1])]
                if c in ("EnumConverter", "FlagsConverter") and len(a) == 4:
                    d = a[1]
                    if not (isinstance(d, ast.Attribute) and isinstance(d.value, ast.Name) and d.value.id == "np" and d.attr in NP_PRIM):
                        raise ParseError("enum base dtype " + ast.dump(d)[:100])
                    return ["enum", ["prim", NP_PRIM[d.attr]], c == "FlagsConverter"]
                if c == "UnionConverter" and len(a) == 3 and isinstance(a[1], ast.List):
                    cases, kinds = [], []
                    for opt in a[1].elts:
                        if isinstance(opt, ast.Constant) and opt.value is None:
                            cases.append(["none"])
                        elif isinstance(opt, ast.Tuple) and len(opt.elts) == 3 and isinstance(opt.elts[2], ast.List):
                            cases.append(rec(opt.elts[1]))
                            k = 0
                            for ty in opt.elts[2].elts:
                                if not (isinstance(ty, ast.Name) and ty.id in PY_KIND):
                                    raise ParseError("json type " + ast.dump(ty)[:100])
                                k |= PY_KIND[ty.id]
                            kinds.append(k)
                        else:
                            raise ParseError("union option " + ast.dump(opt)[:200])
                    if not isinstance(a[2], ast.Constant) or not isinstance(a[2].value, bool):
                        raise ParseError("union simple flag")
                    return ["union", cases, a[2].value, kinds]
            raise ParseError(f"unknown library constructor {lib}.{c}/{len(a)}")
        # a record class of this or an imported namespace
        if isinstance(f, ast.Name):
            return self.record(mod, f.id, [self.conv(x, env, mod) for x in a])
        if (isinstance(f, ast.Attribute) and isinstance(f.value, ast.Attribute) and isinstance(f.value.value, ast.Name)
                and f.value.attr == self.kind):
            return self.record(f.value.value.id, f.attr, [self.conv(x, env, mod) for x in a])
        raise ParseError("unexpected call " + ast.dump(f)[:200])

    def record(self, mod, cls, args):
        classes = self.module(mod)
        if cls not in classes:
            raise ParseError(f"no class {cls} in {mod}.{self.kind}")
        init = next((n for n in classes[cls].body if isinstance(n, ast.FunctionDef) and n.name == "__init__"), None)
        if init is None:
            raise ParseError(f"{cls} has no __init__")
        params = [p.arg for p in init.args.args[1:]]
        if len(params) != len(args):
            raise ParseError(f"{cls} takes {len(params)} serializers, given {len(args)}")
        env = dict(zip(params, args))
        if self.kind == "binary":
            for st in init.body:
                call = st.value if isinstance(st, ast.Expr) else None
                if (isinstance(call, ast.Call) and isinstance(call.func, ast.Attribute) and call.func.attr == "__init__"
                        and len(call.args) == 1 and isinstance(call.args[0], ast.List)):
                    fields, names = [], []
                    for el in call.args[0].elts:
                        if not (isinstance(el, ast.Tuple) and len(el.elts) == 2 and isinstance(el.elts[0], ast.Constant)):
                            raise ParseError("record field entry " + ast.dump(el)[:200])
                        names.append(el.elts[0].value)
                        fields.append(self.conv(el.elts[1], env, mod))
                    self.check_record_order(mod, cls, classes[cls], names)
                    return ["rec", fields]
            raise ParseError(f"{cls}.__init__ does not pass a field list to super().__init__")
        fields, names = [], []
        dtype_names = None
        for st in init.body:
            if (isinstance(st, ast.Assign) and len(st.targets) == 1 and isinstance(st.targets[0], ast.Attribute)
                    and isinstance(st.targets[0].value, ast.Name) and st.targets[0].value.id == "self"
                    and st.targets[0].attr.endswith("_converter")):
                names.append(st.targets[0].attr[1:-len("_converter")])
                fields.append(self.conv(st.value, env, mod))
            elif isinstance(st, ast.Expr) and isinstance(st.value, ast.Call):
                src = ast.unparse(st.value)
                dtype_names = re.findall(r"\('([^']*)', self\._([A-Za-z0-9_]+)_converter\.overall_dtype\(\)\)", src)
        if dtype_names is None or [b for _, b in dtype_names] != names:
            raise ParseError(f"{cls}: dtype field list {dtype_names} does not follow the converters {names}")
        return ["rec", fields]

    def check_record_order(self, mod, cls, node, names):
        """write() hands value.<f> to _write in field order; read() builds the record from field_values in order"""
        for fn in node.body:
            if isinstance(fn, ast.FunctionDef) and fn.name == "write":
                for c in ast.walk(fn):
                    if isinstance(c, ast.Call) and isinstance(c.func, ast.Attribute) and c.func.attr == "_write":
                        got = [x.attr for x in c.args[1:] if isinstance(x, ast.Attribute)]
                        if len(got) != len(names):
                            raise ParseError(f"{cls}.write passes {len(got)} fields, serializer list has {len(names)}")
                        self.field_orders.append((mod, cls, "write", got, names))
            if isinstance(fn, ast.FunctionDef) and fn.name == "read":
                for c in ast.walk(fn):
                    if isinstance(c, ast.Call) and c.keywords and all(isinstance(k.value, ast.Subscript) for k in c.keywords):
                        idx = [(k.arg, _int(k.value.slice)) for k in c.keywords]
                        self.field_orders.append((mod, cls, "read", idx, names))

    field_orders = None

    # --- protocol steps
    def steps(self, mod, proto_pascal):
        """{'writer': [(method, se, is_stream)…], 'reader': […]} for protocol class names"""
        self.field_orders = []
        classes = self.module(mod)
        prefix = "Binary" if self.kind == "binary" else "NDJson"
        out = {}
        for role, meth in (("Writer", "_write_"), ("Reader", "_read_")):
            cname = f"{prefix}{proto_pascal}{role}"
            if cname not in classes:
                raise ParseError(f"no class {cname} in {mod}.{self.kind}")
            res = []
            for fn in classes[cname].body:
                if not (isinstance(fn, ast.FunctionDef) and fn.name.startswith(meth)):
                    continue
                res.append((fn.name[len(meth):],) + self.step_expr(fn, mod))
            out[role.lower()] = res
        return out

    def step_expr(self, fn, mod):
        if self.kind == "binary":
            for c in ast.walk(fn):
                if (isinstance(c, ast.Call) and isinstance(c.func, ast.Attribute) and c.func.attr in ("write", "read")
                        and len(c.args) >= 1 and "_stream" in ast.unparse(c.args[0])):
                    se = self.conv(c.func.value, {}, mod)
                    if se[0] == "stream":
                        return se[1], True
                    return se, False
            raise ParseError(f"{fn.name}: no serializer call")
        se = None
        loop = False
        for c in ast.walk(fn):
            if isinstance(c, ast.Assign) and len(c.targets) == 1 and isinstance(c.targets[0], ast.Name) and c.targets[0].id == "converter":
                se = self.conv(c.value, {}, mod)
            if isinstance(c, (ast.For, ast.While)):
                loop = True
        if se is None:
            raise ParseError(f"{fn.name}: no converter")
        return se, loop


def _int(e):
    if isinstance(e, ast.Constant) and isinstance(e.value, int) and not isinstance(e.value, bool):
        return e.value
    raise ParseError("integer literal expected: " + ast.dump(e)[:100])


# ------------------------------------------------------------------------------------------- MATLAB

TOKEN = re.compile(r"\s*(?:(?P<str>'[^']*')|(?P<num>\d+)|(?P<id>@?[A-Za-z_][A-Za-z0-9_.]*)|(?P<p>[(){}\[\],]))")
MAT_PRIM = {"Bool": "bool", "Int8": "int8", "Int16": "int16", "Int32": "int32", "Int64": "int64", "Uint8": "uint8", "Uint16": "uint16",
            "Uint32": "uint32", "Uint64": "uint64", "Size": "size", "Float32": "float32", "Float64": "float64",
            "Complexfloat32": "complexfloat32", "Complexfloat64": "complexfloat64", "String": "string", "Date": "date",
            "Time": "time", "Datetime": "datetime"}


def mat_tokens(s):
    pos, out = 0, []
    s = s.strip()
    while pos < len(s):
        m = TOKEN.match(s, pos)
        if not m:
            raise ParseError(f"MATLAB token at {s[pos:pos + 40]!r}")
        pos = m.end()
        for k in ("str", "num", "id", "p"):
            if m.group(k) is not None:
                out.append((k, m.group(k)))
    return out


def mat_parse(tokens):
    """-> tree: ('call', name, [args]) | ('id', name) | ('num', n) | ('str', s) | ('cell', [..]) | ('arr', [..])"""
    pos = 0

    def item():
        nonlocal pos
        if pos >= len(tokens):
            raise ParseError("unexpected end of MATLAB expression")
        k, v = tokens[pos]
        pos += 1
        if k == "num":
            return ("num", int(v))
        if k == "str":
            return ("str", v[1:-1])
        if k == "id":
            if pos < len(tokens) and tokens[pos] == ("p", "("):
                pos += 1
                return ("call", v, seq(")"))
            return ("id", v)
        if v == "{":
            return ("cell", seq("}"))
        if v == "[":
            return ("arr", seq("]"))
        raise ParseError(f"unexpected MATLAB token {v}")

    def seq(close):
        nonlocal pos
        xs = []
        if tokens[pos] == ("p", close):
            pos += 1
            return xs
        while True:
            xs.append(item())
            if pos >= len(tokens):
                raise ParseError("unterminated MATLAB list")
            k, v = tokens[pos]
            pos += 1
            if (k, v) == ("p", close):
                return xs
            if (k, v) != ("p", ","):
                raise ParseError(f"expected , or {close}, got {v}")

    t = item()
    if pos != len(tokens):
        raise ParseError("trailing MATLAB tokens")
    return t


class MatPackage:
    def __init__(self, out_matlab):
        self.root = out_matlab
        self.field_orders = []

    def conv(self, t, env):
        kind = t[0]
        if kind == "id":
            name = t[1]
            if name in env:
                return env[name]
            if name.startswith("yardl.binary.") and name.endswith("Serializer"):
                p = name[len("yardl.binary."):-len("Serializer")]
                if p == "None":
                    return ["none"]
                if p in MAT_PRIM:
                    return ["prim", MAT_PRIM[p]]
            raise ParseError(f"unknown MATLAB object {name}")
        if kind != "call":
            raise ParseError(f"unexpected MATLAB node {t}")
        name, a = t[1], t[2]
        rec = lambda x: self.conv(x, env)
        if name.startswith("yardl.binary."):
            c = name[len("yardl.binary."):]
            table = {"OptionalSerializer": "opt", "VectorSerializer": "vec", "DynamicNDArraySerializer": "dyn", "StreamSerializer": "stream"}
            if c in table and len(a) == 1:
                return [table[c], rec(a[0])]
            if c == "FixedVectorSerializer" and len(a) == 2 and a[1][0] == "num":
                return ["fvec", rec(a[0]), a[1][1]]
            if c == "NDArraySerializer" and len(a) == 2 and a[1][0] == "num":
                return ["nd", rec(a[0]), a[1][1]]
            if c == "FixedNDArraySerializer" and len(a) == 2 and a[1][0] == "arr" and all(x[0] == "num" for x in a[1][1]):
                return ["fnd", rec(a[0]), [x[1] for x in a[1][1]]]
            if c == "MapSerializer" and len(a) == 2:
                return ["map", rec(a[0]), rec(a[1])]
            if c == "EnumSerializer" and len(a) == 3:
                return ["enum", rec(a[2]), False]
            if c == "UnionSerializer" and len(a) == 3 and a[1][0] == "cell" and a[2][0] == "cell":
                sers, facs = a[1][1], a[2][1]
                if len(sers) != len(facs):
                    raise ParseError("UnionSerializer: serializers and factories differ in length")
                cases = [rec(x) for x in sers]
                for s, f in zip(cases, facs):
                    if (s == ["none"]) != (f == ("id", "yardl.None")):
                        raise ParseError("UnionSerializer: NoneSerializer and yardl.None are not paired")
                return ["union", cases, False, []]
            raise ParseError(f"unknown MATLAB constructor {name}/{len(a)}")
        m = re.fullmatch(r"([A-Za-z0-9_]+)\.binary\.([A-Za-z0-9_]+Serializer)", name)
        if m:
            return self.record(m.group(1), m.group(2), [rec(x) for x in a])
        raise ParseError(f"unexpected MATLAB call {name}")

    def record(self, ns, cls, args):
        path = os.path.join(self.root, "+" + ns, "+binary", cls + ".m")
        if not os.path.exists(path):
            raise ParseError(f"no MATLAB class file {path}")
        text = open(path, encoding="utf-8").read()
        m = re.search(r"function self = %s\(([^)]*)\)" % re.escape(cls), text)
        if not m:
            raise ParseError(f"{cls}.m: no constructor")
        params = [p.strip() for p in m.group(1).split(",") if p.strip()]
        if len(params) != len(args):
            raise ParseError(f"{cls} takes {len(params)} serializers, given {len(args)}")
        env = dict(zip(params, args))
        entries = re.findall(r"^\s*field_serializers\{(\d+)\} = (.*);\s*$", text, re.M)
        if [int(i) for i, _ in entries] != list(range(1, len(entries) + 1)):
            raise ParseError(f"{cls}.m: field_serializers indices {[i for i, _ in entries]}")
        fields = [self.conv(mat_parse(mat_tokens(e)), env) for _, e in entries]
        w = re.search(r"self\.write_\(outstream((?:, value\.[A-Za-z0-9_]+)*)\);", text)
        r = re.search(r"value = [A-Za-z0-9_.]+\(((?:\s*[A-Za-z0-9_]+=fields\{\d+\},?)*)\);", text)
        wn = re.findall(r"value\.([A-Za-z0-9_]+)", w.group(1)) if w else None
        rn = re.findall(r"([A-Za-z0-9_]+)=fields\{(\d+)\}", r.group(1)) if r else None
        self.field_orders.append((ns, cls, wn, rn, len(fields)))
        return ["rec", fields]

    def steps(self, ns, proto_pascal):
        out = {}
        for role in ("Writer", "Reader"):
            path = os.path.join(self.root, "+" + ns, "+binary", f"{proto_pascal}{role}.m")
            if not os.path.exists(path):
                raise ParseError(f"no MATLAB file {path}")
            text = open(path, encoding="utf-8").read()
            res = []
            for name, expr in re.findall(r"^\s*self\.([A-Za-z0-9_]+)_serializer = (.*);\s*$", text, re.M):
                se = self.conv(mat_parse(mat_tokens(expr)), {})
                res.append((name, se[1], True) if se[0] == "stream" else (name, se, False))
            # each step method uses its own serializer
            verb = "write" if role == "Writer" else "read"
            uses = re.findall(r"function (?:value = )?%s_([A-Za-z0-9_]+)_\(self(?:, value)?\)\s*\n\s*(?:value = )?self\.([A-Za-z0-9_]+)_serializer\.%s\(" % (verb, verb), text)
            out[role.lower()] = res
            out[role.lower() + "_uses"] = uses
        return out


# ------------------------------------------------------------------------------------------- C++

CPP_PRIM = {"bool": "bool", "int8_t": "int8", "int16_t": "int16", "int32_t": "int32", "int64_t": "int64", "uint8_t": "uint8", "uint16_t": "uint16",
            "uint32_t": "uint32", "uint64_t": "uint64", "yardl::Size": "size", "float": "float32", "double": "float64", "std::string": "string",
            "yardl::Date": "date", "yardl::Time": "time", "yardl::DateTime": "datetime"}
CPP_INT = {"bool", "int8", "int16", "int32", "int64", "uint8", "uint16", "uint32", "uint64", "size"}
CPP_FLOAT = {"float32", "float64", "complexfloat32", "complexfloat64"}


def cpp_tokens(s):
    out, pos = [], 0
    for m in re.finditer(r"\s*((?:::)?[A-Za-z_][A-Za-z0-9_]*(?:::[A-Za-z_][A-Za-z0-9_]*)*|\d+|[<>,])", s):
        if m.start() != pos:
            raise ParseError(f"C++ expression not understood at {s[pos:pos + 30]!r} in {s[:120]!r}")
        out.append(m.group(1))
        pos = m.end()
    if s[pos:].strip():
        raise ParseError(f"C++ expression not understood at {s[pos:pos + 30]!r} in {s[:120]!r}")
    return out


def cpp_parse(s):
    """`a::b<c, d<e>, 3>` -> ("t", "a::b", [("t", "c", []), ("t", "d", [("t", "e", [])]), ("n", 3)])"""
    toks = cpp_tokens(s)
    pos = [0]

    def term():
        if pos[0] >= len(toks):
            raise ParseError(f"C++ expression ends early: {s[:120]!r}")
        t = toks[pos[0]]
        pos[0] += 1
        if t.isdigit():
            return ("n", int(t))
        if t in "<>,":
            raise ParseError(f"C++ expression: unexpected {t!r} in {s[:120]!r}")
        args = []
        if pos[0] < len(toks) and toks[pos[0]] == "<":
            pos[0] += 1
            while True:
                args.append(term())
                if pos[0] >= len(toks):
                    raise ParseError(f"C++ expression: unclosed '<' in {s[:120]!r}")
                sep = toks[pos[0]]
                pos[0] += 1
                if sep == ">":
                    break
                if sep != ",":
                    raise ParseError(f"C++ expression: unexpected {sep!r} in {s[:120]!r}")
        return ("t", t, args)
    r = term()
    if pos[0] != len(toks):
        raise ParseError(f"C++ expression: trailing {toks[pos[0]:][:3]} in {s[:120]!r}")
    return r


class CppPackage:
    """out_cpp/binary/protocols.cc (the reader / writer functions of every namespace and the step methods of the protocol classes) and every types.h
    (declared field types, aliases, enum bases: what the overloaded yardl::binary::WriteInteger / WriteFloatingPoint resolve on)"""

    def __init__(self, out_cpp):
        self.root = out_cpp
        self.structs, self.aliases, self.enums = {}, {}, {}     # "ns::Name" -> ([tparams], [(field, type ast)]) / ([tparams], type ast) / base prim
        self.union_helpers, self.union_arities = {}, set()
        self.funcs = {}       # (ns, verb, Name) -> {"tparams": [(T, FnName)], "ptype": ast, "stmts": [(expr ast, target)]}
        self.methods = {}     # (ns, Proto, role) -> [(verb, Step, param type text, body lines)]
        self.field_orders = []
        self.memo = {}
        for dirpath, _, files in os.walk(out_cpp):
            for fn in files:
                if fn == "types.h":
                    self._types(os.path.join(dirpath, fn))
        path = os.path.join(out_cpp, "binary", "protocols.cc")
        if not os.path.exists(path):
            raise ParseError(f"no generated file {path}")
        self._protocols(open(path, encoding="utf-8").read().splitlines())

    # --- types.h
    def _types(self, path):
        lines = open(path, encoding="utf-8").read().splitlines()
        ns, tparams, i = None, [], 0
        while i < len(lines):
            ln = lines[i]
            m = re.fullmatch(r"namespace ([A-Za-z0-9_:]+) \{", ln)
            if m:
                ns = m.group(1)
            m = re.fullmatch(r"template <(.*)>", ln)
            if m:
                tparams = [p.strip().split()[-1] for p in m.group(1).split(",")]
                i += 1
                continue
            m = re.fullmatch(r"enum class ([A-Za-z0-9_]+)(?: : ([A-Za-z0-9_:]+))? \{", ln)
            if m:
                self.enums[f"{ns}::{m.group(1)}"] = (m.group(2) or "int32_t", False)
            m = re.fullmatch(r"struct ([A-Za-z0-9_]+) : yardl::BaseFlags<([A-Za-z0-9_:]+), ([A-Za-z0-9_]+)> \{", ln)
            if m:
                if m.group(3) != m.group(1):
                    raise ParseError(f"{path}: flags {ln.strip()}")
                self.enums[f"{ns}::{m.group(1)}"] = (m.group(2), True)
            m = re.fullmatch(r"using ([A-Za-z0-9_]+) = (.*);", ln)
            if m and ns is not None:
                self.aliases[f"{ns}::{m.group(1)}"] = (tparams, m.group(2))
            m = re.fullmatch(r"struct ([A-Za-z0-9_]+) \{", ln)
            if m and ns is not None:
                name, fields = m.group(1), []
                i += 1
                while i < len(lines) and lines[i].strip() and not lines[i].startswith("}"):
                    f = re.fullmatch(r"  (.+?) ([A-Za-z_][A-Za-z0-9_]*)(\{.*\}| = .*)?;", lines[i])
                    if f is None:
                        break
                    fields.append((f.group(2), f.group(1)))
                    i += 1
                self.structs[f"{ns}::{name}"] = (tparams, fields)
            tparams = []
            i += 1

    # --- binary/protocols.cc
    def _protocols(self, lines):
        ns, tline, i = None, None, 0
        head = re.compile(r"(?:\[\[maybe_unused\]\] )?void (Write|Read)([A-Za-z0-9_]+)\(yardl::binary::Coded(?:Out|In)putStream& stream, (.+?)(?: const)?& value\) \{")
        meth = re.compile(r"(?:void|bool) ([A-Za-z0-9_]+)(Writer|Reader)::(Write|Read|End)([A-Za-z0-9_]+)Impl\((.*)\) \{")
        while i < len(lines):
            ln = lines[i]
            m = re.fullmatch(r"namespace ([A-Za-z0-9_:]+)::binary \{", ln)
            if m:
                ns = m.group(1)
            if ln.startswith("template<") and ln.endswith(">"):
                tline = ln
                i += 1
                continue
            m = re.fullmatch(r"void (Write|Read)Union\(yardl::binary::Coded(?:Out|In)putStream& stream, std::variant<(.*)>(?: const)?& value\) \{", ln)
            if m:
                body, i = self._body(lines, i + 1)
                self.union_helpers[(m.group(1), len(m.group(2).split(",")))] = ((tline or "") + "|" + m.group(2), [x.strip() for x in body if x.strip()])
                tline = None
                continue
            m = head.fullmatch(ln)
            if m and ns is not None and ns != "yardl":
                body, i = self._body(lines, i + 1)
                tps = []
                if tline:
                    parts = [p.strip() for p in self._split_top(tline[len("template<"):-1])]
                    if len(parts) % 2:
                        raise ParseError(f"template parameters of {m.group(1)}{m.group(2)}: {tline}")
                    for a, b in zip(parts[0::2], parts[1::2]):
                        ta = re.fullmatch(r"typename ([A-Za-z0-9_]+)", a)
                        fb = re.fullmatch(r"yardl::binary::(?:Writer|Reader)<([A-Za-z0-9_]+)> ([A-Za-z0-9_]+)", b)
                        if not ta or not fb or fb.group(1) != ta.group(1):
                            raise ParseError(f"template parameters of {m.group(1)}{m.group(2)}: {tline}")
                        tps.append((ta.group(1), fb.group(2)))
                self.funcs[(ns, m.group(1), m.group(2))] = {"tparams": tps, "ptype": m.group(3), "body": body}
                tline = None
                continue
            m = meth.fullmatch(ln)
            if m and ns is not None:
                body, i = self._body(lines, i + 1)
                self.methods.setdefault((ns, m.group(1), m.group(2)), []).append((m.group(3), m.group(4), m.group(5), body))
                tline = None
                continue
            tline = None
            i += 1

    @staticmethod
    def _body(lines, i):
        body = []
        while i < len(lines) and lines[i] != "}":
            body.append(lines[i])
            i += 1
        return body, i + 1

    @staticmethod
    def _split_top(s):
        out, depth, cur = [], 0, ""
        for ch in s:
            if ch == "<":
                depth += 1
            if ch == ">":
                depth -= 1
            if ch == "," and depth == 0:
                out.append(cur)
                cur = ""
            else:
                cur += ch
        if cur.strip():
            out.append(cur)
        return out

    # --- types
    def subst(self, t, tenv):
        if t[0] == "n":
            return t
        if not t[2] and t[1] in tenv:
            return tenv[t[1]]
        return ("t", t[1], [self.subst(a, tenv) for a in t[2]])

    def prim_of(self, t, depth=0):
        """the primitive a C++ type names (through non-generic `using` aliases)"""
        if t[0] != "t" or depth > 20:
            return None
        name = t[1].lstrip(":")
        if not t[2] and name in CPP_PRIM:
            return CPP_PRIM[name]
        if name == "std::complex" and len(t[2]) == 1 and t[2][0] in (("t", "float", []), ("t", "double", [])):
            return "complexfloat32" if t[2][0][1] == "float" else "complexfloat64"
        if name in self.aliases:
            tps, text = self.aliases[name]
            if len(tps) != len(t[2]):
                return None
            return self.prim_of(self.subst(cpp_parse(text), dict(zip(tps, t[2]))), depth + 1)
        return None

    # --- expressions
    def conv(self, f, ty, tenv, fenv):
        """the serializer expression of function `f` applied to a value of C++ type `ty` (None when the call does not spell it)"""
        if f[0] != "t":
            raise ParseError(f"not a function: {f}")
        name, a = f[1], f[2]
        if not a and name in fenv:
            return fenv[name]
        ty = self.subst(ty, tenv) if ty is not None else None
        rec = lambda t_, f_: self.conv(f_, t_, tenv, fenv)
        m = re.fullmatch(r"(?:::)?yardl::binary::(?:Write|Read)([A-Za-z0-9]+)", name)
        if m:
            c = m.group(1)
            if c in ("Integer", "FloatingPoint", "String", "Date", "Time", "DateTime") and not a:
                p = self.prim_of(ty) if ty is not None else None
                fixed = {"String": "string", "Date": "date", "Time": "time", "DateTime": "datetime"}
                if c in fixed:
                    if p is not None and p != fixed[c]:
                        raise ParseError(f"{name} applied to a value of type {ty}")
                    return ["prim", fixed[c]]
                if p is None or p not in (CPP_INT if c == "Integer" else CPP_FLOAT):
                    raise ParseError(f"{name} applied to a value of type {ty}")
                return ["prim", p]
            if c == "Monostate" and not a:
                return ["none"]
            if c in ("Enum", "Flags") and len(a) == 1 and a[0][0] == "t":
                e = self.subst(a[0], tenv)[1].lstrip(":")
                if e not in self.enums or self.enums[e][1] != (c == "Flags"):
                    raise ParseError(f"{name}<{e}>: no such {'flags' if c == 'Flags' else 'enum'} in types.h")
                base = self.prim_of(cpp_parse(self.enums[e][0]))       # the underlying type, possibly through aliases
                if base not in CPP_INT:
                    raise ParseError(f"{name}<{e}>: underlying type {self.enums[e][0]}")
                return ["enum", ["prim", base], False]
            if c == "Optional" and len(a) == 2:
                return ["opt", rec(a[0], a[1])]
            if c == "Vector" and len(a) == 2:
                return ["vec", rec(a[0], a[1])]
            if c == "Array" and len(a) == 3 and a[2][0] == "n":
                return ["fvec", rec(a[0], a[1]), a[2][1]]
            if c == "NDArray" and len(a) == 3 and a[2][0] == "n":
                return ["nd", rec(a[0], a[1]), a[2][1]]
            if c == "FixedNDArray" and len(a) >= 3 and all(x[0] == "n" for x in a[2:]):
                return ["fnd", rec(a[0], a[1]), [x[1] for x in a[2:]]]
            if c == "DynamicNDArray" and len(a) == 2:
                return ["dyn", rec(a[0], a[1])]
            if c == "Map" and len(a) == 4:
                return ["map", rec(a[0], a[2]), rec(a[1], a[3])]
            raise ParseError(f"unknown runtime function {name}/{len(a)}")
        if re.fullmatch(r"(?:::)?(?:Write|Read)Union", name):
            if len(a) < 4 or len(a) % 2:
                raise ParseError(f"{name} with {len(a)} template arguments")
            self.union_arities.add(len(a) // 2)
            return ["union", [rec(t_, f_) for t_, f_ in zip(a[0::2], a[1::2])], False, []]
        m = re.fullmatch(r"(?:::)?([A-Za-z0-9_:]+)::binary::(Write|Read)([A-Za-z0-9_]+)", name)
        if m:
            if len(a) % 2:
                raise ParseError(f"{name} with {len(a)} template arguments")
            targs = [(self.subst(t_, tenv), rec(t_, f_)) for t_, f_ in zip(a[0::2], a[1::2])]
            return self.named(m.group(1), m.group(2), m.group(3), targs)
        raise ParseError(f"unknown function {name}")

    union_arities = set()
    union_helpers = {}

    def check_union_helper(self, verb, n):
        """the file-local helper for unions of `n` cases: the case index as an integer, then case i with the i-th function"""
        got = self.union_helpers.get((verb, n))
        if got is None:
            raise ParseError(f"no file-local {verb}Union for {n} cases")
        role = "Writer" if verb == "Write" else "Reader"
        sig = "template<" + ", ".join(f"typename T{i}, yardl::binary::{role}<T{i}> {verb}T{i}" for i in range(n)) + ">|" + ", ".join(f"T{i}" for i in range(n))
        if verb == "Write":
            body = ["yardl::binary::WriteInteger(stream, value.index());", "switch (value.index()) {"]
            for i in range(n):
                body += [f"case {i}: {{", f"T{i} const& v = std::get<{i}>(value);", f"WriteT{i}(stream, v);", "break;", "}"]
        else:
            body = ["size_t index;", "yardl::binary::ReadInteger(stream, index);", "switch (index) {"]
            for i in range(n):
                body += [f"case {i}: {{", f"T{i} v;", f"ReadT{i}(stream, v);", "value = std::move(v);", "break;", "}"]
        body += ['default: throw std::runtime_error("Invalid union index.");', "}"]
        if got != (sig, body):
            raise ParseError(f"the file-local {verb}Union for {n} cases is not of the reviewed form (index, then case i by function i): {got[1][:6]}")

    def named(self, ns, verb, name, targs):
        key = (ns, verb, name, json.dumps(targs))
        if key in self.memo:
            if self.memo[key] is None:
                raise ParseError(f"{ns}::binary::{verb}{name} calls itself")
            return self.memo[key]
        fn = self.funcs.get((ns, verb, name))
        if fn is None:
            raise ParseError(f"no function {ns}::binary::{verb}{name}")
        if len(fn["tparams"]) != len(targs):
            raise ParseError(f"{ns}::binary::{verb}{name} takes {len(fn['tparams'])} type arguments, given {len(targs)}")
        self.memo[key] = None
        tenv = {tp: t for (tp, _), (t, _) in zip(fn["tparams"], targs)}
        fenv = {fp: se for (_, fp), (_, se) in zip(fn["tparams"], targs)}
        ptype = cpp_parse(fn["ptype"])
        body = list(fn["body"])
        # the raw-memory shortcut, taken when the C++ type has the layout of its encoding
        if len(body) >= 4 and re.fullmatch(r"  if constexpr \(yardl::binary::IsTriviallySerializable<.*>::value\) \{", body[0]) and \
                re.fullmatch(r"    yardl::binary::(Write|Read)TriviallySerializable\(stream, value\);", body[1]) and body[2] == "    return;" and body[3] == "  }":
            body = body[4:]
        stmts = []
        for ln in body:
            if not ln.strip():
                continue
            s = re.fullmatch(r"  (.+)\(stream, (value(?:\.[A-Za-z_][A-Za-z0-9_]*)?)\);", ln)
            if s is None:
                raise ParseError(f"{ns}::binary::{verb}{name}: statement not understood: {ln.strip()[:160]}")
            stmts.append((cpp_parse(s.group(1)), s.group(2)))
        if len(stmts) == 1 and stmts[0][1] == "value":
            res = self.conv(stmts[0][0], ptype, tenv, fenv)
        else:
            sname = ptype[1].lstrip(":")
            if sname not in self.structs:
                raise ParseError(f"{ns}::binary::{verb}{name}: parameter type {sname} is not a struct of types.h")
            stps, sfields = self.structs[sname]
            if len(stps) != len(ptype[2]):
                raise ParseError(f"{sname}: {len(stps)} template parameters, used with {len(ptype[2])}")
            senv = dict(zip(stps, [self.subst(x, tenv) for x in ptype[2]]))
            used = [t.split(".", 1)[1] if "." in t else None for _, t in stmts]
            self.field_orders.append((f"{ns}::binary::{verb}{name}", used, [f for f, _ in sfields]))
            ftypes = dict(sfields)
            fields = []
            for e, target in stmts:
                fname = target.split(".", 1)[1] if "." in target else None
                if fname is None or fname not in ftypes:
                    raise ParseError(f"{ns}::binary::{verb}{name}: {target} is not a field of {sname}")
                fields.append(self.conv(e, self.subst(cpp_parse(ftypes[fname]), senv), tenv, fenv))
            res = ["rec", fields]
        self.memo[key] = res
        return res

    # --- protocol steps
    def steps(self, ns, proto_pascal):
        out = {}
        self.field_orders = []
        self.memo = {}
        for role in ("Writer", "Reader"):
            ms = self.methods.get((ns, proto_pascal, role))
            if ms is None:
                raise ParseError(f"no step methods of {ns}::binary::{proto_pascal}{role}")
            verb = "Write" if role == "Writer" else "Read"
            order, by = [], {}
            for v, step, params, body in ms:
                if step not in by:
                    by[step] = []
                    if v == verb:
                        order.append(step)
                by[step].append((v, params, body))
            res = []
            for step in order:
                ov = [(p, b) for v, p, b in by[step] if v == verb]
                ended = any(v == "End" for v, _, _ in by[step])
                if role == "Writer":
                    stream = ended
                    if stream and (len(ov) != 2 or [b.strip() for v, p, b_ in by[step] if v == "End" for b in b_] != ["yardl::binary::WriteInteger(stream_, 0U);"]):
                        raise ParseError(f"{proto_pascal}{role}: stream step {step}: overloads / end marker not understood")
                else:
                    stream = len(ov) == 2
                if not stream:
                    if len(ov) != 1:
                        raise ParseError(f"{proto_pascal}{role}: step {step} has {len(ov)} overloads")
                    p, b = ov[0]
                    pm = re.fullmatch(r"(.+?)(?: const)?& value", p)
                    st = [x.strip() for x in b if x.strip()]
                    s = re.fullmatch(r"(.+)\(stream_, value\);", st[0]) if len(st) == 1 else None
                    if pm is None or s is None:
                        raise ParseError(f"{proto_pascal}{role}: step {step}: body not understood: {st[:3]}")
                    res.append((step, self.conv(cpp_parse(s.group(1)), cpp_parse(pm.group(1)), {}, {}), False))
                    continue
                exprs = []
                for (p, b), (single, batch) in zip(ov, [(True, False), (False, True)]):
                    st = [x.strip() for x in b if x.strip()]
                    if role == "Writer" and single:
                        pat = [r"yardl::binary::WriteBlock<(.+)>\(stream_, value\);"]
                    elif role == "Writer":
                        pat = [r"if \(!values\.empty\(\)\) \{", r"yardl::binary::WriteVector<(.+)>\(stream_, values\);", r"\}"]
                    elif single:
                        pat = [r"bool read_block_successful = false;", r"read_block_successful = yardl::binary::ReadBlock<(.+)>\(stream_, current_block_remaining_, value\);",
                               r"return read_block_successful;"]
                    else:
                        pat = [r"yardl::binary::ReadBlocksIntoVector<(.+)>\(stream_, current_block_remaining_, values\);", r"return current_block_remaining_ != 0;"]
                    ms_ = [re.fullmatch(x, y) for x, y in zip(pat, st)] if len(pat) == len(st) else [None]
                    if not all(ms_):
                        raise ParseError(f"{proto_pascal}{role}: stream step {step}: body not understood: {st[:4]}")
                    inner = next(m_.group(1) for m_ in ms_ if m_.groups())
                    parts = self._split_top(inner)
                    if len(parts) != 2:
                        raise ParseError(f"{proto_pascal}{role}: stream step {step}: {inner[:120]}")
                    exprs.append(self.conv(cpp_parse(parts[1]), cpp_parse(parts[0]), {}, {}))
                if exprs[0] != exprs[1]:
                    raise ParseError(f"{proto_pascal}{role}: stream step {step}: the single-item and the batch overload use different serializers")
                res.append((step, exprs[0], True))
            out[role.lower()] = res
            for n in sorted(self.union_arities):
                self.check_union_helper(verb, n)
        return out
