// inproc: runs yardl's real internal functions in-process for the /verif checks.
//
//	inproc tables            -> JSON tables obtained by *executing* yardl functions on finite domains
//	inproc dump <pkgdir>     -> JSON description of the validated package (schemas, JSON kinds, ...)
//	inproc idents            -> identifier derivation for names read from stdin (one per line)
package main

import (
	"bufio"
	"encoding/json"
	"fmt"
	"os"
	"runtime/debug"
	"strings"

	cppcommon "github.com/microsoft/yardl/tooling/internal/cpp/common"
	"github.com/microsoft/yardl/tooling/internal/formatting"
	matlabcommon "github.com/microsoft/yardl/tooling/internal/matlab/common"
	"github.com/microsoft/yardl/tooling/internal/ndjsoncommon"
	pythoncommon "github.com/microsoft/yardl/tooling/internal/python/common"
	"github.com/microsoft/yardl/tooling/pkg/dsl"
	"github.com/microsoft/yardl/tooling/pkg/packaging"
	"github.com/rs/zerolog"
)

var prims = []dsl.PrimitiveDefinition{dsl.Bool, dsl.Int8, dsl.Int16, dsl.Int32, dsl.Int64, dsl.Uint8, dsl.Uint16, dsl.Uint32,
	dsl.Uint64, dsl.Size, dsl.Float32, dsl.Float64, dsl.ComplexFloat32, dsl.ComplexFloat64, dsl.String, dsl.Date, dsl.Time, dsl.DateTime}

func primType(p dsl.PrimitiveDefinition) dsl.Type {
	return &dsl.SimpleType{Name: string(p), ResolvedDefinition: p}
}

func recovered(f func()) (panicMsg string) {
	defer func() {
		if r := recover(); r != nil {
			panicMsg = fmt.Sprintf("%v\n%s", r, topFrames(string(debug.Stack())))
		}
	}()
	f()
	return ""
}

func topFrames(stack string) string {
	var out []string
	for _, l := range strings.Split(stack, "\n") {
		if strings.Contains(l, "yardl/tooling/") && !strings.Contains(l, "verifharness") {
			out = append(out, strings.TrimSpace(l))
			if len(out) >= 6 {
				break
			}
		}
	}
	return strings.Join(out, " | ")
}

func tables() {
	res := map[string]any{}
	common := map[string]map[string]string{}
	for _, a := range prims {
		common[string(a)] = map[string]string{}
		for _, b := range prims {
			var v string
			p := recovered(func() {
				t, err := dsl.GetCommonType(primType(a), primType(b))
				if err != nil {
					v = "error"
				} else if pt, ok := dsl.GetPrimitiveType(t); ok {
					v = string(pt)
				} else {
					v = "non-primitive"
				}
			})
			if p != "" {
				v = "panic"
			}
			common[string(a)][string(b)] = v
		}
	}
	res["commonType"] = common
	// verdict of ValidateEvolution for a one-step protocol whose step changes from primitive b (old) to a (new)
	change := map[string]map[string]int{}
	mk := func(p dsl.PrimitiveDefinition) *dsl.Environment {
		step := &dsl.ProtocolStep{Name: "s", Type: &dsl.SimpleType{Name: string(p)}}
		proto := &dsl.ProtocolDefinition{DefinitionMeta: &dsl.DefinitionMeta{Name: "P", Namespace: "N"}, Sequence: dsl.ProtocolSteps{step}}
		ns := &dsl.Namespace{Name: "N", IsTopLevel: true, Protocols: []*dsl.ProtocolDefinition{proto}}
		env, err := dsl.Validate([]*dsl.Namespace{ns})
		if err != nil {
			panic(err)
		}
		return env
	}
	for _, a := range prims {
		change[string(a)] = map[string]int{}
		for _, b := range prims {
			v := -1
			p := recovered(func() {
				_, warnings, err := dsl.ValidateEvolution(mk(a), []*dsl.Environment{mk(b)}, []string{"v0"})
				if err != nil {
					v = 2
				} else if len(warnings) > 0 {
					v = 1
				} else {
					v = 0
				}
			})
			if p != "" {
				v = 3
			}
			change[string(a)][string(b)] = v
		}
	}
	res["primChange"] = change
	info := map[string]any{}
	for _, a := range prims {
		info[string(a)] = map[string]any{
			"kind": int(dsl.GetPrimitiveKind(a)), "width": dsl.GetPrimitiveWidth(a), "integral": dsl.IsIntegralPrimitive(a),
			"signed": dsl.IsSignedPrimitive(a), "jsonKind": int(ndjsoncommon.GetJsonDataType(primType(a))),
		}
	}
	res["prims"] = info
	json.NewEncoder(os.Stdout).Encode(res)
}

func parseAndFlatten(p *packaging.PackageInfo) ([]*dsl.Namespace, error) {
	alreadyParsed := map[string]*dsl.Namespace{}
	var parse func(p *packaging.PackageInfo) (*dsl.Namespace, error)
	parse = func(p *packaging.PackageInfo) (*dsl.Namespace, error) {
		if ex, ok := alreadyParsed[p.Namespace]; ok {
			return ex, nil
		}
		ns, err := dsl.ParsePackageContents(p)
		if err != nil {
			return nil, err
		}
		alreadyParsed[p.Namespace] = ns
		for _, imp := range p.Imports {
			c, err := parse(imp.Package)
			if err != nil {
				return nil, err
			}
			ns.References = append(ns.References, c)
		}
		return ns, nil
	}
	top, err := parse(p)
	if err != nil {
		return nil, err
	}
	top.IsTopLevel = true
	seen := map[*dsl.Namespace]bool{}
	var flat []*dsl.Namespace
	var fl func(ns *dsl.Namespace)
	fl = func(ns *dsl.Namespace) {
		if seen[ns] {
			return
		}
		seen[ns] = true
		for _, c := range ns.References {
			fl(c)
		}
		flat = append(flat, ns)
	}
	fl(top)
	return flat, nil
}

func kindOf(t dsl.Type) (k int, p string) {
	p = recovered(func() { k = int(ndjsoncommon.GetJsonDataType(t)) })
	return
}

func dump(dir string) {
	res := map[string]any{}
	defer func() { json.NewEncoder(os.Stdout).Encode(res) }()
	p := recovered(func() {
		pkg, err := packaging.LoadPackage(dir)
		if err != nil {
			res["loadError"] = err.Error()
			return
		}
		nss, err := parseAndFlatten(pkg)
		if err != nil {
			res["parseError"] = err.Error()
			return
		}
		env, err := dsl.Validate(nss)
		if err != nil {
			res["validateError"] = err.Error()
			return
		}
		var versionEnvs []*dsl.Environment
		var labels []string
		for _, v := range pkg.Versions {
			labels = append(labels, v.Label)
			vn, err := parseAndFlatten(v.Package)
			if err != nil {
				res["versionError"] = err.Error()
				return
			}
			ve, err := dsl.Validate(vn)
			if err != nil {
				res["versionError"] = err.Error()
				return
			}
			versionEnvs = append(versionEnvs, ve)
		}
		if len(versionEnvs) > 0 {
			var warnings []string
			env, warnings, err = dsl.ValidateEvolution(env, versionEnvs, labels)
			res["evolutionWarnings"] = warnings
			if err != nil {
				res["evolutionError"] = err.Error()
				return
			}
		}
		protos := map[string]any{}
		records := map[string]any{}
		order := map[string][]string{}
		for _, ns := range env.Namespaces {
			for _, td := range ns.TypeDefinitions {
				order[ns.Name] = append(order[ns.Name], td.GetDefinitionMeta().Name)
			}
		}
		res["order"] = order
		for _, ns := range env.Namespaces {
			for _, td := range ns.TypeDefinitions {
				if rec, ok := td.(*dsl.RecordDefinition); ok {
					fields := []any{}
					for _, f := range rec.Fields {
						k, pm := kindOf(f.Type)
						fields = append(fields, map[string]any{"name": f.Name, "jsonKind": k, "panic": pm, "type": dsl.TypeToShortSyntax(f.Type, true)})
					}
					records[ns.Name+"."+rec.Name] = fields
				}
			}
			if !ns.IsTopLevel {
				continue
			}
			for _, pr := range ns.Protocols {
				steps := []any{}
				for _, s := range pr.Sequence {
					var t dsl.Type = s.Type
					if s.IsStream() {
						t = s.Type.(*dsl.GeneralizedType).ToScalar()
					}
					k, pm := kindOf(t)
					steps = append(steps, map[string]any{"name": s.Name, "stream": s.IsStream(), "jsonKind": k, "panic": pm,
						"type": dsl.TypeToShortSyntax(s.Type, true)})
				}
				protos[pr.Name] = map[string]any{"schema": dsl.GetProtocolSchemaString(pr, env.SymbolTable), "steps": steps}
			}
		}
		res["protocols"] = protos
		res["records"] = records
		res["ok"] = true
	})
	if p != "" {
		res["panic"] = p
	}
}

func idents() {
	sc := bufio.NewScanner(os.Stdin)
	enc := json.NewEncoder(os.Stdout)
	for sc.Scan() {
		n := sc.Text()
		r := map[string]any{"name": n}
		r["snake"] = formatting.ToSnakeCase(n)
		r["pascal"] = formatting.ToPascalCase(n)
		r["upperSnake"] = formatting.ToUpperSnakeCase(n)
		r["cppField"] = cppcommon.FieldIdentifierName(n)
		r["pyField"] = pythoncommon.FieldIdentifierName(n)
		r["matlabField"] = matlabcommon.FieldIdentifierName(n)
		r["cppEnumValue"] = cppcommon.EnumValueIdentifierName(n)
		r["pyEnumValue"] = pythoncommon.EnumValueIdentifierName(n)
		r["matlabEnumValue"] = matlabcommon.EnumValueIdentifierName(n)
		r["cppComputed"] = cppcommon.ComputedFieldIdentifierName(n)
		r["pyComputed"] = pythoncommon.ComputedFieldIdentifierName(n)
		r["cppType"] = cppcommon.TypeIdentifierName(n)
		r["pyType"] = pythoncommon.TypeIdentifierName(n)
		r["matlabType"] = matlabcommon.TypeIdentifierName(n)
		step := &dsl.ProtocolStep{Name: n}
		r["cppWriterMethods"] = []string{cppcommon.ProtocolWriteMethodName(step), cppcommon.ProtocolWriteImplMethodName(step),
			cppcommon.ProtocolWriteEndMethodName(step), cppcommon.ProtocolWriteEndImplMethodName(step)}
		r["cppReaderMethods"] = []string{cppcommon.ProtocolReadMethodName(step), cppcommon.ProtocolReadImplMethodName(step)}
		enc.Encode(r)
	}
}

func main() {
	zerolog.SetGlobalLevel(zerolog.WarnLevel)
	if len(os.Args) < 2 {
		os.Exit(2)
	}
	switch os.Args[1] {
	case "tables":
		tables()
	case "dump":
		dump(os.Args[2])
	case "idents":
		idents()
	case "writeifneeded":
		writeIfNeededLoop(os.Args[2])
	case "parsetype":
		parseTypeLoop()
	case "typetree":
		typetree()
	case "primalias":
		primalias()
	default:
		os.Exit(2)
	}
}
