package main

import (
	"bufio"
	"encoding/json"
	"fmt"
	"os"

	"github.com/microsoft/yardl/tooling/pkg/dsl"
	"gopkg.in/yaml.v3"
)

// typetree: one JSON object per stdin line {"yaml": "<a YAML type node>"}; prints the dsl.Type tree
// UnmarshalTypeYAML builds for it (positions dropped), {"error": ...} or {"panic": ...}.

func dimJSON(d *dsl.ArrayDimension) any {
	var name, length any
	if d.Name != nil {
		name = *d.Name
	}
	if d.Length != nil {
		length = *d.Length
	}
	return []any{name, length}
}

func typeJSON(t dsl.Type) any {
	switch t := t.(type) {
	case nil:
		return nil
	case *dsl.SimpleType:
		args := []any{}
		for _, a := range t.TypeArguments {
			args = append(args, typeJSON(a))
		}
		return []any{"simple", t.Name, args}
	case *dsl.GeneralizedType:
		cases := []any{}
		for _, c := range t.Cases {
			var tag any
			if c.ExplicitTag {
				tag = c.Tag
			}
			cases = append(cases, []any{tag, typeJSON(c.Type)})
		}
		var dim any
		switch d := t.Dimensionality.(type) {
		case nil:
			dim = []any{"scalar"}
		case *dsl.Vector:
			var l any
			if d.Length != nil {
				l = *d.Length
			}
			dim = []any{"vector", l}
		case *dsl.Array:
			if d.Dimensions == nil {
				dim = []any{"array", nil}
			} else {
				ds := []any{}
				for _, x := range *d.Dimensions {
					ds = append(ds, dimJSON(x))
				}
				dim = []any{"array", ds}
			}
		case *dsl.Map:
			dim = []any{"map", typeJSON(d.KeyType)}
		case *dsl.Stream:
			dim = []any{"stream"}
		default:
			dim = []any{fmt.Sprintf("%T", d)}
		}
		return []any{"gen", cases, dim}
	default:
		return []any{fmt.Sprintf("%T", t)}
	}
}

func typetree() {
	in := bufio.NewScanner(os.Stdin)
	in.Buffer(make([]byte, 1<<20), 1<<26)
	out := bufio.NewWriter(os.Stdout)
	defer out.Flush()
	for in.Scan() {
		var req struct {
			Yaml string `json:"yaml"`
		}
		res := map[string]any{}
		if err := json.Unmarshal(in.Bytes(), &req); err != nil {
			res["error"] = "bad request: " + err.Error()
		} else {
			p := recovered(func() {
				var doc yaml.Node
				if err := yaml.Unmarshal([]byte(req.Yaml), &doc); err != nil {
					res["error"] = "yaml: " + err.Error()
					return
				}
				if len(doc.Content) != 1 {
					res["error"] = "not a single document node"
					return
				}
				t, err := dsl.UnmarshalTypeYAML(doc.Content[0])
				if err != nil {
					res["error"] = err.Error()
					return
				}
				res["tree"] = typeJSON(t)
			})
			if p != "" {
				res["panic"] = p
			}
		}
		b, _ := json.Marshal(res)
		out.Write(b)
		out.WriteByte('\n')
		out.Flush()
	}
}

// primalias: names on stdin (one per line) -> the primitive each resolves to when used as a field type
// (by running dsl.Validate on a one-record model), or "" when it does not resolve.
func primalias() {
	in := bufio.NewScanner(os.Stdin)
	res := map[string]string{}
	for in.Scan() {
		name := in.Text()
		if name == "" {
			continue
		}
		p := recovered(func() {
			f := &dsl.Field{Name: "f", Type: &dsl.SimpleType{Name: name}}
			rec := &dsl.RecordDefinition{DefinitionMeta: &dsl.DefinitionMeta{Name: "R", Namespace: "N"}, Fields: dsl.Fields{f}}
			ns := &dsl.Namespace{Name: "N", TypeDefinitions: []dsl.TypeDefinition{rec}}
			env, err := dsl.Validate([]*dsl.Namespace{ns})
			if err != nil {
				res[name] = ""
				return
			}
			r := env.Namespaces[0].TypeDefinitions[0].(*dsl.RecordDefinition)
			if st, ok := r.Fields[0].Type.(*dsl.SimpleType); ok {
				if pd, ok := st.ResolvedDefinition.(dsl.PrimitiveDefinition); ok {
					res[name] = string(pd)
					return
				}
			}
			res[name] = ""
		})
		if p != "" {
			res[name] = "panic: " + p
		}
	}
	json.NewEncoder(os.Stdout).Encode(res)
}
