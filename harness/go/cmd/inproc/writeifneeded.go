package main

import (
	"bufio"
	"encoding/json"
	"fmt"
	"os"
	"path/filepath"
	"time"

	"github.com/microsoft/yardl/tooling/internal/iocommon"
)

// writeifneeded <dir>: one JSON object per stdin line {"old_size": n | -1 (no file), "new_size": m, "flip": position | -1};
// the file is created with a deterministic pattern of old_size bytes and an old modification time, then
// iocommon.WriteFileIfNeeded is called with the pattern of new_size bytes in which the byte at `flip` is changed.
// Prints {"touched": bool, "content_ok": bool, "err": string}.

func pattern(n int) []byte {
	b := make([]byte, n)
	for i := range b {
		b[i] = byte((i*31 + i/4096*7 + 11) % 251)
	}
	return b
}

func writeIfNeededLoop(dir string) {
	sc := bufio.NewScanner(os.Stdin)
	w := bufio.NewWriter(os.Stdout)
	defer w.Flush()
	old := time.Date(2001, 2, 3, 4, 5, 6, 0, time.UTC)
	k := 0
	for sc.Scan() {
		var req struct {
			OldSize int `json:"old_size"`
			NewSize int `json:"new_size"`
			Flip    int `json:"flip"`
		}
		if err := json.Unmarshal(sc.Bytes(), &req); err != nil {
			fmt.Fprintln(w, `{"err":"bad request"}`)
			w.Flush()
			continue
		}
		k++
		fn := filepath.Join(dir, fmt.Sprintf("f%d.txt", k))
		res := map[string]any{}
		if req.OldSize >= 0 {
			if err := os.WriteFile(fn, pattern(req.OldSize), 0644); err != nil {
				res["err"] = err.Error()
			}
			os.Chtimes(fn, old, old)
		}
		content := pattern(req.NewSize)
		if req.Flip >= 0 && req.Flip < len(content) {
			content[req.Flip] ^= 0x5a
		}
		func() {
			defer func() {
				if r := recover(); r != nil {
					res["err"] = fmt.Sprint("panic: ", r)
				}
			}()
			if err := iocommon.WriteFileIfNeeded(fn, content, 0644); err != nil {
				res["err"] = err.Error()
			}
		}()
		st, err := os.Stat(fn)
		if err != nil {
			res["err"] = err.Error()
		} else {
			res["touched"] = req.OldSize < 0 || !st.ModTime().Equal(old)
			got, _ := os.ReadFile(fn)
			res["content_ok"] = string(got) == string(content)
		}
		os.Remove(fn)
		b, _ := json.Marshal(res)
		fmt.Fprintln(w, string(b))
		w.Flush()
	}
}
