package main

import (
	"bufio"
	"encoding/json"
	"fmt"
	"os"
	"strings"

	"github.com/microsoft/yardl/tooling/pkg/dsl/parser"
)

// parsetype: one JSON object per stdin line {"text": "<shorthand type>"}; prints {"tree": "<s-expression>"} — the
// AST parser.ParseType builds, rendered like Type.String() but with parenthesised sub-types kept visible as (Sub …) —
// or {"error": ...} / {"panic": ...}.

func typeSexp(t *parser.Type) string {
	var val string
	if t.Named != nil {
		if len(t.Named.TypeArgs) == 0 {
			val = "'" + t.Named.Name + "'"
		} else {
			args := []string{}
			for _, a := range t.Named.TypeArgs {
				args = append(args, typeSexp(a))
			}
			val = "(Generic '" + t.Named.Name + "' " + strings.Join(args, " ") + ")"
		}
	} else {
		val = "(Sub " + typeSexp(t.Sub) + ")"
	}
	for _, tail := range t.Tails {
		switch {
		case tail.Optional:
			val = "(Optional " + val + ")"
		case tail.MapValue != nil:
			val = "(Map " + val + " " + typeSexp(tail.MapValue) + ")"
		case tail.Vector != nil:
			if tail.Vector.Length != nil {
				val = fmt.Sprintf("(Vector[%d] %s)", *tail.Vector.Length, val)
			} else {
				val = "(Vector " + val + ")"
			}
		case tail.Array != nil:
			if len(tail.Array.Dimensions) == 0 {
				val = "(Array " + val + ")"
			} else {
				dims := ""
				for _, d := range tail.Array.Dimensions {
					parts := []string{}
					if d.Name != nil {
						parts = append(parts, *d.Name)
					}
					if d.Length != nil {
						parts = append(parts, fmt.Sprintf("%d", *d.Length))
					}
					dims += "[" + strings.Join(parts, " ") + "]"
				}
				val = "(Array[" + dims + "] " + val + ")"
			}
		}
	}
	return val
}

func parseTypeLoop() {
	sc := bufio.NewScanner(os.Stdin)
	sc.Buffer(make([]byte, 1<<20), 1<<26)
	w := bufio.NewWriter(os.Stdout)
	defer w.Flush()
	for sc.Scan() {
		var req struct {
			Text string `json:"text"`
		}
		if err := json.Unmarshal(sc.Bytes(), &req); err != nil {
			fmt.Fprintln(w, `{"error":"bad request"}`)
			w.Flush()
			continue
		}
		func() {
			defer func() {
				if r := recover(); r != nil {
					b, _ := json.Marshal(map[string]any{"panic": fmt.Sprint(r)})
					fmt.Fprintln(w, string(b))
				}
			}()
			t, err := parser.ParseType(req.Text)
			var out map[string]any
			if err != nil {
				out = map[string]any{"error": err.Error()}
			} else {
				out = map[string]any{"tree": typeSexp(t)}
			}
			b, _ := json.Marshal(out)
			fmt.Fprintln(w, string(b))
		}()
		w.Flush()
	}
}
