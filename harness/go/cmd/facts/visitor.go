package main

import (
	"encoding/json"
	"go/ast"
	"go/types"
	"os"
	"sort"
	"strings"
)

// visitor: for every struct type of pkg/dsl that is a dsl.Node, every field that can hold child nodes
// (a Node type, an interface that embeds Node, or a slice/pointer of those), and whether the case of
// that struct in VisitWithContext's VisitChildren mentions the field.
type vrow struct {
	Struct  string `json:"struct"`
	Field   string `json:"field"`
	Type    string `json:"type"`
	Visited bool   `json:"visited"`
	HasCase bool   `json:"hasCase"`
}

func visitorFacts() {
	var rows []vrow
	for _, p := range load() {
		if !strings.HasSuffix(p.PkgPath, "/pkg/dsl") {
			continue
		}
		nodeObj := p.Types.Scope().Lookup("Node")
		if nodeObj == nil {
			continue
		}
		nodeIface := nodeObj.Type().Underlying().(*types.Interface)
		isNodeish := func(t types.Type) bool {
			for {
				switch u := t.(type) {
				case *types.Pointer:
					t = u.Elem()
					continue
				case *types.Slice:
					t = u.Elem()
					continue
				}
				break
			}
			if named, ok := t.(*types.Named); ok {
				if named.Obj().Name() == "NodeMeta" {
					return false
				}
				if sl, isSlice := named.Underlying().(*types.Slice); isSlice {
					// named slice types (Fields, TypeCases, ProtocolSteps, ...)
					el := sl.Elem()
					if pt, ok := el.(*types.Pointer); ok {
						el = pt.Elem()
					}
					if en, ok := el.(*types.Named); ok {
						if _, isIface := en.Underlying().(*types.Interface); isIface {
							return types.Implements(en, nodeIface)
						}
						return types.Implements(en, nodeIface) || types.Implements(types.NewPointer(en), nodeIface)
					}
					return false
				}
				if _, isIface := named.Underlying().(*types.Interface); isIface {
					return types.Implements(named, nodeIface) || types.AssignableTo(named, nodeObj.Type())
				}
				return types.Implements(named, nodeIface) || types.Implements(types.NewPointer(named), nodeIface)
			}
			return false
		}
		// fields mentioned per case type in VisitChildren
		mentioned := map[string]map[string]bool{}
		for _, f := range p.Syntax {
			for _, decl := range f.Decls {
				fd, ok := decl.(*ast.FuncDecl)
				if !ok || fd.Name.Name != "VisitChildren" || fd.Body == nil {
					continue
				}
				ast.Inspect(fd.Body, func(n ast.Node) bool {
					cc, ok := n.(*ast.CaseClause)
					if !ok {
						return true
					}
					for _, e := range cc.List {
						tname := strings.TrimPrefix(exprString(p.Fset, e), "*")
						if mentioned[tname] == nil {
							mentioned[tname] = map[string]bool{}
						}
						for _, st := range cc.Body {
							ast.Inspect(st, func(m ast.Node) bool {
								if sel, ok := m.(*ast.SelectorExpr); ok {
									if id, ok := sel.X.(*ast.Ident); ok && (id.Name == "t" || id.Name == "node") {
										mentioned[tname][sel.Sel.Name] = true
									}
								}
								return true
							})
						}
					}
					return true
				})
			}
		}
		names := p.Types.Scope().Names()
		sort.Strings(names)
		for _, name := range names {
			obj, ok := p.Types.Scope().Lookup(name).(*types.TypeName)
			if !ok {
				continue
			}
			st, ok := obj.Type().Underlying().(*types.Struct)
			if !ok {
				continue
			}
			if !(types.Implements(obj.Type(), nodeIface) || types.Implements(types.NewPointer(obj.Type()), nodeIface)) {
				continue
			}
			for i := 0; i < st.NumFields(); i++ {
				f := st.Field(i)
				if f.Embedded() && f.Name() == "NodeMeta" {
					continue
				}
				if !isNodeish(f.Type()) {
					continue
				}
				_, hasCase := mentioned[name]
				rows = append(rows, vrow{Struct: name, Field: f.Name(), Type: types.TypeString(f.Type(), func(*types.Package) string { return "" }),
					Visited: mentioned[name][f.Name()], HasCase: hasCase})
			}
		}
	}
	json.NewEncoder(os.Stdout).Encode(rows)
}
