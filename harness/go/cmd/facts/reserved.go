package main

import (
	"encoding/json"
	"go/ast"
	"go/token"
	"os"
	"sort"
	"strconv"
	"strings"
)

// reserved: the keys of the reserved-name tables of the three back ends (reservedNames / isReservedName).
func reservedFacts() {
	res := map[string][]string{}
	for _, p := range load() {
		var lang string
		switch {
		case strings.HasSuffix(p.PkgPath, "internal/cpp/common"):
			lang = "cpp"
		case strings.HasSuffix(p.PkgPath, "internal/python/common"):
			lang = "python"
		case strings.HasSuffix(p.PkgPath, "internal/matlab/common"):
			lang = "matlab"
		default:
			continue
		}
		for _, f := range p.Syntax {
			for _, decl := range f.Decls {
				gd, ok := decl.(*ast.GenDecl)
				if !ok || gd.Tok != token.VAR {
					continue
				}
				for _, spec := range gd.Specs {
					vs := spec.(*ast.ValueSpec)
					for i, n := range vs.Names {
						if (n.Name != "reservedNames" && n.Name != "isReservedName" && n.Name != "reservedTypeNames") || i >= len(vs.Values) {
							continue
						}
						// reservedTypeNames: names escaped in addition to the reserved table when they name a type
						key := lang
						if n.Name == "reservedTypeNames" {
							key = lang + "_types_only"
						}
						if cl, ok := vs.Values[i].(*ast.CompositeLit); ok {
							for _, e := range cl.Elts {
								if kv, ok := e.(*ast.KeyValueExpr); ok {
									if bl, ok := kv.Key.(*ast.BasicLit); ok && bl.Kind == token.STRING {
										s, _ := strconv.Unquote(bl.Value)
										res[key] = append(res[key], s)
									}
								}
							}
						}
					}
				}
			}
		}
		sort.Strings(res[lang])
		sort.Strings(res[lang+"_types_only"])
	}
	json.NewEncoder(os.Stdout).Encode(res)
}
