// facts: go/types + go/ast fact extractor over /repo/tooling (regenerated on every run).
//
//	facts mapranges   -> JSON list of every `range` over a map-typed expression
//	facts pipeline    -> JSON: ordered calls in generateImpl / validatePackage with error handling
//	facts passes      -> JSON: the validation pass order in dsl.Validate
package main

import (
	"crypto/sha1"
	"encoding/hex"
	"encoding/json"
	"fmt"
	"go/ast"
	"go/printer"
	"go/token"
	"go/types"
	"os"
	"sort"
	"strings"

	"golang.org/x/tools/go/packages"
)

func load() []*packages.Package {
	cfg := &packages.Config{Mode: packages.NeedName | packages.NeedFiles | packages.NeedSyntax | packages.NeedTypes |
		packages.NeedTypesInfo | packages.NeedImports | packages.NeedDeps, Dir: os.Getenv("VERIF_REPO_TOOLING"), Tests: false}
	pkgs, err := packages.Load(cfg, "./...")
	if err != nil {
		fmt.Fprintln(os.Stderr, err)
		os.Exit(1)
	}
	return pkgs
}

func exprString(fset *token.FileSet, e ast.Node) string {
	var sb strings.Builder
	printer.Fprint(&sb, fset, e)
	return sb.String()
}

type site struct {
	File   string `json:"file"`
	Func   string `json:"func"`
	Index  int    `json:"index"`
	Expr   string `json:"expr"`
	Line   int    `json:"line"`
	Body   string `json:"body"`
	Sorted bool   `json:"followedBySort"`
}

func mapranges() {
	var sites []site
	for _, p := range load() {
		for _, f := range p.Syntax {
			fname := p.Fset.Position(f.Pos()).Filename
			if strings.HasSuffix(fname, "_test.go") {
				continue
			}
			rel := fname[strings.Index(fname, "tooling/")+len("tooling/"):]
			for _, decl := range f.Decls {
				fd, ok := decl.(*ast.FuncDecl)
				if !ok || fd.Body == nil {
					continue
				}
				idx := 0
				hasSort := strings.Contains(exprString(p.Fset, fd.Body), "sort.")
				ast.Inspect(fd.Body, func(n ast.Node) bool {
					rs, ok := n.(*ast.RangeStmt)
					if !ok {
						return true
					}
					t := p.TypesInfo.TypeOf(rs.X)
					if t == nil {
						return true
					}
					if _, isMap := t.Underlying().(*types.Map); isMap {
						sites = append(sites, site{File: rel, Func: fd.Name.Name, Index: idx, Expr: exprString(p.Fset, rs.X),
							Line: p.Fset.Position(rs.Pos()).Line, Body: exprString(p.Fset, rs.Body), Sorted: hasSort})
						idx++
					}
					return true
				})
			}
		}
	}
	sort.Slice(sites, func(i, j int) bool {
		if sites[i].File != sites[j].File {
			return sites[i].File < sites[j].File
		}
		return sites[i].Line < sites[j].Line
	})
	json.NewEncoder(os.Stdout).Encode(sites)
}

type call struct {
	Call     string `json:"call"`
	ErrUsage string `json:"err"` // returned | ignored | none
	Guard    string `json:"guard"`
}

// ordered calls of interest in a function body, with how their error result is treated
func callsIn(p *packages.Package, fd *ast.FuncDecl) []call {
	var out []call
	var walk func(stmts []ast.Stmt, guard string)
	record := func(stmt ast.Stmt, guard string, next ast.Stmt) {
		ast.Inspect(stmt, func(n ast.Node) bool {
			ce, ok := n.(*ast.CallExpr)
			if !ok {
				return true
			}
			name := exprString(p.Fset, ce.Fun)
			if strings.HasPrefix(name, "log.") || strings.HasPrefix(name, "fmt.") {
				return true
			}
			usage := "none"
			if as, ok := stmt.(*ast.AssignStmt); ok {
				for _, l := range as.Lhs {
					if id, ok := l.(*ast.Ident); ok && id.Name == "err" {
						usage = "assigned"
					}
				}
			}
			if usage == "assigned" && next != nil {
				if ifs, ok := next.(*ast.IfStmt); ok && strings.Contains(exprString(p.Fset, ifs.Cond), "err != nil") {
					if strings.Contains(exprString(p.Fset, ifs.Body), "return") && strings.Contains(exprString(p.Fset, ifs.Body), "err") {
						usage = "returned"
					} else {
						usage = "swallowed"
					}
				}
			}
			if ifs, ok := stmt.(*ast.IfStmt); ok && ifs.Init != nil && strings.Contains(exprString(p.Fset, ifs.Cond), "err != nil") {
				if strings.Contains(exprString(p.Fset, ifs.Body), "return") {
					usage = "returned"
				}
			}
			out = append(out, call{Call: name, ErrUsage: usage, Guard: guard})
			return false
		})
	}
	walk = func(stmts []ast.Stmt, guard string) {
		for i, s := range stmts {
			var next ast.Stmt
			if i+1 < len(stmts) {
				next = stmts[i+1]
			}
			switch st := s.(type) {
			case *ast.IfStmt:
				if st.Init != nil {
					record(&ast.IfStmt{Init: st.Init, Cond: st.Cond, Body: st.Body}, guard, nil)
					continue
				}
				cond := exprString(p.Fset, st.Cond)
				if strings.Contains(cond, "err != nil") {
					continue
				}
				walk(st.Body.List, strings.TrimSpace(guard+" && "+cond))
			case *ast.ForStmt:
				walk(st.Body.List, guard+" [loop]")
			case *ast.RangeStmt:
				walk(st.Body.List, guard+" [range "+exprString(p.Fset, st.X)+"]")
			case *ast.ReturnStmt:
				out = append(out, call{Call: "return " + exprString(p.Fset, st), ErrUsage: "none", Guard: guard})
			default:
				record(s, guard, next)
			}
		}
	}
	walk(fd.Body.List, "")
	return out
}

func pipeline() {
	res := map[string][]call{}
	for _, p := range load() {
		if !strings.HasSuffix(p.PkgPath, "internal/cmd") {
			continue
		}
		for _, f := range p.Syntax {
			for _, decl := range f.Decls {
				if fd, ok := decl.(*ast.FuncDecl); ok && fd.Body != nil {
					switch fd.Name.Name {
					case "generateImpl", "validatePackage", "validateImpl", "parsePackageNamespaces", "parseAndFlattenNamespaces", "outputJson":
						res[fd.Name.Name] = callsIn(p, fd)
					}
				}
			}
		}
	}
	json.NewEncoder(os.Stdout).Encode(res)
}

func passes() {
	res := map[string]any{}
	for _, p := range load() {
		if !strings.HasSuffix(p.PkgPath, "pkg/dsl") {
			continue
		}
		for _, f := range p.Syntax {
			for _, decl := range f.Decls {
				fd, ok := decl.(*ast.FuncDecl)
				if !ok || fd.Body == nil {
					continue
				}
				if fd.Name.Name == "Validate" {
					var order []string
					ast.Inspect(fd.Body, func(n ast.Node) bool {
						if cl, ok := n.(*ast.CompositeLit); ok {
							for _, e := range cl.Elts {
								if id, ok := e.(*ast.Ident); ok {
									order = append(order, id.Name)
								}
							}
						}
						return true
					})
					res["passes"] = order
				}
				// passes that begin with the "skip if there are errors" early return
				body := exprString(p.Fset, fd.Body)
				if fd.Recv == nil {
					h, _ := res["bodyHash"].(map[string]string)
					if h == nil {
						h = map[string]string{}
					}
					sum := sha1.Sum([]byte(body))
					h[fd.Name.Name] = hex.EncodeToString(sum[:])[:12]
					res["bodyHash"] = h
				}
				if strings.Contains(body, "len(errorSink.Errors) > 0") && fd.Recv == nil {
					l, _ := res["earlyReturn"].([]string)
					res["earlyReturn"] = append(l, fd.Name.Name)
				}
			}
		}
	}
	json.NewEncoder(os.Stdout).Encode(res)
}

// generrors: every place in the generator packages (internal/cpp, internal/python, internal/matlab, internal/ndjsoncommon and their
// sub-packages) that constructs an error of its own (fmt.Errorf, errors.New, a validation.ValidationError literal): the generators run after
// validation and after earlier generators have written their files, so they may only fail on I/O
func generrors() {
	res := []map[string]string{}
	for _, p := range load() {
		isGen := false
		for _, g := range []string{"internal/cpp", "internal/python", "internal/matlab", "internal/ndjsoncommon"} {
			if strings.Contains(p.PkgPath, g) {
				isGen = true
			}
		}
		if !isGen {
			continue
		}
		for _, f := range p.Syntax {
			for _, decl := range f.Decls {
				fd, ok := decl.(*ast.FuncDecl)
				if !ok || fd.Body == nil {
					continue
				}
				ast.Inspect(fd.Body, func(n ast.Node) bool {
					switch x := n.(type) {
					case *ast.CallExpr:
						name := exprString(p.Fset, x.Fun)
						if name == "fmt.Errorf" || name == "errors.New" || strings.HasSuffix(name, ".Errorf") && strings.Contains(name, "err") {
							res = append(res, map[string]string{"pkg": p.PkgPath, "func": fd.Name.Name, "site": name})
						}
					case *ast.CompositeLit:
						if t := exprString(p.Fset, x.Type); strings.Contains(t, "ValidationError") {
							res = append(res, map[string]string{"pkg": p.PkgPath, "func": fd.Name.Name, "site": t + "{}"})
						}
					}
					return true
				})
			}
		}
	}
	json.NewEncoder(os.Stdout).Encode(res)
}

func main() {
	switch os.Args[1] {
	case "mapranges":
		mapranges()
	case "pipeline":
		pipeline()
	case "reserved":
		reservedFacts()
	case "visitor":
		visitorFacts()
	case "passes":
		passes()
	case "generrors":
		generrors()
	}
}
