module github.com/microsoft/yardl/tooling/verifharness

go 1.24.0

require (
	github.com/microsoft/yardl/tooling v0.0.0
	github.com/rs/zerolog v1.34.0
	golang.org/x/tools v0.29.0
	gopkg.in/yaml.v3 v3.0.1
)

require (
	github.com/alecthomas/participle/v2 v2.1.4 // indirect
	github.com/dlclark/regexp2 v1.11.5 // indirect
	github.com/mattn/go-colorable v0.1.13 // indirect
	github.com/mattn/go-isatty v0.0.19 // indirect
	golang.org/x/mod v0.22.0 // indirect
	golang.org/x/sync v0.10.0 // indirect
	golang.org/x/sys v0.38.0 // indirect
)

replace github.com/microsoft/yardl/tooling => /repo/tooling

replace gopkg.in/yaml.v3 => github.com/johnstairs/go-yaml-yaml v0.0.0-20221109150101-483fca0d3ee9
