// Small-capacity driver for yardl's C++ CodedOutputStream / CodedInputStream (coded_stream.h taken
// from /repo's working tree). One request per line on stdin, one reply line on stdout.
//   W <cap> <op>...          ops: b:<0-255> v32:<n> v64:<n> s32:<int> s64:<int> f4:<n> f8:<n> x:<hex> fl
//     -> "lens <len after each op>... hex <final bytes>"
//   R <cap> <hex> <op>...    ops: b v32 v64 s32 s64 f4 f8 x:<n> vf
//     -> one token per op: b=<n> v=<n> s=<int> f=<n> x=<hex> vf=ok | EOS | NOTFINISHED | ERR:<what>
#include <cstdint>
#include <iostream>
#include <sstream>
#include <string>
#include <vector>
#include "coded_stream.h"

static std::string hex(std::string const& s) {
  static const char* d = "0123456789abcdef";
  std::string r;
  for (unsigned char c : s) { r.push_back(d[c >> 4]); r.push_back(d[c & 15]); }
  return r;
}
static std::string unhex(std::string const& h) {
  std::string r;
  for (size_t i = 0; i + 1 < h.size(); i += 2) r.push_back((char)std::stoi(h.substr(i, 2), nullptr, 16));
  return r;
}
int main() {
  std::string line;
  while (std::getline(std::cin, line)) {
    std::istringstream is(line);
    std::string kind; size_t cap;
    is >> kind >> cap;
    std::ostringstream reply;
    if (kind == "W") {
      std::ostringstream out;
      {
        yardl::binary::CodedOutputStream w(out, cap);
        std::string tok;
        reply << "lens";
        while (is >> tok) {
          auto c = tok.find(':');
          std::string op = tok.substr(0, c), arg = c == std::string::npos ? "" : tok.substr(c + 1);
          if (op == "b") w.WriteByte((uint8_t)std::stoul(arg));
          else if (op == "v32") w.WriteVarInt32((uint32_t)std::stoull(arg));
          else if (op == "v64") w.WriteVarInt64((uint64_t)std::stoull(arg));
          else if (op == "s32") w.WriteVarInt32((int32_t)std::stoll(arg));
          else if (op == "s64") w.WriteVarInt64((int64_t)std::stoll(arg));
          else if (op == "f4") w.WriteFixedInteger((uint32_t)std::stoull(arg));
          else if (op == "f8") w.WriteFixedInteger((uint64_t)std::stoull(arg));
          else if (op == "x") { std::string b = unhex(arg); w.WriteBytes(b.data(), b.size()); }
          else if (op == "fl") w.Flush();
          reply << " " << out.str().size();
        }
      }
      reply << " hex " << hex(out.str());
    } else {
      std::string h; is >> h;
      if (h == "-") h = "";
      std::istringstream in(unhex(h));
      yardl::binary::CodedInputStream r(in, cap);
      std::string tok;
      try {
        while (is >> tok) {
          auto c = tok.find(':');
          std::string op = tok.substr(0, c), arg = c == std::string::npos ? "" : tok.substr(c + 1);
          if (op == "b") { uint8_t v; r.ReadByte(v); reply << "b=" << (unsigned)v << " "; }
          else if (op == "v32") { uint32_t v; r.ReadVarInt32(v); reply << "v=" << v << " "; }
          else if (op == "v64") { uint64_t v; r.ReadVarInt64(v); reply << "v=" << v << " "; }
          else if (op == "s32") { int32_t v; r.ReadVarInt32(v); reply << "s=" << v << " "; }
          else if (op == "s64") { int64_t v; r.ReadVarInt64(v); reply << "s=" << v << " "; }
          else if (op == "f4") { uint32_t v; r.ReadFixedInteger(v); reply << "f=" << v << " "; }
          else if (op == "f8") { uint64_t v; r.ReadFixedInteger(v); reply << "f=" << v << " "; }
          else if (op == "x") { std::string b(std::stoul(arg), '\0'); r.ReadBytes(b.data(), b.size()); reply << "x=" << hex(b) << " "; }
          else if (op == "vf") { r.VerifyFinished(); reply << "vf=ok "; }
        }
      } catch (yardl::binary::EndOfStreamException const&) {
        reply << "EOS";
      } catch (std::exception const& e) {
        reply << (std::string(e.what()) == "Stream was not completely read" ? "NOTFINISHED" : std::string("ERR:") + e.what());
      }
    }
    std::cout << reply.str() << "\n" << std::flush;
  }
}
