// Stand-in for yardl's xtensor-based ndarray header (xtensor is not installed in
// this sandbox). Row-major vector+shape implementation of the yardl::*NDArray API,
// selected through the documented `overrideArrayHeader` option.
#pragma once
#include <utility>
#include <array>
#include <cstddef>
#include <numeric>
#include <stdexcept>
#include <vector>

namespace yardl {

namespace vf_detail {
template <typename T>
struct Elem { T v{}; bool operator==(Elem const& o) const { return v == o.v; } };
// contiguous storage with T* access for every T including bool
template <typename T>
class Store {
 public:
  Store() {}
  explicit Store(size_t n) : d_(n) {}
  Store(std::initializer_list<T> l) { for (auto const& x : l) d_.push_back(Elem<T>{x}); }
  void assign(size_t n, T const& x) { d_.assign(n, Elem<T>{x}); }
  size_t size() const { return d_.size(); }
  T* data() { return d_.empty() ? nullptr : &d_[0].v; }
  T const* data() const { return d_.empty() ? nullptr : &d_[0].v; }
  T* begin() { return data(); }
  T* end() { return data() + d_.size(); }
  T const* begin() const { return data(); }
  T const* end() const { return data() + d_.size(); }
  bool operator==(Store const& o) const { return d_ == o.d_; }
 private:
  static_assert(sizeof(Elem<T>) == sizeof(T), "Elem must not add padding");
  std::vector<Elem<T>> d_;
};
}  // namespace vf_detail

template <typename T, size_t... Dims>
class FixedNDArray {
 public:
  // inline storage, like xt::xtensor_fixed: sizeof(FixedNDArray<T, Dims...>) == sizeof(T) * size,
  // which yardl's IsTriviallySerializable fast paths (memcpy of whole arrays) rely on
  static constexpr size_t kSize = (Dims * ... * 1);
  FixedNDArray() : data_{} {}
  using value_type = T;
  T* begin() { return data_.data(); }
  T* end() { return data_.data() + kSize; }
  T const* begin() const { return data_.data(); }
  T const* end() const { return data_.data() + kSize; }
  size_t size() const { return kSize; }
  T* data() { return data_.data(); }
  T const* data() const { return data_.data(); }
  bool operator==(FixedNDArray const& o) const { return data_ == o.data_; }
  bool operator!=(FixedNDArray const& o) const { return !(*this == o); }
  std::array<T, kSize> data_;
};

template <typename T, size_t N>
class NDArray {
 public:
  NDArray() { shape_.fill(0); }
  using value_type = T;
  auto begin() { return data_.begin(); }
  auto end() { return data_.end(); }
  auto begin() const { return data_.begin(); }
  auto end() const { return data_.end(); }
  size_t size() const { return data_.size(); }
  T* data() { return data_.data(); }
  T const* data() const { return data_.data(); }
  bool operator==(NDArray const& o) const { return shape_ == o.shape_ && data_ == o.data_; }
  bool operator!=(NDArray const& o) const { return !(*this == o); }
  std::array<size_t, N> shape_;
  vf_detail::Store<T> data_;
};

template <typename T>
class DynamicNDArray {
 public:
  DynamicNDArray() {}
  using value_type = T;
  auto begin() { return data_.begin(); }
  auto end() { return data_.end(); }
  auto begin() const { return data_.begin(); }
  auto end() const { return data_.end(); }
  size_t size() const { return data_.size(); }
  T* data() { return data_.data(); }
  T const* data() const { return data_.data(); }
  bool operator==(DynamicNDArray const& o) const { return shape_ == o.shape_ && data_ == o.data_; }
  bool operator!=(DynamicNDArray const& o) const { return !(*this == o); }
  std::vector<size_t> shape_;
  vf_detail::Store<T> data_{T{}};  // rank-0 array has one element, like xt::xarray
};

namespace vf_detail {
template <typename S>
inline size_t product(S const& s) {
  size_t r = 1;
  for (auto d : s) r *= d;
  return r;
}
template <typename S>
inline size_t flat(S const& shape, std::initializer_list<size_t> idx) {
  if (idx.size() != shape.size()) throw std::out_of_range("rank");
  size_t off = 0, k = 0;
  for (auto i : idx) {
    if (i >= shape[k]) throw std::out_of_range("index");
    off = off * shape[k] + i;
    k++;
  }
  return off;
}
}  // namespace vf_detail

/**** FixedNDArray ****/
template <typename T, size_t... Dims>
constexpr size_t size(FixedNDArray<T, Dims...> const& arr) { return arr.size(); }
template <typename T, size_t... Dims>
constexpr size_t dimension(FixedNDArray<T, Dims...> const&) { return sizeof...(Dims); }
template <typename T, size_t... Dims>
constexpr std::array<size_t, sizeof...(Dims)> shape(FixedNDArray<T, Dims...> const&) { return {Dims...}; }
template <typename T, size_t... Dims>
constexpr size_t shape(FixedNDArray<T, Dims...> const& arr, size_t dim) { return shape(arr).at(dim); }
template <typename T, size_t... Dims>
T* dataptr(FixedNDArray<T, Dims...>& arr) { return arr.data(); }
template <typename T, size_t... Dims>
T const* dataptr(FixedNDArray<T, Dims...> const& arr) { return arr.data(); }
template <typename T, size_t... Dims, class... Args>
T const& at(FixedNDArray<T, Dims...> const& arr, Args... idx) {
  return arr.data()[vf_detail::flat(shape(arr), {static_cast<size_t>(idx)...})];
}

/**** NDArray ****/
template <typename T, size_t N>
size_t size(NDArray<T, N> const& arr) { return arr.size(); }
template <typename T, size_t N>
size_t dimension(NDArray<T, N> const&) { return N; }
template <typename T, size_t N>
std::array<size_t, N> shape(NDArray<T, N> const& arr) { return arr.shape_; }
template <typename T, size_t N>
size_t shape(NDArray<T, N> const& arr, size_t dim) { return arr.shape_.at(dim); }
template <typename T, size_t N>
void resize(NDArray<T, N>& arr, std::array<size_t, N> const& shape) {
  // like xtensor: the storage is only re-allocated when the element count changes; otherwise the
  // previous elements stay in place (readers must overwrite every element)
  arr.shape_ = shape;
  if (arr.data_.size() != vf_detail::product(shape)) arr.data_.assign(vf_detail::product(shape), T{});
}
template <typename T, size_t N>
T* dataptr(NDArray<T, N>& arr) { return arr.data(); }
template <typename T, size_t N>
T const* dataptr(NDArray<T, N> const& arr) { return arr.data(); }
template <typename T, size_t N, class... Args>
T const& at(NDArray<T, N> const& arr, Args... idx) {
  return arr.data()[vf_detail::flat(arr.shape_, {static_cast<size_t>(idx)...})];
}

/**** DynamicNDArray ****/
template <typename T>
size_t size(DynamicNDArray<T> const& arr) { return arr.size(); }
template <typename T>
size_t dimension(DynamicNDArray<T> const& arr) { return arr.shape_.size(); }
template <typename T>
std::vector<size_t> shape(DynamicNDArray<T> const& arr) { return arr.shape_; }
template <typename T>
size_t shape(DynamicNDArray<T> const& arr, size_t dim) { return arr.shape_.at(dim); }
template <typename T>
void resize(DynamicNDArray<T>& arr, std::vector<size_t> const& shape) {
  arr.shape_ = shape;
  if (arr.data_.size() != vf_detail::product(shape)) arr.data_.assign(vf_detail::product(shape), T{});
}
template <typename T>
T* dataptr(DynamicNDArray<T>& arr) { return arr.data(); }
template <typename T>
T const* dataptr(DynamicNDArray<T> const& arr) { return arr.data(); }
template <typename T, class... Args>
T const& at(DynamicNDArray<T> const& arr, Args... idx) {
  return arr.data()[vf_detail::flat(arr.shape_, {static_cast<size_t>(idx)...})];
}

}  // namespace yardl
