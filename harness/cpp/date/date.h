// Stand-in for Howard Hinnant's date.h (not installed here): only the aliases the
// generated binary code needs. date::format / from_stream are NOT provided, so
// the C++ NDJSON legs never use date/time/datetime (stated in DESIGN.md).
#pragma once
#include <chrono>
#include <istream>
#include <ostream>
#include <sstream>
#include <string>
namespace date {
using days = std::chrono::duration<int, std::ratio<86400>>;
struct local_t {};
template <class Duration>
using local_time = std::chrono::time_point<local_t, Duration>;
using local_days = local_time<days>;
template <class Duration>
using sys_time = std::chrono::time_point<std::chrono::system_clock, Duration>;
using sys_days = sys_time<days>;
template <class CharT, class Streamable>
std::string format(const CharT*, Streamable const&) { throw std::runtime_error("date::format not available in shim"); }
template <class Parsable, class CharT>
void from_stream(std::basic_istream<CharT>&, const CharT*, Parsable&) { throw std::runtime_error("date::from_stream not available in shim"); }
template <class Parsable, class CharT>
struct parse_manip { const CharT* f; Parsable& tp; };
template <class Parsable, class CharT>
parse_manip<Parsable, CharT> parse(const CharT* f, Parsable& tp) { return {f, tp}; }
template <class Parsable, class CharT>
std::basic_istream<CharT>& operator>>(std::basic_istream<CharT>& is, parse_manip<Parsable, CharT> const&) {
  throw std::runtime_error("date::parse not available in shim");
  return is;
}
}  // namespace date
