#!/bin/bash
# usage: r6.sh <PROP> <short-name>   — confirm a round-6 seed in a fresh worktree, store it under seeded/<PROP>-<short-name>/
ID="$1"; NAME="$ID-$2"; SD=/tmp/seed-r6-$ID
HEAD=$(git -C /repo rev-parse --short HEAD)
CONF=$(/verif/confirm_seed.sh $ID $SD 2>&1 | grep '^{"id"')
echo "$CONF"
echo "$CONF" | grep -q '"apply":"ok","build":"ok","tests":"ok"' || { echo NOT-CONFIRMED; exit 1; }
echo "$CONF" | grep -q '"demo_with_patch_rc":0' && { echo NOT-CONFIRMED-demo-passes-with-patch; exit 1; }
echo "$CONF" | grep -q '"demo_without_patch_rc":0' || { echo NOT-CONFIRMED-demo-fails-without; exit 1; }
D=/verif/seeded/$NAME; mkdir -p $D; cp -r $SD/* $D/
python3 - "$D" "$ID" "$CONF" "$HEAD" <<'PY'
import json,sys
d,prop,conf,head=sys.argv[1:5]
json.dump({"property":prop,"round":6,"confirmation":json.loads(conf),
 "what_i_ran":f"confirm_seed.sh: fresh scratch worktree of /repo HEAD ({head}); git apply patch.diff; go build ./...; go test -vet=off -count=1 ./...; demo.sh with the patch (rc != 0) and after git checkout (rc 0); worktree removed",
 "needs_to_manifest":"see notes.md","detected_by":"see DESIGN.md §11 and seeded/detection.json"}, open(d+"/meta.json","w"), indent=1)
PY
echo stored $D
