#!/bin/sh
# usage: try_seed.sh <patch.diff> <PROP> [tier] [seed]   -- applies a seeded change to /repo, runs the check, undoes it
set -u
P="$1"; PROP="$2"; TIER="${3:-quick}"; SEED="${4:-1}"
cd /repo || exit 2
git diff --quiet || { echo "/repo has uncommitted changes"; exit 2; }
git apply "$P" || { echo "patch does not apply"; exit 2; }
cd /verif
VERIF_SEED=$SEED ./check "$PROP" --tier "$TIER" 2>&1 | tail -${TAILN:-6}
RC=$?
git -C /repo checkout -- .
git -C /repo status --short | head -3
