import Props.C01
import Props.C03
import Props.C12
import Props.C15
import Props.C16
import Props.C17
import Props.C18
import Props.C19
