import Props.C01
import Props.C16
