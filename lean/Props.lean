import Props.C01
