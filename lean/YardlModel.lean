import YardlModel.Wire
