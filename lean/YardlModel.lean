import YardlModel.Wire
import YardlModel.Streams
import YardlModel.Batch
import YardlModel.Expr
import YardlModel.Imports
import YardlModel.Cli
import YardlModel.Determinism
import YardlModel.Proto
