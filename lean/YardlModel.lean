import YardlModel.Wire
import YardlModel.Streams
