import YardlModel.Wire
import YardlModel.Streams
import YardlModel.Batch
