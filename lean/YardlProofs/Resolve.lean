import YardlModel.Resolve

namespace Yardl.Resolve

/-- everything `allRefs` returns was there before or is imported, directly or through imports -/
theorem allRefs_sound (refs : Nat → List Nat) : ∀ (f n : Nat) (acc : List Nat) (m : Nat),
    m ∈ allRefs refs f n acc → m ∈ acc ∨ Reach refs n m := by
  intro f
  induction f with
  | zero => intro n acc m h; exact Or.inl h
  | succ f ih =>
    intro n acc m h
    simp only [allRefs] at h
    -- generalise over the part of the import list still to be walked
    have key : ∀ (l : List Nat) (a : List Nat), (∀ r ∈ l, r ∈ refs n) →
        m ∈ l.foldl (fun a r => if a.contains r then a else allRefs refs f r a ++ [r]) a → m ∈ a ∨ Reach refs n m := by
      intro l
      induction l with
      | nil => intro a _ hm; exact Or.inl hm
      | cons r l ihl =>
        intro a hl hm
        simp only [List.foldl_cons] at hm
        have hr : r ∈ refs n := hl r (List.mem_cons_self)
        have hl' : ∀ x ∈ l, x ∈ refs n := fun x hx => hl x (List.mem_cons_of_mem _ hx)
        rcases ihl _ hl' hm with h1 | h1
        · split at h1
          · exact Or.inl h1
          · rcases List.mem_append.1 h1 with h2 | h2
            · rcases ih r a m h2 with h3 | h3
              · exact Or.inl h3
              · exact Or.inr (Reach.step hr h3)
            · have : m = r := by simpa using h2
              subst this
              exact Or.inr (Reach.direct hr)
        · exact Or.inr h1
    exact key (refs n) acc (fun _ h => h) h

/-- what is there stays there -/
theorem allRefs_mono (refs : Nat → List Nat) : ∀ (f n : Nat) (acc : List Nat) (m : Nat), m ∈ acc → m ∈ allRefs refs f n acc := by
  intro f
  induction f with
  | zero => intro n acc m h; exact h
  | succ f ih =>
    intro n acc m h
    simp only [allRefs]
    have key : ∀ (l : List Nat) (a : List Nat), m ∈ a →
        m ∈ l.foldl (fun a r => if a.contains r then a else allRefs refs f r a ++ [r]) a := by
      intro l
      induction l with
      | nil => intro a hm; exact hm
      | cons r l ihl =>
        intro a hm
        simp only [List.foldl_cons]
        apply ihl
        split
        · exact hm
        · exact List.mem_append_left _ (ih r a m hm)
    exact key (refs n) acc h

/-- every direct import is returned -/
theorem allRefs_direct (refs : Nat → List Nat) (f n : Nat) (acc : List Nat) (m : Nat) (h : m ∈ refs n) :
    m ∈ allRefs refs (f + 1) n acc := by
  simp only [allRefs]
  have key : ∀ (l : List Nat) (a : List Nat), m ∈ l →
      m ∈ l.foldl (fun a r => if a.contains r then a else allRefs refs f r a ++ [r]) a := by
    intro l
    induction l with
    | nil => intro a hm; cases hm
    | cons r l ihl =>
      intro a hm
      simp only [List.foldl_cons]
      rcases List.mem_cons.1 hm with h1 | h1
      · subst h1
        -- after this step `m` is in the accumulator; the rest of the walk keeps it
        have hin : m ∈ (if a.contains m then a else allRefs refs f m a ++ [m]) := by
          split
          · rename_i hc; simpa using hc
          · exact List.mem_append_right _ (List.mem_singleton.2 rfl)
        have mono : ∀ (l : List Nat) (a : List Nat), m ∈ a →
            m ∈ l.foldl (fun a r => if a.contains r then a else allRefs refs f r a ++ [r]) a := by
          intro l
          induction l with
          | nil => intro a hm; exact hm
          | cons r l ihl' =>
            intro a hm
            simp only [List.foldl_cons]
            apply ihl'
            split
            · exact hm
            · exact List.mem_append_left _ (allRefs_mono refs f r a m hm)
        exact mono l _ hin
      · exact ihl _ h1
  exact key (refs n) acc h

/-- **a name only resolves into the package itself or into a package it imports** (directly or through imports), and only to a
    definition that exists -/
theorem resolve_sound (refs : Nat → List Nat) (defs : List (Nat × Nat)) (fuel cur : Nat) (nm : Name) (m t : Nat)
    (h : resolve defs (visible refs fuel cur) cur nm = some (m, t)) :
    (m = cur ∨ Reach refs cur m) ∧ (m, t) ∈ defs := by
  cases nm with
  | qual m' t' =>
    simp only [resolve] at h
    split at h
    · rename_i hc
      have hc' := (Bool.and_eq_true _ _).mp hc
      cases h
      refine ⟨?_, by simpa using hc'.2⟩
      have hv : m ∈ visible refs fuel cur := by simpa using hc'.1
      unfold visible at hv
      rcases List.mem_cons.1 hv with h1 | h1
      · exact Or.inl h1
      · rcases allRefs_sound refs fuel cur [] m h1 with h2 | h2
        · cases h2
        · exact Or.inr h2
    · cases h
  | unq t' =>
    simp only [resolve] at h
    split at h
    · rename_i hc
      have hc' := (Bool.and_eq_true _ _).mp hc
      cases h
      exact ⟨Or.inl rfl, by simpa using hc'.2⟩
    · cases h

/-- the types of a directly imported package resolve under their namespace -/
theorem imported_types_resolve (refs : Nat → List Nat) (defs : List (Nat × Nat)) (fuel cur m t : Nat)
    (hi : m ∈ refs cur) (hd : (m, t) ∈ defs) :
    resolve defs (visible refs (fuel + 1) cur) cur (.qual m t) = some (m, t) := by
  simp only [resolve]
  have hv : m ∈ visible refs (fuel + 1) cur := List.mem_cons_of_mem _ (allRefs_direct refs fuel cur [] m hi)
  simp [hv, hd]

/-- the defect that was there (3dc19f7): with the whole table visible to everybody, `B` resolved `C.T` although it does not
    import `C` — in the world `App → [B, C]`, `B → []` -/
example :
    let refs : Nat → List Nat := fun n => if n = 0 then [1, 2] else []
    resolve [(2, 7)] [0, 1, 2] 1 (.qual 2 7) = some (2, 7) ∧ resolve [(2, 7)] (visible refs 5 1) 1 (.qual 2 7) = none := by
  decide

end Yardl.Resolve

/-! ### completeness: everything imported, directly or through imports, is visible (acyclic graphs, enough fuel) -/

namespace Yardl.Resolve

/-- the references of every element are in the list -/
def Closed (refs : Nat → List Nat) (l : List Nat) : Prop := ∀ m ∈ l, ∀ i ∈ refs m, i ∈ l

/-- what one call of `allRefs` does -/
structure AllSpec (refs : Nat → List Nat) (acc res : List Nat) (n : Nat) : Prop where
  ext : ∃ added, res = acc ++ added
  children : ∀ i ∈ refs n, i ∈ res
  closed : Closed refs acc → Closed refs res

theorem Closed.snoc {refs : Nat → List Nat} {l : List Nat} {r : Nat} (h : Closed refs l) (hr : ∀ i ∈ refs r, i ∈ l) :
    Closed refs (l ++ [r]) := by
  intro m hm i hi
  rcases List.mem_append.1 hm with h1 | h1
  · exact List.mem_append_left _ (h m h1 i hi)
  · have : m = r := by simpa using h1
    subst this
    exact List.mem_append_left _ (hr i hi)

theorem allRefs_spec (refs : Nat → List Nat) (rank : Nat → Nat) (hr : ∀ n, ∀ i ∈ refs n, rank i < rank n) :
    ∀ (f n : Nat) (acc : List Nat), rank n < f → AllSpec refs acc (allRefs refs f n acc) n
  | 0, _, _, h => by omega
  | f + 1, n, acc, hf => by
    unfold allRefs
    have key : ∀ (l : List Nat) (a : List Nat), (∀ i ∈ l, i ∈ refs n) →
        (∃ added, l.foldl (fun a r => if a.contains r then a else allRefs refs f r a ++ [r]) a = a ++ added) ∧
        (∀ i ∈ l, i ∈ l.foldl (fun a r => if a.contains r then a else allRefs refs f r a ++ [r]) a) ∧
        (Closed refs a → Closed refs (l.foldl (fun a r => if a.contains r then a else allRefs refs f r a ++ [r]) a)) := by
      intro l
      induction l with
      | nil => intro a _; exact ⟨⟨[], by simp⟩, by simp, fun h => h⟩
      | cons r rest ih =>
        intro a hl
        have hrk : rank r < f := by have := hr n r (hl r (by simp)); omega
        simp only [List.foldl_cons]
        -- one step
        have step : (∃ added, (if a.contains r then a else allRefs refs f r a ++ [r]) = a ++ added) ∧
            r ∈ (if a.contains r then a else allRefs refs f r a ++ [r]) ∧
            (Closed refs a → Closed refs (if a.contains r then a else allRefs refs f r a ++ [r])) := by
          by_cases hc : a.contains r = true
          · simp only [hc, if_true]
            exact ⟨⟨[], by simp⟩, by simpa using hc, fun h => h⟩
          · simp only [hc, Bool.false_eq_true, if_false]
            have spec := allRefs_spec refs rank hr f r a hrk
            obtain ⟨a1, e1⟩ := spec.ext
            refine ⟨⟨a1 ++ [r], by rw [e1]; simp⟩, by simp, fun h => ?_⟩
            exact (spec.closed h).snoc spec.children
        obtain ⟨⟨a1, e1⟩, m1, c1⟩ := step
        obtain ⟨⟨a2, e2⟩, m2, c2⟩ := ih _ (fun x hx => hl x (by simp [hx]))
        refine ⟨⟨a1 ++ a2, by rw [e2, e1]; simp⟩, ?_, fun h => c2 (c1 h)⟩
        intro x hx
        rcases List.mem_cons.mp hx with rfl | hx
        · rw [e2]; exact List.mem_append_left _ m1
        · exact m2 x hx
    obtain ⟨e, hm, hc⟩ := key (refs n) acc (fun i hi => hi)
    exact ⟨e, hm, hc⟩

/-- in a closed list that holds the direct imports, everything reachable is present -/
theorem reach_mem_of_closed (refs : Nat → List Nat) (l : List Nat) (hc : Closed refs l) :
    ∀ {x m : Nat}, Reach refs x m → x ∈ l → m ∈ l := by
  intro x m h
  induction h with
  | direct hm => intro hx; exact hc _ hx _ hm
  | step hr _ ih => intro hx; exact ih (hc _ hx _ hr)

/-- **everything a package imports, directly or through its imports, is visible to it** -/
theorem visible_complete (refs : Nat → List Nat) (rank : Nat → Nat) (hr : ∀ n, ∀ i ∈ refs n, rank i < rank n)
    (fuel n m : Nat) (hf : rank n < fuel) (h : Reach refs n m) : m ∈ visible refs fuel n := by
  have s := allRefs_spec refs rank hr fuel n [] hf
  have hcl : Closed refs (allRefs refs fuel n []) := s.closed (by intro m hm; cases hm)
  unfold visible
  apply List.mem_cons_of_mem
  cases h with
  | direct hm => exact s.children _ hm
  | step hr' hrest => exact reach_mem_of_closed refs _ hcl hrest (s.children _ hr')

/-- visible = the package itself and exactly what it imports, directly or through imports -/
theorem visible_iff (refs : Nat → List Nat) (rank : Nat → Nat) (hr : ∀ n, ∀ i ∈ refs n, rank i < rank n)
    (fuel n m : Nat) (hf : rank n < fuel) : m ∈ visible refs fuel n ↔ (m = n ∨ Reach refs n m) := by
  constructor
  · intro h
    unfold visible at h
    rcases List.mem_cons.1 h with h1 | h1
    · exact Or.inl h1
    · rcases allRefs_sound refs fuel n [] m h1 with h2 | h2
      · cases h2
      · exact Or.inr h2
  · intro h
    rcases h with h1 | h1
    · subst h1; unfold visible; exact List.mem_cons_self
    · exact visible_complete refs rank hr fuel n m hf h1

end Yardl.Resolve
