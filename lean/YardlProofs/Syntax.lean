import YardlModel.Syntax

namespace Yardl.Syntax

theorem applyTails_snoc : ∀ (ts : Tails) (t : T) (x : Tail), applyTails t (ts.snoc x) = applyTail (applyTails t ts) x
  | .nil, t, x => by simp [Tails.snoc, applyTails]
  | .cons y r, t, x => by simp [Tails.snoc, applyTails, applyTails_snoc r]

theorem Tails.unsnoc_spec : ∀ (ts ts' : Tails) (x : Tail), ts.unsnoc = some (ts', x) → ts = ts'.snoc x
  | .nil, ts', x, h => by simp [Tails.unsnoc] at h
  | .cons t .nil, ts', x, h => by
    simp [Tails.unsnoc] at h; obtain ⟨h1, h2⟩ := h; subst h1; subst h2; simp [Tails.snoc]
  | .cons t (.cons u r), ts', x, h => by
    simp only [Tails.unsnoc] at h
    cases hr : (Tails.cons u r).unsnoc with
    | none => simp [hr] at h
    | some p =>
      obtain ⟨r', y⟩ := p
      simp [hr] at h; obtain ⟨h1, h2⟩ := h; subst h1; subst h2
      have := Tails.unsnoc_spec (.cons u r) r' y hr
      simp [Tails.snoc, ← this]

theorem convS_unsnoc (s s0 : S) (x : Tail) (h : s.unsnoc = some (s0, x)) : convS s = applyTail (convS s0) x := by
  cases s with
  | named n a ts =>
    simp only [S.unsnoc] at h
    cases hu : ts.unsnoc with
    | none => simp [hu] at h
    | some p =>
      obtain ⟨ts', y⟩ := p
      simp [hu] at h; obtain ⟨h1, h2⟩ := h; subst h1; subst h2
      rw [Tails.unsnoc_spec ts ts' y hu]
      simp [convS, applyTails_snoc]
  | sub s' ts =>
    simp only [S.unsnoc] at h
    cases hu : ts.unsnoc with
    | none => simp [hu] at h
    | some p =>
      obtain ⟨ts', y⟩ := p
      simp [hu] at h; obtain ⟨h1, h2⟩ := h; subst h1; subst h2
      rw [Tails.unsnoc_spec ts ts' y hu]
      simp [convS, applyTails_snoc]

theorem convS_unparen : ∀ s : S, convS (unparen s) = convS s
  | .named n a ts => by simp [unparen]
  | .sub s .nil => by simp [unparen, convS, applyTails, convS_unparen s]
  | .sub s (.cons t r) => by simp [unparen]


def D.isScalar : D → Bool
  | .scalar => true
  | _ => false

theorem normD_isScalar (d : D) : (normD d).isScalar = d.isScalar := by
  cases d <;> simp [normD, D.isScalar]

theorem norm_single (t : T) (d : D) (hd : d.isScalar = false) :
    norm (.gen (single t) d) = withDim (norm t) (normD d) := by
  have h2 := normD_isScalar d
  rw [hd] at h2
  simp only [norm, single, normC]
  cases hn : normD d <;> simp_all [D.isScalar]

theorem norm_opt (t : T) : norm (.gen (.null none (single t)) .scalar) = .gen (.null none (single (norm t))) .scalar := by
  simp [norm, normC, normD, single]

mutual
  theorem short_sound : ∀ (t : Sur) (s : S), isShort t s = true → norm (convS s) = tree t
    | .named n args, s, h => by
      rw [← convS_unparen s]
      simp only [isShort] at h
      cases hu : unparen s with
      | sub s' ts => simp [hu] at h
      | named n' a ts =>
        cases ts with
        | cons x r => simp [hu] at h
        | nil =>
          simp [hu] at h
          obtain ⟨h1, h2⟩ := h
          subst h1
          simp [convS, applyTails, norm, tree, shortL_sound args a h2]
    | .opt t, s, h => by
      rw [← convS_unparen s]
      simp only [isShort] at h
      cases hu : (unparen s).unsnoc with
      | none => simp [hu] at h
      | some p =>
        obtain ⟨s0, x⟩ := p
        cases x <;> simp [hu] at h
        rw [convS_unsnoc _ s0 _ hu]
        simp only [applyTail, norm_opt, tree, short_sound t s0 h]
    | .union cs, s, h => by simp [isShort] at h
    | .vector t len, s, h => by
      rw [← convS_unparen s]
      simp only [isShort] at h
      cases hu : (unparen s).unsnoc with
      | none => simp [hu] at h
      | some p =>
        obtain ⟨s0, x⟩ := p
        cases x <;> simp [hu] at h
        obtain ⟨h1, h2⟩ := h
        subst h1
        rw [convS_unsnoc _ s0 _ hu]
        simp only [applyTail]
        rw [norm_single _ _ (by simp [D.isScalar])]
        simp [normD, tree, short_sound t s0 h2]
    | .array t dims, s, h => by
      rw [← convS_unparen s]
      simp only [isShort] at h
      cases hu : (unparen s).unsnoc with
      | none => simp [hu] at h
      | some p =>
        obtain ⟨s0, x⟩ := p
        cases x <;> simp [hu] at h
        obtain ⟨h1, h2⟩ := h
        subst h1
        rw [convS_unsnoc _ s0 _ hu]
        simp only [applyTail]
        rw [norm_single _ _ (by simp [D.isScalar])]
        simp [normD, tree, dimsOpt, short_sound t s0 h2]
    | .map k v, s, h => by
      rw [← convS_unparen s]
      simp only [isShort] at h
      cases hu : (unparen s).unsnoc with
      | none => simp [hu] at h
      | some p =>
        obtain ⟨s0, x⟩ := p
        cases x <;> simp [hu] at h
        obtain ⟨h1, h2⟩ := h
        rw [convS_unsnoc _ s0 _ hu]
        simp only [applyTail]
        rw [norm_single _ _ (by simp [D.isScalar])]
        simp [normD, tree, short_sound k s0 h1, short_sound v _ h2]
  theorem shortL_sound : ∀ (ts : SurL) (ss : SL), isShortL ts ss = true → normL (convSL ss) = treeL ts
    | .nil, .nil, _ => by simp [convSL, normL, treeL]
    | .nil, .cons _ _, h => by simp [isShortL] at h
    | .cons _ _, .nil, h => by simp [isShortL] at h
    | .cons t r, .cons s r', h => by
      simp [isShortL] at h
      simp [convSL, normL, treeL, short_sound t s h.1, shortL_sound r r' h.2]
end


theorem norm_gen_dim (cs : CL) (d : D) (hd : d.isScalar = false) :
    norm (.gen cs d) = withDim (norm (.gen cs .scalar)) (normD d) := by
  have h2 := normD_isScalar d
  rw [hd] at h2
  simp only [norm]
  generalize normC cs = cs'
  generalize normD d = d' at h2
  cases cs' with
  | nil => cases d' <;> simp_all [D.isScalar, normD, withDim]
  | null tag r => cases d' <;> simp_all [D.isScalar, normD, withDim]
  | cons tag t r =>
    cases tag with
    | some tg => cases d' <;> simp_all [D.isScalar, normD, withDim]
    | none =>
      cases r with
      | nil => cases d' <;> simp_all [D.isScalar, normD, withDim]
      | null _ _ => cases d' <;> simp_all [D.isScalar, normD, withDim]
      | cons _ _ _ => cases d' <;> simp_all [D.isScalar, normD, withDim]

theorem convCases_nonseq (y : Y) (h : ∀ items, y ≠ .seq items) : convCases y = (convY y).map single := by
  cases y with
  | seq items => exact absurd rfl (h items)
  | null => simp [convCases, convY]
  | str s => simp [convCases, convY]
  | generic n a => simp only [convCases, convY]; cases convYL a <;> simp
  | vector i l => simp only [convCases, convY]; cases convCases i <;> simp
  | array i l => simp only [convCases, convY]; cases convCases i <;> simp
  | arrayN i l => simp only [convCases, convY]; cases convCases i <;> simp
  | map k v => simp only [convCases, convY]; cases convY k <;> cases convCases v <;> simp
  | union c => simp only [convCases, convY]; cases convYC c <;> simp
  | stream i => simp only [convCases, convY]; cases convCases i <;> simp

/-- an `items:` / `values:` position sees its node through `norm` exactly as a scalar position does -/
theorem convCases_spec (y : Y) (d : D) (hd : d.isScalar = false) :
    (convCases y).map (fun cs => norm (.gen cs d)) = (sem y).map (fun t => withDim t (normD d)) := by
  cases y with
  | seq items =>
    simp only [convCases, convY, sem]
    cases casesOfSeq items with
    | none => simp
    | some cs => simp [norm_gen_dim cs d hd]
  | _ =>
    rw [convCases_nonseq _ (by intro items h; cases h)]
    simp only [sem]
    cases convY _ with
    | none => simp
    | some t => simp [norm_single t d hd]


theorem casesOfSeq_nonnull (y : Y) (r : YL) (h : y.isNull = false) :
    casesOfSeq (.cons y r) = (match convY y, casesOfSeq r with
      | some t, some cs => some (.cons none t cs)
      | _, _ => none) := by
  cases y with
  | null => simp [Y.isNull] at h
  | _ => simp only [casesOfSeq]; generalize convY _ = a; generalize casesOfSeq r = b; cases a <;> cases b <;> rfl

theorem convYC_nonnull (tag : String) (y : Y) (r : YC) (h : y.isNull = false) :
    convYC (.cons tag y r) = (match convY y, convYC r with
      | some t, some cs => some (.cons (some tag) t cs)
      | _, _ => none) := by
  cases y with
  | null => simp [Y.isNull] at h
  | _ => simp only [convYC]; generalize convY _ = a; generalize convYC r = b; cases a <;> cases b <;> rfl

theorem nonnull_of_convY (y : Y) (t : T) (h : convY y = some t) : y.isNull = false := by
  cases y <;> simp [Y.isNull]
  simp [convY] at h

theorem sem_dim (items : Y) (d : D) (hd : d.isScalar = false) (t : T) (h : sem items = some t) :
    (convCases items).map (fun cs => norm (.gen cs d)) = some (withDim t (normD d)) := by
  rw [convCases_spec items d hd, h]; rfl

mutual
  theorem spelling_sound : ∀ (t : Sur) (y : Y), isSpelling t y = true → sem y = some (tree t)
    | .named n args, y, h => by
      cases y <;> (try simp only [isSpelling] at h) <;> try contradiction
      case str s => simp [sem, convY, short_sound _ s h]
      case generic n' ys =>
        simp at h; obtain ⟨h1, h2⟩ := h; subst h1
        have := spellingL_sound args ys h2
        simp only [sem, convY]
        cases hc : convYL ys with
        | none => simp [hc] at this
        | some a => simp [hc] at this; simp [norm, tree, this]
    | .opt t, y, h => by
      cases y <;> (try simp only [isSpelling] at h) <;> try contradiction
      case str s => simp [sem, convY, short_sound _ s h]
      case seq ys =>
        cases ys with
        | nil => simp [isSpelling] at h
        | cons y1 r1 =>
          cases y1 <;> (try simp only [isSpelling] at h) <;> try contradiction
          cases r1 with
          | nil => simp [isSpelling] at h
          | cons y2 r2 =>
            cases r2 with
            | cons _ _ => simp [isSpelling] at h
            | nil =>
              simp only [isSpelling] at h
              have ih := spelling_sound t y2 h
              simp only [sem] at ih
              cases hc : convY y2 with
              | none => simp [hc] at ih
              | some ty =>
                simp [hc] at ih
                have hnn := nonnull_of_convY y2 ty hc
                simp only [sem, convY, casesOfSeq, casesOfSeq_nonnull y2 .nil hnn, hc]
                simp [norm_opt, tree, ih, single]
                exact norm_opt ty ▸ (by simp [single, ih])
    | .union cs, y, h => by
      cases y <;> (try simp only [isSpelling] at h) <;> try contradiction
      case seq ys =>
        simp at h; obtain ⟨h1, h2⟩ := h
        have := seqCases_sound cs ys h2
        simp only [sem, convY]
        cases hc : casesOfSeq ys with
        | none => simp [hc] at this
        | some c =>
          simp [hc] at this
          simp only [Option.map_some, norm, this, normD, tree]
          cases cs with
          | nil => simp [treeC]
          | null tag r => simp [treeC]
          | cons tag t r =>
            cases tag with
            | some tg => simp [treeC]
            | none =>
              cases r with
              | nil => simp [SurC.isSingleUntagged] at h1
              | null _ _ => simp [treeC]
              | cons _ _ _ => simp [treeC]
      case union yc =>
        have := taggedCases_sound cs yc h
        simp only [sem, convY]
        cases hc : convYC yc with
        | none => simp [hc] at this
        | some c =>
          simp [hc] at this
          simp only [Option.map_some, norm, this, normD, tree]
          cases cs with
          | nil => simp [treeC]
          | null tag r => simp [treeC]
          | cons tag t r =>
            cases tag with
            | some tg => simp [treeC]
            | none => cases yc <;> simp [isTaggedCases] at h
    | .vector t len, y, h => by
      cases y <;> (try simp only [isSpelling] at h) <;> try contradiction
      case str s => simp [sem, convY, short_sound _ s h]
      case vector items len' =>
        simp at h; obtain ⟨h1, h2⟩ := h; subst h1
        have := sem_dim items (.vector len) (by simp [D.isScalar]) _ (spelling_sound t items h2)
        simp only [sem, convY]
        cases hc : convCases items with
        | none => simp [hc] at this
        | some c => simp [hc] at this; simp [this, tree, normD]
    | .array t dims, y, h => by
      cases y <;> (try simp only [isSpelling] at h) <;> try contradiction
      case str s => simp [sem, convY, short_sound _ s h]
      case array items dims' =>
        simp at h; obtain ⟨h1, h2⟩ := h; subst h1
        have := sem_dim items (.array dims) (by simp [D.isScalar]) _ (spelling_sound t items h2)
        simp only [sem, convY]
        cases hc : convCases items with
        | none => simp [hc] at this
        | some c => simp [hc] at this; simp [this, tree, normD]
      case arrayN items n =>
        simp at h; obtain ⟨h1, h2⟩ := h; subst h1
        have := sem_dim items (.array (some (List.replicate n ⟨none, none⟩))) (by simp [D.isScalar]) _ (spelling_sound t items h2)
        simp only [sem, convY]
        cases hc : convCases items with
        | none => simp [hc] at this
        | some c => simp [hc] at this; simp [this, tree, normD]
    | .map k v, y, h => by
      cases y <;> (try simp only [isSpelling] at h) <;> try contradiction
      case str s => simp [sem, convY, short_sound _ s h]
      case map ky vy =>
        simp at h; obtain ⟨h1, h2⟩ := h
        have hk := spelling_sound k ky h1
        simp only [sem] at hk
        cases hck : convY ky with
        | none => simp [hck] at hk
        | some tk =>
          simp [hck] at hk
          have := sem_dim vy (.map tk) (by simp [D.isScalar]) _ (spelling_sound v vy h2)
          simp only [sem, convY, hck]
          cases hc : convCases vy with
          | none => simp [hc] at this
          | some c => simp [hc] at this; simp [this, tree, normD, hk]
  theorem spellingL_sound : ∀ (ts : SurL) (ys : YL), isSpellingL ts ys = true → (convYL ys).map normL = some (treeL ts)
    | .nil, .nil, _ => by simp [convYL, normL, treeL]
    | .nil, .cons _ _, h => by simp [isSpellingL] at h
    | .cons _ _, .nil, h => by simp [isSpellingL] at h
    | .cons t r, .cons y r', h => by
      simp [isSpellingL] at h
      have h1 := spelling_sound t y h.1
      have h2 := spellingL_sound r r' h.2
      simp only [sem] at h1
      simp only [convYL]
      cases hc : convY y with
      | none => simp [hc] at h1
      | some ty =>
        cases hl : convYL r' with
        | none => simp [hl] at h2
        | some tl => simp [hc, hl] at h1 h2; simp [normL, treeL, h1, h2]
  theorem seqCases_sound : ∀ (cs : SurC) (ys : YL), isSeqCases cs ys = true → (casesOfSeq ys).map normC = some (treeC cs)
    | .nil, .nil, _ => by simp [casesOfSeq, normC, treeC]
    | .nil, .cons _ _, h => by simp [isSeqCases] at h
    | .null tag r, ys, h => by
      cases ys with
      | nil => cases tag <;> simp [isSeqCases] at h
      | cons y r' =>
        cases tag with
        | some _ => simp [isSeqCases] at h
        | none =>
          cases y <;> simp only [isSeqCases] at h <;> try contradiction
          have h2 := seqCases_sound r r' h
          simp only [casesOfSeq]
          cases hl : casesOfSeq r' with
          | none => simp [hl] at h2
          | some tl => simp [hl] at h2; simp [normC, treeC, h2]
    | .cons tag t r, ys, h => by
      cases ys with
      | nil => cases tag <;> simp [isSeqCases] at h
      | cons y r' =>
        cases tag with
        | some _ => simp [isSeqCases] at h
        | none =>
          simp [isSeqCases] at h
          obtain ⟨⟨hn, h1⟩, h2⟩ := h
          have ih1 := spelling_sound t y h1
          have ih2 := seqCases_sound r r' h2
          simp only [sem] at ih1
          cases hc : convY y with
          | none => simp [hc] at ih1
          | some ty =>
            cases hl : casesOfSeq r' with
            | none => simp [hl] at ih2
            | some tl =>
              simp [hc, hl] at ih1 ih2
              rw [casesOfSeq_nonnull y r' (by simpa using hn)]
              simp [hc, hl, normC, treeC, ih1, ih2]
  theorem taggedCases_sound : ∀ (cs : SurC) (yc : YC), isTaggedCases cs yc = true → (convYC yc).map normC = some (treeC cs)
    | .nil, .nil, _ => by simp [convYC, normC, treeC]
    | .nil, .cons _ _ _, h => by simp [isTaggedCases] at h
    | .null tag r, yc, h => by
      cases yc with
      | nil => cases tag <;> simp [isTaggedCases] at h
      | cons tg y r' =>
        cases tag with
        | none => simp [isTaggedCases] at h
        | some tag =>
          cases y <;> simp only [isTaggedCases] at h <;> try contradiction
          simp at h
          have h2 := taggedCases_sound r r' h.2
          simp only [convYC]
          cases hl : convYC r' with
          | none => simp [hl] at h2
          | some tl => simp [hl] at h2; simp [normC, treeC, h2, h.1]
    | .cons tag t r, yc, h => by
      cases yc with
      | nil => cases tag <;> simp [isTaggedCases] at h
      | cons tg y r' =>
        cases tag with
        | none => simp [isTaggedCases] at h
        | some tag =>
          simp [isTaggedCases] at h
          obtain ⟨⟨⟨ht, hn⟩, h1⟩, h2⟩ := h
          have ih1 := spelling_sound t y h1
          have ih2 := taggedCases_sound r r' h2
          simp only [sem] at ih1
          cases hc : convY y with
          | none => simp [hc] at ih1
          | some ty =>
            cases hl : convYC r' with
            | none => simp [hl] at ih2
            | some tl =>
              simp [hc, hl] at ih1 ih2
              rw [convYC_nonnull tg y r' (by simpa using hn)]
              simp [hc, hl, normC, treeC, ih1, ih2, ht]
end

/-- any two spellings of one type give the front end the same tree (as every consumer sees it) -/
theorem spellings_agree (t : Sur) (a b : Y) (ha : isSpelling t a = true) (hb : isSpelling t b = true) : sem a = sem b := by
  rw [spelling_sound t a ha, spelling_sound t b hb]

end Yardl.Syntax
