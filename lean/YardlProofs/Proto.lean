import YardlModel.Proto

/-! The numeric state encodings of the generated readers/writers are bisimilar to the descriptive
    specification machines, for every protocol shape and every operation sequence. -/

namespace Yardl.Proto

def WInv (p : Shape) (s : WPos) : Prop := s.openS = true → isStream p s.k = true ∧ s.k < p.length
def RInv' (p : Shape) (s : RPos) : Prop := s.drained = true → isStream p s.k = true ∧ s.k < p.length
def PRInv (p : Shape) (s : PRPos) : Prop := (s.inS = true → isStream p s.k = true ∧ s.k < p.length) ∧ (s.inS = false → s.dead = false)

theorem cppW_step (p : Shape) (s : WPos) (op : WOp) (_h : s.openS = false) :
    (specWcpp p s op).map (·.k) = cppW p s.k op := by
  obtain ⟨k, o⟩ := s
  cases op <;> simp only [specWcpp, cppW, apply_ite (Option.map (fun (x : WPos) => x.k)), apply_ite (fun (x : WPos) => x.k), Option.map_some, Option.map_none] at * <;> grind

theorem cppW_closed (p : Shape) (s : WPos) (op : WOp) (h : s.openS = false) :
    ∀ s', specWcpp p s op = some s' → s'.openS = false := by
  obtain ⟨k, o⟩ := s
  intro s'
  cases op <;> simp only [specWcpp] at * <;> grind

theorem pyW_step (p : Shape) (s : WPos) (op : WOp) (h : WInv p s) :
    (specWpy p s op).map encW = pyW p (encW s) op := by
  obtain ⟨k, o⟩ := s
  unfold WInv at h
  cases op <;> cases o <;> simp only [specWpy, pyW, encW, apply_ite (Option.map encW), Option.map_some, Option.map_none] at * <;> grind

theorem pyW_inv (p : Shape) (s : WPos) (op : WOp) (h : WInv p s) : ∀ s', specWpy p s op = some s' → WInv p s' := by
  obtain ⟨k, o⟩ := s
  unfold WInv at *
  intro s'
  cases op <;> cases o <;> simp only [specWpy] at * <;> grind

theorem cppR_step (p : Shape) (s : RPos) (op : ROp) (h : RInv' p s) :
    (specRcpp p s op).map encR = cppR p (encR s) op := by
  obtain ⟨k, o⟩ := s
  unfold RInv' at h
  cases op <;> cases o <;> simp only [specRcpp, cppR, encR, apply_ite (Option.map encR), Option.map_some, Option.map_none] at * <;> grind

theorem cppR_inv (p : Shape) (s : RPos) (op : ROp) (h : RInv' p s) : ∀ s', specRcpp p s op = some s' → RInv' p s' := by
  obtain ⟨k, o⟩ := s
  unfold RInv' at *
  intro s'
  cases op <;> cases o <;> simp only [specRcpp] at * <;> grind

theorem pyR_step (p : Shape) (s : PRPos) (op : PROp) (h : PRInv p s) :
    (specRpy p s op).map encPR = pyR p (encPR s) op := by
  obtain ⟨k, o, d⟩ := s
  unfold PRInv at h
  cases op <;> cases o <;> cases d <;>
    simp only [specRpy, pyR, encPR, apply_ite (Option.map encPR), Option.map_some, Option.map_none] at * <;> grind

theorem pyR_inv (p : Shape) (s : PRPos) (op : PROp) (h : PRInv p s) : ∀ s', specRpy p s op = some s' → PRInv p s' := by
  obtain ⟨k, o, d⟩ := s
  unfold PRInv at *
  intro s'
  cases op <;> cases o <;> cases d <;> simp only [specRpy] at * <;> grind

/-! ### lifting to operation sequences -/

theorem cppW_run (p : Shape) (ops : List WOp) : ∀ (s : WPos), s.openS = false →
    (runWS (specWcpp p) s ops).map (·.k) = runW (cppW p) s.k ops := by
  induction ops with
  | nil => intro s _; simp [runWS, runW]
  | cons op ops ih =>
    intro s h
    have h1 := cppW_step p s op h
    simp only [runWS, runW]
    cases hs : specWcpp p s op with
    | none => rw [hs] at h1; simp at h1; simp [← h1]
    | some s' =>
      rw [hs] at h1; simp at h1
      simp only [← h1]
      exact ih s' (cppW_closed p s op h s' hs)

theorem pyW_run (p : Shape) (ops : List WOp) : ∀ (s : WPos), WInv p s →
    (runWS (specWpy p) s ops).map encW = runW (pyW p) (encW s) ops := by
  induction ops with
  | nil => intro s _; simp [runWS, runW]
  | cons op ops ih =>
    intro s h
    have h1 := pyW_step p s op h
    simp only [runWS, runW]
    cases hs : specWpy p s op with
    | none => rw [hs] at h1; simp at h1; simp [← h1]
    | some s' =>
      rw [hs] at h1; simp at h1
      simp only [← h1]
      exact ih s' (pyW_inv p s op h s' hs)

theorem cppR_run (p : Shape) (ops : List ROp) : ∀ (s : RPos), RInv' p s →
    (runRS (specRcpp p) s ops).map encR = runR (cppR p) (encR s) ops := by
  induction ops with
  | nil => intro s _; simp [runRS, runR]
  | cons op ops ih =>
    intro s h
    have h1 := cppR_step p s op h
    simp only [runRS, runR]
    cases hs : specRcpp p s op with
    | none => rw [hs] at h1; simp at h1; simp [← h1]
    | some s' =>
      rw [hs] at h1; simp at h1
      simp only [← h1]
      exact ih s' (cppR_inv p s op h s' hs)

theorem pyR_run (p : Shape) (ops : List PROp) : ∀ (s : PRPos), PRInv p s →
    (runPRS (specRpy p) s ops).map encPR = runPR (pyR p) (encPR s) ops := by
  induction ops with
  | nil => intro s _; simp [runPRS, runPR]
  | cons op ops ih =>
    intro s h
    have h1 := pyR_step p s op h
    simp only [runPRS, runPR]
    cases hs : specRpy p s op with
    | none => rw [hs] at h1; simp at h1; simp [← h1]
    | some s' =>
      rw [hs] at h1; simp at h1
      simp only [← h1]
      exact ih s' (pyR_inv p s op h s' hs)

end Yardl.Proto
