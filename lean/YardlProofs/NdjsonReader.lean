import YardlModel.NdjsonReader

/-!
  The NDJSON step reader with its one-line look-ahead returns exactly the values whose lines were written,
  for every protocol with distinct step names and every sequence of values — empty streams anywhere included.
-/

namespace Yardl.Nd

variable {α : Type}

/-- what is still to be read: the look-ahead line, then the lines of the stream -/
def pend (s : St α) : List (Nat × α) := s.unused.toList ++ s.lines

theorem readValue_value (s : St α) (name : Nat) (req : Bool) (v : α) (rest : List (Nat × α))
    (h : pend s = (name, v) :: rest) : ∃ s', readValue s name req = .value v s' ∧ pend s' = rest := by
  unfold readValue
  cases hu : s.unused with
  | some p =>
    obtain ⟨k, v'⟩ := p
    simp only [pend, hu, Option.toList, List.cons_append, List.nil_append, List.cons.injEq, Prod.mk.injEq] at h
    obtain ⟨⟨rfl, rfl⟩, hl⟩ := h
    exact ⟨{ s with unused := Option.none }, by simp [hu], by simp [pend, hl]⟩
  | none =>
    simp only [pend, hu, Option.toList, List.nil_append] at h
    simp only [h, if_true]
    exact ⟨{ lines := rest, unused := Option.none }, rfl, by simp [pend]⟩

theorem readValue_other (s : St α) (name k : Nat) (v : α) (rest : List (Nat × α))
    (h : pend s = (k, v) :: rest) (hk : k ≠ name) : ∃ s', readValue s name false = .none s' ∧ pend s' = pend s := by
  unfold readValue
  cases hu : s.unused with
  | some p =>
    obtain ⟨k', v'⟩ := p
    simp only [pend, hu, Option.toList, List.cons_append, List.nil_append, List.cons.injEq, Prod.mk.injEq] at h
    obtain ⟨⟨rfl, rfl⟩, _⟩ := h
    simp only [hk, if_false, Bool.false_eq_true]
    exact ⟨s, rfl, rfl⟩
  | none =>
    simp only [pend, hu, Option.toList, List.nil_append] at h
    simp only [h, hk, if_false, Bool.false_eq_true]
    exact ⟨_, rfl, by simp [pend, hu, h]⟩

theorem readValue_empty (s : St α) (name : Nat) (h : pend s = []) : readValue s name false = .none s := by
  unfold readValue
  cases hu : s.unused with
  | some p => simp [pend, hu] at h
  | none =>
    simp only [pend, hu, Option.toList, List.nil_append] at h
    simp [h]

/-- the next line, if any, belongs to another step -/
def Boundary (name : Nat) (rest : List (Nat × α)) : Prop := ∀ k v r, rest = (k, v) :: r → k ≠ name

theorem readStream_spec (name : Nat) : ∀ (vs : List α) (fuel : Nat) (s : St α) (acc : List α) (rest : List (Nat × α)),
    pend s = vs.map (fun v => (name, v)) ++ rest → Boundary name rest → vs.length < fuel →
    ∃ s', readStream fuel s name acc = some (acc.reverse ++ vs, s') ∧ pend s' = rest
  | [], fuel, s, acc, rest, h, hb, hf => by
    cases fuel with
    | zero => omega
    | succ fuel =>
      simp only [List.map_nil, List.nil_append] at h
      unfold readStream
      cases hr : rest with
      | nil =>
        rw [hr] at h
        simp only [readValue_empty s name h]
        exact ⟨s, by simp, by rw [h]⟩
      | cons p r =>
        obtain ⟨k, v⟩ := p
        rw [hr] at h
        obtain ⟨s', h1, h2⟩ := readValue_other s name k v r h (hb k v r hr)
        simp only [h1]
        exact ⟨s', by simp, by rw [h2, h]⟩
  | v :: vs, fuel, s, acc, rest, h, hb, hf => by
    cases fuel with
    | zero => simp at hf
    | succ fuel =>
      simp only [List.map_cons, List.cons_append] at h
      obtain ⟨s1, h1, h2⟩ := readValue_value s name false v _ h
      unfold readStream
      simp only [h1]
      obtain ⟨s', h3, h4⟩ := readStream_spec name vs fuel s1 (v :: acc) rest h2 hb (by simpa using hf)
      exact ⟨s', by simp [h3], h4⟩

theorem writeLines_names : ∀ (steps : List (Nat × Bool)) (vals : List (StepVal α)) (k : Nat) (v : α),
    (k, v) ∈ writeLines steps vals → ∃ b, (k, b) ∈ steps
  | [], _, _, _, h => by simp [writeLines] at h
  | (n, b) :: rest, [], _, _, h => by simp [writeLines] at h
  | (n, b) :: rest, .single x :: vals, k, v, h => by
    simp only [writeLines, List.mem_cons, Prod.mk.injEq] at h
    rcases h with ⟨rfl, _⟩ | h
    · exact ⟨b, by simp⟩
    · obtain ⟨b', hb'⟩ := writeLines_names rest vals k v h
      exact ⟨b', by simp [hb']⟩
  | (n, b) :: rest, .stream xs :: vals, k, v, h => by
    simp only [writeLines, List.mem_append, List.mem_map, Prod.mk.injEq] at h
    rcases h with ⟨_, _, rfl, _⟩ | h
    · exact ⟨b, by simp⟩
    · obtain ⟨b', hb'⟩ := writeLines_names rest vals k v h
      exact ⟨b', by simp [hb']⟩

theorem pend_length_le (s : St α) : (pend s).length ≤ s.lines.length + 1 := by
  unfold pend
  cases s.unused <;> simp

/-- every protocol with distinct step names, every sequence of values of its shape: the lines written are read back -/
theorem readSteps_spec : ∀ (steps : List (Nat × Bool)) (vals : List (StepVal α)) (s : St α),
    namesDistinct steps = true → shaped steps vals = true → pend s = writeLines steps vals →
    ∃ s', readSteps steps s = some (vals, s') ∧ pend s' = []
  | [], [], s, _, _, h => by
    simp only [writeLines] at h
    exact ⟨s, rfl, h⟩
  | [], _ :: _, _, _, hs, _ => by simp [shaped] at hs
  | (n, b) :: rest, [], _, _, hs, _ => by cases b <;> simp [shaped] at hs
  | (n, false) :: rest, .stream _ :: vals, _, _, hs, _ => by simp [shaped] at hs
  | (n, true) :: rest, .single _ :: vals, _, _, hs, _ => by simp [shaped] at hs
  | (n, false) :: rest, .single v :: vals, s, hd, hs, h => by
    simp only [namesDistinct, Bool.and_eq_true] at hd
    simp only [shaped] at hs
    simp only [writeLines] at h
    obtain ⟨s1, h1, h2⟩ := readValue_value s n true v _ h
    obtain ⟨s', h3, h4⟩ := readSteps_spec rest vals s1 hd.2 hs h2
    exact ⟨s', by simp [readSteps, h1, h3], h4⟩
  | (n, true) :: rest, .stream vs :: vals, s, hd, hs, h => by
    simp only [namesDistinct, Bool.and_eq_true, Bool.not_eq_true', List.any_eq_false, beq_iff_eq] at hd
    simp only [shaped] at hs
    simp only [writeLines] at h
    have hb : Boundary n (writeLines rest vals) := by
      intro k v r hr hk
      obtain ⟨b', hb'⟩ := writeLines_names rest vals k v (by rw [hr]; simp)
      exact hd.1 (k, b') hb' hk
    have hlen : vs.length < s.lines.length + 2 := by
      have h1 := pend_length_le s
      have h2 : vs.length ≤ (pend s).length := by rw [h]; simp
      omega
    obtain ⟨s1, h1, h2⟩ := readStream_spec n vs (s.lines.length + 2) s [] (writeLines rest vals) h hb hlen
    obtain ⟨s', h3, h4⟩ := readSteps_spec rest vals s1 hd.2 hs h2
    simp only [List.reverse_nil, List.nil_append] at h1
    exact ⟨s', by simp [readSteps, h1, h3], h4⟩

/-- a required value that is not the next line is an error, never another step's value -/
theorem required_mismatch_is_error (s : St α) (name k : Nat) (v : α) (rest : List (Nat × α))
    (h : pend s = (k, v) :: rest) (hk : k ≠ name) : readValue s name true = .error := by
  unfold readValue
  cases hu : s.unused with
  | some p =>
    obtain ⟨k', v'⟩ := p
    simp only [pend, hu, Option.toList, List.cons_append, List.nil_append, List.cons.injEq, Prod.mk.injEq] at h
    obtain ⟨⟨rfl, rfl⟩, _⟩ := h
    simp [hk]
  | none =>
    simp only [pend, hu, Option.toList, List.nil_append] at h
    simp [h, hk]

theorem required_at_end_is_error (s : St α) (name : Nat) (h : pend s = []) : readValue s name true = .error := by
  unfold readValue
  cases hu : s.unused with
  | some p => simp [pend, hu] at h
  | none =>
    simp only [pend, hu, Option.toList, List.nil_append] at h
    simp [h]

end Yardl.Nd
