import YardlModel.Json
import YardlProofs.JsonFlags

/-!
  YardlProofs.JsonRoundTrip — `fromJ F t (toJ F t v) = some v` for every well-formed type and typed value.

  Well-formedness (`WF`) is what the validator guarantees for the shapes concerned: distinct field
  names, distinct union tags, distinct enum symbol names, optional types whose inner type is not
  itself nullable, union cases that are neither optional nor unions. `!flags` enums are excluded from
  the theorem (their greedy name decomposition is evaluated by the driver, not proved).
-/

namespace Yardl.Json
open Yardl

/-! ### lists -/

theorem fromList_jList (f : Val → J) (g : J → Option Val) :
    ∀ vs : List Val, (∀ v ∈ vs, g (f v) = some v) → fromList g (jList f vs) = some vs
  | [], _ => by simp [jList, fromList]
  | v :: vs, h => by
    have h1 := h v (by simp)
    have h2 := fromList_jList f g vs (fun x hx => h x (by simp [hx]))
    simp [jList, fromList, h1, h2]

theorem jList_length (f : Val → J) : ∀ vs : List Val, (jList f vs).length = vs.length
  | [] => by simp [jList]
  | _ :: vs => by simp [jList, jList_length f vs]

theorem allList_mem (p : Val → Bool) : ∀ vs : List Val, allList p vs = true → ∀ v ∈ vs, p v = true
  | [], _ => by simp
  | x :: xs, h => by
    simp [allList] at h
    intro v hv
    simp at hv
    rcases hv with rfl | hv
    · exact h.1
    · exact allList_mem p xs h.2 v hv

theorem intsOf_map : ∀ shape : List Nat, intsOf (shape.map fun (d : Nat) => J.int (Int.ofNat d)) = some shape
  | [] => by simp [intsOf]
  | d :: r => by
    have := intsOf_map r
    simp only [List.map_cons, intsOf]
    simp only [Int.ofNat_eq_natCast] at this ⊢
    simp [this]

theorem fromPairs_jPairs (fk fv : Val → J) (gk gv : J → Option Val) :
    ∀ kvs : List (Val × Val), (∀ p ∈ kvs, gk (fk p.1) = some p.1 ∧ gv (fv p.2) = some p.2) →
      fromPairs gk gv (jPairs fk fv kvs) = some kvs
  | [], _ => by simp [jPairs, fromPairs]
  | (k, v) :: r, h => by
    have h1 := h (k, v) (by simp)
    have h2 := fromPairs_jPairs fk fv gk gv r (fun x hx => h x (by simp [hx]))
    simp [jPairs, fromPairs, h1.1, h1.2, h2]

theorem allKVs_mem (pk pv : Val → Bool) : ∀ kvs : List (Val × Val), allKVs pk pv kvs = true →
    ∀ p ∈ kvs, pk p.1 = true ∧ pv p.2 = true
  | [], _ => by simp
  | (k, v) :: r, h => by
    simp [allKVs] at h
    intro p hp
    simp at hp
    rcases hp with rfl | hp
    · exact ⟨h.1.1, h.1.2⟩
    · exact allKVs_mem pk pv r h.2 p hp

theorem fromStrObj_jStrObj (fv : Val → J) (gv : J → Option Val) :
    ∀ kvs : List (Val × Val), (∀ p ∈ kvs, (∃ s, p.1 = .str s) ∧ gv (fv p.2) = some p.2) →
      fromStrObj gv (jStrObj fv kvs) = some kvs
  | [], _ => by simp [jStrObj, fromStrObj]
  | (k, v) :: r, h => by
    have h1 := h (k, v) (by simp)
    have h2 := fromStrObj_jStrObj fv gv r (fun x hx => h x (by simp [hx]))
    obtain ⟨⟨s, hs⟩, hv⟩ := h1
    simp at hs; subst hs
    simp [jStrObj, fromStrObj, hv, h2]


/-! ### primitives and enums -/

theorem primFromJ_primToJ (F : Fmt) (hF : F.Ok) (p : Prim) (v : Val) (h : primHasType p v = true) :
    primFromJ F p (primToJ F p v) = some v := by
  cases p <;> cases v <;> simp [primHasType, Prim.range] at h <;> simp [primToJ, primFromJ, hF _ _]

theorem symOfValue_mem : ∀ (syms : List (String × Int)) (x : Int) (s : String), symOfValue syms x = some s →
    strBytes s ∈ syms.map (fun p => strBytes p.1)
  | [], _, _, h => by simp [symOfValue] at h
  | (s0, v0) :: r, x, s, h => by
    simp only [symOfValue] at h
    by_cases hv : v0 = x
    · simp [hv] at h; subst h; simp
    · simp [hv] at h
      have := symOfValue_mem r x s h
      simp at this ⊢
      exact Or.inr this

theorem find_of_symOfValue : ∀ (syms : List (String × Int)) (x : Int) (s : String),
    distinct (syms.map fun p => strBytes p.1) = true → symOfValue syms x = some s →
    (syms.find? (fun p => strBytes p.1 = strBytes s)).map (fun p => Val.int p.2) = some (.int x)
  | [], _, _, _, h => by simp [symOfValue] at h
  | (s0, v0) :: r, x, s, hd, h => by
    simp only [List.map_cons, distinct] at hd
    simp only [symOfValue] at h
    by_cases hv : v0 = x
    · simp [hv] at h; subst h; simp [hv]
    · simp [hv] at h
      have hm := symOfValue_mem r x s h
      simp at hd
      have hne : ¬ strBytes s0 = strBytes s := by
        intro he
        rw [← he] at hm
        exact absurd hm (by simpa using hd.1)
      have ih := find_of_symOfValue r x s hd.2 h
      simp only [List.find?, hne, decide_false]
      exact ih

/-! ### JSON data types -/

theorem kindOf_ne_zero (j : J) : kindOf j ≠ 0 := by
  cases j <;> simp [kindOf, kNull, kBool, kNum, kStr, kArr, kObj]

/-- the JSON data type of a mapped value is among the data types announced for its type
    (for every type that can be a union case) -/
theorem kinds_sub (F : Fmt) (t : Ty) (v : Val) (hw : WF t = true) (ht : HasType t v = true) (hk : kinds t ≠ 0) :
    kindOf (toJ F t v) &&& kinds t = kindOf (toJ F t v) := by
  cases t with
  | prim p =>
    simp only [HasType] at ht
    cases p <;> cases v <;> simp [primHasType, Prim.range] at ht <;>
      simp [toJ, primToJ, kindOf, kinds, Prim.kinds, kNum, kStr, kBool, kArr]
  | enum b fl syms =>
    cases v <;> simp [HasType] at ht
    cases fl with
    | false =>
      simp only [toJ, kinds]
      simp
      split <;> simp [kindOf, kStr, kNum]
    | true =>
      simp only [toJ, kinds, if_true]
      split
      · split <;> simp [kindOf, kArr, kNum]
      · split
        · simp [kindOf, kArr, kNum]
        · split <;> simp [kindOf, kArr, kNum]
  | record fs => cases v <;> simp [HasType] at ht; simp [toJ, kindOf, kinds, kObj]
  | optional t => simp [kinds] at hk
  | union hn cs => simp [kinds] at hk
  | vector t l => cases v <;> simp [HasType] at ht; simp [toJ, kindOf, kinds, kArr]
  | array t k =>
    cases v <;> simp [HasType] at ht
    cases k <;> simp [toJ, kindOf, kinds, kArr, kObj]
  | map k w =>
    cases v <;> simp [HasType] at ht
    by_cases hs : isStringKey k = true <;> simp [toJ, hs, kindOf, kinds, kArr, kObj]

theorem toJ_ne_null_of_kinds (F : Fmt) (t : Ty) (v : Val) (hw : WF t = true) (ht : HasType t v = true) (hk : kinds t ≠ 0) :
    toJ F t v ≠ .null := by
  intro hn
  have := kinds_sub F t v hw ht hk
  rw [hn] at this
  -- null's bit is in no announced data type of a case type
  cases t with
  | prim p => cases p <;> simp [kindOf, kinds, Prim.kinds, kNull, kNum, kStr, kBool, kArr] at this
  | enum b fl syms => cases fl <;> simp [kindOf, kinds, kNull, kNum, kStr, kArr] at this
  | record fs => simp [kindOf, kinds, kNull, kObj] at this
  | optional t => simp [kinds] at hk
  | union hn cs => simp [kinds] at hk
  | vector t l => simp [kindOf, kinds, kNull, kArr] at this
  | array t k => cases k <;> simp [kindOf, kinds, kNull, kArr, kObj] at this
  | map k w => by_cases hs : isStringKey k = true <;> simp [kindOf, kinds, hs, kNull, kArr, kObj] at this


/-! ### unions: which case is picked when reading -/

def caseTy : Fields → Nat → Ty
  | .nil, _ => .prim .bool
  | .cons _ t _, 0 => t
  | .cons _ _ r, i + 1 => caseTy r i

/-- the first `i` cases announce no JSON data type in `mask` -/
def DisjBefore : Fields → Nat → Nat → Bool
  | _, 0, _ => true
  | .nil, _, _ => true
  | .cons _ t r, i + 1, m => (kinds t &&& m == 0) && DisjBefore r i m

theorem disjBefore_of_simplified : ∀ (cs : Fields) (seen i : Nat) (x : Val),
    casesSimplified seen cs = true → HasCase cs i x = true →
    DisjBefore cs i (kinds (caseTy cs i)) = true ∧ seen &&& kinds (caseTy cs i) = 0
  | .nil, _, _, _, _, h => by simp [HasCase] at h
  | .cons n t r, seen, 0, x, hs, _ => by
    simp [casesSimplified, disjoint] at hs
    simp [DisjBefore, caseTy]
    rw [Nat.and_comm]; exact hs.1
  | .cons n t r, seen, i + 1, x, hs, h => by
    simp [casesSimplified, disjoint] at hs
    simp only [HasCase] at h
    obtain ⟨h1, h2⟩ := disjBefore_of_simplified r (seen ||| kinds t) i x hs.2 h
    rw [Nat.and_or_distrib_right] at h2
    obtain ⟨h3, h4⟩ := Nat.or_eq_zero_iff.mp h2
    simp [DisjBefore, caseTy, h1, h3, h4]

theorem disjBefore_sub : ∀ (cs : Fields) (i m k : Nat), DisjBefore cs i m = true → k &&& m = k → DisjBefore cs i k = true
  | _, 0, _, _, _, _ => by simp [DisjBefore]
  | .nil, _ + 1, _, _, _, _ => by simp [DisjBefore]
  | .cons n t r, i + 1, m, k, h, hk => by
    simp [DisjBefore] at h ⊢
    refine ⟨?_, disjBefore_sub r i m k h.2 hk⟩
    rw [← hk, ← Nat.and_assoc, Nat.and_comm (kinds t) k, Nat.and_assoc, h.1, Nat.and_zero]

/-- none of the first `i` tags is `tag` -/
def TagNotBefore : Fields → Nat → List UInt8 → Bool
  | _, 0, _ => true
  | .nil, _, _ => true
  | .cons n _ r, i + 1, tag => (strBytes n != tag) && TagNotBefore r i tag

theorem caseTag_mem : ∀ (cs : Fields) (i : Nat) (x : Val), HasCase cs i x = true → caseTag cs i ∈ names cs
  | .nil, _, _, h => by simp [HasCase] at h
  | .cons n t r, 0, _, _ => by simp [caseTag, names]
  | .cons n t r, i + 1, x, h => by
    simp only [HasCase] at h
    simp [caseTag, names, caseTag_mem r i x h]

theorem tagNotBefore_of_distinct : ∀ (cs : Fields) (i : Nat) (x : Val), distinct (names cs) = true → HasCase cs i x = true →
    TagNotBefore cs i (caseTag cs i) = true
  | .nil, _, _, _, h => by simp [HasCase] at h
  | .cons n t r, 0, _, _, _ => by simp [TagNotBefore]
  | .cons n t r, i + 1, x, hd, h => by
    simp only [HasCase] at h
    simp [names, distinct] at hd
    have hm := caseTag_mem r i x h
    simp only [TagNotBefore, caseTag, Bool.and_eq_true, bne_iff_ne, ne_eq]
    refine ⟨?_, tagNotBefore_of_distinct r i x hd.2 h⟩
    intro he
    rw [← he] at hm
    exact absurd hm (by simpa using hd.1)

/-! ### records: what a lookup by field name finds in the written object -/

def isNone : Val → Bool
  | .none => true
  | _ => false

/-- what `lookupKey` must find for every field of (a suffix of) a record -/
def Lookups (F : Fmt) : Fields → List Val → List (List UInt8 × J) → Prop
  | .cons n t r, v :: vs, kvs =>
    lookupKey (strBytes n) kvs = (if isNullable t && isNone v then none else some (toJ F t v)) ∧ Lookups F r vs kvs
  | _, _, _ => True

theorem fieldsToJ_cons (F : Fmt) (n : String) (t : Ty) (r : Fields) (v : Val) (vs : List Val) :
    fieldsToJ F (.cons n t r) (v :: vs) =
      if (isNullable t && isNone v) = true then fieldsToJ F r vs else (strBytes n, toJ F t v) :: fieldsToJ F r vs := by
  cases v <;> simp [fieldsToJ, isNone]

theorem lookupKey_fieldsToJ_notin (F : Fmt) : ∀ (fs : Fields) (vs : List Val) (k : List UInt8), k ∉ names fs →
    lookupKey k (fieldsToJ F fs vs) = none
  | .nil, _, _, _ => by simp [fieldsToJ, lookupKey]
  | .cons n t r, [], _, _ => by simp [fieldsToJ, lookupKey]
  | .cons n t r, v :: vs, k, h => by
    simp [names] at h
    have ih := lookupKey_fieldsToJ_notin F r vs k h.2
    rw [fieldsToJ_cons]
    split
    · exact ih
    · simp [lookupKey, ih]; intro he; exact absurd he.symm h.1

theorem lookups_prepend (F : Fmt) (k : List UInt8) (j : J) : ∀ (fs : Fields) (vs : List Val) (kvs : List (List UInt8 × J)),
    k ∉ names fs → Lookups F fs vs kvs → Lookups F fs vs ((k, j) :: kvs)
  | .nil, _, _, _, _ => by simp [Lookups]
  | .cons n t r, [], _, _, _ => by simp [Lookups]
  | .cons n t r, v :: vs, kvs, hk, h => by
    simp [names] at hk
    simp only [Lookups] at h ⊢
    refine ⟨?_, lookups_prepend F k j r vs kvs hk.2 h.2⟩
    simp only [lookupKey]
    rw [if_neg (fun he => hk.1 he)]
    exact h.1

theorem lookups_fieldsToJ (F : Fmt) : ∀ (fs : Fields) (vs : List Val), distinct (names fs) = true →
    Lookups F fs vs (fieldsToJ F fs vs)
  | .nil, _, _ => by simp [Lookups]
  | .cons n t r, [], _ => by simp [Lookups]
  | .cons n t r, v :: vs, hd => by
    simp [names, distinct] at hd
    have ih := lookups_fieldsToJ F r vs hd.2
    have hn : strBytes n ∉ names r := by simpa using hd.1
    simp only [Lookups]
    rw [fieldsToJ_cons]
    by_cases hc : (isNullable t && isNone v) = true
    · simp only [hc, if_true]
      exact ⟨lookupKey_fieldsToJ_notin F r vs _ hn, ih⟩
    · simp only [hc, Bool.false_eq_true, if_false]
      exact ⟨by simp [lookupKey], lookups_prepend F _ _ r vs _ hn ih⟩


/-! ### the round trip -/

theorem hasCase_caseTy : ∀ (cs : Fields) (i : Nat) (x : Val), HasCase cs i x = true → HasType (caseTy cs i) x = true
  | .nil, _, _, h => by simp [HasCase] at h
  | .cons n t r, 0, x, h => by simpa [HasCase, caseTy] using h
  | .cons n t r, i + 1, x, h => by simp only [HasCase] at h; simpa [caseTy] using hasCase_caseTy r i x h

theorem caseToJ_caseTy (F : Fmt) : ∀ (cs : Fields) (i : Nat) (x : Val), HasCase cs i x = true → caseToJ F cs i x = toJ F (caseTy cs i) x
  | .nil, _, _, h => by simp [HasCase] at h
  | .cons n t r, 0, x, _ => by simp [caseToJ, caseTy]
  | .cons n t r, i + 1, x, h => by simp only [HasCase] at h; simpa [caseToJ, caseTy] using caseToJ_caseTy F r i x h

theorem wf_caseTy : ∀ (cs : Fields) (i : Nat) (x : Val), WFF cs = true → casesOk cs = true → HasCase cs i x = true →
    WF (caseTy cs i) = true ∧ kinds (caseTy cs i) ≠ 0
  | .nil, _, _, _, _, h => by simp [HasCase] at h
  | .cons n t r, 0, x, hw, hc, _ => by simp [WFF, casesOk] at hw hc; simp [caseTy, hw.1, hc.1]
  | .cons n t r, i + 1, x, hw, hc, h => by
    simp [WFF, casesOk] at hw hc
    simp only [HasCase] at h
    simpa [caseTy] using wf_caseTy r i x hw.2 hc.2 h

mutual
  theorem fromJ_toJ (F : Fmt) (hF : F.Ok) : ∀ (t : Ty) (v : Val), WF t = true → HasType t v = true →
      fromJ F t (toJ F t v) = some v
    | .prim p, v, _, ht => by
      simp only [HasType] at ht
      simp only [toJ, fromJ]
      exact primFromJ_primToJ F hF p v ht
    | .enum b fl syms, v, hw, ht => by
      simp only [WF] at hw
      cases v <;> simp [HasType] at ht
      rename_i x
      cases fl with
      | false =>
        simp only [toJ, Bool.false_eq_true, if_false]
        cases hs : symOfValue syms x with
        | none => simp [fromJ]
        | some s =>
          simp only [fromJ, Bool.false_eq_true, if_false]
          exact find_of_symOfValue syms x s hw hs
      | true =>
        have h := flags_round_trip syms hw x
        simp only [toJ, if_true]
        generalize (if x = 0 then
              (match symOfValue syms 0 with
               | some z => J.arr [.str (strBytes z)]
               | none => .arr [])
            else if x < 0 then .int x
            else match flagNames syms x.toNat [] with
              | some names => .arr (names.map fun n => .str (strBytes n))
              | none => .int x) = j at h ⊢
        cases j <;> simp [fromJ] at h ⊢ <;> exact h
    | .record fs, v, hw, ht => by
      simp [WF] at hw
      cases v <;> simp [HasType] at ht
      rename_i vs
      simp only [toJ, fromJ]
      rw [fieldsFromJ_spec F hF fs vs _ hw.2 ht (lookups_fieldsToJ F fs vs hw.1)]
      rfl
    | .optional t, v, hw, ht => by
      simp [WF] at hw
      cases v <;> simp [HasType] at ht
      case none => simp [toJ, fromJ]
      case some x =>
        have ih := fromJ_toJ F hF t x hw.1 ht
        have hne : toJ F t x ≠ .null := toJ_ne_null F hF t x hw.1 hw.2 ht
        simp only [toJ]
        cases hj : toJ F t x with
        | null => exact absurd hj hne
        | _ => simp only [fromJ]; rw [← hj, ih]; rfl
    | .union hn cs, v, hw, ht => by
      simp [WF] at hw
      obtain ⟨⟨hdist, hwf⟩, hok⟩ := hw
      cases v <;> simp [HasType] at ht
      case none => simp [toJ, fromJ, ht]
      case case i x =>
        have hct := hasCase_caseTy cs i x ht
        have hcj := caseToJ_caseTy F cs i x ht
        obtain ⟨hwt, hkt⟩ := wf_caseTy cs i x hwf hok ht
        have hne : caseToJ F cs i x ≠ .null := by rw [hcj]; exact toJ_ne_null_of_kinds F _ x hwt hct hkt
        simp only [toJ]
        by_cases hsimp : unionSimplified hn cs = true
        · simp only [hsimp, if_true]
          have hsub := kinds_sub F _ x hwt hct hkt
          have hdis : DisjBefore cs i (kindOf (caseToJ F cs i x)) = true := by
            have := (disjBefore_of_simplified cs _ i x (by simpa [unionSimplified] using hsimp) ht).1
            rw [hcj]
            exact disjBefore_sub cs i _ _ this hsub
          have key := caseByKind_spec F hF cs 0 i x hwf hok ht hdis
          cases hj : caseToJ F cs i x with
          | null => exact absurd hj hne
          | _ => simp only [fromJ, hsimp, if_true]; rw [← hj, key]; simp
        · have hsimp' : unionSimplified hn cs = false := by simpa using hsimp
          simp only [hsimp', Bool.false_eq_true, if_false]
          simp only [fromJ, hsimp', Bool.false_eq_true, if_false]
          have key := caseByTag_spec F hF cs 0 i x hwf ht (tagNotBefore_of_distinct cs i x hdist ht)
          rw [key]; simp
    | .vector t len, v, hw, ht => by
      simp [WF] at hw
      cases v <;> simp [HasType] at ht
      rename_i vs
      have hall : ∀ x ∈ vs, fromJ F t (toJ F t x) = some x := fun x hx =>
        fromJ_toJ F hF t x hw (allList_mem _ vs ht.2 x hx)
      have hl := fromList_jList (toJ F t) (fromJ F t) vs hall
      simp only [toJ, fromJ]
      cases len with
      | none => simp [hl]
      | some n => simp at ht; simp [hl, jList_length, ht.1]
    | .array t k, v, hw, ht => by
      simp [WF] at hw
      cases v <;> simp [HasType] at ht
      rename_i shape vs
      have hall : ∀ x ∈ vs, fromJ F t (toJ F t x) = some x := fun x hx =>
        fromJ_toJ F hF t x hw (allList_mem _ vs ht.2 x hx)
      have hl := fromList_jList (toJ F t) (fromJ F t) vs hall
      cases k with
      | fixed dims => simp at ht; simp [toJ, fromJ, hl, ht.1.1]
      | rank n =>
        have hi := intsOf_map shape
        simp only [Int.ofNat_eq_natCast] at hi
        simp [toJ, fromJ, hl, hi]
      | dynamic =>
        have hi := intsOf_map shape
        simp only [Int.ofNat_eq_natCast] at hi
        simp [toJ, fromJ, hl, hi]
    | .map kt vt, v, hw, ht => by
      simp [WF] at hw
      cases v <;> simp [HasType] at ht
      rename_i kvs
      have hm := allKVs_mem _ _ kvs ht
      by_cases hs : isStringKey kt = true
      · have hkt : kt = .prim .string := by
          cases kt <;> simp [isStringKey] at hs
          rename_i p; cases p <;> simp [isStringKey] at hs; rfl
        subst hkt
        simp only [toJ, fromJ, hs, if_true]
        rw [fromStrObj_jStrObj (toJ F vt) (fromJ F vt) kvs (fun p hp => by
          obtain ⟨h1, h2⟩ := hm p hp
          refine ⟨?_, fromJ_toJ F hF vt p.2 hw.2 h2⟩
          cases hp1 : p.1 <;> simp [HasType, primHasType, Prim.range, hp1] at h1
          exact ⟨_, rfl⟩)]
        rfl
      · have hs' : isStringKey kt = false := by simpa using hs
        simp only [toJ, fromJ, hs', Bool.false_eq_true, if_false]
        rw [fromPairs_jPairs (toJ F kt) (toJ F vt) (fromJ F kt) (fromJ F vt) kvs (fun p hp => by
          obtain ⟨h1, h2⟩ := hm p hp
          exact ⟨fromJ_toJ F hF kt p.1 hw.1 h1, fromJ_toJ F hF vt p.2 hw.2 h2⟩)]
        rfl
  /-- a typed value of a non-nullable type is never written as `null` -/
  theorem toJ_ne_null (F : Fmt) (hF : F.Ok) : ∀ (t : Ty) (v : Val), WF t = true → isNullable t = false → HasType t v = true →
      toJ F t v ≠ .null
    | .prim p, v, hw, _, ht => toJ_ne_null_of_kinds F _ v hw ht (by cases p <;> simp [kinds, Prim.kinds, kNum, kStr, kBool, kArr])
    | .enum b fl syms, v, hw, _, ht => toJ_ne_null_of_kinds F _ v hw ht (by cases fl <;> simp [kinds, kStr, kNum, kArr])
    | .record fs, v, hw, _, ht => toJ_ne_null_of_kinds F _ v hw ht (by simp [kinds, kObj])
    | .optional t, v, _, hn, _ => by simp [isNullable] at hn
    | .union hn cs, v, hw, hnn, ht => by
      simp [isNullable] at hnn
      subst hnn
      simp [WF] at hw
      cases v <;> simp [HasType] at ht
      rename_i i x
      obtain ⟨hwt, hkt⟩ := wf_caseTy cs i x hw.1.2 hw.2 ht
      simp only [toJ]
      split
      · rw [caseToJ_caseTy F cs i x ht]
        exact toJ_ne_null_of_kinds F _ x hwt (hasCase_caseTy cs i x ht) hkt
      · simp
    | .vector t l, v, hw, _, ht => toJ_ne_null_of_kinds F _ v hw ht (by simp [kinds, kArr])
    | .array t k, v, hw, _, ht => toJ_ne_null_of_kinds F _ v hw ht (by cases k <;> simp [kinds, kArr, kObj])
    | .map k w, v, hw, _, ht => toJ_ne_null_of_kinds F _ v hw ht (by by_cases hs : isStringKey k = true <;> simp [kinds, hs, kArr, kObj])
  theorem fieldsFromJ_spec (F : Fmt) (hF : F.Ok) : ∀ (fs : Fields) (vs : List Val) (kvs : List (List UInt8 × J)),
      WFF fs = true → HasFields fs vs = true → Lookups F fs vs kvs → fieldsFromJ F fs kvs = some vs
    | .nil, vs, _, _, hf, _ => by
      cases vs <;> simp [HasFields] at hf
      simp [fieldsFromJ]
    | .cons n t r, [], _, _, hf, _ => by simp [HasFields] at hf
    | .cons n t r, v :: vs, kvs, hw, hf, hl => by
      simp [WFF] at hw
      simp [HasFields] at hf
      simp only [Lookups] at hl
      have ih := fieldsFromJ_spec F hF r vs kvs hw.2 hf.2 hl.2
      simp only [fieldsFromJ, hl.1]
      by_cases hc : (isNullable t && isNone v) = true
      · simp only [hc, if_true]
        simp at hc
        have hv : v = .none := by cases v <;> simp [isNone] at hc; rfl
        simp [hc.1, ih, hv]
      · simp only [hc, Bool.false_eq_true, if_false]
        simp [fromJ_toJ F hF t v hw.1 hf.1, ih]
  theorem caseByKind_spec (F : Fmt) (hF : F.Ok) : ∀ (cs : Fields) (i0 i : Nat) (x : Val),
      WFF cs = true → casesOk cs = true → HasCase cs i x = true → DisjBefore cs i (kindOf (caseToJ F cs i x)) = true →
      caseByKind F cs i0 (caseToJ F cs i x) = some (.case (i0 + i) x)
    | .nil, _, _, _, _, _, h, _ => by simp [HasCase] at h
    | .cons n t r, i0, 0, x, hw, hc, h, _ => by
      simp [WFF] at hw
      simp [casesOk] at hc
      simp only [HasCase] at h
      have hsub := kinds_sub F t x hw.1 h hc.1
      have hnz : kinds t &&& kindOf (toJ F t x) ≠ 0 := by
        rw [Nat.and_comm, hsub]; exact kindOf_ne_zero _
      simp [caseByKind, caseToJ, hnz, fromJ_toJ F hF t x hw.1 h]
    | .cons n t r, i0, i + 1, x, hw, hc, h, hd => by
      simp [WFF] at hw
      simp [casesOk] at hc
      simp only [HasCase] at h
      simp only [caseToJ, DisjBefore, Bool.and_eq_true, beq_iff_eq] at hd
      have ih := caseByKind_spec F hF r (i0 + 1) i x hw.2 hc.2 h hd.2
      simp only [caseByKind, caseToJ, hd.1, ne_eq, not_true_eq_false, if_false]
      rw [ih]
      simp [Nat.add_assoc, Nat.add_comm 1 i]
  theorem caseByTag_spec (F : Fmt) (hF : F.Ok) : ∀ (cs : Fields) (i0 i : Nat) (x : Val),
      WFF cs = true → HasCase cs i x = true → TagNotBefore cs i (caseTag cs i) = true →
      caseByTag F cs i0 (caseTag cs i) (caseToJ F cs i x) = some (.case (i0 + i) x)
    | .nil, _, _, _, _, h, _ => by simp [HasCase] at h
    | .cons n t r, i0, 0, x, hw, h, _ => by
      simp [WFF] at hw
      simp only [HasCase] at h
      simp [caseByTag, caseTag, caseToJ, fromJ_toJ F hF t x hw.1 h]
    | .cons n t r, i0, i + 1, x, hw, h, hd => by
      simp [WFF] at hw
      simp only [HasCase] at h
      simp only [caseTag, TagNotBefore, Bool.and_eq_true, bne_iff_ne, ne_eq] at hd
      have ih := caseByTag_spec F hF r (i0 + 1) i x hw.2 h hd.2
      simp only [caseByTag, caseTag, caseToJ, hd.1, if_false]
      rw [ih]
      simp [Nat.add_assoc, Nat.add_comm 1 i]
end

end Yardl.Json
