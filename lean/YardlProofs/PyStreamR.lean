import YardlModel.PyStream
import YardlProofs.StreamsR

/-!
  The Python `CodedInputStream` refines the byte-level decoders: for every buffer size, every way the
  bytes are split between buffer and underlying stream, each read returns exactly the next bytes of the
  stream (decoded), and a read that needs more bytes than the stream holds raises (`EOFError`, or the
  `BufferError` of the resize quirk) — it never returns a value.
-/

namespace Yardl
namespace PIS

def Inv (s : PIS) : Prop := s.win.length ≤ s.cap ∧ (s.win ≠ [] → s.short = true → s.src = [])

def _root_.Yardl.POut.isError {α : Type} : POut α → Bool
  | .ok _ _ => false
  | _ => true

theorem init_inv (cap : Nat) (src : Bytes) : (init cap src).Inv := by
  simp [init, Inv]

theorem refill_len (s : PIS) : s.refill.win.length = s.win.length + min (s.cap - s.win.length) s.src.length := by
  simp [refill, List.length_take]

theorem refill_pending (s : PIS) : s.refill.pending = s.pending := by
  simp [refill, pending, List.append_assoc]

theorem refill_cap (s : PIS) : s.refill.cap = s.cap := rfl

theorem refill_inv (s : PIS) (hinv : s.Inv) : s.refill.Inv := by
  constructor
  · rw [refill_len, refill_cap]; have := hinv.1; omega
  · intro _ hsh
    simp only [refill, decide_eq_true_eq] at hsh
    simp only [refill, List.drop_eq_nil_iff]
    omega

theorem ensure_ok (s : PIS) (n : Nat) (hc : n ≤ s.cap) (hinv : s.Inv) (hn : n ≤ s.pending.length) :
    ∃ s1, s.ensure n = .ok () s1 ∧ s1.pending = s.pending ∧ n ≤ s1.win.length ∧ s1.Inv ∧ s1.cap = s.cap := by
  have hpl : s.pending.length = s.win.length + s.src.length := by simp [pending]
  unfold ensure
  by_cases hlt : s.win.length < n
  · simp only [hlt, if_true]
    unfold fill
    have hnb : ¬ (0 < s.win.length ∧ s.short = true) := by
      intro ⟨h1, h2⟩
      have hw : s.win ≠ [] := by intro h; simp [h] at h1
      have := hinv.2 hw h2
      simp only [this, List.length_nil, Nat.add_zero] at hpl
      omega
    have hge : ¬ (0 < n ∧ s.refill.win.length < n) := by
      intro ⟨_, h2⟩
      rw [refill_len] at h2
      have := hinv.1
      omega
    simp only [hnb, hge, if_false]
    refine ⟨_, rfl, refill_pending s, ?_, refill_inv s hinv, rfl⟩
    rw [refill_len]; have := hinv.1; omega
  · simp only [hlt, if_false]
    exact ⟨s, rfl, rfl, by omega, hinv, rfl⟩

theorem ensure_trunc (s : PIS) (n : Nat) (hn : s.pending.length < n) : (s.ensure n).isError = true := by
  have hpl : s.pending.length = s.win.length + s.src.length := by simp [pending]
  unfold ensure
  have hlt : s.win.length < n := by omega
  simp only [hlt, if_true]
  unfold fill
  by_cases hb : 0 < s.win.length ∧ s.short = true
  · simp [hb, POut.isError]
  · have hcond : 0 < n ∧ s.refill.win.length < n := by
      rw [refill_len]; constructor <;> omega
    simp [hb, hcond, POut.isError]

/-! ### single byte -/

theorem readByte_ok (s : PIS) (hc : 0 < s.cap) (hinv : s.Inv) (b : UInt8) (rest : Bytes) (hp : s.pending = b :: rest) :
    ∃ s', s.readByte = .ok b s' ∧ s'.pending = rest ∧ s'.Inv ∧ s'.cap = s.cap := by
  obtain ⟨s1, he, hp1, hw1, hinv1, hc1⟩ := ensure_ok s 1 (by omega) hinv (by rw [hp]; simp)
  unfold readByte
  rw [he]
  cases hw : s1.win with
  | nil => rw [hw] at hw1; simp at hw1
  | cons b' w =>
    have : b' = b ∧ w ++ s1.src = rest := by
      have := hp1.trans hp
      simpa [pending, hw] using this
    refine ⟨{ s1 with win := w }, by simp only [hw, this.1], by simp [pending, this.2], ?_, hc1⟩
    constructor
    · have := hinv1.1; rw [hw] at this; simp at this ⊢; omega
    · intro hwne hsh
      exact hinv1.2 (by rw [hw]; simp) hsh

theorem readByte_trunc (s : PIS) (hp : s.pending = []) : s.readByte.isError = true := by
  have := ensure_trunc s 1 (by rw [hp]; simp)
  unfold readByte
  cases h : s.ensure 1 with
  | ok _ s1 => rw [h] at this; simp [POut.isError] at this
  | eof => rfl
  | bufferError => rfl

/-! ### fixed-width integers -/

theorem inv_drop (s1 : PIS) (w : Nat) (hinv1 : s1.Inv) : ({ s1 with win := s1.win.drop w } : PIS).Inv := by
  constructor
  · have := hinv1.1; simp only [List.length_drop]; omega
  · intro hwne hsh
    exact hinv1.2 (by intro h; rw [h] at hwne; simp at hwne) hsh

theorem readFixed_ok (s : PIS) (w : Nat) (hc : w ≤ s.cap) (hinv : s.Inv) (bs rest : Bytes) (hl : bs.length = w)
    (hp : s.pending = bs ++ rest) :
    ∃ s', s.readFixed w = .ok (CIS.leVal bs) s' ∧ s'.pending = rest ∧ s'.Inv ∧ s'.cap = s.cap := by
  obtain ⟨s1, he, hp1, hw1, hinv1, hc1⟩ := ensure_ok s w hc hinv (by rw [hp]; simp; omega)
  unfold readFixed
  rw [he]
  have hsplit : s1.win.take w = bs ∧ s1.win.drop w ++ s1.src = rest := by
    have h := hp1.trans hp
    simp only [pending] at h
    have h1 : (s1.win ++ s1.src).take w = bs := by rw [h]; simp [← hl]
    have h2 : (s1.win ++ s1.src).drop w = rest := by rw [h]; simp [← hl]
    rw [List.take_append_of_le_length hw1] at h1
    rw [List.drop_append_of_le_length hw1] at h2
    exact ⟨h1, h2⟩
  refine ⟨{ s1 with win := s1.win.drop w }, by simp only [hsplit.1], by simp [pending, hsplit.2], inv_drop s1 w hinv1, hc1⟩

theorem readFixed_trunc (s : PIS) (w : Nat) (hp : s.pending.length < w) : (s.readFixed w).isError = true := by
  have := ensure_trunc s w hp
  unfold readFixed
  cases h : s.ensure w with
  | ok _ s1 => rw [h] at this; simp [POut.isError] at this
  | eof => rfl
  | bufferError => rfl

/-! ### byte runs (`read_view`, `read_bytearray`): buffered, refilled, and larger than the buffer -/

theorem readBytes_ok (s : PIS) (hinv : s.Inv) (bs rest : Bytes) (hp : s.pending = bs ++ rest) :
    ∃ s', s.readBytes bs.length = .ok bs s' ∧ s'.pending = rest ∧ s'.Inv ∧ s'.cap = s.cap := by
  unfold readBytes
  have hpl : s.win.length + s.src.length = bs.length + rest.length := by
    have := congrArg List.length hp; simpa [pending] using this
  by_cases h1 : bs.length ≤ s.win.length
  · simp only [h1, if_true]
    have h := hp
    simp only [pending] at h
    have t1 : (s.win ++ s.src).take bs.length = bs := by rw [h]; simp
    have t2 : (s.win ++ s.src).drop bs.length = rest := by rw [h]; simp
    rw [List.take_append_of_le_length h1] at t1
    rw [List.drop_append_of_le_length h1] at t2
    exact ⟨{ s with win := s.win.drop bs.length }, by simp only [t1], by simp [pending, t2], inv_drop s _ hinv, rfl⟩
  · simp only [h1, if_false]
    by_cases h2 : s.cap < bs.length
    · simp only [h2, if_true]
      have hneed : ¬ s.src.length < bs.length - s.win.length := by omega
      simp only [hneed, if_false]
      have h := hp
      simp only [pending] at h
      have hwl : s.win.length ≤ bs.length := by omega
      -- bs = win ++ take need src
      have t1 : s.win ++ s.src.take (bs.length - s.win.length) = bs := by
        have : (s.win ++ s.src).take bs.length = bs := by rw [h]; simp
        rw [List.take_append] at this
        rw [List.take_of_length_le hwl] at this
        exact this
      have t2 : s.src.drop (bs.length - s.win.length) = rest := by
        have : (s.win ++ s.src).drop bs.length = rest := by rw [h]; simp
        rw [List.drop_append] at this
        rw [List.drop_of_length_le hwl] at this
        simpa using this
      refine ⟨{ s with win := [], src := s.src.drop (bs.length - s.win.length) }, by simp only [t1], by simp [pending, t2], ?_, rfl⟩
      exact ⟨by simp, by intro h; simp at h⟩
    · simp only [h2, if_false]
      -- the refill path is `ensure` with the window known to be too short
      have hens : s.ensure bs.length = s.fill bs.length := by
        unfold ensure; simp [Nat.lt_of_not_le h1]
      obtain ⟨s1, he, hp1, hw1, hinv1, hc1⟩ := ensure_ok s bs.length (by omega) hinv (by rw [hp]; simp)
      rw [hens] at he
      rw [he]
      have h := hp1.trans hp
      simp only [pending] at h
      have t1 : (s1.win ++ s1.src).take bs.length = bs := by rw [h]; simp
      have t2 : (s1.win ++ s1.src).drop bs.length = rest := by rw [h]; simp
      rw [List.take_append_of_le_length hw1] at t1
      rw [List.drop_append_of_le_length hw1] at t2
      exact ⟨{ s1 with win := s1.win.drop bs.length }, by simp only [t1], by simp [pending, t2], inv_drop s1 _ hinv1, hc1⟩

theorem readBytes_trunc (s : PIS) (n : Nat) (hp : s.pending.length < n) : (s.readBytes n).isError = true := by
  have hpl : s.pending.length = s.win.length + s.src.length := by simp [pending]
  unfold readBytes
  have h1 : ¬ n ≤ s.win.length := by omega
  simp only [h1, if_false]
  by_cases h2 : s.cap < n
  · simp only [h2, if_true]
    have : s.src.length < n - s.win.length := by omega
    simp [this, POut.isError]
  · simp only [h2, if_false]
    have hens : s.ensure n = s.fill n := by unfold ensure; simp [Nat.lt_of_not_le h1]
    have := ensure_trunc s n hp
    rw [hens] at this
    cases h : s.fill n with
    | ok _ s1 => rw [h] at this; simp [POut.isError] at this
    | eof => rfl
    | bufferError => rfl

/-! ### varints -/

theorem varLoop_ok : ∀ (n : Nat) (fuel : Nat) (s : PIS) (shift acc : Nat) (rest : Bytes),
    0 < s.cap → s.Inv → s.pending = encVar n ++ rest → (encVar n).length ≤ fuel →
    ∃ s', varLoop fuel s shift acc = .ok (acc + n * 2 ^ shift) s' ∧ s'.pending = rest ∧ s'.Inv ∧ s'.cap = s.cap := by
  intro n
  induction n using Nat.strongRecOn with
  | _ n ih =>
    intro fuel s shift acc rest hc hinv hp hf
    have hne : 1 ≤ s.pending.length := by
      rw [hp]; unfold encVar; split <;> simp
    obtain ⟨s1, he, hp1, hw1, hinv1, hc1⟩ := ensure_ok s 1 (by omega) hinv hne
    cases fuel with
    | zero => unfold encVar at hf; split at hf <;> simp at hf
    | succ fuel =>
      unfold varLoop
      rw [he]
      cases hw : s1.win with
      | nil => rw [hw] at hw1; simp at hw1
      | cons b w =>
        simp only [hw]
        have hp2 : b :: (w ++ s1.src) = encVar n ++ rest := by
          have := hp1.trans hp
          simpa [pending, hw] using this
        have hinvw : ({ s1 with win := w } : PIS).Inv := by
          constructor
          · have := hinv1.1; rw [hw] at this; simp at this ⊢; omega
          · intro _ hsh; exact hinv1.2 (by rw [hw]; simp) hsh
        unfold encVar at hp2 hf
        by_cases hlt : n < 128
        · simp only [hlt, if_true, List.cons_append, List.nil_append, List.cons.injEq] at hp2
          have hb : b.toNat = n := by rw [hp2.1]; exact u8_ofNat_toNat n (by omega)
          have h1 : b.toNat < 128 := by omega
          simp only [h1, if_true]
          refine ⟨{ s1 with win := w }, ?_, by simp [pending, hp2.2], hinvw, hc1⟩
          rw [hb, Nat.mod_eq_of_lt hlt]
        · simp only [hlt, if_false, List.cons_append, List.cons.injEq] at hp2
          simp only [hlt, if_false, List.length_cons] at hf
          have hb : b.toNat = n % 128 + 128 := by rw [hp2.1]; exact u8_ofNat_toNat _ (by omega)
          have h1 : ¬ b.toNat < 128 := by omega
          simp only [h1, if_false]
          have := ih (n / 128) (by omega) fuel { s1 with win := w } (shift + 7)
            (acc + b.toNat % 128 * 2 ^ shift) rest (by simpa [hc1] using hc) hinvw
            (by simp [pending, hp2.2]) (by omega)
          obtain ⟨s', h1', h2', h3', h4'⟩ := this
          refine ⟨s', ?_, h2', h3', by simpa [hc1] using h4'⟩
          rw [h1']
          congr 1
          have e1 : b.toNat % 128 = n % 128 := by omega
          rw [e1, Nat.pow_add, Nat.add_assoc]
          congr 1
          have : n = n % 128 + 128 * (n / 128) := by omega
          calc n % 128 * 2 ^ shift + n / 128 * (2 ^ shift * 2 ^ 7)
              = (n % 128 + 128 * (n / 128)) * 2 ^ shift := by
                rw [Nat.add_mul]
                congr 1
                have : (2:Nat) ^ 7 = 128 := by decide
                rw [this, Nat.mul_comm (2 ^ shift) 128, ← Nat.mul_assoc, Nat.mul_comm (n / 128) 128]
            _ = n * 2 ^ shift := by rw [← this]

/-- a varint cut by the end of the stream: the loop raises -/
theorem varLoop_trunc : ∀ (n : Nat) (fuel : Nat) (s : PIS) (shift acc : Nat) (more : Bytes),
    0 < s.cap → s.Inv → s.pending ++ more = encVar n → more ≠ [] → s.pending.length < fuel →
    (varLoop fuel s shift acc).isError = true := by
  intro n
  induction n using Nat.strongRecOn with
  | _ n ih =>
    intro fuel s shift acc more hc hinv hp hm hf
    cases fuel with
    | zero => omega
    | succ fuel =>
      unfold varLoop
      by_cases hpe : s.pending = []
      · have := ensure_trunc s 1 (by rw [hpe]; simp)
        cases h : s.ensure 1 with
        | ok _ s1 => rw [h] at this; simp [POut.isError] at this
        | eof => rfl
        | bufferError => rfl
      · have hne : 1 ≤ s.pending.length := by
          cases hq : s.pending with
          | nil => exact absurd hq hpe
          | cons _ _ => simp
        obtain ⟨s1, he, hp1, hw1, hinv1, hc1⟩ := ensure_ok s 1 (by omega) hinv hne
        rw [he]
        cases hw : s1.win with
        | nil => rw [hw] at hw1; simp at hw1
        | cons b w =>
          simp only [hw]
          have hpb : s.pending = b :: (w ++ s1.src) := by
            rw [← hp1]; simp [pending, hw]
          rw [hpb] at hp hf
          have hinvw : ({ s1 with win := w } : PIS).Inv := by
            constructor
            · have := hinv1.1; rw [hw] at this; simp at this ⊢; omega
            · intro _ hsh; exact hinv1.2 (by rw [hw]; simp) hsh
          unfold encVar at hp
          by_cases hlt : n < 128
          · simp only [hlt, if_true, List.cons_append, List.cons.injEq] at hp
            have := hp.2
            simp at this
            exact absurd this.2.2 hm
          · simp only [hlt, if_false, List.cons_append, List.cons.injEq] at hp
            have hb : b.toNat = n % 128 + 128 := by rw [hp.1]; exact u8_ofNat_toNat _ (by omega)
            have h1 : ¬ b.toNat < 128 := by omega
            simp only [h1, if_false]
            exact ih (n / 128) (by omega) fuel { s1 with win := w } _ _ more
              (by simpa [hc1] using hc) hinvw (by simpa [pending, List.append_assoc] using hp.2) hm
              (by simp [pending] at hf ⊢; omega)

theorem readVar_ok (s : PIS) (hc : 0 < s.cap) (hinv : s.Inv) (n : Nat) (rest : Bytes) (hp : s.pending = encVar n ++ rest) :
    ∃ s', s.readVar = .ok n s' ∧ s'.pending = rest ∧ s'.Inv ∧ s'.cap = s.cap := by
  have := varLoop_ok n (s.pending.length + 1) s 0 0 rest hc hinv hp (by rw [hp]; simp; omega)
  simpa [readVar] using this

theorem readVar_trunc (s : PIS) (hc : 0 < s.cap) (hinv : s.Inv) (n : Nat) (more : Bytes) (hp : s.pending ++ more = encVar n)
    (hm : more ≠ []) : s.readVar.isError = true :=
  varLoop_trunc n (s.pending.length + 1) s 0 0 more hc hinv hp hm (by omega)

end PIS
end Yardl
