import YardlProofs.StreamsR

/-!
  YardlProofs.CppStreamSeq — the C++ `CodedInputStream` over whole read *sequences*.

  `StreamsR` proves each primitive read; a generated C++ reader is a sequence of them. Chained here: the
  reads matching what a writer wrote return exactly the written items, in order, for every capacity ≥ 10,
  every split of the data between the buffer window and the underlying stream, every sequence; what
  follows is left unread, and `VerifyFinished` then succeeds exactly when nothing follows.
-/

namespace Yardl

inductive CItem
  | byte (b : UInt8)
  | var32 (n : Nat)
  | var64 (n : Nat)
  | bytes (bs : Bytes)
  deriving Repr

inductive CVal
  | byte (b : UInt8)
  | num (n : Nat)
  | bytes (bs : Bytes)
  deriving Repr, DecidableEq

namespace CItem

def enc : CItem → Bytes
  | .byte b => [b]
  | .var32 n => encVar n
  | .var64 n => encVar n
  | .bytes bs => bs

def val : CItem → CVal
  | .byte b => .byte b
  | .var32 n => .num n
  | .var64 n => .num n
  | .bytes bs => .bytes bs

/-- what a writer can have written: the number fits the width the reader asks for -/
def ok : CItem → Prop
  | .var32 n => n < 2 ^ 32
  | .var64 n => n < 2 ^ 64
  | _ => True

end CItem

def encCItems : List CItem → Bytes
  | [] => []
  | i :: r => i.enc ++ encCItems r

namespace CIS

def lift {α β : Type} (f : α → β) : ROut α → ROut β
  | .ok a s => .ok (f a) s
  | .eos => .eos
  | .bad => .bad
  | .notFinished => .notFinished

def readItem (s : CIS) : CItem → ROut CVal
  | .byte _ => lift CVal.byte s.readByte
  | .var32 _ => lift CVal.num s.readVar32
  | .var64 _ => lift CVal.num s.readVar64
  | .bytes bs => lift CVal.bytes (s.readBytes bs.length)

def readItems (s : CIS) : List CItem → ROut (List CVal)
  | [] => .ok [] s
  | i :: r => (match s.readItem i with
      | .ok v s' => lift (v :: ·) (readItems s' r)
      | .eos => .eos | .bad => .bad | .notFinished => .notFinished)

theorem readItem_ok (s : CIS) (hc : 10 ≤ s.cap) (hinv : s.Inv) (i : CItem) (hi : i.ok) (rest : Bytes)
    (hp : s.pending = i.enc ++ rest) :
    ∃ s', s.readItem i = .ok i.val s' ∧ s'.pending = rest ∧ s'.Inv ∧ s'.cap = s.cap := by
  cases i with
  | byte b =>
    obtain ⟨s', h, r⟩ := readByte_ok s (by omega) hinv b rest (by simpa [CItem.enc] using hp)
    exact ⟨s', by simp [readItem, h, lift, CItem.val], r⟩
  | var32 n =>
    obtain ⟨s', h, r⟩ := readVar32_ok s hc hinv n rest hi (by simpa [CItem.enc] using hp)
    exact ⟨s', by simp [readItem, h, lift, CItem.val], r⟩
  | var64 n =>
    obtain ⟨s', h, r⟩ := readVar64_ok s hc hinv n rest hi (by simpa [CItem.enc] using hp)
    exact ⟨s', by simp [readItem, h, lift, CItem.val], r⟩
  | bytes bs =>
    obtain ⟨s', h, r⟩ := readBytes_ok s (by omega) hinv bs rest (by simpa [CItem.enc] using hp)
    exact ⟨s', by simp [readItem, h, lift, CItem.val], r⟩

theorem readItems_ok (items : List CItem) (s : CIS) (hc : 10 ≤ s.cap) (hinv : s.Inv)
    (hi : ∀ i ∈ items, i.ok) (rest : Bytes) (hp : s.pending = encCItems items ++ rest) :
    ∃ s', s.readItems items = .ok (items.map CItem.val) s' ∧ s'.pending = rest ∧ s'.Inv ∧ s'.cap = s.cap := by
  induction items generalizing s with
  | nil => exact ⟨s, rfl, by simpa [encCItems] using hp, hinv, rfl⟩
  | cons i r ih =>
    obtain ⟨s1, h1, hp1, hinv1, hc1⟩ := readItem_ok s hc hinv i (hi i (by simp)) (encCItems r ++ rest)
      (by simpa [encCItems, List.append_assoc] using hp)
    obtain ⟨s2, h2, hp2, hinv2, hc2⟩ := ih s1 (by omega) hinv1 (fun j hj => hi j (by simp [hj])) hp1
    exact ⟨s2, by simp [readItems, h1, h2, lift], hp2, hinv2, by omega⟩

/-- a complete read followed by `VerifyFinished`: accepted exactly when nothing follows the sequence -/
theorem readItems_then_finished (items : List CItem) (s : CIS) (hc : 10 ≤ s.cap) (hinv : s.Inv)
    (hi : ∀ i ∈ items, i.ok) (rest : Bytes) (hp : s.pending = encCItems items ++ rest) :
    ∃ s', s.readItems items = .ok (items.map CItem.val) s' ∧
      (rest = [] → ∃ s'', s'.verifyFinished = .ok () s'') ∧ (rest ≠ [] → s'.verifyFinished = .notFinished) := by
  obtain ⟨s', h, hp', hinv', hc'⟩ := readItems_ok items s hc hinv hi rest hp
  refine ⟨s', h, fun hr => ?_, fun hr => ?_⟩
  · exact verifyFinished_ok s' (by omega) hinv' (by rw [hp', hr])
  · exact verifyFinished_leftover s' (by omega) hinv' (by rw [hp']; exact hr)

/-- an item cut strictly inside its encoding: `EndOfStreamException` -/
theorem readItem_cut (s : CIS) (hc : 10 ≤ s.cap) (hinv : s.Inv) (i : CItem) (hi : i.ok) (more : Bytes)
    (hp : s.pending ++ more = i.enc) (hm : more ≠ []) : s.readItem i = .eos := by
  have hlen : s.pending.length < i.enc.length := by
    have := congrArg List.length hp
    have hm' : 0 < more.length := List.length_pos_iff.mpr hm
    simp at this; omega
  cases i with
  | byte b =>
    have h0 : s.pending = [] := by
      cases h : s.pending with
      | nil => rfl
      | cons a t => rw [h] at hlen; simp [CItem.enc] at hlen
    simp [readItem, readByte_trunc s hinv h0, lift]
  | var32 n =>
    simp [readItem, readVar32_trunc s hc hinv n more hi (by simpa [CItem.enc] using hp) hm, lift]
  | var64 n =>
    simp [readItem, readVar64_trunc s hc hinv n more hi (by simpa [CItem.enc] using hp) hm, lift]
  | bytes bs =>
    simp [readItem, readBytes_trunc s (by omega) hinv bs.length (by simpa [CItem.enc] using hlen), lift]

/-- **A truncated sequence ends in `EndOfStreamException`**: whatever strict prefix of the written data the
    stream holds, cut between items or inside one. -/
theorem readItems_cut (items : List CItem) (s : CIS) (hc : 10 ≤ s.cap) (hinv : s.Inv)
    (hi : ∀ i ∈ items, i.ok) (more : Bytes) (hm : more ≠ [])
    (hp : s.pending ++ more = encCItems items) : s.readItems items = .eos := by
  induction items generalizing s with
  | nil =>
    have : more = [] := by
      have := congrArg List.length hp
      simp [encCItems] at this
      exact this.2
    exact absurd this hm
  | cons i r ih =>
    simp only [encCItems] at hp
    rcases List.append_eq_append_iff.mp hp with ⟨a, h1, h2⟩ | ⟨c, h1, h2⟩
    · by_cases ha : a = []
      · subst ha
        obtain ⟨s1, e1, hp1, hinv1, hc1⟩ := readItem_ok s hc hinv i (hi i (by simp)) [] (by simpa using h1.symm)
        have := ih s1 (by omega) hinv1 (fun j hj => hi j (by simp [hj])) (by rw [hp1]; simpa using h2)
        simp [readItems, e1, this, lift]
      · simp [readItems, readItem_cut s hc hinv i (hi i (by simp)) a h1.symm ha]
    · obtain ⟨s1, e1, hp1, hinv1, hc1⟩ := readItem_ok s hc hinv i (hi i (by simp)) c h1
      have := ih s1 (by omega) hinv1 (fun j hj => hi j (by simp [hj])) (by rw [hp1]; exact h2.symm)
      simp [readItems, e1, this, lift]

end CIS

end Yardl
