import YardlProofs.ConvRefl
import YardlProofs.EvolutionClasses

/-!
  YardlProofs.ConvFields — what happens to the values of a record when a field is added (the documented
  compatible / partially compatible change): the new reader gives the added field its zero value and keeps
  every other field; the new writer asked for the previous version drops the added field and keeps every
  other field; a previous-version value read by the new version and written back for the previous version
  is unchanged.
-/

namespace Yardl.Evo
open Yardl

theorem convFields_window (c : ETy → ETy → Val → CRes) (fl : List (Nat × ETy)) (vs : List Val)
    (hd : namesDistinct fl = true)
    (hc : ∀ (i : Nat) (e : Nat × ETy), fl[i]? = some e → ∃ v, vs[i]? = some v ∧ c e.2 e.2 v = .ok v) :
    ∀ (mid pre post : List (Nat × ETy)) (acc : List Val), fl = pre ++ mid ++ post →
      convFields c (fl.zip vs) mid acc = .ok (.record (acc.reverse ++ (vs.drop pre.length).take mid.length))
  | [], pre, post, acc, _ => by simp [convFields]
  | (n, dt) :: r, pre, post, acc, h => by
    have hi : fl[pre.length]? = some (n, dt) := by simp [h]
    obtain ⟨v, hv, hcv⟩ := hc pre.length (n, dt) hi
    have hf := find_zip_of_distinct fl vs pre.length (n, dt) v hd hi hv
    simp only at hf hcv
    have ih := convFields_window c fl vs hd hc r (pre ++ [(n, dt)]) post (v :: acc) (by simp [h])
    simp only [List.length_append, List.length_cons, List.length_nil, Nat.zero_add] at ih
    have hdrop : vs.drop pre.length = v :: vs.drop (pre.length + 1) := by
      have hlt : pre.length < vs.length := by
        rcases Nat.lt_or_ge pre.length vs.length with h | h
        · exact h
        · simp [List.getElem?_eq_none h] at hv
      rw [List.drop_eq_getElem_cons hlt]
      simp only [List.getElem?_eq_getElem hlt, Option.some.injEq] at hv
      rw [hv]
    simp [convFields, hf, hcv, ih, hdrop]

/-- converting the fields `l1 ++ l2` is converting `l1`, then `l2` -/
theorem convFields_append (c : ETy → ETy → Val → CRes) (sv : List ((Nat × ETy) × Val)) :
    ∀ (l1 l2 : List (Nat × ETy)) (acc xs : List Val), convFields c sv l1 acc = .ok (.record xs) →
      convFields c sv (l1 ++ l2) acc = convFields c sv l2 xs.reverse
  | [], l2, acc, xs, h => by
    simp only [convFields, CRes.ok.injEq, Val.record.injEq] at h
    subst h
    simp
  | (n, dt) :: r, l2, acc, xs, h => by
    simp only [List.cons_append, convFields] at h ⊢
    cases hf : sv.find? (fun e => e.1.1 == n) with
    | none =>
      simp only [hf] at h ⊢
      exact convFields_append c sv r l2 _ xs h
    | some p =>
      obtain ⟨⟨m, st⟩, svv⟩ := p
      simp only [hf] at h ⊢
      cases hcv : c st dt svv with
      | ok x =>
        simp only [hcv] at h ⊢
        exact convFields_append c sv r l2 _ xs h
      | err m => simp [hcv] at h
      | unsupported m => simp [hcv] at h

theorem find_zip_fresh (fs : List (Nat × ETy)) (vs : List Val) (n : Nat) (hfresh : ∀ e ∈ fs, e.1 ≠ n) :
    (fs.zip vs).find? (fun e => e.1.1 == n) = none := by
  simp only [List.find?_eq_none, beq_iff_eq]
  intro p hp
  exact hfresh p.1 (List.of_mem_zip hp).1

/-- a previous-version record read by the version that added a field: every old field keeps its value, the
    added field gets its zero value -/
theorem added_field_read (fuel : Nat) (r : Nat) (fs : List (Nat × ETy)) (n : Nat) (t : ETy) (vs : List Val)
    (hd : namesDistinct fs = true) (hfresh : ∀ e ∈ fs, e.1 ≠ n)
    (hw : ∀ e ∈ fs, wfT e.2 = true ∧ depth e.2 ≤ fuel) (hfit : fitsF (fieldsOfList fs) vs = true) :
    conv true (fuel + 1) (.record r (fieldsOfList fs)) (.record r (fieldsOfList (fs ++ [(n, t)]))) (.record vs)
      = .ok (.record (vs ++ [zero (depth t + 1) t])) := by
  have hlen := fitsF_length (fieldsOfList fs) vs hfit
  simp only [toList_fieldsOfList] at hlen
  have hc : ∀ (i : Nat) (e : Nat × ETy), fs[i]? = some e → ∃ v, vs[i]? = some v ∧ conv true fuel e.2 e.2 v = .ok v := by
    intro i e hi
    obtain ⟨v, hv, hfv⟩ := fitsF_get (fieldsOfList fs) vs i e hfit (by simpa using hi)
    have hm := hw e (List.mem_of_getElem? hi)
    exact ⟨v, hv, conv_self true fuel e.2 v hm.1 hfv hm.2⟩
  have h1 := convFields_window (conv true fuel) fs vs hd hc fs [] [] [] (by simp)
  simp only [List.length_nil, List.drop_zero, List.reverse_nil, List.nil_append] at h1
  rw [← hlen, List.take_length] at h1
  have h2 := convFields_append (conv true fuel) (fs.zip vs) fs [(n, t)] [] vs h1
  simp only [conv, toList_fieldsOfList, h2, convFields, find_zip_fresh fs vs n hfresh, List.reverse_cons, List.reverse_reverse]

/-- a value of the version that added a field, written for the previous version: the added field is dropped,
    every other field keeps its value -/
theorem added_field_write (fuel : Nat) (r : Nat) (fs : List (Nat × ETy)) (n : Nat) (t : ETy) (vs : List Val) (x : Val)
    (hd : namesDistinct fs = true) (hfresh : ∀ e ∈ fs, e.1 ≠ n)
    (hw : ∀ e ∈ fs, wfT e.2 = true ∧ depth e.2 ≤ fuel) (hfit : fitsF (fieldsOfList fs) vs = true) :
    conv false (fuel + 1) (.record r (fieldsOfList (fs ++ [(n, t)]))) (.record r (fieldsOfList fs)) (.record (vs ++ [x]))
      = .ok (.record vs) := by
  have hlen := fitsF_length (fieldsOfList fs) vs hfit
  simp only [toList_fieldsOfList] at hlen
  have hd' := namesDistinct_append_fresh fs (n, t) hd hfresh
  have hc : ∀ (i : Nat) (e : Nat × ETy), (fs ++ [(n, t)])[i]? = some e → i < fs.length →
      ∃ v, (vs ++ [x])[i]? = some v ∧ conv false fuel e.2 e.2 v = .ok v := by
    intro i e hi hlt
    have hi' : fs[i]? = some e := by simpa [List.getElem?_append_left hlt] using hi
    obtain ⟨v, hv, hfv⟩ := fitsF_get (fieldsOfList fs) vs i e hfit (by simpa using hi')
    have hm := hw e (List.mem_of_getElem? hi')
    have hvl : i < vs.length := by omega
    exact ⟨v, by simp [List.getElem?_append_left hvl, hv], conv_self false fuel e.2 v hm.1 hfv hm.2⟩
  -- the destination fields are the first `fs.length` source fields: same induction as convFields_window,
  -- with the last source field never asked for
  have key : ∀ (mid pre : List (Nat × ETy)) (acc : List Val), fs = pre ++ mid →
      convFields (conv false fuel) ((fs ++ [(n, t)]).zip (vs ++ [x])) mid acc
        = .ok (.record (acc.reverse ++ ((vs ++ [x]).drop pre.length).take mid.length)) := by
    intro mid
    induction mid with
    | nil => intro pre acc _; simp [convFields]
    | cons e rr ih =>
      intro pre acc h
      obtain ⟨m, dt⟩ := e
      have hplt : pre.length < fs.length := by rw [h]; simp
      have hi : (fs ++ [(n, t)])[pre.length]? = some (m, dt) := by
        rw [List.getElem?_append_left hplt, h]; simp
      obtain ⟨v, hv, hcv⟩ := hc pre.length (m, dt) hi hplt
      have hf := find_zip_of_distinct (fs ++ [(n, t)]) (vs ++ [x]) pre.length (m, dt) v hd' hi hv
      simp only at hf hcv
      have ih' := ih (pre ++ [(m, dt)]) (v :: acc) (by simp [h])
      simp only [List.length_append, List.length_cons, List.length_nil, Nat.zero_add] at ih'
      have hdrop : (vs ++ [x]).drop pre.length = v :: (vs ++ [x]).drop (pre.length + 1) := by
        have hlt : pre.length < (vs ++ [x]).length := by simp; omega
        rw [List.drop_eq_getElem_cons hlt]
        simp only [List.getElem?_eq_getElem hlt, Option.some.injEq] at hv
        rw [hv]
      simp [convFields, hf, hcv, ih', hdrop]
  have h1 := key fs [] [] (by simp)
  simp only [List.length_nil, List.drop_zero, List.reverse_nil, List.nil_append] at h1
  have htake : (vs ++ [x]).take fs.length = vs := by rw [← hlen]; simp
  rw [htake] at h1
  simp only [conv, toList_fieldsOfList, h1]

/-- data written by previous-version software survives the trip through the version that added a field -/
theorem added_field_round_trip (fuel : Nat) (r : Nat) (fs : List (Nat × ETy)) (n : Nat) (t : ETy) (vs : List Val)
    (hd : namesDistinct fs = true) (hfresh : ∀ e ∈ fs, e.1 ≠ n)
    (hw : ∀ e ∈ fs, wfT e.2 = true ∧ depth e.2 ≤ fuel) (hfit : fitsF (fieldsOfList fs) vs = true) :
    (match conv true (fuel + 1) (.record r (fieldsOfList fs)) (.record r (fieldsOfList (fs ++ [(n, t)]))) (.record vs) with
     | .ok v => conv false (fuel + 1) (.record r (fieldsOfList (fs ++ [(n, t)]))) (.record r (fieldsOfList fs)) v
     | e => e) = .ok (.record vs) := by
  rw [added_field_read fuel r fs n t vs hd hfresh hw hfit]
  exact added_field_write fuel r fs n t vs _ hd hfresh hw hfit

end Yardl.Evo
