import YardlModel.Closure

namespace Yardl.Closure

theorem Reach.trans' {refs : Refs} {a b c : Nat} (h1 : Reach refs a b) (h2 : Reach refs b c) : Reach refs a c := by
  induction h1 with
  | refl _ => exact h2
  | step n m _ hm _ ih => exact Reach.step n m c hm (ih h2)

/-- all references of `x` have been collected -/
def Closed (refs : Refs) (vis : List Nat) (x : Nat) : Prop := ∀ m ∈ refs x, m ∈ vis

def StepSpec (refs : Refs) (n : Nat) (vis vis' : List Nat) : Prop :=
  (∀ x ∈ vis, x ∈ vis') ∧ n ∈ vis' ∧ (∀ x ∈ vis', x ∉ vis → Closed refs vis' x ∧ Reach refs n x)

theorem foldV_spec (refs : Refs) (f : Nat → List Nat → Option (List Nat))
    (hf : ∀ n vis vis', f n vis = some vis' → StepSpec refs n vis vis') :
    ∀ (ns vis vis' : List Nat), foldV f ns vis = some vis' →
      (∀ x ∈ vis, x ∈ vis') ∧ (∀ n ∈ ns, n ∈ vis') ∧
      (∀ x ∈ vis', x ∉ vis → Closed refs vis' x ∧ ∃ n ∈ ns, Reach refs n x) := by
  intro ns
  induction ns with
  | nil =>
    intro vis vis' h
    simp [foldV] at h; subst h
    exact ⟨fun _ h => h, by simp, fun x hx hn => absurd hx hn⟩
  | cons n ns ih =>
    intro vis vis' h
    simp only [foldV] at h
    cases hfn : f n vis with
    | none => simp [hfn] at h
    | some v1 =>
      simp only [hfn] at h
      obtain ⟨s1, s2, s3⟩ := hf n vis v1 hfn
      obtain ⟨t1, t2, t3⟩ := ih v1 vis' h
      refine ⟨fun x hx => t1 x (s1 x hx), ?_, ?_⟩
      · intro m hm
        simp only [List.mem_cons] at hm
        rcases hm with rfl | hm
        · exact t1 _ s2
        · exact t2 m hm
      · intro x hx hn
        by_cases h1 : x ∈ v1
        · obtain ⟨cl, rc⟩ := s3 x h1 hn
          exact ⟨fun m hm => t1 m (cl m hm), n, by simp, rc⟩
        · obtain ⟨cl, k, hk, rc⟩ := t3 x hx h1
          exact ⟨cl, k, by simp [hk], rc⟩

theorem visit_spec (refs : Refs) : ∀ (d n : Nat) (vis vis' : List Nat),
    visit refs d n vis = some vis' → (∀ x ∈ vis, Closed refs vis x ∨ True) → StepSpec refs n vis vis' := by
  intro d
  induction d with
  | zero => intro n vis vis' h; simp [visit] at h
  | succ d ih =>
    intro n vis vis' h _
    simp only [visit] at h
    by_cases hn : n ∈ vis
    · simp only [hn, if_true] at h
      cases h
      exact ⟨fun _ h => h, hn, fun x hx hnx => absurd hx hnx⟩
    · simp only [hn, if_false] at h
      obtain ⟨t1, t2, t3⟩ := foldV_spec refs (visit refs d)
        (fun m v v' hh => ih m v v' hh (fun _ _ => Or.inr trivial)) (refs n) (n :: vis) vis' h
      have hself : n ∈ vis' := t1 n (by simp)
      refine ⟨fun x hx => t1 x (by simp [hx]), hself, ?_⟩
      intro x hx hnx
      by_cases hxn : x = n
      · subst hxn
        exact ⟨fun m hm => t2 m hm, Reach.refl x⟩
      · have : x ∉ n :: vis := by simp [hxn, hnx]
        obtain ⟨cl, k, hk, rc⟩ := t3 x hx this
        exact ⟨cl, Reach.step n k x hk rc⟩

/-- The collected set is exactly the set of names reachable from the roots. -/
theorem closure_exact (refs : Refs) (fuel : Nat) (roots vis : List Nat) (h : closure refs fuel roots = some vis) :
    ∀ x, x ∈ vis ↔ ∃ r ∈ roots, Reach refs r x := by
  obtain ⟨_, t2, t3⟩ := foldV_spec refs (visit refs fuel)
    (fun m v v' hh => visit_spec refs fuel m v v' hh (fun _ _ => Or.inr trivial)) roots [] vis h
  have hclosed : ∀ x ∈ vis, Closed refs vis x := fun x hx => (t3 x hx (by simp)).1
  intro x
  constructor
  · intro hx
    exact (t3 x hx (by simp)).2
  · intro ⟨r, hr, hreach⟩
    have hr' : r ∈ vis := t2 r hr
    clear hr
    induction hreach with
    | refl _ => exact hr'
    | step n m k hm _ ih => exact ih (hclosed n hr' m hm)

/-- Reachability only depends on the reference *sets*: listing fields/definitions in another order,
    or repeating a reference, does not change it. -/
theorem reach_congr (r₁ r₂ : Refs) (h : ∀ n m, m ∈ r₁ n ↔ m ∈ r₂ n) (a b : Nat) : Reach r₁ a b ↔ Reach r₂ a b := by
  constructor
  · intro hr; induction hr with
    | refl _ => exact Reach.refl _
    | step n m k hm _ ih => exact Reach.step n m k ((h n m).mp hm) ih
  · intro hr; induction hr with
    | refl _ => exact Reach.refl _
    | step n m k hm _ ih => exact Reach.step n m k ((h n m).mpr hm) ih

theorem closure_order_independent (r₁ r₂ : Refs) (f₁ f₂ : Nat) (roots₁ roots₂ v₁ v₂ : List Nat)
    (h : ∀ n m, m ∈ r₁ n ↔ m ∈ r₂ n) (hr : ∀ x, x ∈ roots₁ ↔ x ∈ roots₂)
    (h₁ : closure r₁ f₁ roots₁ = some v₁) (h₂ : closure r₂ f₂ roots₂ = some v₂) : ∀ x, x ∈ v₁ ↔ x ∈ v₂ := by
  intro x
  rw [closure_exact r₁ f₁ roots₁ v₁ h₁, closure_exact r₂ f₂ roots₂ v₂ h₂]
  constructor
  · intro ⟨r, hrm, hh⟩; exact ⟨r, (hr r).mp hrm, (reach_congr r₁ r₂ h r x).mp hh⟩
  · intro ⟨r, hrm, hh⟩; exact ⟨r, (hr r).mpr hrm, (reach_congr r₁ r₂ h r x).mpr hh⟩

/-- Adding (or changing) a definition that is not reachable from the protocol does not change what
    is collected. -/
theorem closure_ignores_unreachable (r₁ r₂ : Refs) (f₁ f₂ : Nat) (roots v₁ v₂ : List Nat) (u : Nat)
    (hsame : ∀ n, n ≠ u → r₁ n = r₂ n) (hun : ∀ r ∈ roots, ¬ Reach r₁ r u)
    (h₁ : closure r₁ f₁ roots = some v₁) (h₂ : closure r₂ f₂ roots = some v₂) : ∀ x, x ∈ v₁ ↔ x ∈ v₂ := by
  have key : ∀ a b, ¬ Reach r₁ a u → (Reach r₁ a b ↔ Reach r₂ a b) := by
    intro a b hna
    constructor
    · intro hr
      induction hr with
      | refl _ => exact Reach.refl _
      | step n m k hm hmk ih =>
        have hnu : n ≠ u := fun e => hna (e ▸ Reach.refl n)
        have hm2 : m ∈ r₂ n := by rw [← hsame n hnu]; exact hm
        exact Reach.step n m k hm2 (ih (fun hmu => hna (Reach.step n m u hm hmu)))
    · intro hr
      induction hr with
      | refl _ => exact Reach.refl _
      | step n m k hm _ ih =>
        have hnu : n ≠ u := fun e => hna (e ▸ Reach.refl n)
        have hm1 : m ∈ r₁ n := by rw [hsame n hnu]; exact hm
        exact Reach.step n m k hm1 (ih (fun hmu => hna (Reach.step n m u hm1 hmu)))
  intro x
  rw [closure_exact r₁ f₁ roots v₁ h₁, closure_exact r₂ f₂ roots v₂ h₂]
  constructor
  · intro ⟨r, hrm, hh⟩; exact ⟨r, hrm, (key r x (hun r hrm)).mp hh⟩
  · intro ⟨r, hrm, hh⟩; exact ⟨r, hrm, (key r x (hun r hrm)).mpr hh⟩

end Yardl.Closure
