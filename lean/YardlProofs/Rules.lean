import YardlModel.Rules

namespace Yardl.Rules
open Yardl.Syntax

theorem self_mem_subterms (t : Sur) : t ∈ subterms t := by
  cases t <;> simp [subterms]

theorem memL_subterms {a : Sur} {args : SurL} (h : MemL a args) : ∀ x ∈ subterms a, x ∈ subtermsL args := by
  induction h with
  | head r => intro x hx; simp [subtermsL, hx]
  | tail u r _ ih => intro x hx; simp [subtermsL, ih x hx]

theorem memC_subterms {c : Sur} {cs : SurC} (h : MemC c cs) : ∀ x ∈ subterms c, x ∈ subtermsC cs := by
  induction h with
  | head tag r => intro x hx; simp [subtermsC, hx]
  | tail tag t u r _ ih => intro x hx; simp [subtermsC, ih x hx]
  | skip tag t r _ ih => intro x hx; simp [subtermsC, ih x hx]

/-- the traversal reaches every nested node -/
theorem sub_mem_subterms {s t : Sur} (h : Sub s t) : s ∈ subterms t := by
  induction h with
  | refl => exact self_mem_subterms _
  | arg a n args hm _ ih => simp [subterms, memL_subterms hm _ ih]
  | opt t _ ih => simp [subterms, ih]
  | case c cs hm _ ih => simp [subterms, memC_subterms hm _ ih]
  | vec t l _ ih => simp [subterms, ih]
  | arr t d _ ih => simp [subterms, ih]
  | key k v _ ih => simp [subterms, ih]
  | val k v _ ih => simp [subterms, ih]

end Yardl.Rules
