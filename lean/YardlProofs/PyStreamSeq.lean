import YardlProofs.PyStreamR

/-!
  YardlProofs.PyStreamSeq — the Python input stream over whole read *sequences*.

  A generated Python reader is a sequence of primitive reads of `CodedInputStream` (`read_byte`,
  `read(struct)`, `read_unsigned_varint`, `read_view` / `read_bytearray`). `PyStreamR` proves each
  primitive; here they are chained: a reader that issues the reads matching what a writer wrote gets
  exactly the written items, in order, for every buffer size, every split of the data between the
  buffer and the underlying stream, and every sequence — and what follows the sequence is left unread.
-/

namespace Yardl

/-- one written item, as the reader will ask for it -/
inductive RItem
  | byte (b : UInt8)
  | fixed (bs : Bytes)      -- `read(struct)`: `bs.length` little-endian bytes
  | var (n : Nat)
  | bytes (bs : Bytes)      -- `read_view(n)` / `read_bytearray(n)`
  deriving Repr

/-- what a reader gets back -/
inductive RVal
  | byte (b : UInt8)
  | num (n : Nat)
  | bytes (bs : Bytes)
  deriving Repr, DecidableEq

namespace RItem

def enc : RItem → Bytes
  | .byte b => [b]
  | .fixed bs => bs
  | .var n => encVar n
  | .bytes bs => bs

def val : RItem → RVal
  | .byte b => .byte b
  | .fixed bs => .num (CIS.leVal bs)
  | .var n => .num n
  | .bytes bs => .bytes bs

/-- the widest fixed-size read of a sequence must fit the buffer (`struct` reads go through `_fill_buffer`) -/
def fits (cap : Nat) : RItem → Prop
  | .fixed bs => bs.length ≤ cap
  | _ => True

end RItem

def encItems : List RItem → Bytes
  | [] => []
  | i :: r => i.enc ++ encItems r

namespace PIS

/-- the read a reader issues for an item (it knows kind and size from the schema, not the content) -/
def readItem (s : PIS) : RItem → POut RVal
  | .byte _ => (match s.readByte with
      | .ok b s' => .ok (.byte b) s' | .eof => .eof | .bufferError => .bufferError)
  | .fixed bs => (match s.readFixed bs.length with
      | .ok n s' => .ok (.num n) s' | .eof => .eof | .bufferError => .bufferError)
  | .var _ => (match s.readVar with
      | .ok n s' => .ok (.num n) s' | .eof => .eof | .bufferError => .bufferError)
  | .bytes bs => (match s.readBytes bs.length with
      | .ok b s' => .ok (.bytes b) s' | .eof => .eof | .bufferError => .bufferError)

def readItems (s : PIS) : List RItem → POut (List RVal)
  | [] => .ok [] s
  | i :: r => (match s.readItem i with
      | .ok v s' => (match readItems s' r with
          | .ok vs s'' => .ok (v :: vs) s'' | .eof => .eof | .bufferError => .bufferError)
      | .eof => .eof | .bufferError => .bufferError)

theorem readItem_ok (s : PIS) (hc : 0 < s.cap) (hinv : s.Inv) (i : RItem) (hf : i.fits s.cap) (rest : Bytes)
    (hp : s.pending = i.enc ++ rest) :
    ∃ s', s.readItem i = .ok i.val s' ∧ s'.pending = rest ∧ s'.Inv ∧ s'.cap = s.cap := by
  cases i with
  | byte b =>
    obtain ⟨s', h, r⟩ := readByte_ok s hc hinv b rest (by simpa [RItem.enc] using hp)
    exact ⟨s', by simp [readItem, h, RItem.val], r⟩
  | fixed bs =>
    obtain ⟨s', h, r⟩ := readFixed_ok s bs.length hf hinv bs rest rfl (by simpa [RItem.enc] using hp)
    exact ⟨s', by simp [readItem, h, RItem.val], r⟩
  | var n =>
    obtain ⟨s', h, r⟩ := readVar_ok s hc hinv n rest (by simpa [RItem.enc] using hp)
    exact ⟨s', by simp [readItem, h, RItem.val], r⟩
  | bytes bs =>
    obtain ⟨s', h, r⟩ := readBytes_ok s hinv bs rest (by simpa [RItem.enc] using hp)
    exact ⟨s', by simp [readItem, h, RItem.val], r⟩

theorem readItems_ok (items : List RItem) (s : PIS) (hc : 0 < s.cap) (hinv : s.Inv)
    (hf : ∀ i ∈ items, i.fits s.cap) (rest : Bytes) (hp : s.pending = encItems items ++ rest) :
    ∃ s', s.readItems items = .ok (items.map RItem.val) s' ∧ s'.pending = rest ∧ s'.Inv ∧ s'.cap = s.cap := by
  induction items generalizing s with
  | nil => exact ⟨s, rfl, by simpa [encItems] using hp, hinv, rfl⟩
  | cons i r ih =>
    obtain ⟨s1, h1, hp1, hinv1, hc1⟩ := readItem_ok s hc hinv i (hf i (by simp)) (encItems r ++ rest)
      (by simpa [encItems, List.append_assoc] using hp)
    obtain ⟨s2, h2, hp2, hinv2, hc2⟩ := ih s1 (by omega) hinv1
      (fun j hj => by rw [hc1]; exact hf j (by simp [hj])) hp1
    exact ⟨s2, by simp [readItems, h1, h2], hp2, hinv2, by omega⟩

/-- a sequence cut anywhere inside its last item is an error, never a value: the items before the cut are
    delivered by `readItems_ok`, the cut item fails (byte / fixed / byte-run case; the varint case is
    `readVar_trunc`) -/
theorem readItem_cut (s : PIS) (i : RItem) (hv : ∀ n, i ≠ .var n) (hp : s.pending.length < i.enc.length) :
    (match s.readItem i with | .ok _ _ => false | _ => true) = true := by
  cases i with
  | byte b =>
    have h0 : s.pending = [] := by
      cases h : s.pending with
      | nil => rfl
      | cons a t => rw [h] at hp; simp [RItem.enc] at hp
    have := readByte_trunc s h0
    unfold readItem; cases h : s.readByte <;> simp_all [POut.isError]
  | fixed bs =>
    have := readFixed_trunc s bs.length (by simpa [RItem.enc] using hp)
    unfold readItem; cases h : s.readFixed bs.length <;> simp_all [POut.isError]
  | var n => exact absurd rfl (hv n)
  | bytes bs =>
    have := readBytes_trunc s bs.length (by simpa [RItem.enc] using hp)
    unfold readItem; cases h : s.readBytes bs.length <;> simp_all [POut.isError]

/-- any item cut strictly inside its encoding fails, varints included -/
theorem readItem_cut' (s : PIS) (hc : 0 < s.cap) (hinv : s.Inv) (i : RItem) (more : Bytes)
    (hp : s.pending ++ more = i.enc) (hm : more ≠ []) : (s.readItem i).isError = true := by
  have hlen : s.pending.length < i.enc.length := by
    have := congrArg List.length hp
    have hm' : 0 < more.length := List.length_pos_iff.mpr hm
    simp at this; omega
  cases i with
  | var n =>
    have := readVar_trunc s hc hinv n more (by simpa [RItem.enc] using hp) hm
    unfold readItem; cases h : s.readVar <;> simp_all [POut.isError]
  | byte b =>
    have := readItem_cut s (.byte b) (by intro n h; cases h) hlen
    cases h : s.readItem (.byte b) <;> simp_all [POut.isError]
  | fixed bs =>
    have := readItem_cut s (.fixed bs) (by intro n h; cases h) hlen
    cases h : s.readItem (.fixed bs) <;> simp_all [POut.isError]
  | bytes bs =>
    have := readItem_cut s (.bytes bs) (by intro n h; cases h) hlen
    cases h : s.readItem (.bytes bs) <;> simp_all [POut.isError]

/-- **A truncated sequence is never read successfully**: whatever strict prefix of the written data the stream
    holds — cut between items or inside one —, the reader that issues the matching reads ends in an error. -/
theorem readItems_cut (items : List RItem) (s : PIS) (hc : 0 < s.cap) (hinv : s.Inv)
    (hf : ∀ i ∈ items, i.fits s.cap) (more : Bytes) (hm : more ≠ [])
    (hp : s.pending ++ more = encItems items) : (s.readItems items).isError = true := by
  induction items generalizing s with
  | nil =>
    have : more = [] := by
      have := congrArg List.length hp
      simp [encItems] at this
      exact this.2
    exact absurd this hm
  | cons i r ih =>
    simp only [encItems] at hp
    rcases List.append_eq_append_iff.mp hp with ⟨a, h1, h2⟩ | ⟨c, h1, h2⟩
    · -- the stream ends inside (or exactly at the end of) item `i`
      by_cases ha : a = []
      · subst ha
        obtain ⟨s1, e1, hp1, hinv1, hc1⟩ := readItem_ok s hc hinv i (hf i (by simp)) [] (by simpa using h1.symm)
        have := ih s1 (by omega) hinv1 (fun j hj => by rw [hc1]; exact hf j (by simp [hj]))
          (by rw [hp1]; simpa using h2)
        unfold readItems; rw [e1]
        cases h : s1.readItems r <;> simp_all [POut.isError]
      · have := readItem_cut' s hc hinv i a h1.symm ha
        unfold readItems
        cases h : s.readItem i <;> simp_all [POut.isError]
    · obtain ⟨s1, e1, hp1, hinv1, hc1⟩ := readItem_ok s hc hinv i (hf i (by simp)) c h1
      have := ih s1 (by omega) hinv1 (fun j hj => by rw [hc1]; exact hf j (by simp [hj]))
        (by rw [hp1]; exact h2.symm)
      unfold readItems; rw [e1]
      cases h : s1.readItems r <;> simp_all [POut.isError]

end PIS

end Yardl
