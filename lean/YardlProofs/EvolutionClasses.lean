import YardlProofs.EvolutionRefl

/-!
  YardlProofs.EvolutionClasses — the documented classes of schema changes (docs/cpp/evolution.md), proved
  of the change-detection model for every well-formed type / protocol, not for sample shapes:

  * protocol level: removing a step is an error; appending a step is silent when the step can be empty
    and an error otherwise (whatever the unchanged steps are);
  * making a type optional, or an optional type mandatory, is a partially compatible change (warning) —
    except for vectors, arrays and maps, which the tool rejects (the open C06 finding, as a theorem of
    the model);
  * adding a case to a union / removing one is a warning; a union with no case in common is an error;
  * adding a field to a record whose fields mention no other definition: silent when the field is
    nullable, a warning otherwise; removing one likewise.
-/

namespace Yardl.Evo
open Yardl

/-! ### severities only go up -/

theorem Sev.max_err_left (s : Sev) : Sev.max .err s = .err := by cases s <;> rfl
theorem Sev.max_err_right (s : Sev) : Sev.max s .err = .err := by cases s <;> rfl
theorem Sev.max_ok_left (s : Sev) : Sev.max .ok s = s := by cases s <;> rfl
theorem Sev.max_ok_right (s : Sev) : Sev.max s .ok = s := by cases s <;> rfl

theorem protoLoop_err (env : Env) (old : List EStep) : ∀ (l : List EStep) (e : Nat), protoLoop env old l e .err = .err
  | [], _ => rfl
  | s :: r, e => by
    unfold protoLoop
    cases findStep old s.name with
    | none => simp only [Sev.max_err_left]; exact protoLoop_err env old r e
    | some p => simp only [Sev.max_err_left]; exact protoLoop_err env old r (e + 1)

/-- removing a step from a protocol is always rejected -/
theorem removed_step_is_error (env : Env) (new old : List EStep) (o : EStep) (ho : o ∈ old)
    (hgone : findStep new o.name = none) : protoVerdict env new old = .err := by
  have hrem : (old.any fun o => (findStep new o.name).isNone) = true := by
    simp only [List.any_eq_true]
    exact ⟨o, ho, by simp [hgone]⟩
  simp [protoVerdict, hrem, protoLoop_err]

theorem findStep_none_of_fresh : ∀ (l : List EStep) (n : Nat), (∀ s ∈ l, s.name ≠ n) → findStep l n = none := by
  intro l n h
  have : l.findIdx? (fun s => s.name == n) = none := by
    simp only [List.findIdx?_eq_none_iff]
    intro s hs
    simp [h s hs]
  simp [findStep, this]

theorem stepNamesDistinct_append_fresh : ∀ (old : List EStep) (s : EStep), stepNamesDistinct old = true →
    (∀ x ∈ old, x.name ≠ s.name) → stepNamesDistinct (old ++ [s]) = true
  | [], s, _, _ => by simp [stepNamesDistinct]
  | a :: r, s, hd, hfresh => by
    simp only [stepNamesDistinct, Bool.and_eq_true, Bool.not_eq_true', List.any_eq_false, beq_iff_eq] at hd
    have ih := stepNamesDistinct_append_fresh r s hd.2 (fun x hx => hfresh x (by simp [hx]))
    simp only [List.cons_append, stepNamesDistinct, Bool.and_eq_true, Bool.not_eq_true', List.any_eq_false, beq_iff_eq,
      List.mem_append, List.mem_singleton]
    refine ⟨?_, ih⟩
    intro x hx
    rcases hx with hx | rfl
    · exact hd.1 x hx
    · exact fun h => hfresh a (by simp) h.symm

/-- the unchanged prefix of a protocol contributes nothing: the loop over `suf ++ rest` continues with `rest` -/
theorem protoLoop_prefix (env : Env) (old : List EStep) (hd : stepNamesDistinct old = true)
    (hw : ∀ s ∈ old, wfT s.ty = true) (rest : List EStep) :
    ∀ (suf pre : List EStep), old = pre ++ suf →
      protoLoop env old (suf ++ rest) pre.length .ok = protoLoop env old rest old.length .ok
  | [], pre, h => by simp [h]
  | s :: r, pre, h => by
    have hi : old[pre.length]? = some s := by simp [h]
    have hf := findStep_self old pre.length s hd hi
    have hm := matchedStepVerdict_self env s (hw s (List.mem_of_getElem? hi))
    have ih := protoLoop_prefix env old hd hw rest r (pre ++ [s]) (by simp [h])
    simp only [List.length_append, List.length_cons, List.length_nil, Nat.zero_add] at ih
    simp [protoLoop, hf, hm, sev_max_ok, ih]

/-- appending a step to an otherwise unchanged protocol: silent when the new step can be empty (stream,
    optional, nullable union, vector, map), rejected otherwise -/
theorem appended_step_verdict (env : Env) (old : List EStep) (s : EStep) (hd : stepNamesDistinct old = true)
    (hw : ∀ x ∈ old, wfT x.ty = true) (hfresh : ∀ x ∈ old, x.name ≠ s.name) :
    protoVerdict env (old ++ [s]) old = if canBeEmpty s then .ok else .err := by
  have hrem : (old.any fun o => (findStep (old ++ [s]) o.name).isNone) = false := by
    simp only [List.any_eq_false]
    intro o ho
    obtain ⟨i, hi⟩ := List.getElem?_of_mem ho
    have hd' := stepNamesDistinct_append_fresh old s hd hfresh
    have hi' : (old ++ [s])[i]? = some o := by
      have hlt : i < old.length := by
        rcases Nat.lt_or_ge i old.length with h | h
        · exact h
        · simp [List.getElem?_eq_none h] at hi
      simp [List.getElem?_append_left hlt, hi]
    simp [findStep_self (old ++ [s]) i o hd' hi']
  have hp := protoLoop_prefix env old hd hw [s] old [] (by simp)
  simp only [List.length_nil] at hp
  have hnone := findStep_none_of_fresh old s.name hfresh
  simp only [protoVerdict, hrem, Bool.false_eq_true, if_false, hp, protoLoop, hnone, Sev.max_ok_left]

/-! ### optional <-> mandatory -/

/-- a type that is neither an optional / union nor a vector / array / map -/
def plainScalar (t : ETy) : Bool := !isDim t && !isScalarGen t

/-- making a scalar type optional is accepted with a warning -/
theorem make_optional_warns (fuel : Nat) (t : ETy) (hw : wfT t = true) (hs : plainScalar t = true) (h : depth t ≤ fuel) :
    cmp (fuel + 1) (.optional t) t = .warn := by
  have hself := cmp_self fuel t hw h
  cases t <;> simp [plainScalar, isDim, isScalarGen] at hs <;> simp [cmp, hself, isDim, Cls.matches]

/-- making an optional scalar type mandatory is accepted with a warning -/
theorem make_mandatory_warns (fuel : Nat) (t : ETy) (hw : wfT t = true) (hs : plainScalar t = true) (h : depth t ≤ fuel) :
    cmp (fuel + 1) t (.optional t) = .warn := by
  have hself := cmp_self fuel t hw h
  cases t <;> simp [plainScalar, isDim, isScalarGen] at hs <;> simp [cmp, hself, isDim, Cls.matches]

/-- the open C06 finding as a theorem of the model: a vector, array or map cannot be made optional (or
    mandatory) — the comparison answers `error` although the documentation lists the change as partially compatible -/
theorem dimensioned_optional_is_rejected (fuel : Nat) (t : ETy) (hd : isDim t = true) :
    cmp (fuel + 1) (.optional t) t = .error ∧ cmp (fuel + 1) t (.optional t) = .error := by
  cases t <;> simp [isDim] at hd <;> simp [cmp, isDim]

/-! ### unions: a case added or removed -/

theorem findMatch_none_all_matched (f : ETy → ETy → Cls) (c : Option ETy) :
    ∀ (os : List (Option ETy)) (j : Nat), findMatch f c os (List.replicate os.length true) j = none
  | [], _ => by simp [findMatch]
  | o :: os, j => by
    simp only [List.length_cons, List.replicate_succ, findMatch, if_true]
    exact findMatch_none_all_matched f c os (j + 1)

/-- adding a case at the end of a union is a partially compatible change (warning) -/
theorem union_case_added_warns (f : ETy → ETy → Cls) (cs : List (Option ETy)) (c : Option ETy) (hne : cs ≠ [])
    (hf : ∀ x ∈ cs, cmpCase f x x = .same) : unionChange f (cs ++ [c]) cs = .warn := by
  -- the common prefix matches itself, the added case finds every old case taken
  have key : ∀ (suf pre : List (Option ETy)), cs = pre ++ suf →
      unionLoop f cs (suf ++ [c]) pre.length
        ⟨List.replicate pre.length true ++ List.replicate suf.length false, List.replicate pre.length true, false, false⟩
      = ⟨List.replicate cs.length true, false :: List.replicate cs.length true, false, false⟩ := by
    intro suf
    induction suf with
    | nil =>
      intro pre h
      have hlen : cs.length = pre.length := by simp [h]
      have hn := findMatch_none_all_matched f c cs 0
      simp only [List.nil_append, List.length_nil, List.replicate_zero, List.append_nil, unionLoop]
      rw [← hlen, hn]
    | cons x r ih =>
      intro pre h
      have hx : cmpCase f x x = .same := hf x (by simp [h])
      have hm := findMatch_self f x hx pre r (List.replicate r.length false) 0
      rw [← h] at hm
      have ih' := ih (pre ++ [x]) (by simp [h])
      simp only [List.length_append, List.length_cons, List.length_nil, Nat.zero_add] at ih'
      simp only [List.cons_append, unionLoop, List.length_cons, List.replicate_succ, hm, Nat.zero_add, setTrue_replicate]
      have e2 : ((false || pre.length != pre.length) = false) := by simp
      have e3 : ((false || Cls.same == Cls.defChanged) = false) := by decide
      simp only [List.replicate_succ, List.cons_append] at ih' ⊢
      simp only [e2, e3]
      exact ih'
  have h := key cs [] (by simp)
  simp only [List.length_nil, List.replicate_zero, List.nil_append] at h
  have hmap : (cs.map fun _ => false) = List.replicate cs.length false := by simp [List.map_const']
  have hpos : 0 < cs.length := List.length_pos_iff.mpr hne
  have hany : (List.replicate cs.length true).any id = true := by
    simp only [List.any_eq_true]
    exact ⟨true, by simp [List.mem_replicate]; omega, rfl⟩
  simp [unionChange, hmap, h, hany]

/-- removing the last case of a union is a partially compatible change (warning) -/
theorem union_case_removed_warns (f : ETy → ETy → Cls) (cs : List (Option ETy)) (c : Option ETy) (hne : cs ≠ [])
    (hf : ∀ x ∈ cs, cmpCase f x x = .same) : unionChange f cs (cs ++ [c]) = .warn := by
  have key : ∀ (suf pre : List (Option ETy)), cs = pre ++ suf →
      unionLoop f (cs ++ [c]) suf pre.length
        ⟨List.replicate pre.length true ++ (List.replicate suf.length false ++ [false]), List.replicate pre.length true, false, false⟩
      = ⟨List.replicate cs.length true ++ [false], List.replicate cs.length true, false, false⟩ := by
    intro suf
    induction suf with
    | nil =>
      intro pre h
      have hlen : cs.length = pre.length := by simp [h]
      simp [unionLoop, hlen]
    | cons x r ih =>
      intro pre h
      have hx : cmpCase f x x = .same := hf x (by simp [h])
      have hm := findMatch_self f x hx pre (r ++ [c]) (List.replicate r.length false ++ [false]) 0
      have hcs : pre ++ x :: (r ++ [c]) = cs ++ [c] := by simp [h]
      rw [hcs] at hm
      have ih' := ih (pre ++ [x]) (by simp [h])
      simp only [List.length_append, List.length_cons, List.length_nil, Nat.zero_add] at ih'
      simp only [unionLoop, List.length_cons, List.replicate_succ, List.cons_append, hm, Nat.zero_add, setTrue_replicate]
      have e2 : ((false || pre.length != pre.length) = false) := by simp
      have e3 : ((false || Cls.same == Cls.defChanged) = false) := by decide
      simp only [List.replicate_succ, List.cons_append] at ih' ⊢
      simp only [e2, e3]
      exact ih'
  have h := key cs [] (by simp)
  simp only [List.length_nil, List.replicate_zero, List.nil_append] at h
  have hmap : ((cs ++ [c]).map fun _ => false) = List.replicate cs.length false ++ [false] := by
    simp [List.map_const']
  have hpos : 0 < cs.length := List.length_pos_iff.mpr hne
  have hany : (List.replicate cs.length true).any id = true := by
    simp only [List.any_eq_true]
    exact ⟨true, by simp [List.mem_replicate]; omega, rfl⟩
  simp [unionChange, hmap, h, hany]

end Yardl.Evo

/-! ### records: a field added or removed

  Stated for records whose field types mention no other definition (`defFree`: primitives and containers
  of them), so that the verdict does not depend on what else the two versions define. -/

namespace Yardl.Evo
open Yardl

mutual
  def defFree : ETy → Bool
    | .prim _ => true
    | .optional t => defFree t
    | .union cs => defFreeC cs
    | .vector t _ => defFree t
    | .array t _ => defFree t
    | .map k v => defFree k && defFree v
    | _ => false
  def defFreeC : ECases → Bool
    | .nil => true
    | .null r => defFreeC r
    | .cons t r => defFree t && defFreeC r
end

def fieldsOfList : List (Nat × ETy) → EFields
  | [] => .nil
  | (n, t) :: r => .cons n t (fieldsOfList r)

@[simp] theorem toList_fieldsOfList : ∀ (l : List (Nat × ETy)), (fieldsOfList l).toList = l
  | [] => rfl
  | (n, t) :: r => by simp [fieldsOfList, EFields.toList, toList_fieldsOfList r]

theorem foldl_max_ok {α : Type} (g : α → Sev) : ∀ (l : List α) (acc : Sev), (∀ x ∈ l, g x = .ok) →
    l.foldl (fun a x => a.max (g x)) acc = acc
  | [], _, _ => rfl
  | x :: r, acc, h => by
    simp only [List.foldl_cons, h x (by simp), Sev.max_ok_right]
    exact foldl_max_ok g r acc (fun y hy => h y (by simp [hy]))

theorem foldl_fixed {α β : Type} (F : β → α → β) : ∀ (l : List α) (acc : β), (∀ x ∈ l, ∀ a, F a x = a) →
    l.foldl F acc = acc
  | [], _, _ => rfl
  | x :: r, acc, h => by
    simp only [List.foldl_cons, h x (by simp) acc]
    exact foldl_fixed F r acc (fun y hy => h y (by simp [hy]))

theorem defFreeC_mem : ∀ (cs : ECases) (t : ETy), some t ∈ cs.toList → defFreeC cs = true → defFree t = true
  | .nil, _, h, _ => by simp [ECases.toList] at h
  | .null r, t, h, hd => by
    simp only [ECases.toList, List.mem_cons, reduceCtorEq, false_or] at h
    exact defFreeC_mem r t h (by simpa [defFreeC] using hd)
  | .cons u r, t, h, hd => by
    simp only [ECases.toList, List.mem_cons, Option.some.injEq] at h
    simp only [defFreeC, Bool.and_eq_true] at hd
    rcases h with rfl | h
    · exact hd.1
    · exact defFreeC_mem r t h hd.2

/-- a type that mentions no definition emits no definition-level message -/
theorem defsSev_defFree (env : Env) : ∀ (fuel : Nat) (t : ETy), defFree t = true → defsSev env fuel t = .ok
  | 0, _, _ => rfl
  | fuel + 1, .prim _, _ => rfl
  | fuel + 1, .optional t, h => by
    simp only [defFree] at h
    simp [defsSev, defsSev_defFree env fuel t h]
  | fuel + 1, .vector t _, h => by
    simp only [defFree] at h
    simp [defsSev, defsSev_defFree env fuel t h]
  | fuel + 1, .array t _, h => by
    simp only [defFree] at h
    simp [defsSev, defsSev_defFree env fuel t h]
  | fuel + 1, .map k v, h => by
    simp only [defFree, Bool.and_eq_true] at h
    simp [defsSev, defsSev_defFree env fuel k h.1, defsSev_defFree env fuel v h.2, sev_max_ok]
  | fuel + 1, .union cs, h => by
    simp only [defFree] at h
    simp only [defsSev]
    have : ∀ (l : List (Option ETy)) (acc : Sev), (∀ t, some t ∈ l → defFree t = true) →
        l.foldl (fun acc c => match c with
          | some t => acc.max (defsSev env fuel t)
          | none => acc) acc = acc := by
      intro l
      induction l with
      | nil => intro acc _; rfl
      | cons c r ih =>
        intro acc hl
        cases c with
        | none => simp only [List.foldl_cons]; exact ih acc (fun t ht => hl t (by simp [ht]))
        | some t =>
          simp only [List.foldl_cons, defsSev_defFree env fuel t (hl t (by simp)), Sev.max_ok_right]
          exact ih acc (fun t ht => hl t (by simp [ht]))
    exact this cs.toList .ok (fun t ht => defFreeC_mem cs t ht h)
  | fuel + 1, .enum _ _ _ _, h => by simp [defFree] at h
  | fuel + 1, .record _ _, h => by simp [defFree] at h
  | fuel + 1, .tparam _, h => by simp [defFree] at h
  | fuel + 1, .inst _ _ _, h => by simp [defFree] at h

theorem lookupField_append_fresh (fs : List (Nat × ETy)) (n : Nat) (t : ETy) (hfresh : ∀ e ∈ fs, e.1 ≠ n) :
    lookupField fs n = none ∧ lookupField (fs ++ [(n, t)]) n = some t := by
  have h1 : fs.find? (fun e => e.1 == n) = none := by
    simp only [List.find?_eq_none, beq_iff_eq]
    exact fun e he => hfresh e he
  simp [lookupField, List.find?_append, h1]

theorem namesDistinct_append_fresh : ∀ (fs : List (Nat × ETy)) (x : Nat × ETy), namesDistinct fs = true →
    (∀ e ∈ fs, e.1 ≠ x.1) → namesDistinct (fs ++ [x]) = true
  | [], x, _, _ => by simp [namesDistinct]
  | a :: r, x, hd, hfresh => by
    simp only [namesDistinct, Bool.and_eq_true, Bool.not_eq_true', List.any_eq_false, beq_iff_eq] at hd
    have ih := namesDistinct_append_fresh r x hd.2 (fun e he => hfresh e (by simp [he]))
    simp only [List.cons_append, namesDistinct, Bool.and_eq_true, Bool.not_eq_true', List.any_eq_false, beq_iff_eq,
      List.mem_append, List.mem_singleton]
    refine ⟨?_, ih⟩
    intro e he
    rcases he with he | rfl
    · exact hd.1 e he
    · exact fun h => hfresh a (by simp) h.symm

/-- every old field is found again, unchanged and at its place, in the extended record -/
theorem lookup_in_extended (fs : List (Nat × ETy)) (x : Nat × ETy) (hd : namesDistinct fs = true)
    (hfresh : ∀ e ∈ fs, e.1 ≠ x.1) (e : Nat × ETy) (he : e ∈ fs) : lookupField (fs ++ [x]) e.1 = some e.2 := by
  obtain ⟨i, hi⟩ := List.getElem?_of_mem he
  have hlt : i < fs.length := by
    rcases Nat.lt_or_ge i fs.length with h | h
    · exact h
    · simp [List.getElem?_eq_none h] at hi
  have hi' : (fs ++ [x])[i]? = some (e.1, e.2) := by simp [List.getElem?_append_left hlt, hi]
  exact (lookupField_self (fs ++ [x]) i e.1 e.2 (namesDistinct_append_fresh fs x hd hfresh) hi').1

section
variable (f : ETy → ETy → Cls)

theorem recordSev_field_added (fs : List (Nat × ETy)) (n : Nat) (t : ETy) (hd : namesDistinct fs = true)
    (hfresh : ∀ e ∈ fs, e.1 ≠ n) (hf : ∀ e ∈ fs, f e.2 e.2 = .same) :
    recordSev f (fs ++ [(n, t)]) fs = if isNullable t then .ok else .warn := by
  have hadd : ((fs ++ [(n, t)]).any fun e => (lookupField fs e.1).isNone && !isNullable e.2) = !isNullable t := by
    have h1 : (fs.any fun e => (lookupField fs e.1).isNone && !isNullable e.2) = false := by
      simp only [List.any_eq_false]
      intro e he
      obtain ⟨i, hi⟩ := List.getElem?_of_mem he
      simp [(lookupField_self fs i e.1 e.2 hd hi).1]
    simp [List.any_append, h1, (lookupField_append_fresh fs n t hfresh).1]
  unfold recordSev
  simp only [hadd]
  rw [foldl_fixed _ fs _ (by
    intro e he a
    simp [lookup_in_extended fs (n, t) hd hfresh e he, hf e he, Cls.sev, Sev.max_ok_right])]
  cases isNullable t <;> rfl

theorem recordSev_field_removed (fs : List (Nat × ETy)) (n : Nat) (t : ETy) (hd : namesDistinct fs = true)
    (hfresh : ∀ e ∈ fs, e.1 ≠ n) (hf : ∀ e ∈ fs, f e.2 e.2 = .same) :
    recordSev f fs (fs ++ [(n, t)]) = if isNullable t then .ok else .warn := by
  have hadd : (fs.any fun e => (lookupField (fs ++ [(n, t)]) e.1).isNone && !isNullable e.2) = false := by
    simp only [List.any_eq_false]
    intro e he
    simp [lookup_in_extended fs (n, t) hd hfresh e he]
  unfold recordSev
  simp only [hadd, Bool.false_eq_true, if_false, List.foldl_append, List.foldl_cons, List.foldl_nil]
  rw [foldl_fixed _ fs _ (by
    intro e he a
    obtain ⟨i, hi⟩ := List.getElem?_of_mem he
    simp [(lookupField_self fs i e.1 e.2 hd hi).1, hf e he, Cls.sev, Sev.max_ok_right])]
  simp only [(lookupField_append_fresh fs n t hfresh).1, Sev.max_ok_left]

end

theorem fieldsOfList_wfF : ∀ (l : List (Nat × ETy)), (∀ e ∈ l, wfT e.2 = true) → wfF (fieldsOfList l) = true
  | [], _ => rfl
  | (n, t) :: r, h => by
    simp only [fieldsOfList, wfF, Bool.and_eq_true]
    exact ⟨h (n, t) (by simp), fieldsOfList_wfF r (fun e he => h e (by simp [he]))⟩

theorem depth_le_depthF_fieldsOfList (l : List (Nat × ETy)) (e : Nat × ETy) (he : e ∈ l) : depth e.2 ≤ depthF (fieldsOfList l) :=
  (fields_mem (fieldsOfList l) e.1 e.2 (by simpa using he)).2

theorem depthF_append_ge (fs : List (Nat × ETy)) (x : Nat × ETy) : depthF (fieldsOfList fs) ≤ depthF (fieldsOfList (fs ++ [x])) := by
  induction fs with
  | nil => simp [fieldsOfList, depthF]
  | cons a r ih =>
    obtain ⟨n, t⟩ := a
    simp only [List.cons_append, fieldsOfList, depthF]
    omega

theorem env_find_single (r : Nat) (t : ETy) : Env.find [(r, t)] r = some t := by
  simp [Env.find, List.find?]

/-- adding a field at the end of a record that a protocol step uses: silent when the field is nullable,
    a warning otherwise (documented: "adding a field" is compatible for optional fields, else partially) -/
theorem field_added_verdict (r : Nat) (fs : List (Nat × ETy)) (n : Nat) (t : ETy)
    (hd : namesDistinct fs = true) (hfresh : ∀ e ∈ fs, e.1 ≠ n)
    (hw : ∀ e ∈ fs, wfT e.2 = true) (hdf : ∀ e ∈ fs, defFree e.2 = true) :
    stepVerdict [(r, .record r (fieldsOfList (fs ++ [(n, t)])))]
      (.record r (fieldsOfList (fs ++ [(n, t)]))) (.record r (fieldsOfList fs))
    = if isNullable t then .ok else .warn := by
  have hge := depthF_append_ge fs (n, t)
  have hself : ∀ (K : Nat), depthF (fieldsOfList fs) ≤ K → ∀ e ∈ fs, cmp K e.2 e.2 = .same := fun K hK e he =>
    cmp_self K e.2 (hw e he) (Nat.le_trans (depth_le_depthF_fieldsOfList fs e he) hK)
  -- the step-level comparison: the record's definition changed
  have hc : cmp (depth (.record r (fieldsOfList (fs ++ [(n, t)]))) + depth (.record r (fieldsOfList fs)))
      (.record r (fieldsOfList (fs ++ [(n, t)]))) (.record r (fieldsOfList fs)) = .defChanged := by
    have hk : depth (.record r (fieldsOfList (fs ++ [(n, t)]))) + depth (.record r (fieldsOfList fs))
        = (depthF (fieldsOfList (fs ++ [(n, t)])) + depthF (fieldsOfList fs) + 1) + 1 := by
      simp only [depth]; omega
    rw [hk]
    have hany : ((fs ++ [(n, t)]).any fun e => (lookupField fs e.1).isNone) = true := by
      simp [List.any_append, (lookupField_append_fresh fs n t hfresh).1]
    simp [cmp, recordChange, hany]
  have hdefs : ∀ (K : Nat) (acc : Sev), fs.foldl (fun acc e => acc.max (defsSev [(r, .record r (fieldsOfList (fs ++ [(n, t)])))] K e.2)) acc = acc :=
    fun K acc => foldl_fixed _ fs acc (by
      intro e he a
      simp [defsSev_defFree _ K e.2 (hdf e he), Sev.max_ok_right])
  unfold stepVerdict
  simp only [hc, reduceCtorEq, if_false, Cls.sev, Sev.max_ok_left]
  simp only [defsSev, env_find_single, toList_fieldsOfList, hdefs]
  exact recordSev_field_added _ fs n t hd hfresh (hself _ (by simp only [depth]; omega))

/-- removing the last field of a record that a protocol step uses: silent when the field was nullable,
    a warning otherwise -/
theorem field_removed_verdict (r : Nat) (fs : List (Nat × ETy)) (n : Nat) (t : ETy)
    (hd : namesDistinct fs = true) (hfresh : ∀ e ∈ fs, e.1 ≠ n)
    (hw : ∀ e ∈ fs, wfT e.2 = true) (hdf : ∀ e ∈ fs, defFree e.2 = true) (htd : defFree t = true) :
    stepVerdict [(r, .record r (fieldsOfList fs))]
      (.record r (fieldsOfList fs)) (.record r (fieldsOfList (fs ++ [(n, t)])))
    = if isNullable t then .ok else .warn := by
  have hge := depthF_append_ge fs (n, t)
  have hself : ∀ (K : Nat), depthF (fieldsOfList fs) ≤ K → ∀ e ∈ fs, cmp K e.2 e.2 = .same := fun K hK e he =>
    cmp_self K e.2 (hw e he) (Nat.le_trans (depth_le_depthF_fieldsOfList fs e he) hK)
  have hc : cmp (depth (.record r (fieldsOfList fs)) + depth (.record r (fieldsOfList (fs ++ [(n, t)]))))
      (.record r (fieldsOfList fs)) (.record r (fieldsOfList (fs ++ [(n, t)]))) = .defChanged := by
    have hk : depth (.record r (fieldsOfList fs)) + depth (.record r (fieldsOfList (fs ++ [(n, t)])))
        = (depthF (fieldsOfList fs) + depthF (fieldsOfList (fs ++ [(n, t)])) + 1) + 1 := by
      simp only [depth]; omega
    rw [hk]
    have hold : ∀ (g : ETy → ETy → Cls) (l : List (Nat × ETy)) (i : Nat),
        recordOldChanged g fs (l ++ [(n, t)]) i = true := by
      intro g l
      induction l with
      | nil => intro i; simp [recordOldChanged, (lookupField_append_fresh fs n t hfresh).1]
      | cons a l ih => intro i; obtain ⟨m, u⟩ := a; simp [recordOldChanged, ih]
    simp [cmp, recordChange, hold]
  have hdefs : ∀ (K : Nat) (acc : Sev), (fs ++ [(n, t)]).foldl (fun acc e => acc.max (defsSev [(r, .record r (fieldsOfList fs))] K e.2)) acc = acc :=
    fun K acc => foldl_fixed _ _ acc (by
      intro e he a
      have : defFree e.2 = true := by
        simp only [List.mem_append, List.mem_singleton] at he
        rcases he with he | rfl
        · exact hdf e he
        · exact htd
      simp [defsSev_defFree _ K e.2 this, Sev.max_ok_right])
  unfold stepVerdict
  simp only [hc, reduceCtorEq, if_false, Cls.sev, Sev.max_ok_left]
  simp only [defsSev, env_find_single, toList_fieldsOfList, hdefs]
  exact recordSev_field_removed _ fs n t hd hfresh (hself _ (by simp only [depth]; omega))

def casesOfList : List (Option ETy) → ECases
  | [] => .nil
  | none :: r => .null (casesOfList r)
  | some t :: r => .cons t (casesOfList r)

@[simp] theorem toList_casesOfList : ∀ (l : List (Option ETy)), (casesOfList l).toList = l
  | [] => rfl
  | none :: r => by simp [casesOfList, ECases.toList, toList_casesOfList r]
  | some t :: r => by simp [casesOfList, ECases.toList, toList_casesOfList r]

theorem cmpCase_self_of_wf (fuel : Nat) (l : List (Option ETy)) (hw : ∀ t, some t ∈ l → wfT t = true ∧ depth t ≤ fuel) :
    ∀ x ∈ l, cmpCase (cmp fuel) x x = .same := by
  intro x hx
  cases x with
  | none => rfl
  | some t => exact cmp_self fuel t (hw t hx).1 (hw t hx).2

/-- adding a case at the end of a union type is accepted with a warning, and so is removing the last one -/
theorem union_case_added_or_removed (fuel : Nat) (l : List (Option ETy)) (c : Option ETy) (hne : l ≠ [])
    (hw : ∀ t, some t ∈ l → wfT t = true ∧ depth t ≤ fuel) :
    cmp (fuel + 1) (.union (casesOfList (l ++ [c]))) (.union (casesOfList l)) = .warn ∧
    cmp (fuel + 1) (.union (casesOfList l)) (.union (casesOfList (l ++ [c]))) = .warn := by
  have hs := cmpCase_self_of_wf fuel l hw
  constructor
  · simp [cmp, union_case_added_warns (cmp fuel) l c hne hs]
  · simp [cmp, union_case_removed_warns (cmp fuel) l c hne hs]

/-! ### records: fields reordered -/

theorem namesDistinct_iff_nodup {α : Type} : ∀ (l : List (Nat × α)), namesDistinct l = true ↔ (l.map (·.1)).Nodup
  | [] => by simp [namesDistinct]
  | a :: r => by
    simp only [namesDistinct, Bool.and_eq_true, Bool.not_eq_true', List.any_eq_false, beq_iff_eq, List.map_cons,
      List.nodup_cons, List.mem_map, not_exists, not_and, namesDistinct_iff_nodup r]

theorem lookupField_of_mem (l : List (Nat × ETy)) (hd : namesDistinct l = true) (e : Nat × ETy) (he : e ∈ l) :
    lookupField l e.1 = some e.2 := by
  obtain ⟨i, hi⟩ := List.getElem?_of_mem he
  exact (lookupField_self l i e.1 e.2 hd hi).1

/-- reordering the fields of a record emits no message, whatever the permutation -/
theorem recordSev_perm (f : ETy → ETy → Cls) (new old : List (Nat × ETy)) (hp : new.Perm old)
    (hd : namesDistinct old = true) (hf : ∀ e ∈ old, f e.2 e.2 = .same) : recordSev f new old = .ok := by
  have hdn : namesDistinct new = true := by
    rw [namesDistinct_iff_nodup] at hd ⊢
    exact (hp.map (·.1)).symm.nodup hd
  have hadd : (new.any fun e => (lookupField old e.1).isNone && !isNullable e.2) = false := by
    simp only [List.any_eq_false]
    intro e he
    simp [lookupField_of_mem old hd e (hp.mem_iff.mp he)]
  unfold recordSev
  simp only [hadd, Bool.false_eq_true, if_false]
  exact foldl_fixed _ old _ (by
    intro e he a
    simp [lookupField_of_mem new hdn e (hp.mem_iff.mpr he), hf e he, Cls.sev, Sev.max_ok_right])

theorem recordChange_cases (f : ETy → ETy → Cls) (new old : List (Nat × ETy)) :
    recordChange f new old = .same ∨ recordChange f new old = .defChanged := by
  unfold recordChange
  split <;> simp

/-- reordering the fields of a record that a protocol step uses is silent (documented: compatible) -/
theorem fields_reordered_verdict (r : Nat) (new old : List (Nat × ETy)) (hp : new.Perm old)
    (hd : namesDistinct old = true) (hw : ∀ e ∈ old, wfT e.2 = true) (hdf : ∀ e ∈ old, defFree e.2 = true) :
    stepVerdict [(r, .record r (fieldsOfList new))] (.record r (fieldsOfList new)) (.record r (fieldsOfList old)) = .ok := by
  have hself : ∀ (K : Nat), depthF (fieldsOfList old) ≤ K → ∀ e ∈ old, cmp K e.2 e.2 = .same := fun K hK e he =>
    cmp_self K e.2 (hw e he) (Nat.le_trans (depth_le_depthF_fieldsOfList old e he) hK)
  have hk : depth (.record r (fieldsOfList new)) + depth (.record r (fieldsOfList old))
      = (depthF (fieldsOfList new) + depthF (fieldsOfList old) + 1) + 1 := by
    simp only [depth]; omega
  have hdefs : ∀ (K : Nat) (acc : Sev), old.foldl (fun acc e => acc.max (defsSev [(r, .record r (fieldsOfList new))] K e.2)) acc = acc :=
    fun K acc => foldl_fixed _ old acc (by
      intro e he a
      simp [defsSev_defFree _ K e.2 (hdf e he), Sev.max_ok_right])
  have hrs := recordSev_perm (cmp (depth (.record r (fieldsOfList new)) + depth (.record r (fieldsOfList old)))) new old hp hd
    (hself _ (by simp only [depth]; omega))
  unfold stepVerdict
  rw [hk]
  have hcmp : cmp (depthF (fieldsOfList new) + depthF (fieldsOfList old) + 1 + 1) (.record r (fieldsOfList new)) (.record r (fieldsOfList old))
      = recordChange (cmp (depthF (fieldsOfList new) + depthF (fieldsOfList old) + 1)) new old := by
    simp [cmp]
  rw [hcmp]
  rcases recordChange_cases (cmp (depthF (fieldsOfList new) + depthF (fieldsOfList old) + 1)) new old with h | h
  · simp [h]
  · simp only [h, reduceCtorEq, if_false, Cls.sev, Sev.max_ok_left]
    simp only [defsSev, env_find_single, toList_fieldsOfList, hdefs]
    exact hrs

/-! ### protocol steps: inserted anywhere, moved -/

/-- an unchanged run of steps in the middle of the protocol contributes nothing -/
theorem protoLoop_mid (env : Env) (old : List EStep) (hd : stepNamesDistinct old = true)
    (hw : ∀ s ∈ old, wfT s.ty = true) (rest : List EStep) :
    ∀ (mid front tail : List EStep), old = front ++ mid ++ tail →
      protoLoop env old (mid ++ rest) front.length .ok = protoLoop env old rest (front.length + mid.length) .ok
  | [], front, tail, _ => by simp
  | s :: r, front, tail, h => by
    have hi : old[front.length]? = some s := by simp [h]
    have hf := findStep_self old front.length s hd hi
    have hm := matchedStepVerdict_self env s (hw s (List.mem_of_getElem? hi))
    have ih := protoLoop_mid env old hd hw rest r (front ++ [s]) tail (by simp [h])
    simp only [List.length_append, List.length_cons, List.length_nil, Nat.zero_add] at ih
    simp only [List.cons_append, protoLoop, hf, bne_self_eq_false, Bool.false_eq_true, if_false, hm, sev_max_ok, ih,
      List.length_cons]
    congr 1
    omega

theorem stepNamesDistinct_insert_fresh : ∀ (pre suf : List EStep) (s : EStep), stepNamesDistinct (pre ++ suf) = true →
    (∀ x ∈ pre ++ suf, x.name ≠ s.name) → stepNamesDistinct (pre ++ s :: suf) = true
  | [], suf, s, hd, hfresh => by
    simp only [List.nil_append] at hd hfresh ⊢
    simp only [stepNamesDistinct, Bool.and_eq_true, Bool.not_eq_true', List.any_eq_false, beq_iff_eq]
    exact ⟨fun x hx => hfresh x hx, hd⟩
  | a :: r, suf, s, hd, hfresh => by
    simp only [List.cons_append, stepNamesDistinct, Bool.and_eq_true, Bool.not_eq_true', List.any_eq_false, beq_iff_eq] at hd ⊢
    have ih := stepNamesDistinct_insert_fresh r suf s hd.2 (fun x hx => hfresh x (by simp at hx ⊢; exact Or.inr hx))
    refine ⟨?_, ih⟩
    intro x hx
    simp only [List.mem_append, List.mem_cons] at hx
    rcases hx with hx | rfl | hx
    · exact hd.1 x (by simp [hx])
    · exact fun h => hfresh a (by simp) h.symm
    · exact hd.1 x (by simp [hx])

/-- a step added **anywhere** in an otherwise unchanged protocol: silent when it can be empty, rejected otherwise -/
theorem inserted_step_verdict (env : Env) (pre suf : List EStep) (s : EStep) (hd : stepNamesDistinct (pre ++ suf) = true)
    (hw : ∀ x ∈ pre ++ suf, wfT x.ty = true) (hfresh : ∀ x ∈ pre ++ suf, x.name ≠ s.name) :
    protoVerdict env (pre ++ s :: suf) (pre ++ suf) = if canBeEmpty s then .ok else .err := by
  have hd' := stepNamesDistinct_insert_fresh pre suf s hd hfresh
  have hrem : ((pre ++ suf).any fun o => (findStep (pre ++ s :: suf) o.name).isNone) = false := by
    simp only [List.any_eq_false]
    intro o ho
    have hmem : o ∈ pre ++ s :: suf := by
      simp only [List.mem_append, List.mem_cons] at ho ⊢
      rcases ho with h | h
      · exact Or.inl h
      · exact Or.inr (Or.inr h)
    obtain ⟨i, hi⟩ := List.getElem?_of_mem hmem
    simp [findStep_self (pre ++ s :: suf) i o hd' hi]
  have h1 := protoLoop_mid env (pre ++ suf) hd hw (s :: suf) pre [] suf (by simp)
  simp only [List.length_nil, Nat.zero_add] at h1
  have hnone := findStep_none_of_fresh (pre ++ suf) s.name hfresh
  simp only [protoVerdict, hrem, Bool.false_eq_true, if_false]
  rw [h1]
  simp only [protoLoop, hnone, Sev.max_ok_left]
  by_cases hce : canBeEmpty s = true
  · simp only [hce, if_true]
    have h2 := protoLoop_mid env (pre ++ suf) hd hw [] suf pre [] (by simp)
    simp only [List.append_nil, protoLoop] at h2
    exact h2
  · simp only [hce, Bool.false_eq_true, if_false]
    exact protoLoop_err env (pre ++ suf) suf pre.length

/-- a step that kept its name but not its place (behind an unchanged prefix): rejected -/
theorem moved_step_is_rejected (env : Env) (pre tail rest : List EStep) (s o : EStep) (i : Nat)
    (hd : stepNamesDistinct (pre ++ tail) = true) (hw : ∀ x ∈ pre ++ tail, wfT x.ty = true)
    (hfound : findStep (pre ++ tail) s.name = some (i, o)) (hmoved : i ≠ pre.length) :
    protoVerdict env (pre ++ s :: rest) (pre ++ tail) = .err := by
  have h1 := protoLoop_mid env (pre ++ tail) hd hw (s :: rest) pre [] tail (by simp)
  simp only [List.length_nil, Nat.zero_add] at h1
  simp only [protoVerdict]
  by_cases hrem : ((pre ++ tail).any fun o => (findStep (pre ++ s :: rest) o.name).isNone) = true
  · simp only [hrem, if_true]
    exact protoLoop_err env _ _ _
  · simp only [hrem, Bool.false_eq_true, if_false]
    rw [h1]
    have hne : (i != pre.length) = true := by simp [hmoved]
    simp only [protoLoop, hfound, hne, if_true, Sev.max_ok_left, Sev.max_err_left]
    exact protoLoop_err env _ _ _

/-! ### enums, scalar <-> vector / array, generic type arguments, optional <-> union -/

/-- changing an enum definition other than by adding symbols is rejected: a different base type, `!enum` <-> `!flags`,
    a removed symbol, a symbol with another value -/
theorem enum_definition_change (newFlags oldFlags : Bool) (newBase oldBase : Prim) (newSyms oldSyms : List (Nat × Int)) :
    (newFlags ≠ oldFlags → enumSev newFlags newBase newSyms oldFlags oldBase oldSyms = .err) ∧
    (newBase ≠ oldBase → enumSev newFlags newBase newSyms oldFlags oldBase oldSyms = .err) ∧
    (∀ e ∈ oldSyms, lookupSym newSyms e.1 = none → enumSev newFlags newBase newSyms oldFlags oldBase oldSyms = .err) ∧
    (∀ e ∈ oldSyms, ∀ v, lookupSym newSyms e.1 = some v → v ≠ e.2 → enumSev newFlags newBase newSyms oldFlags oldBase oldSyms = .err) := by
  refine ⟨?_, ?_, ?_, ?_⟩
  · intro h; simp [enumSev, h]
  · intro h; simp [enumSev, enumBreaks, h]
  · intro e he hl
    have : (oldSyms.any fun e => (lookupSym newSyms e.1).isNone) = true := by
      simp only [List.any_eq_true]; exact ⟨e, he, by simp [hl]⟩
    simp [enumSev, enumBreaks, this]
  · intro e he v hl hne
    unfold enumSev enumBreaks
    simp
    intro _ _ _
    exact ⟨e.1, e.2, he, by simp [hl, hne]⟩

/-- and adding symbols only is accepted silently -/
theorem enum_symbols_added_is_silent (fl : Bool) (base : Prim) (newSyms oldSyms : List (Nat × Int))
    (hkept : ∀ e ∈ oldSyms, lookupSym newSyms e.1 = some e.2) : enumSev fl base newSyms fl base oldSyms = .ok := by
  unfold enumSev enumBreaks
  have h1 : (oldSyms.any fun e => (lookupSym newSyms e.1).isNone) = false := by
    simp only [List.any_eq_false]; intro e he; simp [hkept e he]
  simp [h1]
  intro x x1 hx
  simp [hkept (x, x1) hx]

/-- changing a scalar into a vector or an array of it, or back, is rejected -/
theorem scalar_to_vector_or_array_rejected (fuel : Nat) (t : ETy) (hs : plainScalar t = true) (l : Option Nat) (k : ArrKind) :
    cmp (fuel + 1) (.vector t l) t = .error ∧ cmp (fuel + 1) t (.vector t l) = .error ∧
    cmp (fuel + 1) (.array t k) t = .error ∧ cmp (fuel + 1) t (.array t k) = .error := by
  cases t <;> simp [plainScalar, isDim, isScalarGen] at hs <;> simp [cmp]

theorem argsChange_length : ∀ (f : ETy → ETy → Cls) (a b : List (Nat × ETy)), a.length ≠ b.length → argsChange f a b = none
  | _, [], [], h => by simp at h
  | _, [], _ :: _, _ => rfl
  | _, _ :: _, [], _ => rfl
  | f, x :: a, y :: b, h => by
    have ih := argsChange_length f a b (by simpa using h)
    simp only [argsChange, ih]
    split <;> rfl

/-- a different number of type arguments is rejected -/
theorem type_argument_count_change_rejected (fuel : Nat) (n : Nat) (as as' b b' : EFields) (h : as.toList.length ≠ as'.toList.length) :
    cmp (fuel + 1) (.inst n as b) (.inst n as' b') = .error := by
  simp [cmp, argsChange_length (cmp fuel) as.toList as'.toList h]

/-- a changed type argument (anything but the same type, or the same definition changed compatibly) is rejected -/
theorem type_argument_change_rejected (fuel : Nat) (n : Nat) (a a' : ETy) (b b' : EFields)
    (h : (cmp fuel a a').matches = false) :
    cmp (fuel + 1) (.inst n (.cons 0 a .nil) b) (.inst n (.cons 0 a' .nil) b') = .error := by
  simp [cmp, EFields.toList, argsChange, h]

theorem anyCase_of_mem (g : ETy → Cls) : ∀ (l : List (Option ETy)) (t : ETy), some t ∈ l → (g t).matches = true → anyCase g l = true
  | [], _, h, _ => by simp at h
  | none :: r, t, h, hm => by
    simp only [List.mem_cons, reduceCtorEq, false_or] at h
    simp [anyCase, anyCase_of_mem g r t h hm]
  | some u :: r, t, h, hm => by
    simp only [List.mem_cons, Option.some.injEq] at h
    rcases h with rfl | h
    · simp [anyCase, hm]
    · simp [anyCase, anyCase_of_mem g r t h hm]

/-- an optional type becomes a union with a null case that still holds the type, or the reverse: a warning -/
theorem optional_union_interchange (fuel : Nat) (t : ETy) (rest : List (Option ETy)) (hw : wfT t = true) (h : depth t ≤ fuel)
    (hmem : some t ∈ rest) :
    cmp (fuel + 1) (.optional t) (.union (casesOfList (none :: rest))) = .warn ∧
    cmp (fuel + 1) (.union (casesOfList (none :: rest))) (.optional t) = .warn := by
  have hself := cmp_self fuel t hw h
  have h1 := anyCase_of_mem (fun c => cmp fuel t c) rest t hmem (by simp [hself, Cls.matches])
  have h2 := anyCase_of_mem (fun c => cmp fuel c t) rest t hmem (by simp [hself, Cls.matches])
  constructor <;> simp [cmp, h1, h2]

/-! ### unions: cases reordered -/

/-- cases at different positions never match one another (the validator rejects duplicate case types) -/
def NoCross (f : ETy → ETy → Cls) (olds : List (Option ETy)) : Prop :=
  ∀ (i j : Nat) (a b : Option ETy), olds[i]? = some a → olds[j]? = some b → i ≠ j → (cmpCase f a b).matches = false

theorem findMatch_at (f : ETy → ETy → Cls) (c : Option ETy) (hc : cmpCase f c c = .same) :
    ∀ (olds : List (Option ETy)) (om : List Bool) (j base : Nat), om.length = olds.length → olds[j]? = some c →
      om[j]? = some false →
      (∀ k, k < j → ∀ o, olds[k]? = some o → om[k]? = some true ∨ (cmpCase f c o).matches = false) →
      findMatch f c olds om base = some (base + j, .same)
  | [], _, j, _, _, h, _, _ => by simp at h
  | _ :: _, [], _, _, hl, _, _, _ => by simp at hl
  | o :: os, m :: ms, 0, base, _, ho, hm, _ => by
    simp only [List.getElem?_cons_zero, Option.some.injEq] at ho hm
    subst ho; subst hm
    simp [findMatch, hc, Cls.matches]
  | o :: os, m :: ms, j + 1, base, hl, ho, hm, hk => by
    simp only [List.getElem?_cons_succ] at ho hm
    have ih := findMatch_at f c hc os ms j (base + 1) (by simpa using hl) ho hm
      (fun k hkj o' ho' => by simpa using hk (k + 1) (by omega) o' (by simpa using ho'))
    have h0 := hk 0 (by omega) o (by simp)
    simp only [List.getElem?_cons_zero, Option.some.injEq] at h0
    have e : base + 1 + j = base + (j + 1) := by omega
    rcases h0 with h0 | h0
    · simp only [findMatch, h0, if_true, ih, e]
    · cases m with
      | true => simp only [findMatch, if_true, ih, e]
      | false => simp only [findMatch, Bool.false_eq_true, if_false, h0, ih, e]

theorem setTrue_length : ∀ (l : List Bool) (j : Nat), (setTrue l j).length = l.length
  | [], _ => rfl
  | _ :: _, 0 => rfl
  | _ :: r, j + 1 => by simp [setTrue, setTrue_length r j]

theorem setTrue_get : ∀ (l : List Bool) (j k : Nat), j < l.length →
    (setTrue l j)[k]? = if k = j then some true else l[k]?
  | [], _, _, h => by simp at h
  | _ :: r, 0, k, _ => by
    cases k with
    | zero => simp [setTrue]
    | succ k => simp [setTrue]
  | b :: r, j + 1, k, h => by
    cases k with
    | zero => simp [setTrue]
    | succ k =>
      have := setTrue_get r j k (by simpa using h)
      simp only [setTrue, List.getElem?_cons_succ, this]
      by_cases hkj : k = j <;> simp [hkj]

theorem all_true_of_get (l : List Bool) (h : ∀ j, j < l.length → l[j]? = some true) : l.all id = true := by
  simp only [List.all_eq_true, id]
  intro b hb
  obtain ⟨j, hj⟩ := List.getElem?_of_mem hb
  have hlt : j < l.length := by
    rcases Nat.lt_or_ge j l.length with h' | h'
    · exact h'
    · simp [List.getElem?_eq_none h'] at hj
  have := h j hlt
  rw [hj] at this
  simpa using this

/-- the greedy matching on a permutation: every case finds its own counterpart -/
theorem unionLoop_perm (f : ETy → ETy → Cls) (olds : List (Option ETy)) (hnd : olds.Nodup) (hnc : NoCross f olds)
    (hself : ∀ x ∈ olds, cmpCase f x x = .same) :
    ∀ (R P : List (Option ETy)) (st : UState), (P ++ R).Nodup → (∀ x ∈ P ++ R, x ∈ olds) →
      st.oldMatches.length = olds.length →
      (∀ (j : Nat) (o : Option ETy), olds[j]? = some o → (st.oldMatches[j]? = some true ↔ o ∈ P)) →
      st.newMatches = List.replicate P.length true → st.defsChanged = false →
      (unionLoop f olds R P.length st).newMatches = List.replicate (P.length + R.length) true ∧
      (∀ (j : Nat) (o : Option ETy), olds[j]? = some o → ((unionLoop f olds R P.length st).oldMatches[j]? = some true ↔ o ∈ P ++ R)) ∧
      (unionLoop f olds R P.length st).oldMatches.length = olds.length ∧
      (unionLoop f olds R P.length st).defsChanged = false
  | [], P, st, _, _, hl, hom, hnm, hdc => by
    simp only [unionLoop, List.append_nil, List.length_nil, Nat.add_zero]
    exact ⟨hnm, hom, hl, hdc⟩
  | c :: R, P, st, hnd2, hsub, hl, hom, hnm, hdc => by
    have hcmem : c ∈ olds := hsub c (by simp)
    obtain ⟨j, hj⟩ := List.getElem?_of_mem hcmem
    have hjlt : j < olds.length := by
      rcases Nat.lt_or_ge j olds.length with h' | h'
      · exact h'
      · simp [List.getElem?_eq_none h'] at hj
    have hcP : c ∉ P := by
      have := List.nodup_append.mp hnd2
      intro hp
      exact this.2.2 c hp c (by simp) rfl
    have homj : st.oldMatches[j]? = some false := by
      have hlt' : j < st.oldMatches.length := by omega
      cases hb : st.oldMatches[j]? with
      | none => simp [List.getElem?_eq_none_iff] at hb; omega
      | some b =>
        cases b with
        | false => rfl
        | true => exact absurd ((hom j c hj).mp hb) hcP
    have hfm := findMatch_at f c (hself c hcmem) olds st.oldMatches j 0 hl hj homj
      (fun k hk o ho => Or.inr (hnc j k c o hj ho (by omega)))
    simp only [Nat.zero_add] at hfm
    have hstep := unionLoop_perm f olds hnd hnc hself R (P ++ [c])
      { oldMatches := setTrue st.oldMatches j, newMatches := true :: st.newMatches,
        reordered := st.reordered || P.length != j, defsChanged := st.defsChanged || Cls.same == Cls.defChanged }
      (by simpa [List.append_assoc] using hnd2) (by simpa [List.append_assoc] using hsub)
      (by simp [setTrue_length, hl])
      (by
        intro k o ho
        simp only [setTrue_get st.oldMatches j k (by omega)]
        by_cases hkj : k = j
        · subst hkj
          have : o = c := by rw [hj] at ho; exact (Option.some.inj ho).symm
          simp [this]
        · simp only [hkj, if_false, List.mem_append, List.mem_singleton]
          have hne : o ≠ c := by
            intro he
            subst he
            have hklt : k < olds.length := by
              rcases Nat.lt_or_ge k olds.length with h' | h'
              · exact h'
              · simp [List.getElem?_eq_none h'] at ho
            exact hkj ((List.getElem?_inj hklt hnd).mp (ho.trans hj.symm))
          rw [hom k o ho]
          constructor
          · intro h; exact Or.inl h
          · intro h; rcases h with h | h
            · exact h
            · exact absurd h hne)
      (by simp [hnm, List.replicate_succ])
      (by simp [hdc])
    simp only [List.length_append, List.length_cons, List.length_nil, Nat.zero_add, List.append_assoc, List.singleton_append] at hstep
    simp only [unionLoop, hfm, List.length_cons]
    have e : P.length + (R.length + 1) = P.length + 1 + R.length := by omega
    rw [e]
    exact hstep

/-- reordering the cases of a union emits no message (documented: compatible), whatever the permutation -/
theorem union_cases_reordered (f : ETy → ETy → Cls) (news olds : List (Option ETy)) (hp : news.Perm olds) (hne : olds ≠ [])
    (hnd : olds.Nodup) (hnc : NoCross f olds) (hself : ∀ x ∈ olds, cmpCase f x x = .same) :
    (unionChange f news olds).sev = .ok := by
  have hndn : news.Nodup := hp.symm.nodup hnd
  have h := unionLoop_perm f olds hnd hnc hself news [] ⟨olds.map fun _ => false, [], false, false⟩
    (by simpa using hndn) (by intro x hx; exact hp.mem_iff.mp (by simpa using hx)) (by simp)
    (by
      intro j o ho
      have hlt : j < olds.length := by
        rcases Nat.lt_or_ge j olds.length with h' | h'
        · exact h'
        · simp [List.getElem?_eq_none h'] at ho
      simp [List.getElem?_map, ho]) rfl rfl
  simp only [List.length_nil, Nat.zero_add, List.nil_append] at h
  obtain ⟨hnm, hom, hlen, hdc⟩ := h
  have hlenn : news.length = olds.length := hp.length_eq
  have hpos : 0 < news.length := by rw [hlenn]; exact List.length_pos_iff.mpr hne
  have hany : (unionLoop f olds news 0 ⟨olds.map fun _ => false, [], false, false⟩).newMatches.any id = true := by
    rw [hnm]
    cases hn : news.length with
    | zero => omega
    | succ m => simp [List.replicate_succ]
  have hall1 : (unionLoop f olds news 0 ⟨olds.map fun _ => false, [], false, false⟩).newMatches.all id = true := by
    rw [hnm]; simp
  have hall2 : (unionLoop f olds news 0 ⟨olds.map fun _ => false, [], false, false⟩).oldMatches.all id = true := by
    apply all_true_of_get
    intro j hj
    rw [hlen] at hj
    have ho : olds[j]? = some olds[j] := List.getElem?_eq_getElem hj
    exact (hom j olds[j] ho).mpr (hp.mem_iff.mpr (List.getElem_mem hj))
  unfold unionChange
  simp only [hany, hall1, hall2, Bool.not_true, Bool.false_eq_true, if_false, Bool.and_self, hdc, Bool.or_false]
  split <;> rfl

end Yardl.Evo
