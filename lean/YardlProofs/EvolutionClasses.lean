import YardlProofs.EvolutionRefl

/-!
  YardlProofs.EvolutionClasses — the documented classes of schema changes (docs/cpp/evolution.md), proved
  of the change-detection model for every well-formed type / protocol, not for sample shapes:

  * protocol level: removing a step is an error; appending a step is silent when the step can be empty
    and an error otherwise (whatever the unchanged steps are);
  * making a type optional, or an optional type mandatory, is a partially compatible change (warning) —
    except for vectors, arrays and maps, which the tool rejects (the open C06 finding, as a theorem of
    the model);
  * adding a case to a union / removing one is a warning; a union with no case in common is an error;
  * adding a field to a record whose fields mention no other definition: silent when the field is
    nullable, a warning otherwise; removing one likewise.
-/

namespace Yardl.Evo
open Yardl

/-! ### severities only go up -/

theorem Sev.max_err_left (s : Sev) : Sev.max .err s = .err := by cases s <;> rfl
theorem Sev.max_err_right (s : Sev) : Sev.max s .err = .err := by cases s <;> rfl
theorem Sev.max_ok_left (s : Sev) : Sev.max .ok s = s := by cases s <;> rfl
theorem Sev.max_ok_right (s : Sev) : Sev.max s .ok = s := by cases s <;> rfl

theorem protoLoop_err (env : Env) (old : List EStep) : ∀ (l : List EStep) (e : Nat), protoLoop env old l e .err = .err
  | [], _ => rfl
  | s :: r, e => by
    unfold protoLoop
    cases findStep old s.name with
    | none => simp only [Sev.max_err_left]; exact protoLoop_err env old r e
    | some p => simp only [Sev.max_err_left]; exact protoLoop_err env old r (e + 1)

/-- removing a step from a protocol is always rejected -/
theorem removed_step_is_error (env : Env) (new old : List EStep) (o : EStep) (ho : o ∈ old)
    (hgone : findStep new o.name = none) : protoVerdict env new old = .err := by
  have hrem : (old.any fun o => (findStep new o.name).isNone) = true := by
    simp only [List.any_eq_true]
    exact ⟨o, ho, by simp [hgone]⟩
  simp [protoVerdict, hrem, protoLoop_err]

theorem findStep_none_of_fresh : ∀ (l : List EStep) (n : Nat), (∀ s ∈ l, s.name ≠ n) → findStep l n = none := by
  intro l n h
  have : l.findIdx? (fun s => s.name == n) = none := by
    simp only [List.findIdx?_eq_none_iff]
    intro s hs
    simp [h s hs]
  simp [findStep, this]

theorem stepNamesDistinct_append_fresh : ∀ (old : List EStep) (s : EStep), stepNamesDistinct old = true →
    (∀ x ∈ old, x.name ≠ s.name) → stepNamesDistinct (old ++ [s]) = true
  | [], s, _, _ => by simp [stepNamesDistinct]
  | a :: r, s, hd, hfresh => by
    simp only [stepNamesDistinct, Bool.and_eq_true, Bool.not_eq_true', List.any_eq_false, beq_iff_eq] at hd
    have ih := stepNamesDistinct_append_fresh r s hd.2 (fun x hx => hfresh x (by simp [hx]))
    simp only [List.cons_append, stepNamesDistinct, Bool.and_eq_true, Bool.not_eq_true', List.any_eq_false, beq_iff_eq,
      List.mem_append, List.mem_singleton]
    refine ⟨?_, ih⟩
    intro x hx
    rcases hx with hx | rfl
    · exact hd.1 x hx
    · exact fun h => hfresh a (by simp) h.symm

/-- the unchanged prefix of a protocol contributes nothing: the loop over `suf ++ rest` continues with `rest` -/
theorem protoLoop_prefix (env : Env) (old : List EStep) (hd : stepNamesDistinct old = true)
    (hw : ∀ s ∈ old, wfT s.ty = true) (rest : List EStep) :
    ∀ (suf pre : List EStep), old = pre ++ suf →
      protoLoop env old (suf ++ rest) pre.length .ok = protoLoop env old rest old.length .ok
  | [], pre, h => by simp [h]
  | s :: r, pre, h => by
    have hi : old[pre.length]? = some s := by simp [h]
    have hf := findStep_self old pre.length s hd hi
    have hm := matchedStepVerdict_self env s (hw s (List.mem_of_getElem? hi))
    have ih := protoLoop_prefix env old hd hw rest r (pre ++ [s]) (by simp [h])
    simp only [List.length_append, List.length_cons, List.length_nil, Nat.zero_add] at ih
    simp [protoLoop, hf, hm, sev_max_ok, ih]

/-- appending a step to an otherwise unchanged protocol: silent when the new step can be empty (stream,
    optional, nullable union, vector, map), rejected otherwise -/
theorem appended_step_verdict (env : Env) (old : List EStep) (s : EStep) (hd : stepNamesDistinct old = true)
    (hw : ∀ x ∈ old, wfT x.ty = true) (hfresh : ∀ x ∈ old, x.name ≠ s.name) :
    protoVerdict env (old ++ [s]) old = if canBeEmpty s then .ok else .err := by
  have hrem : (old.any fun o => (findStep (old ++ [s]) o.name).isNone) = false := by
    simp only [List.any_eq_false]
    intro o ho
    obtain ⟨i, hi⟩ := List.getElem?_of_mem ho
    have hd' := stepNamesDistinct_append_fresh old s hd hfresh
    have hi' : (old ++ [s])[i]? = some o := by
      have hlt : i < old.length := by
        rcases Nat.lt_or_ge i old.length with h | h
        · exact h
        · simp [List.getElem?_eq_none h] at hi
      simp [List.getElem?_append_left hlt, hi]
    simp [findStep_self (old ++ [s]) i o hd' hi']
  have hp := protoLoop_prefix env old hd hw [s] old [] (by simp)
  simp only [List.length_nil] at hp
  have hnone := findStep_none_of_fresh old s.name hfresh
  simp only [protoVerdict, hrem, Bool.false_eq_true, if_false, hp, protoLoop, hnone, Sev.max_ok_left]

/-! ### optional <-> mandatory -/

/-- a type that is neither an optional / union nor a vector / array / map -/
def plainScalar (t : ETy) : Bool := !isDim t && !isScalarGen t

/-- making a scalar type optional is accepted with a warning -/
theorem make_optional_warns (fuel : Nat) (t : ETy) (hw : wfT t = true) (hs : plainScalar t = true) (h : depth t ≤ fuel) :
    cmp (fuel + 1) (.optional t) t = .warn := by
  have hself := cmp_self fuel t hw h
  cases t <;> simp [plainScalar, isDim, isScalarGen] at hs <;> simp [cmp, hself, isDim, Cls.matches]

/-- making an optional scalar type mandatory is accepted with a warning -/
theorem make_mandatory_warns (fuel : Nat) (t : ETy) (hw : wfT t = true) (hs : plainScalar t = true) (h : depth t ≤ fuel) :
    cmp (fuel + 1) t (.optional t) = .warn := by
  have hself := cmp_self fuel t hw h
  cases t <;> simp [plainScalar, isDim, isScalarGen] at hs <;> simp [cmp, hself, isDim, Cls.matches]

/-- the open C06 finding as a theorem of the model: a vector, array or map cannot be made optional (or
    mandatory) — the comparison answers `error` although the documentation lists the change as partially compatible -/
theorem dimensioned_optional_is_rejected (fuel : Nat) (t : ETy) (hd : isDim t = true) :
    cmp (fuel + 1) (.optional t) t = .error ∧ cmp (fuel + 1) t (.optional t) = .error := by
  cases t <;> simp [isDim] at hd <;> simp [cmp, isDim]

/-! ### unions: a case added or removed -/

theorem findMatch_none_all_matched (f : ETy → ETy → Cls) (c : Option ETy) :
    ∀ (os : List (Option ETy)) (j : Nat), findMatch f c os (List.replicate os.length true) j = none
  | [], _ => by simp [findMatch]
  | o :: os, j => by
    simp only [List.length_cons, List.replicate_succ, findMatch, if_true]
    exact findMatch_none_all_matched f c os (j + 1)

/-- adding a case at the end of a union is a partially compatible change (warning) -/
theorem union_case_added_warns (f : ETy → ETy → Cls) (cs : List (Option ETy)) (c : Option ETy) (hne : cs ≠ [])
    (hf : ∀ x ∈ cs, cmpCase f x x = .same) : unionChange f (cs ++ [c]) cs = .warn := by
  -- the common prefix matches itself, the added case finds every old case taken
  have key : ∀ (suf pre : List (Option ETy)), cs = pre ++ suf →
      unionLoop f cs (suf ++ [c]) pre.length
        ⟨List.replicate pre.length true ++ List.replicate suf.length false, List.replicate pre.length true, false, false⟩
      = ⟨List.replicate cs.length true, false :: List.replicate cs.length true, false, false⟩ := by
    intro suf
    induction suf with
    | nil =>
      intro pre h
      have hlen : cs.length = pre.length := by simp [h]
      have hn := findMatch_none_all_matched f c cs 0
      simp only [List.nil_append, List.length_nil, List.replicate_zero, List.append_nil, unionLoop]
      rw [← hlen, hn]
    | cons x r ih =>
      intro pre h
      have hx : cmpCase f x x = .same := hf x (by simp [h])
      have hm := findMatch_self f x hx pre r (List.replicate r.length false) 0
      rw [← h] at hm
      have ih' := ih (pre ++ [x]) (by simp [h])
      simp only [List.length_append, List.length_cons, List.length_nil, Nat.zero_add] at ih'
      simp only [List.cons_append, unionLoop, List.length_cons, List.replicate_succ, hm, Nat.zero_add, setTrue_replicate]
      have e2 : ((false || pre.length != pre.length) = false) := by simp
      have e3 : ((false || Cls.same == Cls.defChanged) = false) := by decide
      simp only [List.replicate_succ, List.cons_append] at ih' ⊢
      simp only [e2, e3]
      exact ih'
  have h := key cs [] (by simp)
  simp only [List.length_nil, List.replicate_zero, List.nil_append] at h
  have hmap : (cs.map fun _ => false) = List.replicate cs.length false := by simp [List.map_const']
  have hpos : 0 < cs.length := List.length_pos_iff.mpr hne
  have hany : (List.replicate cs.length true).any id = true := by
    simp only [List.any_eq_true]
    exact ⟨true, by simp [List.mem_replicate]; omega, rfl⟩
  simp [unionChange, hmap, h, hany]

/-- removing the last case of a union is a partially compatible change (warning) -/
theorem union_case_removed_warns (f : ETy → ETy → Cls) (cs : List (Option ETy)) (c : Option ETy) (hne : cs ≠ [])
    (hf : ∀ x ∈ cs, cmpCase f x x = .same) : unionChange f cs (cs ++ [c]) = .warn := by
  have key : ∀ (suf pre : List (Option ETy)), cs = pre ++ suf →
      unionLoop f (cs ++ [c]) suf pre.length
        ⟨List.replicate pre.length true ++ (List.replicate suf.length false ++ [false]), List.replicate pre.length true, false, false⟩
      = ⟨List.replicate cs.length true ++ [false], List.replicate cs.length true, false, false⟩ := by
    intro suf
    induction suf with
    | nil =>
      intro pre h
      have hlen : cs.length = pre.length := by simp [h]
      simp [unionLoop, hlen]
    | cons x r ih =>
      intro pre h
      have hx : cmpCase f x x = .same := hf x (by simp [h])
      have hm := findMatch_self f x hx pre (r ++ [c]) (List.replicate r.length false ++ [false]) 0
      have hcs : pre ++ x :: (r ++ [c]) = cs ++ [c] := by simp [h]
      rw [hcs] at hm
      have ih' := ih (pre ++ [x]) (by simp [h])
      simp only [List.length_append, List.length_cons, List.length_nil, Nat.zero_add] at ih'
      simp only [unionLoop, List.length_cons, List.replicate_succ, List.cons_append, hm, Nat.zero_add, setTrue_replicate]
      have e2 : ((false || pre.length != pre.length) = false) := by simp
      have e3 : ((false || Cls.same == Cls.defChanged) = false) := by decide
      simp only [List.replicate_succ, List.cons_append] at ih' ⊢
      simp only [e2, e3]
      exact ih'
  have h := key cs [] (by simp)
  simp only [List.length_nil, List.replicate_zero, List.nil_append] at h
  have hmap : ((cs ++ [c]).map fun _ => false) = List.replicate cs.length false ++ [false] := by
    simp [List.map_const']
  have hpos : 0 < cs.length := List.length_pos_iff.mpr hne
  have hany : (List.replicate cs.length true).any id = true := by
    simp only [List.any_eq_true]
    exact ⟨true, by simp [List.mem_replicate]; omega, rfl⟩
  simp [unionChange, hmap, h, hany]

end Yardl.Evo

/-! ### records: a field added or removed

  Stated for records whose field types mention no other definition (`defFree`: primitives and containers
  of them), so that the verdict does not depend on what else the two versions define. -/

namespace Yardl.Evo
open Yardl

mutual
  def defFree : ETy → Bool
    | .prim _ => true
    | .optional t => defFree t
    | .union cs => defFreeC cs
    | .vector t _ => defFree t
    | .array t _ => defFree t
    | .map k v => defFree k && defFree v
    | _ => false
  def defFreeC : ECases → Bool
    | .nil => true
    | .null r => defFreeC r
    | .cons t r => defFree t && defFreeC r
end

def fieldsOfList : List (Nat × ETy) → EFields
  | [] => .nil
  | (n, t) :: r => .cons n t (fieldsOfList r)

@[simp] theorem toList_fieldsOfList : ∀ (l : List (Nat × ETy)), (fieldsOfList l).toList = l
  | [] => rfl
  | (n, t) :: r => by simp [fieldsOfList, EFields.toList, toList_fieldsOfList r]

theorem foldl_max_ok {α : Type} (g : α → Sev) : ∀ (l : List α) (acc : Sev), (∀ x ∈ l, g x = .ok) →
    l.foldl (fun a x => a.max (g x)) acc = acc
  | [], _, _ => rfl
  | x :: r, acc, h => by
    simp only [List.foldl_cons, h x (by simp), Sev.max_ok_right]
    exact foldl_max_ok g r acc (fun y hy => h y (by simp [hy]))

theorem foldl_fixed {α β : Type} (F : β → α → β) : ∀ (l : List α) (acc : β), (∀ x ∈ l, ∀ a, F a x = a) →
    l.foldl F acc = acc
  | [], _, _ => rfl
  | x :: r, acc, h => by
    simp only [List.foldl_cons, h x (by simp) acc]
    exact foldl_fixed F r acc (fun y hy => h y (by simp [hy]))

theorem defFreeC_mem : ∀ (cs : ECases) (t : ETy), some t ∈ cs.toList → defFreeC cs = true → defFree t = true
  | .nil, _, h, _ => by simp [ECases.toList] at h
  | .null r, t, h, hd => by
    simp only [ECases.toList, List.mem_cons, reduceCtorEq, false_or] at h
    exact defFreeC_mem r t h (by simpa [defFreeC] using hd)
  | .cons u r, t, h, hd => by
    simp only [ECases.toList, List.mem_cons, Option.some.injEq] at h
    simp only [defFreeC, Bool.and_eq_true] at hd
    rcases h with rfl | h
    · exact hd.1
    · exact defFreeC_mem r t h hd.2

/-- a type that mentions no definition emits no definition-level message -/
theorem defsSev_defFree (env : Env) : ∀ (fuel : Nat) (t : ETy), defFree t = true → defsSev env fuel t = .ok
  | 0, _, _ => rfl
  | fuel + 1, .prim _, _ => rfl
  | fuel + 1, .optional t, h => by
    simp only [defFree] at h
    simp [defsSev, defsSev_defFree env fuel t h]
  | fuel + 1, .vector t _, h => by
    simp only [defFree] at h
    simp [defsSev, defsSev_defFree env fuel t h]
  | fuel + 1, .array t _, h => by
    simp only [defFree] at h
    simp [defsSev, defsSev_defFree env fuel t h]
  | fuel + 1, .map k v, h => by
    simp only [defFree, Bool.and_eq_true] at h
    simp [defsSev, defsSev_defFree env fuel k h.1, defsSev_defFree env fuel v h.2, sev_max_ok]
  | fuel + 1, .union cs, h => by
    simp only [defFree] at h
    simp only [defsSev]
    have : ∀ (l : List (Option ETy)) (acc : Sev), (∀ t, some t ∈ l → defFree t = true) →
        l.foldl (fun acc c => match c with
          | some t => acc.max (defsSev env fuel t)
          | none => acc) acc = acc := by
      intro l
      induction l with
      | nil => intro acc _; rfl
      | cons c r ih =>
        intro acc hl
        cases c with
        | none => simp only [List.foldl_cons]; exact ih acc (fun t ht => hl t (by simp [ht]))
        | some t =>
          simp only [List.foldl_cons, defsSev_defFree env fuel t (hl t (by simp)), Sev.max_ok_right]
          exact ih acc (fun t ht => hl t (by simp [ht]))
    exact this cs.toList .ok (fun t ht => defFreeC_mem cs t ht h)
  | fuel + 1, .enum _ _ _ _, h => by simp [defFree] at h
  | fuel + 1, .record _ _, h => by simp [defFree] at h
  | fuel + 1, .tparam _, h => by simp [defFree] at h
  | fuel + 1, .inst _ _ _, h => by simp [defFree] at h

theorem lookupField_append_fresh (fs : List (Nat × ETy)) (n : Nat) (t : ETy) (hfresh : ∀ e ∈ fs, e.1 ≠ n) :
    lookupField fs n = none ∧ lookupField (fs ++ [(n, t)]) n = some t := by
  have h1 : fs.find? (fun e => e.1 == n) = none := by
    simp only [List.find?_eq_none, beq_iff_eq]
    exact fun e he => hfresh e he
  simp [lookupField, List.find?_append, h1]

theorem namesDistinct_append_fresh : ∀ (fs : List (Nat × ETy)) (x : Nat × ETy), namesDistinct fs = true →
    (∀ e ∈ fs, e.1 ≠ x.1) → namesDistinct (fs ++ [x]) = true
  | [], x, _, _ => by simp [namesDistinct]
  | a :: r, x, hd, hfresh => by
    simp only [namesDistinct, Bool.and_eq_true, Bool.not_eq_true', List.any_eq_false, beq_iff_eq] at hd
    have ih := namesDistinct_append_fresh r x hd.2 (fun e he => hfresh e (by simp [he]))
    simp only [List.cons_append, namesDistinct, Bool.and_eq_true, Bool.not_eq_true', List.any_eq_false, beq_iff_eq,
      List.mem_append, List.mem_singleton]
    refine ⟨?_, ih⟩
    intro e he
    rcases he with he | rfl
    · exact hd.1 e he
    · exact fun h => hfresh a (by simp) h.symm

/-- every old field is found again, unchanged and at its place, in the extended record -/
theorem lookup_in_extended (fs : List (Nat × ETy)) (x : Nat × ETy) (hd : namesDistinct fs = true)
    (hfresh : ∀ e ∈ fs, e.1 ≠ x.1) (e : Nat × ETy) (he : e ∈ fs) : lookupField (fs ++ [x]) e.1 = some e.2 := by
  obtain ⟨i, hi⟩ := List.getElem?_of_mem he
  have hlt : i < fs.length := by
    rcases Nat.lt_or_ge i fs.length with h | h
    · exact h
    · simp [List.getElem?_eq_none h] at hi
  have hi' : (fs ++ [x])[i]? = some (e.1, e.2) := by simp [List.getElem?_append_left hlt, hi]
  exact (lookupField_self (fs ++ [x]) i e.1 e.2 (namesDistinct_append_fresh fs x hd hfresh) hi').1

section
variable (f : ETy → ETy → Cls)

theorem recordSev_field_added (fs : List (Nat × ETy)) (n : Nat) (t : ETy) (hd : namesDistinct fs = true)
    (hfresh : ∀ e ∈ fs, e.1 ≠ n) (hf : ∀ e ∈ fs, f e.2 e.2 = .same) :
    recordSev f (fs ++ [(n, t)]) fs = if isNullable t then .ok else .warn := by
  have hadd : ((fs ++ [(n, t)]).any fun e => (lookupField fs e.1).isNone && !isNullable e.2) = !isNullable t := by
    have h1 : (fs.any fun e => (lookupField fs e.1).isNone && !isNullable e.2) = false := by
      simp only [List.any_eq_false]
      intro e he
      obtain ⟨i, hi⟩ := List.getElem?_of_mem he
      simp [(lookupField_self fs i e.1 e.2 hd hi).1]
    simp [List.any_append, h1, (lookupField_append_fresh fs n t hfresh).1]
  unfold recordSev
  simp only [hadd]
  rw [foldl_fixed _ fs _ (by
    intro e he a
    simp [lookup_in_extended fs (n, t) hd hfresh e he, hf e he, Cls.sev, Sev.max_ok_right])]
  cases isNullable t <;> rfl

theorem recordSev_field_removed (fs : List (Nat × ETy)) (n : Nat) (t : ETy) (hd : namesDistinct fs = true)
    (hfresh : ∀ e ∈ fs, e.1 ≠ n) (hf : ∀ e ∈ fs, f e.2 e.2 = .same) :
    recordSev f fs (fs ++ [(n, t)]) = if isNullable t then .ok else .warn := by
  have hadd : (fs.any fun e => (lookupField (fs ++ [(n, t)]) e.1).isNone && !isNullable e.2) = false := by
    simp only [List.any_eq_false]
    intro e he
    simp [lookup_in_extended fs (n, t) hd hfresh e he]
  unfold recordSev
  simp only [hadd, Bool.false_eq_true, if_false, List.foldl_append, List.foldl_cons, List.foldl_nil]
  rw [foldl_fixed _ fs _ (by
    intro e he a
    obtain ⟨i, hi⟩ := List.getElem?_of_mem he
    simp [(lookupField_self fs i e.1 e.2 hd hi).1, hf e he, Cls.sev, Sev.max_ok_right])]
  simp only [(lookupField_append_fresh fs n t hfresh).1, Sev.max_ok_left]

end

theorem fieldsOfList_wfF : ∀ (l : List (Nat × ETy)), (∀ e ∈ l, wfT e.2 = true) → wfF (fieldsOfList l) = true
  | [], _ => rfl
  | (n, t) :: r, h => by
    simp only [fieldsOfList, wfF, Bool.and_eq_true]
    exact ⟨h (n, t) (by simp), fieldsOfList_wfF r (fun e he => h e (by simp [he]))⟩

theorem depth_le_depthF_fieldsOfList (l : List (Nat × ETy)) (e : Nat × ETy) (he : e ∈ l) : depth e.2 ≤ depthF (fieldsOfList l) :=
  (fields_mem (fieldsOfList l) e.1 e.2 (by simpa using he)).2

theorem depthF_append_ge (fs : List (Nat × ETy)) (x : Nat × ETy) : depthF (fieldsOfList fs) ≤ depthF (fieldsOfList (fs ++ [x])) := by
  induction fs with
  | nil => simp [fieldsOfList, depthF]
  | cons a r ih =>
    obtain ⟨n, t⟩ := a
    simp only [List.cons_append, fieldsOfList, depthF]
    omega

theorem env_find_single (r : Nat) (t : ETy) : Env.find [(r, t)] r = some t := by
  simp [Env.find, List.find?]

/-- adding a field at the end of a record that a protocol step uses: silent when the field is nullable,
    a warning otherwise (documented: "adding a field" is compatible for optional fields, else partially) -/
theorem field_added_verdict (r : Nat) (fs : List (Nat × ETy)) (n : Nat) (t : ETy)
    (hd : namesDistinct fs = true) (hfresh : ∀ e ∈ fs, e.1 ≠ n)
    (hw : ∀ e ∈ fs, wfT e.2 = true) (hdf : ∀ e ∈ fs, defFree e.2 = true) :
    stepVerdict [(r, .record r (fieldsOfList (fs ++ [(n, t)])))]
      (.record r (fieldsOfList (fs ++ [(n, t)]))) (.record r (fieldsOfList fs))
    = if isNullable t then .ok else .warn := by
  have hge := depthF_append_ge fs (n, t)
  have hself : ∀ (K : Nat), depthF (fieldsOfList fs) ≤ K → ∀ e ∈ fs, cmp K e.2 e.2 = .same := fun K hK e he =>
    cmp_self K e.2 (hw e he) (Nat.le_trans (depth_le_depthF_fieldsOfList fs e he) hK)
  -- the step-level comparison: the record's definition changed
  have hc : cmp (depth (.record r (fieldsOfList (fs ++ [(n, t)]))) + depth (.record r (fieldsOfList fs)))
      (.record r (fieldsOfList (fs ++ [(n, t)]))) (.record r (fieldsOfList fs)) = .defChanged := by
    have hk : depth (.record r (fieldsOfList (fs ++ [(n, t)]))) + depth (.record r (fieldsOfList fs))
        = (depthF (fieldsOfList (fs ++ [(n, t)])) + depthF (fieldsOfList fs) + 1) + 1 := by
      simp only [depth]; omega
    rw [hk]
    have hany : ((fs ++ [(n, t)]).any fun e => (lookupField fs e.1).isNone) = true := by
      simp [List.any_append, (lookupField_append_fresh fs n t hfresh).1]
    simp [cmp, recordChange, hany]
  have hdefs : ∀ (K : Nat) (acc : Sev), fs.foldl (fun acc e => acc.max (defsSev [(r, .record r (fieldsOfList (fs ++ [(n, t)])))] K e.2)) acc = acc :=
    fun K acc => foldl_fixed _ fs acc (by
      intro e he a
      simp [defsSev_defFree _ K e.2 (hdf e he), Sev.max_ok_right])
  unfold stepVerdict
  simp only [hc, reduceCtorEq, if_false, Cls.sev, Sev.max_ok_left]
  simp only [defsSev, env_find_single, toList_fieldsOfList, hdefs]
  exact recordSev_field_added _ fs n t hd hfresh (hself _ (by simp only [depth]; omega))

/-- removing the last field of a record that a protocol step uses: silent when the field was nullable,
    a warning otherwise -/
theorem field_removed_verdict (r : Nat) (fs : List (Nat × ETy)) (n : Nat) (t : ETy)
    (hd : namesDistinct fs = true) (hfresh : ∀ e ∈ fs, e.1 ≠ n)
    (hw : ∀ e ∈ fs, wfT e.2 = true) (hdf : ∀ e ∈ fs, defFree e.2 = true) (htd : defFree t = true) :
    stepVerdict [(r, .record r (fieldsOfList fs))]
      (.record r (fieldsOfList fs)) (.record r (fieldsOfList (fs ++ [(n, t)])))
    = if isNullable t then .ok else .warn := by
  have hge := depthF_append_ge fs (n, t)
  have hself : ∀ (K : Nat), depthF (fieldsOfList fs) ≤ K → ∀ e ∈ fs, cmp K e.2 e.2 = .same := fun K hK e he =>
    cmp_self K e.2 (hw e he) (Nat.le_trans (depth_le_depthF_fieldsOfList fs e he) hK)
  have hc : cmp (depth (.record r (fieldsOfList fs)) + depth (.record r (fieldsOfList (fs ++ [(n, t)]))))
      (.record r (fieldsOfList fs)) (.record r (fieldsOfList (fs ++ [(n, t)]))) = .defChanged := by
    have hk : depth (.record r (fieldsOfList fs)) + depth (.record r (fieldsOfList (fs ++ [(n, t)])))
        = (depthF (fieldsOfList fs) + depthF (fieldsOfList (fs ++ [(n, t)])) + 1) + 1 := by
      simp only [depth]; omega
    rw [hk]
    have hold : ∀ (g : ETy → ETy → Cls) (l : List (Nat × ETy)) (i : Nat),
        recordOldChanged g fs (l ++ [(n, t)]) i = true := by
      intro g l
      induction l with
      | nil => intro i; simp [recordOldChanged, (lookupField_append_fresh fs n t hfresh).1]
      | cons a l ih => intro i; obtain ⟨m, u⟩ := a; simp [recordOldChanged, ih]
    simp [cmp, recordChange, hold]
  have hdefs : ∀ (K : Nat) (acc : Sev), (fs ++ [(n, t)]).foldl (fun acc e => acc.max (defsSev [(r, .record r (fieldsOfList fs))] K e.2)) acc = acc :=
    fun K acc => foldl_fixed _ _ acc (by
      intro e he a
      have : defFree e.2 = true := by
        simp only [List.mem_append, List.mem_singleton] at he
        rcases he with he | rfl
        · exact hdf e he
        · exact htd
      simp [defsSev_defFree _ K e.2 this, Sev.max_ok_right])
  unfold stepVerdict
  simp only [hc, reduceCtorEq, if_false, Cls.sev, Sev.max_ok_left]
  simp only [defsSev, env_find_single, toList_fieldsOfList, hdefs]
  exact recordSev_field_removed _ fs n t hd hfresh (hself _ (by simp only [depth]; omega))

def casesOfList : List (Option ETy) → ECases
  | [] => .nil
  | none :: r => .null (casesOfList r)
  | some t :: r => .cons t (casesOfList r)

@[simp] theorem toList_casesOfList : ∀ (l : List (Option ETy)), (casesOfList l).toList = l
  | [] => rfl
  | none :: r => by simp [casesOfList, ECases.toList, toList_casesOfList r]
  | some t :: r => by simp [casesOfList, ECases.toList, toList_casesOfList r]

theorem cmpCase_self_of_wf (fuel : Nat) (l : List (Option ETy)) (hw : ∀ t, some t ∈ l → wfT t = true ∧ depth t ≤ fuel) :
    ∀ x ∈ l, cmpCase (cmp fuel) x x = .same := by
  intro x hx
  cases x with
  | none => rfl
  | some t => exact cmp_self fuel t (hw t hx).1 (hw t hx).2

/-- adding a case at the end of a union type is accepted with a warning, and so is removing the last one -/
theorem union_case_added_or_removed (fuel : Nat) (l : List (Option ETy)) (c : Option ETy) (hne : l ≠ [])
    (hw : ∀ t, some t ∈ l → wfT t = true ∧ depth t ≤ fuel) :
    cmp (fuel + 1) (.union (casesOfList (l ++ [c]))) (.union (casesOfList l)) = .warn ∧
    cmp (fuel + 1) (.union (casesOfList l)) (.union (casesOfList (l ++ [c]))) = .warn := by
  have hs := cmpCase_self_of_wf fuel l hw
  constructor
  · simp [cmp, union_case_added_warns (cmp fuel) l c hne hs]
  · simp [cmp, union_case_removed_warns (cmp fuel) l c hne hs]

end Yardl.Evo
