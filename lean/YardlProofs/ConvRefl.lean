import YardlProofs.EvolutionRefl

/-!
  YardlProofs.ConvRefl — converting a value between two identical well-formed types leaves it unchanged
  (helper lemmas for Props/C05.lean): records field by field, unions through the greedy self-matching.
-/

namespace Yardl.Evo
open Yardl

theorem fitsF_length : ∀ (fs : EFields) (vs : List Val), fitsF fs vs = true → vs.length = fs.toList.length
  | .nil, [], _ => by simp [EFields.toList]
  | .nil, _ :: _, h => by simp [fitsF] at h
  | .cons _ _ _, [], h => by simp [fitsF] at h
  | .cons _ t r, v :: vs, h => by
    simp only [fitsF, Bool.and_eq_true] at h
    simp [EFields.toList, fitsF_length r vs h.2]

theorem fitsF_get : ∀ (fs : EFields) (vs : List Val) (i : Nat) (e : Nat × ETy), fitsF fs vs = true →
    fs.toList[i]? = some e → ∃ v, vs[i]? = some v ∧ fitsT e.2 v = true
  | .nil, _, i, e, _, h => by simp [EFields.toList] at h
  | .cons _ _ _, [], _, _, h, _ => by simp [fitsF] at h
  | .cons n t r, v :: vs, 0, e, h, hi => by
    simp only [EFields.toList, List.getElem?_cons_zero, Option.some.injEq] at hi
    subst hi
    simp only [fitsF, Bool.and_eq_true] at h
    exact ⟨v, by simp, h.1⟩
  | .cons n t r, v :: vs, i + 1, e, h, hi => by
    simp only [EFields.toList, List.getElem?_cons_succ] at hi
    simp only [fitsF, Bool.and_eq_true] at h
    obtain ⟨w, hw, hf⟩ := fitsF_get r vs i e h.2 hi
    exact ⟨w, by simpa using hw, hf⟩

theorem fitsC_get : ∀ (cs : ECases) (j : Nat) (x : Val), fitsC cs j x = true →
    ∃ t, cs.toList[j]? = some (some t) ∧ fitsT t x = true
  | .nil, _, _, h => by simp [fitsC] at h
  | .null r, 0, _, h => by simp [fitsC] at h
  | .null r, j + 1, x, h => by
    simp only [fitsC] at h
    obtain ⟨t, ht, hf⟩ := fitsC_get r j x h
    exact ⟨t, by simpa [ECases.toList] using ht, hf⟩
  | .cons t r, 0, x, h => by
    simp only [fitsC] at h
    exact ⟨t, by simp [ECases.toList], h⟩
  | .cons u r, j + 1, x, h => by
    simp only [fitsC] at h
    obtain ⟨t, ht, hf⟩ := fitsC_get r j x h
    exact ⟨t, by simpa [ECases.toList] using ht, hf⟩

/-- with distinct names, looking a field's value up by name in the zipped list finds the value at the
    field's own position -/
theorem find_zip_of_distinct : ∀ (l : List (Nat × ETy)) (vs : List Val) (i : Nat) (e : Nat × ETy) (v : Val),
    namesDistinct l = true → l[i]? = some e → vs[i]? = some v →
    (l.zip vs).find? (fun x => x.1.1 == e.1) = some (e, v)
  | [], _, i, e, _, _, h, _ => by simp at h
  | _ :: _, [], i, _, _, _, _, h => by simp at h
  | a :: r, w :: ws, 0, e, v, _, h, hv => by
    simp only [List.getElem?_cons_zero, Option.some.injEq] at h hv
    subst h; subst hv
    simp
  | a :: r, w :: ws, i + 1, e, v, hd, h, hv => by
    simp only [List.getElem?_cons_succ] at h hv
    simp only [namesDistinct, Bool.and_eq_true, Bool.not_eq_true', List.any_eq_false, beq_iff_eq] at hd
    have hmem : e ∈ r := List.mem_of_getElem? h
    have hne : ¬ (e.1 = a.1) := hd.1 e hmem
    have hne' : (a.1 == e.1) = false := by
      simp only [beq_eq_false_iff_ne, ne_eq]
      exact fun h => hne h.symm
    have ih := find_zip_of_distinct r ws i e v hd.2 h hv
    simp [hne', ih]

theorem convFields_self (c : ETy → ETy → Val → CRes) (fl : List (Nat × ETy)) (vs : List Val)
    (hd : namesDistinct fl = true)
    (hc : ∀ (i : Nat) (e : Nat × ETy), fl[i]? = some e → ∃ v, vs[i]? = some v ∧ c e.2 e.2 v = .ok v) :
    ∀ (suf pre : List (Nat × ETy)) (acc : List Val), fl = pre ++ suf →
      convFields c (fl.zip vs) suf acc = .ok (.record (acc.reverse ++ (vs.drop pre.length).take suf.length))
  | [], pre, acc, _ => by simp [convFields]
  | (n, dt) :: r, pre, acc, h => by
    have hi : fl[pre.length]? = some (n, dt) := by simp [h]
    obtain ⟨v, hv, hcv⟩ := hc pre.length (n, dt) hi
    have hf := find_zip_of_distinct fl vs pre.length (n, dt) v hd hi hv
    simp only at hf hcv
    have ih := convFields_self c fl vs hd hc r (pre ++ [(n, dt)]) (v :: acc) (by simp [h])
    simp only [List.length_append, List.length_cons, List.length_nil, Nat.zero_add] at ih
    have hdrop : vs.drop pre.length = v :: vs.drop (pre.length + 1) := by
      have hlt : pre.length < vs.length := by
        rcases Nat.lt_or_ge pre.length vs.length with h | h
        · exact h
        · simp [List.getElem?_eq_none h] at hv
      rw [List.drop_eq_getElem_cons hlt]
      simp only [List.getElem?_eq_getElem hlt, Option.some.injEq] at hv
      rw [hv]
    simp [convFields, hf, hcv, ih, hdrop]

/-! ### the greedy matching of a union against itself is the diagonal -/

theorem unionPairsLoop_self (f : ETy → ETy → Cls) (olds : List (Option ETy))
    (hf : ∀ c ∈ olds, cmpCase f c c = .same) :
    ∀ (suf pre : List (Option ETy)) (acc : List (Nat × Nat)), olds = pre ++ suf →
      unionPairsLoop f olds suf pre.length (List.replicate pre.length true ++ List.replicate suf.length false) acc
      = acc.reverse ++ (List.range' pre.length suf.length).map fun k => (k, k)
  | [], pre, acc, _ => by simp [unionPairsLoop]
  | c :: r, pre, acc, h => by
    have hc : cmpCase f c c = .same := hf c (by simp [h])
    have hm := findMatch_self f c hc pre r (List.replicate r.length false) 0
    rw [← h] at hm
    have ih := unionPairsLoop_self f olds hf r (pre ++ [c]) ((pre.length, pre.length) :: acc) (by simp [h])
    simp only [List.length_append, List.length_cons, List.length_nil, Nat.zero_add] at ih
    simp only [unionPairsLoop, List.length_cons, List.replicate_succ, hm, Nat.zero_add, setTrue_replicate]
    have e1 : (true :: List.replicate pre.length true) = List.replicate (pre.length + 1) true := by
      simp [List.replicate_succ]
    simp only [e1, ih, List.reverse_cons, List.append_assoc, List.range'_succ, List.map_cons, List.singleton_append]

theorem unionPairs_self (f : ETy → ETy → Cls) (cs : List (Option ETy))
    (hf : ∀ c ∈ cs, cmpCase f c c = .same) :
    unionPairs f cs cs = (List.range' 0 cs.length).map fun k => (k, k) := by
  have h := unionPairsLoop_self f cs hf cs [] [] (by simp)
  simp only [List.length_nil, List.replicate_zero, List.nil_append, List.reverse_nil] at h
  have hmap : (cs.map fun _ => false) = List.replicate cs.length false := by
    simp [List.map_const']
  simp [unionPairs, hmap, h]

theorem find_diag : ∀ (n s k : Nat), s ≤ k → k < s + n →
    ((List.range' s n).map fun k => (k, k)).find? (fun p => p.2 == k) = some (k, k)
  | 0, s, k, h1, h2 => by omega
  | n + 1, s, k, h1, h2 => by
    rcases Nat.eq_or_lt_of_le h1 with rfl | hlt
    · simp [List.range'_succ]
    · have hne : (s == k) = false := by simp; omega
      have ih := find_diag n (s + 1) k (by omega) (by omega)
      simp [List.range'_succ, hne, ih]

theorem toFull_ofFull (cs : List (Option ETy)) (i : Nat) : ofFull cs (toFull cs i) = i := by
  unfold ofFull toFull
  cases hasNullL cs <;> simp

theorem mapM'_id (g : Val → CRes) : ∀ (vs acc : List Val), (∀ v ∈ vs, g v = .ok v) → mapM' g vs acc = .ok (.list (acc.reverse ++ vs))
  | [], acc, _ => by simp [mapM']
  | v :: r, acc, h => by
    have hv := h v (by simp)
    have := mapM'_id g r (v :: acc) (fun x hx => h x (by simp [hx]))
    simp [mapM', hv, this]

/-- converting between identical well-formed types is the identity on every value of the type -/
theorem conv_self (reading : Bool) : ∀ (fuel : Nat) (t : ETy) (v : Val),
    wfT t = true → fitsT t v = true → depth t ≤ fuel → conv reading fuel t t v = .ok v
  | 0, t, _, _, _, h => by cases t <;> simp [depth] at h
  | fuel + 1, .prim p, v, _, _, _ => by simp [conv, convPrim]
  | fuel + 1, .enum _ _ _ _, v, _, _, _ => by simp [conv]
  | fuel + 1, .array t k, v, _, _, _ => by simp [conv]
  | fuel + 1, .map k w, v, _, _, _ => by simp [conv]
  | fuel + 1, .tparam _, v, _, hf, _ => by simp [fitsT] at hf
  | fuel + 1, .inst _ _ _, v, _, hf, _ => by simp [fitsT] at hf
  | fuel + 1, .optional t, v, hw, hf, h => by
    simp only [wfT] at hw
    cases v <;> simp [fitsT] at hf <;> simp [conv]
    case some x =>
      have := conv_self reading fuel t x hw hf (by simp only [depth] at h; omega)
      simp [this, CRes.map]
  | fuel + 1, .vector t l, v, hw, hf, h => by
    simp only [wfT] at hw
    cases v <;> simp [fitsT] at hf
    case list vs =>
      have hall : ∀ x ∈ vs, conv reading fuel t t x = .ok x := fun x hx =>
        conv_self reading fuel t x hw (hf x hx) (by simp only [depth] at h; omega)
      have := mapM'_id (conv reading fuel t t) vs [] hall
      simp [conv, this]
  | fuel + 1, .record n fs, v, hw, hf, h => by
    simp only [wfT, Bool.and_eq_true] at hw
    simp only [depth] at h
    cases v <;> simp [fitsT] at hf
    case record vs =>
      have hlen := fitsF_length fs vs hf
      have hc : ∀ (i : Nat) (e : Nat × ETy), fs.toList[i]? = some e →
          ∃ v, vs[i]? = some v ∧ conv reading fuel e.2 e.2 v = .ok v := fun i e hi => by
        obtain ⟨v, hv, hfv⟩ := fitsF_get fs vs i e hf hi
        have hm := fields_mem fs e.1 e.2 (List.mem_of_getElem? hi)
        exact ⟨v, hv, conv_self reading fuel e.2 v (hm.1 hw.2) hfv (by omega)⟩
      have := convFields_self (conv reading fuel) fs.toList vs hw.1 hc fs.toList [] [] (by simp)
      simp only [List.length_nil, List.drop_zero, List.reverse_nil, List.nil_append] at this
      rw [← hlen, List.take_length] at this
      simp [conv, this]
  | fuel + 1, .union cs, v, hw, hf, h => by
    simp only [wfT, Bool.and_eq_true, Bool.not_eq_true', List.isEmpty_eq_false_iff] at hw
    simp only [depth] at h
    have hself : ∀ c ∈ cs.toList, cmpCase (fun a b => cmp (depth a + depth b) a b) c c = .same := fun c hc => by
      cases c with
      | none => rfl
      | some t =>
        have := cases_mem cs t hc
        exact cmp_self (depth t + depth t) t (this.1 hw.2) (by omega)
    have hpairs := unionPairs_self (fun a b => cmp (depth a + depth b) a b) cs.toList hself
    have hswap : (List.map (fun p : Nat × Nat => (p.2, p.1)) ((List.range' 0 cs.toList.length).map fun k => (k, k)))
        = (List.range' 0 cs.toList.length).map fun k => (k, k) := by
      simp [List.map_map]
    cases v <;> simp [fitsT] at hf
    case none =>
      simp [conv, hf]
    case case i x =>
      obtain ⟨t, ht, hft⟩ := fitsC_get cs (toFull cs.toList i) x hf
      have hlt : toFull cs.toList i < cs.toList.length := by
        rcases Nat.lt_or_ge (toFull cs.toList i) cs.toList.length with h | h
        · exact h
        · simp [List.getElem?_eq_none h] at ht
      have hfd := find_diag cs.toList.length 0 (toFull cs.toList i) (by omega) (by omega)
      have hm := cases_mem cs t (List.mem_of_getElem? ht)
      have hx := conv_self reading fuel t x (hm.1 hw.2) hft (by omega)
      cases reading <;>
        simp [conv, hpairs, hswap, hfd, ht, hx, CRes.map, toFull_ofFull]

end Yardl.Evo
