import YardlProofs.ConvRefl

/-!
  YardlProofs.ConvClasses — what the generated conversions do between *different* types, for the
  documented partially compatible classes (docs/cpp/evolution.md): a type made optional / mandatory,
  a type that joins / leaves a union, an optional that becomes a union with a null case, vectors whose
  element type changed. Every statement is for all well-formed simple types `t` (primitive, enum,
  record of any depth) and every value of them.
-/

namespace Yardl.Evo
open Yardl

/-- a type that is neither optional, union nor dimensioned (what compareTypes calls a SimpleType) -/
def isSimple : ETy → Bool
  | .prim _ | .enum _ _ _ _ | .record _ _ => true
  | _ => false

/-! ### T ↔ T? -/

/-- `T` read / written where `T?` is expected: the value is present -/
theorem wrap_optional (reading : Bool) (fuel : Nat) (t : ETy) (v : Val)
    (hs : isSimple t = true) (hw : wfT t = true) (hv : fitsT t v = true) (h : depth t ≤ fuel) :
    conv reading (fuel + 1) t (.optional t) v = .ok (.some v) := by
  have hx := conv_self reading fuel t v hw hv h
  cases t <;> simp [isSimple] at hs <;> simp [conv, hx, CRes.map]

/-- `T?` holding a value, read / written where `T` is expected: the value itself -/
theorem unwrap_optional_some (reading : Bool) (fuel : Nat) (t : ETy) (v : Val)
    (hs : isSimple t = true) (hw : wfT t = true) (hv : fitsT t v = true) (h : depth t ≤ fuel) :
    conv reading (fuel + 1) (.optional t) t (.some v) = .ok v := by
  have hx := conv_self reading fuel t v hw hv h
  cases t <;> simp [isSimple] at hs <;> simp [conv, hx]

/-- `T?` holding nothing, read / written where `T` is expected: the zero value of `T` (documented:
    "the default value") -/
theorem unwrap_optional_none (reading : Bool) (fuel : Nat) (t : ETy) (hs : isSimple t = true) :
    conv reading (fuel + 1) (.optional t) t .none = .ok (zero (depth t + 1) t) := by
  cases t <;> simp [isSimple] at hs <;> simp [conv]

/-! ### T ↔ union that has T as a case -/

theorem firstCase_skip (g : ETy → Cls) : ∀ (pre : List (Option ETy)) (rest : List (Option ETy)) (s : Nat),
    (∀ u, some u ∈ pre → (g u).matches = false) →
    firstCase g (pre ++ rest) s = firstCase g rest (s + pre.length)
  | [], rest, s, _ => by simp
  | none :: p, rest, s, h => by
    have := firstCase_skip g p rest (s + 1) (fun u hu => h u (by simp [hu]))
    simp only [List.cons_append, firstCase, this, List.length_cons]
    congr 1; omega
  | some u :: p, rest, s, h => by
    have hu := h u (by simp)
    have := firstCase_skip g p rest (s + 1) (fun u hu => h u (by simp [hu]))
    simp only [List.cons_append, firstCase, hu, this, List.length_cons]
    simp
    congr 1; omega

/-- the first case a type matches, when no earlier case matches it, is the case that holds the type itself -/
theorem firstCase_at (g : ETy → Cls) (pre post : List (Option ETy)) (t : ETy) (s : Nat)
    (hpre : ∀ u, some u ∈ pre → (g u).matches = false) (ht : (g t).matches = true) :
    firstCase g (pre ++ some t :: post) s = some (s + pre.length) := by
  rw [firstCase_skip g pre _ s hpre]
  simp [firstCase, ht]

theorem getD_at (pre post : List (Option ETy)) (t : ETy) :
    (pre ++ some t :: post).getD pre.length none = some t := by
  simp [List.getD]

/-- the comparison the converters ask, in the direction the flag says -/
def kcmp (reading : Bool) (a b : ETy) : Cls :=
  if reading then cmp (depth a + depth b) b a else cmp (depth a + depth b) a b

theorem kcmp_self (reading : Bool) (t : ETy) (hw : wfT t = true) : kcmp reading t t = .same := by
  unfold kcmp
  cases reading <;> simp [cmp_self (depth t + depth t) t hw (by omega)]

/-- a value of `T` read / written where a union is expected that lists `T` (and no earlier case that
    `T` is compatible with): the union holds the value in `T`'s case -/
theorem wrap_union (reading : Bool) (fuel : Nat) (t : ETy) (v : Val) (cs : ECases) (pre post : List (Option ETy))
    (hs : isSimple t = true) (hw : wfT t = true) (hv : fitsT t v = true) (h : depth t ≤ fuel)
    (hcs : cs.toList = pre ++ some t :: post)
    (hpre : ∀ u, some u ∈ pre → (kcmp reading t u).matches = false) :
    conv reading (fuel + 1) t (.union cs) v = .ok (.case (ofFull cs.toList pre.length) v) := by
  have hx := conv_self reading fuel t v hw hv h
  have hfc := firstCase_at (fun u => kcmp reading t u) pre post t 0 hpre (by simp [kcmp_self reading t hw, Cls.matches])
  simp only [Nat.zero_add] at hfc
  unfold kcmp at hfc
  cases t <;> simp [isSimple] at hs <;>
    simp [conv, hcs, hfc, hx, CRes.map]

/-- a union that holds its `T` case, read / written where `T` is expected: the value itself;
    a union that holds another case: the zero value of `T` -/
theorem unwrap_union (reading : Bool) (fuel : Nat) (t : ETy) (i : Nat) (x : Val) (cs : ECases) (pre post : List (Option ETy))
    (hs : isSimple t = true) (hw : wfT t = true) (h : depth t ≤ fuel)
    (hcs : cs.toList = pre ++ some t :: post)
    (hpre : ∀ u, some u ∈ pre → (kcmp reading u t).matches = false) :
    conv reading (fuel + 1) (.union cs) t (.case i x) =
      if toFull cs.toList i = pre.length then conv reading fuel t t x else .ok (zero (depth t + 1) t) := by
  have hfc := firstCase_at (fun u => kcmp reading u t) pre post t 0 hpre (by simp [kcmp_self reading t hw, Cls.matches])
  simp only [Nat.zero_add] at hfc
  unfold kcmp at hfc
  cases t <;> simp [isSimple] at hs <;>
    simp [conv, hcs, hfc]

/-- old data of type `T`, read by the version whose type is a union listing `T`, and written back for the
    old version, is unchanged -/
theorem union_round_trip (fuel : Nat) (t : ETy) (v : Val) (cs : ECases) (pre post : List (Option ETy))
    (hs : isSimple t = true) (hw : wfT t = true) (hv : fitsT t v = true) (h : depth t ≤ fuel)
    (hcs : cs.toList = pre ++ some t :: post)
    (hpre : ∀ u, some u ∈ pre → (kcmp true t u).matches = false)
    (hpre' : ∀ u, some u ∈ pre → (kcmp false u t).matches = false)
    (hnull : hasNullL cs.toList = true → pre ≠ []) :
    (match conv true (fuel + 1) t (.union cs) v with
     | .ok w => conv false (fuel + 1) (.union cs) t w
     | e => e) = .ok v := by
  rw [wrap_union true fuel t v cs pre post hs hw hv h hcs hpre]
  simp only
  rw [unwrap_union false fuel t _ v cs pre post hs hw h hcs hpre']
  have hfull : toFull cs.toList (ofFull cs.toList pre.length) = pre.length := by
    unfold toFull ofFull
    cases hn : hasNullL cs.toList
    · simp
    · have := hnull hn
      have : 0 < pre.length := by
        cases pre with
        | nil => exact absurd rfl this
        | cons _ _ => simp
      simp; omega
  simp [hfull, conv_self false fuel t v hw hv h]

/-! ### T? ↔ [null, T, …] -/

/-- an optional read / written where a union `[null, T, …]` is expected -/
theorem optional_to_union (reading : Bool) (fuel : Nat) (t : ETy) (v : Val) (rest : ECases)
    (hw : wfT t = true) (hv : fitsT t v = true) (h : depth t ≤ fuel) :
    conv reading (fuel + 1) (.optional t) (.union (.null (.cons t rest))) (.some v) = .ok (.case 0 v) ∧
    conv reading (fuel + 1) (.optional t) (.union (.null (.cons t rest))) .none = .ok .none := by
  have hx := conv_self reading fuel t v hw hv h
  have hk : cmp (depth t + depth t) t t = .same := cmp_self (depth t + depth t) t hw (by omega)
  constructor
  · simp [conv, ECases.toList, firstCase, hk, Cls.matches, hx, CRes.map, ofFull, hasNullL, List.getD]
  · simp [conv]

/-- a union `[null, T, …]` read / written where `T?` is expected: the `T` case is kept, every other case
    becomes null -/
theorem union_to_optional (reading : Bool) (fuel : Nat) (t : ETy) (v : Val) (rest : ECases) (i : Nat)
    (hw : wfT t = true) (hv : fitsT t v = true) (h : depth t ≤ fuel) :
    conv reading (fuel + 1) (.union (.null (.cons t rest))) (.optional t) (.case 0 v) = .ok (.some v) ∧
    conv reading (fuel + 1) (.union (.null (.cons t rest))) (.optional t) (.case (i + 1) v) = .ok .none ∧
    conv reading (fuel + 1) (.union (.null (.cons t rest))) (.optional t) .none = .ok .none := by
  have hx := conv_self reading fuel t v hw hv h
  have hk : cmp (depth t + depth t) t t = .same := cmp_self (depth t + depth t) t hw (by omega)
  refine ⟨?_, ?_, ?_⟩
  · simp [conv, ECases.toList, firstCase, hk, Cls.matches, hx, CRes.map, toFull, hasNullL, List.getD]
  · simp [conv, ECases.toList, firstCase, hk, Cls.matches, toFull, hasNullL]
  · simp [conv]

/-! ### element-wise conversion of vectors (and streams, which are converted item by item) -/

theorem mapM'_map (g : Val → CRes) (φ : Val → Val) : ∀ (vs acc : List Val), (∀ v ∈ vs, g v = .ok (φ v)) →
    mapM' g vs acc = .ok (.list (acc.reverse ++ vs.map φ))
  | [], acc, _ => by simp [mapM']
  | v :: r, acc, h => by
    have hv := h v (by simp)
    have := mapM'_map g φ r (φ v :: acc) (fun x hx => h x (by simp [hx]))
    simp [mapM', hv, this]

/-- a vector whose element type changed converts element by element, in order, keeping its length -/
theorem vector_elementwise (reading : Bool) (fuel : Nat) (s d : ETy) (l l' : Option Nat) (vs : List Val) (φ : Val → Val)
    (hφ : ∀ v ∈ vs, conv reading fuel s d v = .ok (φ v)) :
    conv reading (fuel + 1) (.vector s l) (.vector d l') (.list vs) = .ok (.list (vs.map φ)) := by
  have := mapM'_map (conv reading fuel s d) φ vs [] hφ
  simp [conv, this]

theorem mapM'_err (g : Val → CRes) (m : String) : ∀ (pre : List Val) (x : Val) (post acc : List Val),
    (∀ v ∈ pre, ∃ w, g v = .ok w) → g x = .err m → mapM' g (pre ++ x :: post) acc = .err m
  | [], x, post, acc, _, hx => by simp [mapM', hx]
  | v :: r, x, post, acc, h, hx => by
    obtain ⟨w, hw⟩ := h v (by simp)
    have := mapM'_err g m r x post (w :: acc) (fun y hy => h y (by simp [hy])) hx
    simp [mapM', hw, this]

/-- … and the first element that cannot be converted makes the whole read / write fail with that error -/
theorem vector_first_error (reading : Bool) (fuel : Nat) (s d : ETy) (l l' : Option Nat) (pre post : List Val) (x : Val) (m : String)
    (hpre : ∀ v ∈ pre, ∃ w, conv reading fuel s d v = .ok w) (hx : conv reading fuel s d x = .err m) :
    conv reading (fuel + 1) (.vector s l) (.vector d l') (.list (pre ++ x :: post)) = .err m := by
  have := mapM'_err (conv reading fuel s d) m pre x post [] hpre hx
  simp [conv, this]

/-- a vector of integers narrowed to a smaller integer type: every element in range is kept, the first one out
    of range raises the documented error -/
example : conv true 3 (.vector (.prim .int32) none) (.vector (.prim .int8) none) (.list [.int 1, .int 300, .int 2]) = .err "Numeric overflow" ∧
    conv true 3 (.vector (.prim .int32) none) (.vector (.prim .int8) none) (.list [.int 1, .int (-128)]) = .ok (.list [.int 1, .int (-128)]) := by
  constructor <;> rfl

end Yardl.Evo
