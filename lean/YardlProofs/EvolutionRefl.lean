import YardlModel.Evolution

/-!
  YardlProofs.EvolutionRefl — a well-formed type compared with itself is unchanged, and a version
  compared with itself is silent (helper lemmas for Props/C06.lean and Props/C05.lean).

  Well-formed (`wfT`): field names of every record are distinct, symbol names of every enum are
  distinct, every union has at least one case — what the validator enforces before evolution is looked at.
-/

namespace Yardl.Evo
open Yardl

theorem fields_mem : ∀ (fs : EFields) (n : Nat) (t : ETy), (n, t) ∈ fs.toList →
    (wfF fs = true → wfT t = true) ∧ depth t ≤ depthF fs
  | .nil, _, _, h => by simp [EFields.toList] at h
  | .cons m u r, n, t, h => by
    simp only [EFields.toList, List.mem_cons, Prod.mk.injEq] at h
    rcases h with ⟨_, rfl⟩ | h
    · simp only [wfF, depthF, Bool.and_eq_true]
      exact ⟨fun h => h.1, Nat.le_max_left _ _⟩
    · have ih := fields_mem r n t h
      simp only [wfF, depthF, Bool.and_eq_true]
      exact ⟨fun h2 => ih.1 h2.2, Nat.le_trans ih.2 (Nat.le_max_right _ _)⟩

theorem cases_mem : ∀ (cs : ECases) (t : ETy), some t ∈ cs.toList →
    (wfC cs = true → wfT t = true) ∧ depth t ≤ depthC cs
  | .nil, _, h => by simp [ECases.toList] at h
  | .null r, t, h => by
    simp only [ECases.toList, List.mem_cons, reduceCtorEq, false_or] at h
    have ih := cases_mem r t h
    simp only [wfC, depthC]
    exact ih
  | .cons u r, t, h => by
    simp only [ECases.toList, List.mem_cons, Option.some.injEq] at h
    rcases h with rfl | h
    · simp only [wfC, depthC, Bool.and_eq_true]
      exact ⟨fun h => h.1, Nat.le_max_left _ _⟩
    · have ih := cases_mem r t h
      simp only [wfC, depthC, Bool.and_eq_true]
      exact ⟨fun h2 => ih.1 h2.2, Nat.le_trans ih.2 (Nat.le_max_right _ _)⟩

/-- with distinct names, the entry at position `i` is the first one carrying its name -/
theorem find_of_distinct {α : Type} : ∀ (l : List (Nat × α)) (i : Nat) (e : Nat × α),
    namesDistinct l = true → l[i]? = some e →
    l.find? (fun x => x.1 == e.1) = some e ∧ l.findIdx (fun x => x.1 == e.1) = i
  | [], i, e, _, h => by simp at h
  | a :: r, 0, e, _, h => by
    simp only [List.getElem?_cons_zero, Option.some.injEq] at h
    subst h
    simp [List.find?, List.findIdx_cons]
  | a :: r, i + 1, e, hd, h => by
    simp only [List.getElem?_cons_succ] at h
    simp only [namesDistinct, Bool.and_eq_true, Bool.not_eq_true', List.any_eq_false, beq_iff_eq] at hd
    have hmem : e ∈ r := List.mem_of_getElem? h
    have hne : ¬ (e.1 = a.1) := hd.1 e hmem
    have hne' : (a.1 == e.1) = false := by
      simp only [beq_eq_false_iff_ne, ne_eq]
      exact fun h => hne h.symm
    have ih := find_of_distinct r i e hd.2 h
    simp [List.find?, List.findIdx_cons, hne', ih.1, ih.2]

theorem lookupField_self (fs : List (Nat × ETy)) (i : Nat) (n : Nat) (t : ETy)
    (hd : namesDistinct fs = true) (h : fs[i]? = some (n, t)) :
    lookupField fs n = some t ∧ indexOfField fs n = i := by
  have := find_of_distinct fs i (n, t) hd h
  simp only at this
  simp [lookupField, indexOfField, this.1, this.2]

theorem lookupSym_self (s : List (Nat × Int)) (e : Nat × Int) (hd : namesDistinct s = true) (h : e ∈ s) :
    lookupSym s e.1 = some e.2 := by
  obtain ⟨i, hi⟩ := List.getElem?_of_mem h
  have := find_of_distinct s i e hd hi
  simp [lookupSym, this.1]

theorem enumBreaks_self (b : Prim) (s : List (Nat × Int)) (hd : namesDistinct s = true) :
    enumBreaks b s b s = false := by
  simp only [enumBreaks, Bool.or_eq_false_iff, List.any_eq_false]
  refine ⟨⟨by simp, ?_⟩, ?_⟩
  · intro e he; simp [lookupSym_self s e hd he]
  · intro e he; simp [lookupSym_self s e hd he]

theorem enumChange_self (fl : Bool) (b : Prim) (s : List (Nat × Int)) (hd : namesDistinct s = true) :
    enumChange fl b s fl b s = .same := by
  have h1 : (s.any fun e => (lookupSym s e.1).isNone) = false := by
    simp only [List.any_eq_false]
    intro e he
    simp [lookupSym_self s e hd he]
  simp [enumChange, enumBreaks_self b s hd, h1]

theorem recordOldChanged_self (f : ETy → ETy → Cls) (full : List (Nat × ETy))
    (hd : namesDistinct full = true) (hf : ∀ e ∈ full, f e.2 e.2 = .same) :
    ∀ (suf pre : List (Nat × ETy)), full = pre ++ suf → recordOldChanged f full suf pre.length = false
  | [], _, _ => by simp [recordOldChanged]
  | (n, t) :: r, pre, h => by
    have hi : full[pre.length]? = some (n, t) := by simp [h]
    have hl := lookupField_self full pre.length n t hd hi
    have hmem : (n, t) ∈ full := List.mem_of_getElem? hi
    have ih := recordOldChanged_self f full hd hf r (pre ++ [(n, t)]) (by simp [h])
    simp only [List.length_append, List.length_cons, List.length_nil, Nat.zero_add] at ih
    have hft := hf (n, t) hmem
    simp only at hft
    simp [recordOldChanged, hl.1, hl.2, hft, ih]

theorem recordChange_self (f : ETy → ETy → Cls) (fs : List (Nat × ETy))
    (hd : namesDistinct fs = true) (hf : ∀ e ∈ fs, f e.2 e.2 = .same) :
    recordChange f fs fs = .same := by
  have h1 : (fs.any fun e => (lookupField fs e.1).isNone) = false := by
    simp only [List.any_eq_false]
    intro e he
    obtain ⟨i, hi⟩ := List.getElem?_of_mem he
    have := lookupField_self fs i e.1 e.2 hd hi
    simp [this.1]
  have h2 := recordOldChanged_self f fs hd hf fs [] (by simp)
  simp only [List.length_nil] at h2
  simp [recordChange, h1, h2]

/-! ### the greedy matching of a union against itself pairs every case with itself -/

theorem findMatch_self (f : ETy → ETy → Cls) (c : Option ETy) (hc : cmpCase f c c = .same) :
    ∀ (pre post : List (Option ETy)) (ms : List Bool) (j : Nat),
      findMatch f c (pre ++ c :: post) (List.replicate pre.length true ++ false :: ms) j = some (j + pre.length, .same)
  | [], post, ms, j => by simp [findMatch, hc, Cls.matches]
  | p :: pre, post, ms, j => by
    have ih := findMatch_self f c hc pre post ms (j + 1)
    simp only [List.cons_append, List.length_cons, List.replicate_succ, findMatch, if_true, ih]
    congr 2
    omega

theorem setTrue_replicate : ∀ (i : Nat) (ms : List Bool),
    setTrue (List.replicate i true ++ false :: ms) i = List.replicate (i + 1) true ++ ms
  | 0, ms => by simp [setTrue]
  | i + 1, ms => by
    have ih := setTrue_replicate i ms
    simp only [List.replicate_succ, List.cons_append, setTrue] at ih ⊢
    rw [ih]

theorem unionLoop_self (f : ETy → ETy → Cls) (olds : List (Option ETy))
    (hf : ∀ c ∈ olds, cmpCase f c c = .same) :
    ∀ (suf pre : List (Option ETy)), olds = pre ++ suf →
      unionLoop f olds suf pre.length
        ⟨List.replicate pre.length true ++ List.replicate suf.length false, List.replicate pre.length true, false, false⟩
      = ⟨List.replicate olds.length true, List.replicate olds.length true, false, false⟩
  | [], pre, h => by simp [unionLoop, h]
  | c :: r, pre, h => by
    have hc : cmpCase f c c = .same := hf c (by simp [h])
    have hm := findMatch_self f c hc pre r (List.replicate r.length false) 0
    rw [← h] at hm
    have ih := unionLoop_self f olds hf r (pre ++ [c]) (by simp [h])
    simp only [List.length_append, List.length_cons, List.length_nil, Nat.zero_add] at ih
    simp only [unionLoop, List.length_cons, List.replicate_succ, hm, Nat.zero_add, setTrue_replicate]
    have e1 : (true :: List.replicate pre.length true) = List.replicate (pre.length + 1) true := by
      simp [List.replicate_succ]
    have e2 : ((false || pre.length != pre.length) = false) := by simp
    have e3 : ((false || Cls.same == Cls.defChanged) = false) := by decide
    simp only [e1, e2, e3, ih]

theorem unionChange_self (f : ETy → ETy → Cls) (cs : List (Option ETy)) (hne : cs ≠ [])
    (hf : ∀ c ∈ cs, cmpCase f c c = .same) : unionChange f cs cs = .same := by
  have h := unionLoop_self f cs hf cs [] (by simp)
  simp only [List.length_nil, List.replicate_zero, List.nil_append] at h
  have hmap : (cs.map fun _ => false) = List.replicate cs.length false := by
    simp [List.map_const']
  have hpos : 0 < cs.length := List.length_pos_iff.mpr hne
  have hany : (List.replicate cs.length true).any id = true := by
    simp only [List.any_eq_true]
    exact ⟨true, by simp [List.mem_replicate]; omega, rfl⟩
  have hall : (List.replicate cs.length true).all id = true := by
    simp
  simp [unionChange, hmap, h, hany, hall]

theorem argsChange_self (f : ETy → ETy → Cls) : ∀ (l : List (Nat × ETy)), (∀ e ∈ l, f e.2 e.2 = .same) →
    argsChange f l l = some false
  | [], _ => rfl
  | a :: r, h => by
    have ha := h a (by simp)
    have ih := argsChange_self f r (fun e he => h e (by simp [he]))
    simp [argsChange, ha, ih, Cls.matches]

theorem arrKindSame_refl (k : ArrKind) : arrKindSame k k = true := by
  cases k <;> simp [arrKindSame]

/-- compareTypes is reflexive on well-formed types (any nesting depth) -/
theorem cmp_self : ∀ (fuel : Nat) (t : ETy), wfT t = true → depth t ≤ fuel → cmp fuel t t = .same
  | 0, t, _, h => by cases t <;> simp [depth] at h
  | fuel + 1, .prim p, _, _ => by simp [cmp, primChange]
  | fuel + 1, .enum n fl b s, hw, _ => by
    simp only [wfT] at hw
    simp [cmp, enumChange_self fl b s hw]
  | fuel + 1, .record n fs, hw, h => by
    simp only [wfT, Bool.and_eq_true] at hw
    simp only [depth] at h
    have hf : ∀ e ∈ fs.toList, cmp fuel e.2 e.2 = .same := fun e he => by
      have := fields_mem fs e.1 e.2 he
      exact cmp_self fuel e.2 (this.1 hw.2) (by omega)
    simp [cmp, recordChange_self (cmp fuel) fs.toList hw.1 hf]
  | fuel + 1, .optional t, hw, h => by
    simp only [wfT] at hw
    have := cmp_self fuel t hw (by simp only [depth] at h; omega)
    simp [cmp, this, Cls.wrap]
  | fuel + 1, .union cs, hw, h => by
    simp only [wfT, Bool.and_eq_true, Bool.not_eq_true', List.isEmpty_eq_false_iff] at hw
    simp only [depth] at h
    have hf : ∀ c ∈ cs.toList, cmpCase (cmp fuel) c c = .same := fun c hc => by
      cases c with
      | none => rfl
      | some t =>
        have := cases_mem cs t hc
        exact cmp_self fuel t (this.1 hw.2) (by omega)
    simp [cmp, unionChange_self (cmp fuel) cs.toList hw.1 hf]
  | fuel + 1, .tparam i, _, _ => by simp [cmp]
  | fuel + 1, .inst n as b, hw, h => by
    simp only [wfT, Bool.and_eq_true] at hw
    simp only [depth] at h
    have hl := Nat.le_max_left (depthF as) (depthF b)
    have hr := Nat.le_max_right (depthF as) (depthF b)
    have hb : ∀ e ∈ b.toList, cmp fuel e.2 e.2 = .same := fun e he => by
      have := fields_mem b e.1 e.2 he
      exact cmp_self fuel e.2 (this.1 hw.1.2) (by omega)
    have ha : ∀ e ∈ as.toList, cmp fuel e.2 e.2 = .same := fun e he => by
      have := fields_mem as e.1 e.2 he
      exact cmp_self fuel e.2 (this.1 hw.2) (by omega)
    simp [cmp, recordChange_self (cmp fuel) b.toList hw.1.1 hb, argsChange_self (cmp fuel) as.toList ha]
  | fuel + 1, .vector t l, hw, h => by
    simp only [wfT] at hw
    have := cmp_self fuel t hw (by simp only [depth] at h; omega)
    simp [cmp, this, Cls.wrap]
  | fuel + 1, .array t k, hw, h => by
    simp only [wfT] at hw
    have := cmp_self fuel t hw (by simp only [depth] at h; omega)
    simp [cmp, this, arrKindSame_refl]
  | fuel + 1, .map k v, hw, h => by
    simp only [wfT, Bool.and_eq_true] at hw
    simp only [depth] at h
    have hl := Nat.le_max_left (depth k) (depth v)
    have hr := Nat.le_max_right (depth k) (depth v)
    have h1 := cmp_self fuel k hw.1 (by omega)
    have h2 := cmp_self fuel v hw.2 (by omega)
    simp [cmp, h1, h2]

/-! ### a version compared with itself is silent -/

theorem findIdx?_of_distinct : ∀ (l : List EStep) (i : Nat) (s : EStep),
    stepNamesDistinct l = true → l[i]? = some s → l.findIdx? (fun x => x.name == s.name) = some i
  | [], i, s, _, h => by simp at h
  | a :: r, 0, s, _, h => by
    simp only [List.getElem?_cons_zero, Option.some.injEq] at h
    subst h
    simp [List.findIdx?_cons]
  | a :: r, i + 1, s, hd, h => by
    simp only [List.getElem?_cons_succ] at h
    simp only [stepNamesDistinct, Bool.and_eq_true, Bool.not_eq_true', List.any_eq_false, beq_iff_eq] at hd
    have hmem : s ∈ r := List.mem_of_getElem? h
    have hne : ¬ (s.name = a.name) := hd.1 s hmem
    have hne' : (a.name == s.name) = false := by
      simp only [beq_eq_false_iff_ne, ne_eq]
      exact fun h => hne h.symm
    have ih := findIdx?_of_distinct r i s hd.2 h
    simp [List.findIdx?_cons, hne', ih]

theorem findStep_self (l : List EStep) (i : Nat) (s : EStep)
    (hd : stepNamesDistinct l = true) (h : l[i]? = some s) : findStep l s.name = some (i, s) := by
  simp [findStep, findIdx?_of_distinct l i s hd h, h]

theorem matchedStepVerdict_self (env : Env) (s : EStep) (hw : wfT s.ty = true) :
    matchedStepVerdict env s s = .ok := by
  have hc := cmp_self (depth s.ty + depth s.ty) s.ty hw (by omega)
  cases hs : s.stream <;> simp [matchedStepVerdict, stepVerdict, hs, hc]

theorem sev_max_ok : Sev.max .ok .ok = .ok := rfl

theorem protoLoop_self (env : Env) (old : List EStep) (hd : stepNamesDistinct old = true)
    (hw : ∀ s ∈ old, wfT s.ty = true) :
    ∀ (suf pre : List EStep), old = pre ++ suf → protoLoop env old suf pre.length .ok = .ok
  | [], _, _ => by simp [protoLoop]
  | s :: r, pre, h => by
    have hi : old[pre.length]? = some s := by simp [h]
    have hf := findStep_self old pre.length s hd hi
    have hm := matchedStepVerdict_self env s (hw s (List.mem_of_getElem? hi))
    have ih := protoLoop_self env old hd hw r (pre ++ [s]) (by simp [h])
    simp only [List.length_append, List.length_cons, List.length_nil, Nat.zero_add] at ih
    simp [protoLoop, hf, hm, sev_max_ok, ih]

theorem protoVerdict_self (env : Env) (steps : List EStep) (hd : stepNamesDistinct steps = true)
    (hw : ∀ s ∈ steps, wfT s.ty = true) : protoVerdict env steps steps = .ok := by
  have hrem : (steps.any fun o => (findStep steps o.name).isNone) = false := by
    simp only [List.any_eq_false]
    intro o ho
    obtain ⟨i, hi⟩ := List.getElem?_of_mem ho
    simp [findStep_self steps i o hd hi]
  have := protoLoop_self env steps hd hw steps [] (by simp)
  simp only [List.length_nil] at this
  simp [protoVerdict, hrem, this]

end Yardl.Evo
