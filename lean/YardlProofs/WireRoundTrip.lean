import YardlModel.Wire

/-! Helper lemmas for the binary round trip (C01). Property statements live in `Props/`. -/

namespace Yardl

theorem u8_ofNat_toNat (n : Nat) (h : n < 256) : (UInt8.ofNat n).toNat = n := by
  simp [UInt8.toNat_ofNat', Nat.mod_eq_of_lt h]

theorem decVar_encVar (n : Nat) (rest : Bytes) : decVar (encVar n ++ rest) = some (n, rest) := by
  induction n using Nat.strongRecOn with
  | _ n ih =>
    unfold encVar
    by_cases h : n < 128
    · simp [h, decVar, u8_ofNat_toNat n (by omega)]
    · have h1 : n % 128 + 128 < 256 := by omega
      simp only [h, if_false, List.cons_append, decVar, u8_ofNat_toNat _ h1]
      have : ¬ (n % 128 + 128 < 128) := by omega
      simp only [this, if_false, ih (n / 128) (by omega)]
      congr 2
      omega

theorem unzigzag_zigzag (i : Int) : unzigzag (zigzag i) = i := by
  unfold zigzag unzigzag
  by_cases h : 0 ≤ i
  · simp only [h, if_true]
    have : ((2 * i).toNat) % 2 = 0 := by omega
    simp only [this, if_true]
    omega
  · simp only [h, if_false]
    have : ¬ ((-2 * i - 1).toNat % 2 = 0) := by omega
    simp only [this, if_false]
    omega

theorem decLE_encLE (w n : Nat) (rest : Bytes) (h : n < 256 ^ w) :
    decLE w (encLE w n ++ rest) = some (n, rest) := by
  induction w generalizing n with
  | zero => simp [encLE, decLE] at *; omega
  | succ w ih =>
    have h2 : n / 256 < 256 ^ w := by
      rw [Nat.pow_succ] at h
      exact Nat.div_lt_of_lt_mul (by rw [Nat.mul_comm]; exact h)
    simp only [encLE, List.cons_append, decLE, ih _ h2,
      u8_ofNat_toNat (n % 256) (Nat.mod_lt _ (by decide))]
    congr 2
    omega

theorem takeN_append (s rest : Bytes) : takeN s.length (s ++ rest) = some (s, rest) := by
  induction s with
  | nil => simp [takeN]
  | cons b s ih => simp [takeN, ih]

theorem decPrim_encPrim (p : Prim) (v : Val) (rest : Bytes) (h : primHasType p v = true) :
    decPrim p (encPrim p v ++ rest) = some (v, rest) := by
  cases p <;> cases v <;>
    simp [primHasType, Prim.range] at h <;>
    simp [encPrim, decPrim, decVar_encVar, unzigzag_zigzag, takeN_append]
  case bool.bool b => cases b <;> simp
  case int8.int i =>
    by_cases hh : (i % 256).toNat % 256 < 128
    · simp [hh]; omega
    · simp [hh]; omega
  case uint8.int i => omega
  case uint16.int i => omega
  case uint32.int i => omega
  case uint64.int i => omega
  case size.int i => omega
  case float32.f32 b => simp [decLE_encLE 4 b rest (by omega)]
  case float64.f64 b => simp [decLE_encLE 8 b rest (by omega)]
  case complexfloat32.c32 r i =>
    simp [decLE_encLE 4 r _ (by omega), decLE_encLE 4 i rest (by omega)]
  case complexfloat64.c64 r i =>
    simp [decLE_encLE 8 r _ (by omega), decLE_encLE 8 i rest (by omega)]

theorem decList_encList (fe : Val → Bytes) (fd : Bytes → Option (Val × Bytes))
    (ok : Val → Bool) (hf : ∀ v rest, ok v = true → fd (fe v ++ rest) = some (v, rest))
    (vs : List Val) (rest : Bytes) (hall : allList ok vs = true) :
    decList fd vs.length (encList fe vs ++ rest) = some (vs, rest) := by
  induction vs with
  | nil => simp [decList, encList]
  | cons v vs ih =>
    simp [allList] at hall
    simp [decList, encList, List.append_assoc, hf v _ hall.1, ih hall.2]

theorem decKVs_encKVs (fek fev : Val → Bytes) (fdk fdv : Bytes → Option (Val × Bytes))
    (okk okv : Val → Bool)
    (hk : ∀ v rest, okk v = true → fdk (fek v ++ rest) = some (v, rest))
    (hv : ∀ v rest, okv v = true → fdv (fev v ++ rest) = some (v, rest))
    (kvs : List (Val × Val)) (rest : Bytes) (hall : allKVs okk okv kvs = true) :
    decKVs fdk fdv kvs.length (encKVs fek fev kvs ++ rest) = some (kvs, rest) := by
  induction kvs with
  | nil => simp [decKVs, encKVs]
  | cons kv kvs ih =>
    obtain ⟨k, v⟩ := kv
    simp [allKVs] at hall
    simp [decKVs, encKVs, List.append_assoc, hk k _ hall.1.1, hv v _ hall.1.2, ih hall.2]

theorem decDims_encDims (shape : List Nat) (rest : Bytes) :
    decDims shape.length (encDims shape ++ rest) = some (shape, rest) := by
  induction shape with
  | nil => simp [decDims, encDims]
  | cons d ds ih => simp [decDims, encDims, List.append_assoc, decVar_encVar, ih]

mutual
  theorem dec_enc : (t : Ty) → (v : Val) → (rest : Bytes) → HasType t v = true →
      dec t (enc t v ++ rest) = some (v, rest)
    | .prim p, v, rest, h => by
      simp only [HasType] at h
      simp only [enc, dec, decPrim_encPrim p v rest h]
    | .enum b f s, v, rest, h => by
      cases v <;> simp only [HasType] at h <;> try contradiction
      simp only [enc, dec, decPrim_encPrim b _ rest h]
    | .record fs, v, rest, h => by
      cases v <;> simp only [HasType] at h <;> try contradiction
      simp only [enc, dec, decFields_enc fs _ rest h]
    | .optional t, v, rest, h => by
      cases v <;> simp only [HasType] at h <;> try contradiction
      · simp [enc, dec]
      · simp [enc, dec, dec_enc t _ rest h]
    | .union hn cs, v, rest, h => by
      cases v <;> simp only [HasType] at h <;> try contradiction
      · subst h
        simp [enc, dec, decVar_encVar]
      · cases hn
        · simp [enc, dec, decVar_encVar, List.append_assoc, decCase_enc cs _ _ rest h]
        · simp [enc, dec, decVar_encVar, List.append_assoc, decCase_enc cs _ _ rest h]
    | .vector t len, v, rest, h => by
      cases v <;> simp only [HasType] at h <;> try contradiction
      rename_i vs
      have hl := decList_encList (enc t) (dec t) (HasType t) (fun v rest hv => dec_enc t v rest hv) vs rest
      cases len with
      | none =>
        simp at h
        simp [enc, dec, decVar_encVar, List.append_assoc, hl h]
      | some n =>
        simp at h
        obtain ⟨h1, h2⟩ := h
        subst h1
        simp [enc, dec, hl h2]
    | .array t k, v, rest, h => by
      cases v <;> simp only [HasType] at h <;> try contradiction
      rename_i shape vs
      have hl := decList_encList (enc t) (dec t) (HasType t) (fun v rest hv => dec_enc t v rest hv) vs rest
      simp at h
      obtain ⟨⟨h0, h1⟩, h2⟩ := h
      rw [h1] at hl
      cases k with
      | dynamic =>
        simp [enc, dec, decVar_encVar, List.append_assoc, decDims_encDims, hl h2]
      | rank n =>
        simp at h0
        subst h0
        simp [enc, dec, List.append_assoc, decDims_encDims, hl h2]
      | fixed dims =>
        simp at h0
        subst h0
        simp [enc, dec, hl h2]
    | .map kt vt, v, rest, h => by
      cases v <;> simp only [HasType] at h <;> try contradiction
      rename_i kvs
      have hl := decKVs_encKVs (enc kt) (enc vt) (dec kt) (dec vt) (HasType kt) (HasType vt)
        (fun v rest hv => dec_enc kt v rest hv) (fun v rest hv => dec_enc vt v rest hv) kvs rest h
      simp [enc, dec, decVar_encVar, List.append_assoc, hl]
  theorem decFields_enc : (fs : Fields) → (vs : List Val) → (rest : Bytes) → HasFields fs vs = true →
      decFields fs (encFields fs vs ++ rest) = some (vs, rest)
    | .nil, vs, rest, h => by
      cases vs <;> simp [HasFields] at h
      simp [encFields, decFields]
    | .cons n t fs, vs, rest, h => by
      cases vs with
      | nil => simp [HasFields] at h
      | cons v vs =>
        simp [HasFields] at h
        simp [encFields, decFields, List.append_assoc, dec_enc t v _ h.1, decFields_enc fs vs rest h.2]
  theorem decCase_enc : (cs : Fields) → (i : Nat) → (x : Val) → (rest : Bytes) → HasCase cs i x = true →
      decCase cs i (encCase cs i x ++ rest) = some (x, rest)
    | .nil, i, x, rest, h => by simp [HasCase] at h
    | .cons n t cs, i, x, rest, h => by
      cases i with
      | zero =>
        simp [HasCase] at h
        simp [encCase, decCase, dec_enc t x rest h]
      | succ j =>
        simp [HasCase] at h
        simp [encCase, decCase, decCase_enc cs j x rest h]
end

end Yardl
