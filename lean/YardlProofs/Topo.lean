import YardlModel.Topo

namespace Yardl.Topo

theorem sorted_snoc (deps : Deps) (l : List Nat) (n : Nat) (hs : Sorted deps l) (hd : ∀ m ∈ deps n, m ∈ l) :
    Sorted deps (l ++ [n]) := by
  intro i hi m hm
  simp at hi
  by_cases h : i < l.length
  · have e : (l ++ [n])[i] = l[i] := List.getElem_append_left h
    rw [e] at hm
    have := hs i h m hm
    rw [List.take_append_of_le_length (Nat.le_of_lt h)]
    exact this
  · have hi' : i = l.length := by omega
    subst hi'
    have e : (l ++ [n])[l.length] = n := by simp
    rw [e] at hm
    simp [hd m hm]

/-- what one successful visit does -/
def Spec (deps : Deps) (n : Nat) (done done' : List Nat) : Prop :=
  (∃ s, done' = done ++ s) ∧ n ∈ done' ∧ (Sorted deps done → Sorted deps done')

theorem foldT_spec (deps : Deps) (f : Nat → List Nat → Option (List Nat))
    (hf : ∀ n done done', f n done = some done' → Spec deps n done done') :
    ∀ (ns done done' : List Nat), foldT f ns done = some done' →
      (∃ s, done' = done ++ s) ∧ (∀ n ∈ ns, n ∈ done') ∧ (Sorted deps done → Sorted deps done') := by
  intro ns
  induction ns with
  | nil =>
    intro done done' h
    simp [foldT] at h; subst h
    exact ⟨⟨[], by simp⟩, by simp, fun h => h⟩
  | cons n ns ih =>
    intro done done' h
    simp only [foldT] at h
    cases hfn : f n done with
    | none => simp [hfn] at h
    | some d1 =>
      simp only [hfn] at h
      obtain ⟨⟨s1, e1⟩, m1, k1⟩ := hf n done d1 hfn
      obtain ⟨⟨s2, e2⟩, m2, k2⟩ := ih d1 done' h
      refine ⟨⟨s1 ++ s2, by rw [e2, e1, List.append_assoc]⟩, ?_, fun hs => k2 (k1 hs)⟩
      intro x hx
      simp only [List.mem_cons] at hx
      rcases hx with rfl | hx
      · rw [e2]; exact List.mem_append_left _ m1
      · exact m2 x hx

theorem visit_spec (deps : Deps) : ∀ (d : Nat) (path : List Nat) (n : Nat) (done done' : List Nat),
    visit deps d path n done = some done' → Spec deps n done done' := by
  intro d
  induction d with
  | zero => intro path n done done' h; simp [visit] at h
  | succ d ih =>
    intro path n done done' h
    simp only [visit] at h
    by_cases hn : n ∈ done
    · simp only [hn, if_true] at h
      cases h
      exact ⟨⟨[], by simp⟩, hn, fun h => h⟩
    · simp only [hn, if_false] at h
      by_cases hp : n ∈ path
      · simp [hp] at h
      · simp only [hp, if_false] at h
        cases hf : foldT (visit deps d (n :: path)) (deps n) done with
        | none => simp [hf] at h
        | some d1 =>
          simp only [hf] at h
          cases h
          obtain ⟨⟨s, e⟩, hm, hk⟩ := foldT_spec deps (visit deps d (n :: path)) (fun a b c hh => ih (n :: path) a b c hh) (deps n) done d1 hf
          refine ⟨⟨s ++ [n], by rw [e, List.append_assoc]⟩, by simp, fun hs => sorted_snoc deps d1 n (hk hs) hm⟩

theorem sorted_nil (deps : Deps) : Sorted deps [] := by
  intro i hi; simp at hi

/-- an accepted namespace is emitted in dependency order, and every written definition is emitted -/
theorem sort_sorted (deps : Deps) (fuel : Nat) (roots l : List Nat) (h : sort deps fuel roots = some l) :
    Sorted deps l ∧ ∀ r ∈ roots, r ∈ l := by
  obtain ⟨_, hm, hk⟩ := foldT_spec deps (visit deps fuel []) (fun a b c hh => visit_spec deps fuel [] a b c hh) roots [] l h
  exact ⟨hk (sorted_nil deps), hm⟩

/-- in a sorted list a definition's references occur strictly earlier (by first occurrence) -/
theorem sorted_dep_lt (deps : Deps) (l : List Nat) (hs : Sorted deps l) (n m : Nat) (hn : n ∈ l) (hm : m ∈ deps n) :
    m ∈ l ∧ l.idxOf m < l.idxOf n := by
  have hi : l.idxOf n < l.length := List.idxOf_lt_length_iff.mpr hn
  have hget : l[l.idxOf n] = n := List.getElem_idxOf hi
  have := hs (l.idxOf n) hi m (by rw [hget]; exact hm)
  refine ⟨List.mem_of_mem_take this, ?_⟩
  have h2 : (l.take (l.idxOf n)).idxOf m < (l.take (l.idxOf n)).length := List.idxOf_lt_length_iff.mpr this
  have h3 : (l.take (l.idxOf n)).length ≤ l.idxOf n := by simp [List.length_take]; omega
  have h4 : l.idxOf m ≤ (l.take (l.idxOf n)).idxOf m := by
    have e : l = l.take (l.idxOf n) ++ l.drop (l.idxOf n) := (List.take_append_drop _ _).symm
    have : (l.take (l.idxOf n) ++ l.drop (l.idxOf n)).idxOf m = (l.take (l.idxOf n)).idxOf m := by
      rw [List.idxOf_append]; simp [this]
    rw [← e] at this
    omega
  omega

theorem path_lt (deps : Deps) (l : List Nat) (hs : Sorted deps l) : ∀ n m, Path deps n m → n ∈ l → m ∈ l ∧ l.idxOf m < l.idxOf n := by
  intro n m hp
  induction hp with
  | one n m hm => intro hn; exact sorted_dep_lt deps l hs n m hn hm
  | step n m k hm _ ih =>
    intro hn
    obtain ⟨h1, h2⟩ := sorted_dep_lt deps l hs n m hn hm
    obtain ⟨h3, h4⟩ := ih h1
    exact ⟨h3, by omega⟩

/-- accepted ⇒ no reference cycle among the definitions -/
theorem accepted_is_acyclic (deps : Deps) (fuel : Nat) (roots l : List Nat) (h : sort deps fuel roots = some l) :
    ∀ n ∈ l, ¬ Path deps n n := by
  intro n hn hp
  have := (path_lt deps l (sort_sorted deps fuel roots l h).1 n n hp hn).2
  omega

/-- a reference cycle through a written definition — however the cycle is closed: containers, aliases,
    arguments of local or imported generics — is never accepted -/
theorem cycle_is_rejected (deps : Deps) (fuel : Nat) (roots : List Nat) (n : Nat) (hn : n ∈ roots) (hc : Path deps n n) :
    sort deps fuel roots = none := by
  cases h : sort deps fuel roots with
  | none => rfl
  | some l =>
    exact absurd hc (accepted_is_acyclic deps fuel roots l h n ((sort_sorted deps fuel roots l h).2 n hn))

end Yardl.Topo
