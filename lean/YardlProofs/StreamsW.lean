import YardlModel.Streams

/-! Buffered writers refine the byte-level specification for every capacity ≥ 10 (C++) / ≥ 10 (Python),
    every fill level and every operation sequence; unchecked writes never leave the buffer. -/

namespace Yardl

theorem encVar_length_le (k : Nat) : ∀ n, 0 < k → n < 128 ^ k → (encVar n).length ≤ k := by
  induction k with
  | zero => intro n h; omega
  | succ k ih =>
    intro n _ hn
    unfold encVar
    by_cases h : n < 128
    · simp [h]
    · simp only [h, if_false, List.length_cons]
      by_cases hk : k = 0
      · subst hk; simp at hn; omega
      · have : n / 128 < 128 ^ k := by
          rw [Nat.pow_succ] at hn
          exact Nat.div_lt_of_lt_mul (by rw [Nat.mul_comm]; exact hn)
        have := ih (n / 128) (by omega) this
        omega

theorem encVar_length_le5 (n : Nat) (h : n < 2 ^ 32) : (encVar n).length ≤ 5 := by
  apply encVar_length_le 5 n (by decide)
  have : (2:Nat) ^ 32 ≤ 128 ^ 5 := by decide
  exact Nat.lt_of_lt_of_le h this

theorem encVar_length_le10 (n : Nat) (h : n < 2 ^ 64) : (encVar n).length ≤ 10 := by
  apply encVar_length_le 10 n (by decide)
  have : (2:Nat) ^ 64 ≤ 128 ^ 10 := by decide
  exact Nat.lt_of_lt_of_le h this

theorem encLE_length (w n : Nat) : (encLE w n).length = w := by
  induction w generalizing n with
  | zero => simp [encLE]
  | succ w ih => simp [encLE, ih]

namespace COS

theorem flushBuffer_abs (s : COS) : s.flushBuffer.abs = s.abs := by
  unfold flushBuffer abs
  by_cases h : s.buf.isEmpty
  · simp [h]
  · simp [h]

theorem flushBuffer_inv (s : COS) (h : s.Inv) : s.flushBuffer.Inv := by
  unfold flushBuffer Inv at *
  by_cases hb : s.buf.isEmpty <;> simp [hb, h.1, h.2]

theorem flushBuffer_cap (s : COS) : s.flushBuffer.cap = s.cap := by
  unfold flushBuffer; by_cases hb : s.buf.isEmpty <;> simp [hb]

theorem flushBuffer_buf (s : COS) : s.flushBuffer.buf = [] := by
  unfold flushBuffer; by_cases hb : s.buf.isEmpty <;> simp [hb]
  exact List.isEmpty_iff.mp hb

theorem push_abs (s : COS) (bs : Bytes) : (s.push bs).abs = s.abs ++ bs := by
  simp [push, abs, List.append_assoc]

theorem push_cap (s : COS) (bs : Bytes) : (s.push bs).cap = s.cap := rfl

theorem push_inv (s : COS) (bs : Bytes) (h : s.Inv) (hfit : s.buf.length + bs.length ≤ s.cap) :
    (s.push bs).Inv := by
  unfold push Inv at *
  simp [h.2]
  omega

/-- "flush if fewer than `k` bytes of room, then write `bs` unchecked", with `|bs| ≤ k ≤ cap`. -/
theorem reserve_push (s : COS) (k : Nat) (bs : Bytes) (h : s.Inv) (hk : k ≤ s.cap) (hb : bs.length ≤ k) :
    ((if s.rem < k then s.flushBuffer else s).push bs).abs = s.abs ++ bs ∧
    ((if s.rem < k then s.flushBuffer else s).push bs).Inv ∧
    ((if s.rem < k then s.flushBuffer else s).push bs).cap = s.cap := by
  by_cases hr : s.rem < k
  · simp only [hr, if_true, push_abs, flushBuffer_abs, push_cap, flushBuffer_cap, true_and]
    refine ⟨push_inv _ _ (flushBuffer_inv s h) ?_, trivial⟩
    rw [flushBuffer_buf, flushBuffer_cap]; simp; omega
  · simp only [hr, if_false, push_abs, push_cap, true_and]
    refine ⟨push_inv _ _ h ?_, trivial⟩
    unfold rem at hr; have := h.1; omega

end COS

namespace Cpp
open COS

theorem writeBytesFuel_spec : ∀ (fuel : Nat) (s : COS) (bs : Bytes),
    s.Inv → 0 < s.cap → bs.length + (if s.rem = 0 then 1 else 0) < fuel →
    (writeBytesFuel fuel s bs).abs = s.abs ++ bs ∧ (writeBytesFuel fuel s bs).Inv ∧
    (writeBytesFuel fuel s bs).cap = s.cap := by
  intro fuel
  induction fuel with
  | zero => intro s bs _ _ h; omega
  | succ fuel ih =>
    intro s bs hinv hcap hf
    unfold writeBytesFuel
    by_cases hfit : bs.length ≤ s.rem
    · simp only [hfit, if_true, push_abs, push_cap, true_and]
      refine ⟨push_inv _ _ hinv ?_, trivial⟩
      unfold rem at hfit; have := hinv.1; omega
    · simp only [hfit, if_false]
      by_cases hr : 0 < s.rem
      · simp only [hr, if_true]
        have hfill : (s.push (bs.take s.rem)).Inv := by
          apply push_inv _ _ hinv
          simp [List.length_take]; unfold rem at *; have := hinv.1; omega
        have hfl := flushBuffer_inv _ hfill
        have hrem : (s.push (List.take s.rem bs)).flushBuffer.rem = s.cap := by
          unfold rem; rw [flushBuffer_buf, flushBuffer_cap, push_cap]; simp
        have := ih (s.push (bs.take s.rem)).flushBuffer (bs.drop s.rem) hfl
          (by rw [flushBuffer_cap, push_cap]; exact hcap)
          (by rw [hrem]; simp [List.length_drop]; split <;> omega)
        rw [this.1, this.2.2, flushBuffer_abs, push_abs, flushBuffer_cap, push_cap, List.append_assoc,
          List.take_append_drop]
        exact ⟨rfl, this.2.1, rfl⟩
      · simp only [hr, if_false]
        have hr0 : s.rem = 0 := by omega
        have hrem : s.flushBuffer.rem = s.cap := by
          unfold rem; rw [flushBuffer_buf, flushBuffer_cap]; simp
        have := ih s.flushBuffer (bs.drop s.rem) (flushBuffer_inv s hinv)
          (by rw [flushBuffer_cap]; exact hcap)
          (by rw [hrem, hr0]; simp; simp [hr0] at hf; split <;> omega)
        rw [hr0] at this
        simp only [List.drop_zero] at this
        rw [hr0]
        simp only [List.drop_zero]
        rw [this.1, this.2.2, flushBuffer_abs, flushBuffer_cap]
        exact ⟨rfl, this.2.1, rfl⟩

theorem step_spec (s : COS) (op : WOp) (hc : 10 ≤ s.cap) (hinv : s.Inv) (hok : op.ok s.cap) :
    (step s op).abs = s.abs ++ op.spec ∧ (step s op).Inv ∧ (step s op).cap = s.cap := by
  cases op with
  | byte b =>
    have := reserve_push s 1 [b] hinv (by omega) (by simp)
    have e : (s.rem = 0) = (s.rem < 1) := by simp [Nat.lt_one_iff]
    simp only [step, WOp.spec, e]; exact this
  | byteNoCheck b => simp [WOp.ok] at hok
  | var32 n =>
    simp only [WOp.ok] at hok
    exact reserve_push s 5 (encVar n) hinv (by omega) (encVar_length_le5 n hok)
  | var64 n =>
    simp only [WOp.ok] at hok
    exact reserve_push s 10 (encVar n) hinv (by omega) (encVar_length_le10 n hok)
  | fixed w n =>
    simp only [WOp.ok] at hok
    exact reserve_push s w (encLE w n) hinv hok (by rw [encLE_length]; omega)
  | bytes bs =>
    simp only [step, WOp.spec]
    exact writeBytesFuel_spec (bs.length + 2) s bs hinv (by omega) (by split <;> omega)
  | flush =>
    simp only [step, WOp.spec, List.append_nil]
    exact ⟨flushBuffer_abs s, flushBuffer_inv s hinv, flushBuffer_cap s⟩

theorem run_spec (ops : List WOp) : ∀ (s : COS), 10 ≤ s.cap → s.Inv → (∀ op ∈ ops, op.ok s.cap) →
    (run s ops).abs = s.abs ++ (ops.map WOp.spec).flatten ∧ (run s ops).Inv := by
  induction ops with
  | nil => intro s _ h _; simp [run, h]
  | cons op ops ih =>
    intro s hc hinv hok
    have h1 := step_spec s op hc hinv (hok op (by simp))
    have h2 := ih (step s op) (by rw [h1.2.2]; exact hc) h1.2.1
      (by intro o ho; rw [h1.2.2]; exact hok o (by simp [ho]))
    simp only [run, List.foldl_cons] at *
    rw [h2.1, h1.1]
    simp [List.append_assoc, h2.2]

end Cpp

namespace Py
open COS

theorem step_spec (s : COS) (op : WOp) (hc : 10 ≤ s.cap) (hinv : s.Inv) (hok : op.ok s.cap) :
    (step s op).abs = s.abs ++ op.spec ∧ (step s op).Inv ∧ (step s op).cap = s.cap := by
  cases op with
  | byte b => exact reserve_push s 1 [b] hinv (by omega) (by simp)
  | byteNoCheck b => simp [WOp.ok] at hok
  | var32 n =>
    simp only [WOp.ok] at hok
    have : (encVar n).length ≤ 10 := by have := encVar_length_le5 n hok; omega
    exact reserve_push s 10 (encVar n) hinv (by omega) this
  | var64 n =>
    simp only [WOp.ok] at hok
    exact reserve_push s 10 (encVar n) hinv (by omega) (encVar_length_le10 n hok)
  | fixed w n =>
    simp only [WOp.ok] at hok
    exact reserve_push s w (encLE w n) hinv hok (by rw [encLE_length]; omega)
  | bytes bs =>
    simp only [step, WOp.spec]
    by_cases h : s.rem < bs.length
    · simp only [h, if_true]
      have hi := flushBuffer_inv s hinv
      refine ⟨?_, ?_, ?_⟩
      · have := flushBuffer_abs s
        simp only [abs] at *
        rw [flushBuffer_buf] at *
        simp at this
        simp [this, List.append_assoc]
      · unfold COS.Inv at *; simp [flushBuffer_buf, hi.2]
      · simp [flushBuffer_cap]
    · simp only [h, if_false, push_abs, push_cap, true_and]
      refine ⟨push_inv _ _ hinv ?_, trivial⟩
      unfold rem at h; have := hinv.1; omega
  | flush =>
    simp only [step, WOp.spec, List.append_nil]
    exact ⟨flushBuffer_abs s, flushBuffer_inv s hinv, flushBuffer_cap s⟩

theorem run_spec (ops : List WOp) : ∀ (s : COS), 10 ≤ s.cap → s.Inv → (∀ op ∈ ops, op.ok s.cap) →
    (run s ops).abs = s.abs ++ (ops.map WOp.spec).flatten ∧ (run s ops).Inv := by
  induction ops with
  | nil => intro s _ h _; simp [run, h]
  | cons op ops ih =>
    intro s hc hinv hok
    have h1 := step_spec s op hc hinv (hok op (by simp))
    have h2 := ih (step s op) (by rw [h1.2.2]; exact hc) h1.2.1
      (by intro o ho; rw [h1.2.2]; exact hok o (by simp [ho]))
    simp only [run, List.foldl_cons] at *
    rw [h2.1, h1.1]
    simp [List.append_assoc, h2.2]

end Py

end Yardl
