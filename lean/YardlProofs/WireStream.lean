import YardlProofs.WireRoundTrip

/-! Streams (blocks), protocol bodies and the header: round-trip lemmas for every block partition. -/

namespace Yardl

theorem allList_iff (f : Val → Bool) (vs : List Val) :
    allList f vs = true ↔ ∀ v ∈ vs, f v = true := by
  induction vs with
  | nil => simp [allList]
  | cons v vs ih => simp [allList, ih]

theorem allList_take (f : Val → Bool) (vs : List Val) (n : Nat) (h : allList f vs = true) :
    allList f (vs.take n) = true := by
  rw [allList_iff] at *
  intro v hv
  exact h v (List.mem_of_mem_take hv)

theorem allList_drop (f : Val → Bool) (vs : List Val) (n : Nat) (h : allList f vs = true) :
    allList f (vs.drop n) = true := by
  rw [allList_iff] at *
  intro v hv
  exact h v (List.mem_of_mem_drop hv)

/-- A block partition of `n` items: block sizes sum to `n` (zero-sized entries are skipped by the
    writer model, exactly like a `WriteX(std::vector{})` call that writes nothing would be). -/
def partSum : List Nat → Nat
  | [] => 0
  | n :: r => n + partSum r

theorem decBlocks_encBlocks (t : Ty) (part : List Nat) :
    ∀ (items : List Val) (fuel : Nat) (rest : Bytes),
      partSum part = items.length → part.length < fuel → allList (HasType t) items = true →
      decBlocks t fuel (encBlocks t part items ++ rest) = some (items, rest) := by
  induction part with
  | nil =>
    intro items fuel rest hs hf _
    simp [partSum] at hs
    have : items = [] := List.eq_nil_of_length_eq_zero hs.symm
    subst this
    cases fuel with
    | zero => simp at hf
    | succ fuel => simp [encBlocks, decBlocks, decVar_encVar]
  | cons n part ih =>
    intro items fuel rest hs hf hall
    cases fuel with
    | zero => simp at hf
    | succ fuel =>
      simp [partSum] at hs
      by_cases hn : n = 0
      · subst hn
        simp only [encBlocks, if_true]
        apply ih items (fuel + 1) rest (by omega) (by simp at hf; omega) hall
      · have hlen : (items.take n).length = n := by simp [List.length_take]; omega
        have hdec := decList_encList (enc t) (dec t) (HasType t)
          (fun v rest hv => dec_enc t v rest hv) (items.take n)
          (encBlocks t part (items.drop n) ++ rest) (allList_take _ _ _ hall)
        rw [hlen] at hdec
        have hrec := ih (items.drop n) fuel rest (by simp [List.length_drop]; omega)
          (by simp at hf; omega) (allList_drop _ _ _ hall)
        simp only [encBlocks, hn, if_false, decBlocks, List.append_assoc, decVar_encVar, hdec, hrec,
          List.take_append_drop]

/-- Per-step side conditions of `decSteps_encSteps`: each stream step's partition sums to its
    item count and has fewer blocks than the decoder's fuel. -/
def partsOk : Proto → List (List Nat) → List StepVal → Nat → Prop
  | [], _, _, _ => True
  | _ :: _, _, [], _ => True
  | _ :: ss, parts, v :: vs, fuel =>
    (match v with
     | .single _ => True
     | .stream items => partSum (parts.headD []) = items.length ∧ (parts.headD []).length < fuel)
    ∧ partsOk ss parts.tail vs fuel

theorem decSteps_encSteps (p : Proto) :
    ∀ (parts : List (List Nat)) (vals : List StepVal) (fuel : Nat) (rest : Bytes),
      hasStepVals p vals = true → partsOk p parts vals fuel →
      decSteps p fuel (encSteps p parts vals ++ rest) = some (vals, rest) := by
  induction p with
  | nil =>
    intro parts vals fuel rest h _
    cases vals with
    | nil => simp [encSteps, decSteps]
    | cons v vs => simp [hasStepVals] at h
  | cons s ss ih =>
    intro parts vals fuel rest h hp
    cases vals with
    | nil => simp [hasStepVals] at h
    | cons v vs =>
      simp only [partsOk] at hp
      cases v with
      | single x =>
        simp [hasStepVals] at h
        obtain ⟨⟨hs, hx⟩, hrest⟩ := h
        have := ih parts.tail vs fuel rest hrest hp.2
        simp [encSteps, decSteps, hs, List.append_assoc, dec_enc s.ty x _ hx, this]
      | stream items =>
        simp [hasStepVals] at h
        obtain ⟨⟨hs, hx⟩, hrest⟩ := h
        have h1 := ih parts.tail vs fuel rest hrest hp.2
        have h2 := decBlocks_encBlocks s.ty (parts.headD []) items fuel
          (encSteps ss parts.tail vs ++ rest) hp.1.1 hp.1.2 hx
        simp only [List.headD_eq_head?_getD] at h2
        simp [encSteps, decSteps, hs, List.append_assoc, h2, h1]

theorem takeN_eq_some (n : Nat) (bs : Bytes) (s r : Bytes) (h : takeN n bs = some (s, r)) :
    bs = s ++ r ∧ s.length = n := by
  induction n generalizing bs s r with
  | zero => simp [takeN] at h; simp [h.1.symm, h.2]
  | succ n ih =>
    cases bs with
    | nil => simp [takeN] at h
    | cons b bs =>
      simp only [takeN] at h
      cases hh : takeN n bs with
      | none => simp [hh] at h
      | some p =>
        obtain ⟨t, r'⟩ := p
        simp [hh] at h
        obtain ⟨h1, h2⟩ := h
        subst h1; subst h2
        have := ih bs t r' hh
        simp [this.1, this.2]

theorem decHeader_encHeader (schema body : Bytes) :
    decHeader (encHeader schema ++ body) = some (schema, body) := by
  have h1 : takeN 5 (magic ++ (encLE 4 1 ++ (encVar schema.length ++ (schema ++ body)))) =
      some (magic, encLE 4 1 ++ (encVar schema.length ++ (schema ++ body))) :=
    takeN_append magic _
  have h2 := decLE_encLE 4 1 (encVar schema.length ++ (schema ++ body)) (by decide)
  simp [decHeader, encHeader, List.append_assoc, h1, h2, decVar_encVar, takeN_append]

end Yardl
