import YardlProofs.Batch

/-! What a batch read returns does not depend on what the destination vector held before (`batchLoopD` vs `batchLoop`). -/

namespace Yardl.BS

theorem batchLoopD_eq : ∀ (fuel : Nat) (s : BS) (remCap off : Nat) (dest acc : List Val),
    s.Wf → s.sawEnd = false ∨ s.cbr = 0 → 0 < remCap → remCap ≤ fuel →
    dest.take off = acc → acc.length = off → dest.length ≤ off + remCap →
    batchLoopD fuel s remCap off dest = batchLoop fuel s remCap acc := by
  intro fuel
  induction fuel with
  | zero => intro s remCap off dest acc _ _ h1 h2; omega
  | succ fuel ih =>
    intro s remCap off dest acc hwf hend hcap hfuel htake hacc hlen
    unfold batchLoopD batchLoop
    by_cases hc : s.cbr = 0
    · simp only [hc, if_true, hcap, htake]
    · simp only [hc, if_false]
      have he : s.sawEnd = false := by
        rcases hend with h | h
        · exact h
        · exact absurd h hc
      have hl := hwf.1
      have hkl : min s.cbr remCap ≤ s.items.length := by omega
      have hxs : (s.items.take (min s.cbr remCap)).length = min s.cbr remCap := by
        rw [List.length_take]; omega
      have hoff : off ≤ dest.length := by
        have := congrArg List.length htake
        rw [List.length_take, hacc] at this; omega
      have hsa : (s.consume (min s.cbr remCap)).sawEnd = s.sawEnd := rfl
      have hwf1 : (s.consume (min s.cbr remCap)).Wf := by
        refine ⟨?_, hwf.2.1, ?_⟩
        · show s.cbr - min s.cbr remCap + partSum' s.sizes = (s.items.drop (min s.cbr remCap)).length
          simp [List.length_drop]; omega
        · intro hh; rw [hsa, he] at hh; simp at hh
      have hplace : place dest off (s.items.take (min s.cbr remCap)) =
          acc ++ s.items.take (min s.cbr remCap) ++ dest.drop (off + min s.cbr remCap) := by
        unfold place; rw [htake, hxs]
      by_cases hr : remCap - min s.cbr remCap = 0
      · simp only [hr, if_true]
        have : dest.drop (off + min s.cbr remCap) = [] := by
          apply List.drop_eq_nil_of_le; omega
        rw [hplace, this, List.append_nil]
      · simp only [hr, if_false]
        generalize hs1 : s.consume (min s.cbr remCap) = s1 at *
        have hcb : s1.cbr = s.cbr - min s.cbr remCap := by rw [← hs1]; rfl
        -- the block must be finished (otherwise the capacity was the minimum and is used up)
        have hz : s1.cbr = 0 := by omega
        simp only [hz, if_true]
        have hwf2 := readCount_wf s1 hwf1 hz (by rw [hsa]; exact he)
        have hcases := readCount_cases s1 hwf1 hz
        have hsaw : s1.readCount.sawEnd = false ∨ s1.readCount.cbr = 0 := by
          rcases hcases with ⟨_, _, h3⟩ | ⟨_, h2⟩
          · right; exact h3
          · left; rw [h2, hsa]; exact he
        apply ih s1.readCount (remCap - min s.cbr remCap) (off + min s.cbr remCap) _ _ hwf2 hsaw (by omega) (by omega)
        · rw [hplace, List.append_assoc]
          have hl2 : (acc ++ (s.items.take (min s.cbr remCap) ++ dest.drop (off + min s.cbr remCap))) =
              (acc ++ s.items.take (min s.cbr remCap)) ++ dest.drop (off + min s.cbr remCap) := by simp
          rw [hl2]
          have : off + min s.cbr remCap = (acc ++ s.items.take (min s.cbr remCap)).length := by simp [hacc, hxs]
          rw [this, List.take_left']
          rfl
        · simp [hacc, hxs]
        · rw [hplace]; simp [hacc, hxs, List.length_drop]; omega

/-- **a batch read does not depend on what the destination vector held**: any previous contents of any length up to the capacity -/
theorem readBatchInto_eq (s : BS) (cap : Nat) (dest : List Val) (hwf : s.Wf) (he : s.sawEnd = false) (hcap : 0 < cap)
    (hd : dest.length ≤ cap) : s.readBatchInto cap dest = s.readBatch cap := by
  unfold readBatchInto readBatch
  by_cases hc : s.cbr = 0
  · simp only [hc, if_true]
    have hwf2 := readCount_wf s hwf hc he
    have hcases := readCount_cases s hwf hc
    have hsaw : s.readCount.sawEnd = false ∨ s.readCount.cbr = 0 := by
      rcases hcases with ⟨_, _, h3⟩ | ⟨_, h2⟩
      · right; exact h3
      · left; rw [h2]; exact he
    exact batchLoopD_eq (cap + 1) s.readCount cap 0 dest [] hwf2 hsaw hcap (by omega) (by simp) rfl (by omega)
  · simp only [hc, if_false]
    exact batchLoopD_eq (cap + 1) s cap 0 dest [] hwf (Or.inl he) hcap (by omega) (by simp) rfl (by omega)

end Yardl.BS
