import YardlModel.Json

/-!
  YardlProofs.JsonFlags — the NDJSON form of a flags value (the array of the names found by the greedy
  bit-clearing decomposition both back ends use, or the integer itself when the value is not a
  combination of declared flags) is read back to the same value.
-/

namespace Yardl.Json
open Yardl

/-- clearing the bits of `v` in `r` (`r &= ~v`) splits `r` into the cleared rest and the part shared with `v` -/
theorem clear_or (r v : Nat) : (r ^^^ (r &&& v)) ||| (r &&& v) = r := by
  apply Nat.eq_of_testBit_eq
  intro i
  simp only [Nat.testBit_or, Nat.testBit_xor, Nat.testBit_and]
  cases r.testBit i <;> cases v.testBit i <;> rfl

def orList : List Nat → Nat
  | [] => 0
  | x :: r => x ||| orList r

/-- what the greedy decomposition selects: entries of the list, with positive values, whose union is `remaining` -/
theorem flagNames_spec : ∀ (syms : List (String × Int)) (rem : Nat) (acc names : List String),
    flagNames syms rem acc = some names →
    ∃ sel : List (String × Int), names = acc.reverse ++ sel.map (·.1) ∧ (∀ p ∈ sel, p ∈ syms ∧ 0 < p.2) ∧
      orList (sel.map (·.2.toNat)) = rem
  | [], rem, acc, names, h => by
    simp only [flagNames] at h
    by_cases h0 : rem = 0
    · simp [h0] at h
      exact ⟨[], by simp [h], by simp, by simp [orList, h0]⟩
    · simp [h0] at h
  | (s, v) :: r, rem, acc, names, h => by
    simp only [flagNames] at h
    by_cases h0 : rem = 0
    · simp [h0] at h
      exact ⟨[], by simp [h], by simp, by simp [orList, h0]⟩
    · simp only [h0, if_false] at h
      by_cases hv : v ≤ 0
      · simp only [hv, if_true] at h
        obtain ⟨sel, h1, h2, h3⟩ := flagNames_spec r rem acc names h
        exact ⟨sel, h1, fun p hp => ⟨by simp [(h2 p hp).1], (h2 p hp).2⟩, h3⟩
      · simp only [hv, if_false] at h
        by_cases hsub : v.toNat &&& rem = v.toNat
        · simp only [hsub, if_true] at h
          obtain ⟨sel, h1, h2, h3⟩ := flagNames_spec r _ (s :: acc) names h
          refine ⟨(s, v) :: sel, by simp [h1], ?_, ?_⟩
          · intro p hp
            simp only [List.mem_cons] at hp
            rcases hp with rfl | hp
            · exact ⟨by simp, by omega⟩
            · exact ⟨by simp [(h2 p hp).1], (h2 p hp).2⟩
          · simp only [List.map_cons, orList, h3]
            have hc := clear_or rem v.toNat
            have hand : rem &&& v.toNat = v.toNat := by rw [Nat.and_comm]; exact hsub
            rw [Nat.or_comm]
            generalize rem ^^^ (rem &&& v.toNat) = k at hc ⊢
            rw [hand] at hc
            exact hc
        · simp only [hsub, if_false] at h
          obtain ⟨sel, h1, h2, h3⟩ := flagNames_spec r rem acc names h
          exact ⟨sel, h1, fun p hp => ⟨by simp [(h2 p hp).1], (h2 p hp).2⟩, h3⟩

/-- with distinct names, looking a declared flag up by its name finds that flag -/
theorem find_by_name : ∀ (syms : List (String × Int)) (p : String × Int),
    distinct (syms.map fun q => strBytes q.1) = true → p ∈ syms →
    syms.find? (fun q => strBytes q.1 = strBytes p.1) = some p
  | [], _, _, h => by simp at h
  | q :: r, p, hd, h => by
    simp only [List.map_cons, distinct, Bool.and_eq_true, Bool.not_eq_true'] at hd
    simp only [List.mem_cons] at h
    rcases h with rfl | h
    · simp [List.find?]
    · have hne : ¬ strBytes q.1 = strBytes p.1 := by
        intro he
        have hmem : strBytes p.1 ∈ r.map (fun q => strBytes q.1) := List.mem_map.mpr ⟨p, h, rfl⟩
        rw [← he] at hmem
        have := hd.1
        simp only [List.contains_eq_mem, decide_eq_false_iff_not] at this
        exact this hmem
      simp only [List.find?, hne, decide_false]
      exact find_by_name r p hd.2 h

theorem orFlags_of_selection (syms : List (String × Int)) (hd : distinct (syms.map fun q => strBytes q.1) = true) :
    ∀ (sel : List (String × Int)), (∀ p ∈ sel, p ∈ syms ∧ 0 < p.2) →
      orFlags syms (sel.map fun p => J.str (strBytes p.1)) = some (Int.ofNat (orList (sel.map (·.2.toNat))))
  | [], _ => by simp [orFlags, orList]
  | p :: r, h => by
    have hp := h p (by simp)
    have ih := orFlags_of_selection syms hd r (fun q hq => h q (by simp [hq]))
    simp only [List.map_cons, orFlags, find_by_name syms p hd hp.1, ih, orList]
    simp

/-- flags round trip through NDJSON -/
theorem flags_round_trip (syms : List (String × Int)) (hd : distinct (syms.map fun q => strBytes q.1) = true) (x : Int) :
    (match (if x = 0 then
              (match symOfValue syms 0 with
               | some z => J.arr [.str (strBytes z)]
               | none => .arr [])
            else if x < 0 then .int x
            else match flagNames syms x.toNat [] with
              | some names => .arr (names.map fun n => .str (strBytes n))
              | none => .int x) with
     | .int i => some (Val.int i)
     | .arr xs => (orFlags syms xs).map Val.int
     | _ => none) = some (.int x) := by
  by_cases h0 : x = 0
  · subst h0
    simp only [if_true]
    cases hs : symOfValue syms 0 with
    | none => simp [orFlags]
    | some z =>
      -- the symbol found for 0 is declared with value 0, and is found again by its name
      have key : ∀ (l : List (String × Int)), symOfValue l 0 = some z → (z, (0 : Int)) ∈ l := by
        intro l
        induction l with
        | nil => intro h; simp [symOfValue] at h
        | cons q r ih =>
          obtain ⟨s0, v0⟩ := q
          intro h
          simp only [symOfValue] at h
          by_cases hv : v0 = 0
          · simp [hv] at h; subst h; simp [hv]
          · simp [hv] at h; simp [ih h]
      have hm := key syms hs
      simp [orFlags, find_by_name syms (z, 0) hd hm]
  · simp only [h0, if_false]
    by_cases hneg : x < 0
    · simp [hneg]
    · simp only [hneg, if_false]
      cases hf : flagNames syms x.toNat [] with
      | none => simp
      | some names =>
        obtain ⟨sel, h1, h2, h3⟩ := flagNames_spec syms x.toNat [] names hf
        simp only [List.reverse_nil, List.nil_append] at h1
        subst h1
        have := orFlags_of_selection syms hd sel h2
        simp only [List.map_map] at this ⊢
        have hcomp : ((fun n => J.str (strBytes n)) ∘ fun p : String × Int => p.1) = fun p => J.str (strBytes p.1) := rfl
        rw [hcomp, this, h3]
        simp only [Option.map_some, Option.some.injEq, Val.int.injEq]
        exact Int.toNat_of_nonneg (by omega)

end Yardl.Json
