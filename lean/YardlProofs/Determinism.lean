import YardlModel.Determinism

namespace Yardl.Det

theorem eq_of_not_less (a b : Diag) (ha : Wf a) (hb : Wf b) (h1 : less a b = false) (h2 : less b a = false) :
    a = b := by
  obtain ⟨af, al, ac, am⟩ := a
  obtain ⟨bf, bl, bc, bm⟩ := b
  simp only [less] at h1 h2
  simp only [Wf] at ha hb
  have hf : af = bf := by
    by_cases h : af = bf
    · exact h
    · have h' : bf ≠ af := fun e => h e.symm
      simp [h, h'] at h1 h2; omega
  subst hf
  have hl : al.getD 0 = bl.getD 0 := by
    by_cases h : al.getD 0 = bl.getD 0
    · exact h
    · have h' : bl.getD 0 ≠ al.getD 0 := fun e => h e.symm
      simp [h, h'] at h1 h2; omega
  have hc : ac.getD 0 = bc.getD 0 := by
    by_cases h : ac.getD 0 = bc.getD 0
    · exact h
    · have h' : bc.getD 0 ≠ ac.getD 0 := fun e => h e.symm
      simp [hl, h, h'] at h1 h2; omega
  have hm : am = bm := by
    simp [hl, hc] at h1 h2; omega
  have hl' : al = bl := by
    cases al <;> cases bl <;> simp_all
  have hc' : ac = bc := by
    cases ac <;> cases bc <;> simp_all
  subst hl'; subst hc'; subst hm
  rfl

/-- Two sorted arrangements of the same diagnostics are identical. -/
theorem sorted_perm_eq (l₁ l₂ : List Diag) (hw : ∀ d ∈ l₁, Wf d) (h₁ : Sorted l₁) (h₂ : Sorted l₂)
    (hp : l₁.Perm l₂) : l₁ = l₂ := by
  apply List.Perm.eq_of_pairwise (le := fun a b => less b a = false) _ h₁ h₂ hp
  intro a b ha hb hab hba
  exact eq_of_not_less a b (hw a ha) (hw b (hp.symm.subset hb)) hba hab

/-- Commutative accumulation (sets, maps keyed by the entry, flags): the fold over a map's entries
    does not depend on the iteration order. -/
theorem foldl_perm_invariant {α β : Type} (f : β → α → β)
    (hcomm : ∀ b x y, f (f b x) y = f (f b y) x) (l₁ l₂ : List α) (hp : l₁.Perm l₂) (b : β) :
    l₁.foldl f b = l₂.foldl f b := by
  induction hp generalizing b with
  | nil => rfl
  | cons x _ ih => simp [List.foldl_cons, ih]
  | swap x y l => simp [List.foldl_cons, hcomm]
  | trans _ _ ih₁ ih₂ => rw [ih₁, ih₂]

/-- Collect the keys, sort them by a total order, then use them: the sorted key list does not
    depend on the iteration order. -/
theorem sorted_keys_invariant (l₁ l₂ : List Nat) (h₁ : l₁.Pairwise (· ≤ ·)) (h₂ : l₂.Pairwise (· ≤ ·))
    (hp : l₁.Perm l₂) : l₁ = l₂ := by
  apply List.Perm.eq_of_pairwise (le := (· ≤ ·)) _ h₁ h₂ hp
  intro a b _ _ hab hba
  exact Nat.le_antisymm hab hba

end Yardl.Det
