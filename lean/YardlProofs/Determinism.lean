import YardlModel.Determinism

namespace Yardl.Det

theorem eq_of_not_less (a b : Diag) (ha : Wf a) (hb : Wf b) (h1 : less a b = false) (h2 : less b a = false) :
    a = b := by
  obtain ⟨af, al, ac, am⟩ := a
  obtain ⟨bf, bl, bc, bm⟩ := b
  simp only [less] at h1 h2
  simp only [Wf] at ha hb
  have hf : af = bf := by
    by_cases h : af = bf
    · exact h
    · have h' : bf ≠ af := fun e => h e.symm
      simp [h, h'] at h1 h2; omega
  subst hf
  have hl : al.getD 0 = bl.getD 0 := by
    by_cases h : al.getD 0 = bl.getD 0
    · exact h
    · have h' : bl.getD 0 ≠ al.getD 0 := fun e => h e.symm
      simp [h, h'] at h1 h2; omega
  have hc : ac.getD 0 = bc.getD 0 := by
    by_cases h : ac.getD 0 = bc.getD 0
    · exact h
    · have h' : bc.getD 0 ≠ ac.getD 0 := fun e => h e.symm
      simp [hl, h, h'] at h1 h2; omega
  have hm : am = bm := by
    simp [hl, hc] at h1 h2; omega
  have hl' : al = bl := by
    cases al <;> cases bl <;> simp_all
  have hc' : ac = bc := by
    cases ac <;> cases bc <;> simp_all
  subst hl'; subst hc'; subst hm
  rfl

/-- Two sorted arrangements of the same diagnostics are identical. -/
theorem sorted_perm_eq (l₁ l₂ : List Diag) (hw : ∀ d ∈ l₁, Wf d) (h₁ : Sorted l₁) (h₂ : Sorted l₂)
    (hp : l₁.Perm l₂) : l₁ = l₂ := by
  apply List.Perm.eq_of_pairwise (le := fun a b => less b a = false) _ h₁ h₂ hp
  intro a b ha hb hab hba
  exact eq_of_not_less a b (hw a ha) (hw b (hp.symm.subset hb)) hba hab

/-- Commutative accumulation (sets, maps keyed by the entry, flags): the fold over a map's entries
    does not depend on the iteration order. -/
theorem foldl_perm_invariant {α β : Type} (f : β → α → β)
    (hcomm : ∀ b x y, f (f b x) y = f (f b y) x) (l₁ l₂ : List α) (hp : l₁.Perm l₂) (b : β) :
    l₁.foldl f b = l₂.foldl f b := by
  induction hp generalizing b with
  | nil => rfl
  | cons x _ ih => simp [List.foldl_cons, ih]
  | swap x y l => simp [List.foldl_cons, hcomm]
  | trans _ _ ih₁ ih₂ => rw [ih₁, ih₂]

/-- Collect the keys, sort them by a total order, then use them: the sorted key list does not
    depend on the iteration order. -/
theorem sorted_keys_invariant (l₁ l₂ : List Nat) (h₁ : l₁.Pairwise (· ≤ ·)) (h₂ : l₂.Pairwise (· ≤ ·))
    (hp : l₁.Perm l₂) : l₁ = l₂ := by
  apply List.Perm.eq_of_pairwise (le := (· ≤ ·)) _ h₁ h₂ hp
  intro a b _ _ hab hba
  exact Nat.le_antisymm hab hba

end Yardl.Det

/-! ### regeneration of an unchanged package touches nothing -/

namespace Yardl.Det

theorem get_set_same (fs : Fs) (p : Nat) (c : List UInt8) : (fs.set p c).get p = some c := by
  simp [Fs.set, Fs.get]

theorem get_set_other (fs : Fs) (p q : Nat) (c : List UInt8) (h : q ≠ p) : (fs.set p c).get q = fs.get q := by
  have hpq : (p == q) = false := by simp; exact fun e => h e.symm
  simp only [Fs.set, Fs.get, List.find?_cons, hpq]
  congr 1
  induction fs with
  | nil => rfl
  | cons e r ih =>
    by_cases he : e.1 = p
    · have h1 : (e.1 != p) = false := by simp [he]
      have h2 : (e.1 == q) = false := by simp [he]; exact fun e' => h e'.symm
      simp [List.filter_cons, List.find?_cons, h1, h2, ih]
    · have h1 : (e.1 != p) = true := by simp [he]
      simp only [List.filter_cons, h1, if_true, List.find?_cons]
      cases e.1 == q <;> simp [ih]

theorem step_get_self (st : Fs × List Nat) (f : Nat × List UInt8) : (writeIfNeeded st f).1.get f.1 = some f.2 := by
  unfold writeIfNeeded
  split
  · assumption
  · exact get_set_same _ _ _

theorem step_get_other (st : Fs × List Nat) (f : Nat × List UInt8) (q : Nat) (h : q ≠ f.1) :
    (writeIfNeeded st f).1.get q = st.1.get q := by
  unfold writeIfNeeded
  split
  · rfl
  · exact get_set_other _ _ _ _ h

theorem foldl_get_unchanged : ∀ (r : List (Nat × List UInt8)) (st : Fs × List Nat) (p : Nat), (∀ g ∈ r, g.1 ≠ p) →
    (r.foldl writeIfNeeded st).1.get p = st.1.get p
  | [], _, _, _ => rfl
  | g :: r, st, p, h => by
    have := foldl_get_unchanged r (writeIfNeeded st g) p (fun x hx => h x (by simp [hx]))
    simp only [List.foldl_cons, this]
    exact step_get_other st g p (fun e => h g (by simp) e.symm)

/-- after a run, every emitted file holds the emitted content -/
theorem foldl_content : ∀ (files : List (Nat × List UInt8)) (st : Fs × List Nat), pathsDistinct files = true →
    ∀ f ∈ files, (files.foldl writeIfNeeded st).1.get f.1 = some f.2
  | [], _, _, f, hf => by simp at hf
  | g :: r, st, hd, f, hf => by
    simp only [pathsDistinct, Bool.and_eq_true, Bool.not_eq_true', List.any_eq_false, beq_iff_eq] at hd
    simp only [List.foldl_cons]
    rcases List.mem_cons.mp hf with rfl | hr
    · rw [foldl_get_unchanged r _ f.1 (fun x hx => hd.1 x hx)]
      exact step_get_self st f
    · exact foldl_content r _ hd.2 f hr

theorem foldl_fixed : ∀ (files : List (Nat × List UInt8)) (st : Fs × List Nat), (∀ f ∈ files, st.1.get f.1 = some f.2) →
    files.foldl writeIfNeeded st = st
  | [], _, _ => rfl
  | g :: r, st, h => by
    have hg : writeIfNeeded st g = st := by
      unfold writeIfNeeded
      simp [h g (by simp)]
    simp only [List.foldl_cons, hg]
    exact foldl_fixed r st (fun f hf => h f (by simp [hf]))

/-- regenerating an unchanged package: no file is written, the tree is unchanged -/
theorem second_run_touches_nothing (files : List (Nat × List UInt8)) (fs : Fs) (hd : pathsDistinct files = true) :
    generate files (generate files fs).1 = ((generate files fs).1, []) := by
  unfold generate
  exact foldl_fixed files ((files.foldl writeIfNeeded (fs, [])).1, []) (fun f hf => foldl_content files (fs, []) hd f hf)

/-- a file is written exactly when it is missing or holds other bytes -/
theorem touched_iff_different (fs : Fs) (f : Nat × List UInt8) :
    (writeIfNeeded (fs, []) f).2 = (if fs.get f.1 = some f.2 then [] else [f.1]) := by
  unfold writeIfNeeded
  split <;> simp_all

end Yardl.Det
