import YardlModel.ProtoMatlab
import YardlProofs.Proto

/-!
  YardlProofs.ProtoMatlab — the machines denoted by the tables of the generated MATLAB base classes are the C++ writer machine and
  the MATLAB reader specification: a call sequence is accepted exactly when it visits the steps in declaration order.
-/

namespace Yardl.Proto

theorem getD_cons_of_pos (s : Bool) (rest : List Bool) (j : Nat) (h : 0 < j) : (s :: rest).getD j false = rest.getD (j - 1) false := by
  cases j with
  | zero => omega
  | succ j => simp [List.getD]

theorem findRow_wRows_write : ∀ (p : Shape) (k i : Nat),
    findRow (wRows p k) .write i =
      if k ≤ i ∧ i < k + p.length then some ⟨.write, i, i, if p.getD (i - k) false then none else some (i + 1)⟩ else none
  | [], k, i => by simp [wRows, findRow]
  | s :: rest, k, i => by
    have ih := findRow_wRows_write rest (k + 1) i
    by_cases hik : i = k
    · subst hik
      cases s <;> simp [wRows, findRow, List.getD]
    · have hne : (k == i) = false := by simp; exact fun e => hik e.symm
      have : findRow (wRows (s :: rest) k) .write i = findRow (wRows rest (k + 1)) .write i := by
        cases s <;> simp [wRows, findRow, hne]
      rw [this, ih]
      by_cases hc : k + 1 ≤ i ∧ i < k + 1 + rest.length
      · have hc' : k ≤ i ∧ i < k + (s :: rest).length := by simp only [List.length_cons]; omega
        have hg := getD_cons_of_pos s rest (i - k) (by omega)
        have he : i - k - 1 = i - (k + 1) := by omega
        rw [if_pos hc, if_pos hc', hg, he]
      · have hc' : ¬ (k ≤ i ∧ i < k + (s :: rest).length) := by simp only [List.length_cons]; omega
        rw [if_neg hc, if_neg hc']

theorem findRow_wRows_end : ∀ (p : Shape) (k i : Nat),
    findRow (wRows p k) .endS i =
      if k ≤ i ∧ i < k + p.length ∧ p.getD (i - k) false = true then some ⟨.endS, i, i, some (i + 1)⟩ else none
  | [], k, i => by simp [wRows, findRow]
  | s :: rest, k, i => by
    have ih := findRow_wRows_end rest (k + 1) i
    by_cases hik : i = k
    · subst hik
      cases s
      · -- not a stream: this ordinal has no such method, and later ordinals are larger
        have : findRow (wRows (false :: rest) i) .endS i = findRow (wRows rest (i + 1)) .endS i := by simp [wRows, findRow]
        rw [this, ih]
        have h1 : ¬ (i + 1 ≤ i ∧ i < i + 1 + rest.length ∧ rest.getD (i - (i + 1)) false = true) := by omega
        have h2 : ¬ (i ≤ i ∧ i < i + (false :: rest).length ∧ (false :: rest).getD (i - i) false = true) := by simp [List.getD]
        rw [if_neg h1, if_neg h2]
      · simp [wRows, findRow, List.getD]
    · have hne : (k == i) = false := by simp; exact fun e => hik e.symm
      have : findRow (wRows (s :: rest) k) .endS i = findRow (wRows rest (k + 1)) .endS i := by
        cases s <;> simp [wRows, findRow, hne]
      rw [this, ih]
      by_cases hA : k + 1 ≤ i ∧ i < k + 1 + rest.length ∧ rest.getD (i - (k + 1)) false = true
      · have hg := getD_cons_of_pos s rest (i - k) (by omega)
        have he : i - k - 1 = i - (k + 1) := by omega
        have hB : k ≤ i ∧ i < k + (s :: rest).length ∧ (s :: rest).getD (i - k) false = true := by
          refine ⟨by omega, by simp only [List.length_cons]; omega, ?_⟩
          rw [hg, he]; exact hA.2.2
        rw [if_pos hA, if_pos hB]
      · have hB : ¬ (k ≤ i ∧ i < k + (s :: rest).length ∧ (s :: rest).getD (i - k) false = true) := by
          intro hB
          have h1 : k + 1 ≤ i := by omega
          have hg := getD_cons_of_pos s rest (i - k) (by omega)
          have he : i - k - 1 = i - (k + 1) := by omega
          have h3 := hB.2.2
          rw [hg, he] at h3
          have h2 := hB.2.1
          simp only [List.length_cons] at h2
          exact hA ⟨h1, by omega, h3⟩
        rw [if_neg hA, if_neg hB]

theorem findRow_wRows_close : ∀ (p : Shape) (k : Nat), findRow (wRows p k) .close 0 = some ⟨.close, 0, k + p.length, none⟩
  | [], k => by simp [wRows, findRow]
  | s :: rest, k => by
    have ih := findRow_wRows_close rest (k + 1)
    have : findRow (wRows (s :: rest) k) .close 0 = findRow (wRows rest (k + 1)) .close 0 := by
      cases s <;> simp [wRows, findRow]
    rw [this, ih]
    simp only [List.length_cons, Option.some.injEq, MRow.mk.injEq, true_and, and_true]
    omega

theorem findRow_write0 (p : Shape) (i : Nat) :
    findRow (wRows p 0) .write i = if i < p.length then some ⟨.write, i, i, if isStream p i then none else some (i + 1)⟩ else none := by
  simpa [isStream] using findRow_wRows_write p 0 i

theorem findRow_end0 (p : Shape) (i : Nat) :
    findRow (wRows p 0) .endS i = if i < p.length ∧ isStream p i = true then some ⟨.endS, i, i, some (i + 1)⟩ else none := by
  simpa [isStream] using findRow_wRows_end p 0 i

/-- the machine of the generated MATLAB writer is the machine of the generated C++ writer (`state_ == ordinal` guards, explicit `end_<step>`) -/
theorem matW_eq_cppW (p : Shape) (st : Nat) (op : WOp) : matW (matWriterRows p) st op = cppW p st op := by
  cases op with
  | write i =>
    simp only [matW, matWriterRows, findRow_write0, cppW]
    generalize isStream p i = b
    by_cases h : i < p.length <;> by_cases hs : st = i <;> cases b <;> simp [h, hs]
  | endS i =>
    simp only [matW, matWriterRows, findRow_end0, cppW]
    generalize isStream p i = b
    by_cases h : i < p.length <;> by_cases hs : st = i <;> cases b <;> simp [h, hs]
  | close =>
    simp only [matW, matWriterRows, findRow_wRows_close p 0, cppW, Nat.zero_add]

theorem runW_congr (f g : Nat → WOp → Option Nat) (h : ∀ st op, f st op = g st op) : ∀ (ops : List WOp) (st : Nat), runW f st ops = runW g st ops
  | [], _ => rfl
  | op :: ops, st => by
    simp only [runW, h st op]
    cases g st op with
    | none => rfl
    | some st' => exact runW_congr f g h ops st'

/-! ### reader -/

theorem findRow_rRows_read : ∀ (p : Shape) (k i : Nat),
    findRow (rRows p k) .read i =
      if k ≤ i ∧ i < k + p.length then some ⟨.read, i, i, if p.getD (i - k) false then none else some (i + 1)⟩ else none
  | [], k, i => by simp [rRows, findRow]
  | s :: rest, k, i => by
    have ih := findRow_rRows_read rest (k + 1) i
    by_cases hik : i = k
    · subst hik
      cases s <;> simp [rRows, findRow, List.getD]
    · have hne : (k == i) = false := by simp; exact fun e => hik e.symm
      have : findRow (rRows (s :: rest) k) .read i = findRow (rRows rest (k + 1)) .read i := by
        cases s <;> simp [rRows, findRow, hne]
      rw [this, ih]
      by_cases hc : k + 1 ≤ i ∧ i < k + 1 + rest.length
      · have hc' : k ≤ i ∧ i < k + (s :: rest).length := by simp only [List.length_cons]; omega
        have hg := getD_cons_of_pos s rest (i - k) (by omega)
        have he : i - k - 1 = i - (k + 1) := by omega
        rw [if_pos hc, if_pos hc', hg, he]
      · have hc' : ¬ (k ≤ i ∧ i < k + (s :: rest).length) := by simp only [List.length_cons]; omega
        rw [if_neg hc, if_neg hc']

theorem findRow_rRows_has : ∀ (p : Shape) (k i : Nat),
    findRow (rRows p k) .has i =
      if k ≤ i ∧ i < k + p.length ∧ p.getD (i - k) false = true then some ⟨.has, i, i, some (i + 1)⟩ else none
  | [], k, i => by simp [rRows, findRow]
  | s :: rest, k, i => by
    have ih := findRow_rRows_has rest (k + 1) i
    by_cases hik : i = k
    · subst hik
      cases s
      · -- not a stream: this ordinal has no such method, and later ordinals are larger
        have : findRow (rRows (false :: rest) i) .has i = findRow (rRows rest (i + 1)) .has i := by simp [rRows, findRow]
        rw [this, ih]
        have h1 : ¬ (i + 1 ≤ i ∧ i < i + 1 + rest.length ∧ rest.getD (i - (i + 1)) false = true) := by omega
        have h2 : ¬ (i ≤ i ∧ i < i + (false :: rest).length ∧ (false :: rest).getD (i - i) false = true) := by simp [List.getD]
        rw [if_neg h1, if_neg h2]
      · simp [rRows, findRow, List.getD]
    · have hne : (k == i) = false := by simp; exact fun e => hik e.symm
      have : findRow (rRows (s :: rest) k) .has i = findRow (rRows rest (k + 1)) .has i := by
        cases s <;> simp [rRows, findRow, hne]
      rw [this, ih]
      by_cases hA : k + 1 ≤ i ∧ i < k + 1 + rest.length ∧ rest.getD (i - (k + 1)) false = true
      · have hg := getD_cons_of_pos s rest (i - k) (by omega)
        have he : i - k - 1 = i - (k + 1) := by omega
        have hB : k ≤ i ∧ i < k + (s :: rest).length ∧ (s :: rest).getD (i - k) false = true := by
          refine ⟨by omega, by simp only [List.length_cons]; omega, ?_⟩
          rw [hg, he]; exact hA.2.2
        rw [if_pos hA, if_pos hB]
      · have hB : ¬ (k ≤ i ∧ i < k + (s :: rest).length ∧ (s :: rest).getD (i - k) false = true) := by
          intro hB
          have h1 : k + 1 ≤ i := by omega
          have hg := getD_cons_of_pos s rest (i - k) (by omega)
          have he : i - k - 1 = i - (k + 1) := by omega
          have h3 := hB.2.2
          rw [hg, he] at h3
          have h2 := hB.2.1
          simp only [List.length_cons] at h2
          exact hA ⟨h1, by omega, h3⟩
        rw [if_neg hA, if_neg hB]

theorem findRow_rRows_close : ∀ (p : Shape) (k : Nat), findRow (rRows p k) .close 0 = some ⟨.close, 0, k + p.length, none⟩
  | [], k => by simp [rRows, findRow]
  | s :: rest, k => by
    have ih := findRow_rRows_close rest (k + 1)
    have : findRow (rRows (s :: rest) k) .close 0 = findRow (rRows rest (k + 1)) .close 0 := by
      cases s <;> simp [rRows, findRow]
    rw [this, ih]
    simp only [List.length_cons, Option.some.injEq, MRow.mk.injEq, true_and, and_true]
    omega

theorem findRow_read0 (p : Shape) (i : Nat) :
    findRow (rRows p 0) .read i = if i < p.length then some ⟨.read, i, i, if isStream p i then none else some (i + 1)⟩ else none := by
  simpa [isStream] using findRow_rRows_read p 0 i

theorem findRow_has0 (p : Shape) (i : Nat) :
    findRow (rRows p 0) .has i = if i < p.length ∧ isStream p i = true then some ⟨.has, i, i, some (i + 1)⟩ else none := by
  simpa [isStream] using findRow_rRows_has p 0 i

/-- the machine of the generated MATLAB reader is its step-order specification -/
theorem matR_eq_spec (p : Shape) (st : Nat) (op : MROp) : matR (matReaderRows p) st op = specRmat p st op := by
  cases op with
  | read i =>
    simp only [matR, matReaderRows, findRow_read0, specRmat]
    generalize isStream p i = b
    by_cases hs : st = i
    · subst hs
      by_cases h : st < p.length <;> cases b <;> simp [h]
    · have hs' : ¬ i = st := fun e => hs e.symm
      by_cases h : i < p.length <;> cases b <;> simp [h, hs, hs']
  | has i more =>
    simp only [matR, matReaderRows, findRow_has0, specRmat]
    generalize isStream p i = b
    by_cases hs : st = i
    · subst hs
      by_cases h : st < p.length <;> cases b <;> cases more <;> simp [h]
    · have hs' : ¬ i = st := fun e => hs e.symm
      by_cases h : i < p.length <;> cases b <;> simp [h, hs, hs']
  | close =>
    simp only [matR, matReaderRows, findRow_rRows_close p 0, specRmat, Nat.zero_add]

theorem runMR_congr (f g : Nat → MROp → Option Nat) (h : ∀ st op, f st op = g st op) : ∀ (ops : List MROp) (st : Nat), runMR f st ops = runMR g st ops
  | [], _ => rfl
  | op :: ops, st => by
    simp only [runMR, h st op]
    cases g st op with
    | none => rfl
    | some st' => exact runMR_congr f g h ops st'

end Yardl.Proto
