import YardlModel.Case

/-!
  Proofs about the case conversions and the identifier escaping (`YardlModel/Case.lean`).

  * the conversions only move underscores: `strip (delimit s) = strip s`, hence two names with the same
    snake_case form are equal up to the case of their letters (`snake_eq_imp_lower_eq`);
  * a converted validator-accepted name never ends in `_` (`snake_last`), which is what makes the `_`
    suffix of the Python / MATLAB back ends collision-free (`ident_underscore_injective`);
  * the C++ field suffix `_field` is not collision-free under the plain rule (`ident_collides`) and is
    under the recursive rule, for every reserved table and suffix (`identRec_injective`);
  * PascalCase of names that start with a lower-case letter is injective (`pascal_injective`).
-/

namespace Yardl.Case

def strip (s : List Nat) : List Nat := s.filter (· != us)

/-- names the validator accepts (`memberNameRegex` / `typeNameRegex`, length bound aside): letters and digits only -/
def alnum (s : List Nat) : Prop := ∀ c ∈ s, isAlnum c = true

theorem alnum_ne_us {c : Nat} (h : isAlnum c = true) : c ≠ us := by
  intro e; subst e; revert h; decide

theorem strip_of_alnum {s : List Nat} (h : alnum s) : strip s = s := by
  unfold strip
  rw [List.filter_eq_self]
  intro c hc
  have := alnum_ne_us (h c hc)
  simpa using this

theorem strip_pass1 (p2 p1 : Option Nat) (s : List Nat) : strip (pass1 p2 p1 s) = strip s := by
  induction s generalizing p2 p1 with
  | nil => rfl
  | cons c r ih =>
    unfold pass1
    split
    · simp only [strip, List.filter_cons] at ih ⊢
      simp [ih]
    · simp only [strip, List.filter_cons] at ih ⊢
      simp [ih]

theorem strip_pass2 (s : List Nat) : strip (pass2 s) = strip s := by
  induction s with
  | nil => rfl
  | cons c r ih =>
    unfold pass2
    split
    · rename_i h
      have hc : c = us := by
        have h' := h
        simp only [Bool.and_eq_true, beq_iff_eq] at h'
        exact h'.1
      subst hc
      simp only [strip, List.filter_cons] at ih ⊢
      simp [ih]
    · simp only [strip, List.filter_cons] at ih ⊢
      simp [ih]

theorem strip_delimit (s : List Nat) : strip (delimit s) = strip s := by
  unfold delimit; rw [strip_pass2, strip_pass1]

theorem toLo_us_iff (c : Nat) : toLo c = us ↔ c = us := by
  unfold toLo isUp us
  split
  · rename_i h
    have hb : 65 ≤ c ∧ c ≤ 90 := by simpa using h
    omega
  · exact Iff.rfl

theorem toUp_us_iff (c : Nat) : toUp c = us ↔ c = us := by
  unfold toUp isLo us
  split
  · rename_i h
    have hb : 97 ≤ c ∧ c ≤ 122 := by simpa using h
    omega
  · exact Iff.rfl

theorem strip_map (f : Nat → Nat) (hf : ∀ c, f c = us ↔ c = us) (s : List Nat) :
    strip (s.map f) = (strip s).map f := by
  induction s with
  | nil => rfl
  | cons c r ih =>
    simp only [strip, List.map_cons, List.filter_cons] at ih ⊢
    by_cases hc : c = us
    · subst hc
      have : f us = us := (hf us).2 rfl
      simp [this, ih]
    · have : f c ≠ us := fun e => hc ((hf c).1 e)
      simp [this, hc, ih]

/-- the snake_case form keeps the letters and digits of the name, in order, in lower case: conversion only moves underscores -/
theorem strip_snake (s : List Nat) : strip (snake s) = (strip s).map toLo := by
  unfold snake; rw [strip_map toLo toLo_us_iff, strip_delimit]

theorem strip_upperSnake (s : List Nat) : strip (upperSnake s) = (strip s).map toUp := by
  unfold upperSnake; rw [strip_map toUp toUp_us_iff, strip_delimit]

/-- two validator-accepted names with the same snake_case form differ at most in the case of their letters -/
theorem snake_eq_imp_lower_eq {a b : List Nat} (ha : alnum a) (hb : alnum b) (h : snake a = snake b) :
    a.map toLo = b.map toLo := by
  have := congrArg strip h
  rwa [strip_snake, strip_snake, strip_of_alnum ha, strip_of_alnum hb] at this

/-! ### the last character -/

theorem pass1_ne_nil (p2 p1 : Option Nat) (c : Nat) (r : List Nat) : pass1 p2 p1 (c :: r) ≠ [] := by
  unfold pass1; split <;> simp

theorem pass1_last (p2 p1 : Option Nat) (s : List Nat) : (pass1 p2 p1 s).getLast? = s.getLast? := by
  induction s generalizing p2 p1 with
  | nil => rfl
  | cons c r ih =>
    cases r with
    | nil => unfold pass1; split <;> simp [pass1]
    | cons d r' =>
      have hne := pass1_ne_nil p1 (some c) d r'
      have ih' := ih p1 (some c)
      unfold pass1
      split
      · rw [List.getLast?_cons_cons]
        rw [List.getLast?_cons_of_ne_nil hne, ih', List.getLast?_cons_cons]
      · rw [List.getLast?_cons_of_ne_nil hne, ih', List.getLast?_cons_cons]

theorem pass2_last (s : List Nat) (z : Nat) (hz : z ≠ us) (h : s.getLast? = some z) : (pass2 s).getLast? = some z := by
  induction s with
  | nil => simp at h
  | cons c r ih =>
    cases r with
    | nil =>
      have hc : c = z := by simpa using h
      subst hc
      unfold pass2
      have : (c == us) = false := by simpa using hz
      simp [this, pass2]
    | cons d r' =>
      rw [List.getLast?_cons_cons] at h
      have ih' := ih h
      have hne : pass2 (d :: r') ≠ [] := by
        intro e; rw [e] at ih'; simp at ih'
      unfold pass2
      split
      · exact ih'
      · rw [List.getLast?_cons_of_ne_nil hne]; exact ih'

theorem delimit_last (s : List Nat) (z : Nat) (hz : z ≠ us) (h : s.getLast? = some z) :
    (delimit s).getLast? = some z := by
  unfold delimit
  apply pass2_last _ z hz
  rw [pass1_last]; exact h

theorem getLast?_mem {s : List Nat} {z : Nat} (h : s.getLast? = some z) : z ∈ s :=
  List.mem_of_getLast? h

/-- the converted form of a non-empty validator-accepted name does not end with an underscore -/
theorem snake_last {s : List Nat} (hs : alnum s) (hne : s ≠ []) : (snake s).getLast? ≠ some us := by
  obtain ⟨z, hz⟩ : ∃ z, s.getLast? = some z := by
    cases h : s.getLast? with
    | none => exact absurd (List.getLast?_eq_none_iff.1 h) hne
    | some z => exact ⟨z, rfl⟩
  have hzne : z ≠ us := alnum_ne_us (hs z (getLast?_mem hz))
  unfold snake
  rw [List.getLast?_map, delimit_last s z hzne hz]
  intro e
  have : toLo z = us := by simpa using e
  exact hzne ((toLo_us_iff z).1 this)

theorem upperSnake_last {s : List Nat} (hs : alnum s) (hne : s ≠ []) : (upperSnake s).getLast? ≠ some us := by
  obtain ⟨z, hz⟩ : ∃ z, s.getLast? = some z := by
    cases h : s.getLast? with
    | none => exact absurd (List.getLast?_eq_none_iff.1 h) hne
    | some z => exact ⟨z, rfl⟩
  have hzne : z ≠ us := alnum_ne_us (hs z (getLast?_mem hz))
  unfold upperSnake
  rw [List.getLast?_map, delimit_last s z hzne hz]
  intro e
  have : toUp z = us := by simpa using e
  exact hzne ((toUp_us_iff z).1 this)

/-! ### escaping with the suffix `_` -/

/-- suffixing reserved words with `_` keeps distinct converted names distinct, whatever the reserved table,
    as long as no converted name ends in `_` -/
theorem ident_underscore_injective (R : List (List Nat)) (x y : List Nat)
    (hx : x.getLast? ≠ some us) (hy : y.getLast? ≠ some us)
    (h : ident R [us] x = ident R [us] y) : x = y := by
  unfold ident at h
  cases h1 : R.contains x <;> cases h2 : R.contains y <;>
    simp only [h1, h2, if_true, Bool.false_eq_true, if_false] at h
  · exact h
  · exfalso; apply hx; rw [h]; simp
  · exfalso; apply hy; rw [← h]; simp
  · exact List.append_cancel_right h

/-! ### escaping with a longer suffix -/

/-- the plain rule collides as soon as the suffixed form of a reserved word is itself a converted name -/
theorem ident_collides (R : List (List Nat)) (sfx w : List Nat) (hw : w ∈ R) (hn : (w ++ sfx) ∉ R) :
    ident R sfx w = ident R sfx (w ++ sfx) := by
  unfold ident
  simp [hw, hn]

theorem stripSuffix_append (sfx t : List Nat) : stripSuffix sfx (t ++ sfx) = some t := by
  unfold stripSuffix
  have h1 : sfx.length ≤ (t ++ sfx).length := by simp
  have h2 : (t ++ sfx).length - sfx.length = t.length := by simp
  rw [h2]
  simp [List.drop_left', List.take_left']

theorem stripSuffix_some {sfx s t : List Nat} (h : stripSuffix sfx s = some t) : s = t ++ sfx := by
  unfold stripSuffix at h
  split at h
  · rename_i hc
    have ht : t = s.take (s.length - sfx.length) := by simpa using h.symm
    rw [ht]
    conv => lhs; rw [← List.take_append_drop (s.length - sfx.length) s]
    rw [hc.2]
  · simp at h

theorem needsF_stable (R : List (List Nat)) (sfx : List Nat) (hs : sfx ≠ []) :
    ∀ (n : Nat) (s : List Nat), s.length ≤ n → needsF R sfx n s = needsF R sfx s.length s := by
  intro n
  induction n using Nat.strongRecOn with
  | ind n ih =>
    intro s hl
    cases n with
    | zero =>
      have : s.length = 0 := by omega
      rw [this]
    | succ m =>
      cases hsl : s.length with
      | zero =>
        have hnil : s = [] := List.length_eq_zero_iff.1 hsl
        subst hnil
        unfold needsF
        have : stripSuffix sfx [] = none := by
          unfold stripSuffix
          have : ¬ (sfx.length ≤ 0) := by
            have := List.length_pos_iff.2 hs; omega
          simp [this]
        simp [this]
      | succ k =>
        unfold needsF
        cases hst : stripSuffix sfx s with
        | none => rfl
        | some t =>
          have hs' := stripSuffix_some hst
          have hlen : t.length + sfx.length = s.length := by rw [hs']; simp
          have hpos := List.length_pos_iff.2 hs
          have htm : t.length ≤ m := by omega
          have htk : t.length ≤ k := by omega
          simp only []
          rw [ih m (Nat.lt_succ_self m) t htm]
          have hk : k < m + 1 := by omega
          rw [ih k hk t htk]

theorem needs_append (R : List (List Nat)) (sfx t : List Nat) (hs : sfx ≠ []) (h : needs R sfx t = true) :
    needs R sfx (t ++ sfx) = true := by
  unfold needs at h ⊢
  have hpos := List.length_pos_iff.2 hs
  have hl : (t ++ sfx).length = (t.length + sfx.length - 1) + 1 := by simp; omega
  rw [hl]
  unfold needsF
  rw [stripSuffix_append]
  simp only []
  rw [needsF_stable R sfx hs _ t (by omega), h]
  simp

/-- **the recursive rule is collision-free**: for every reserved table and every non-empty suffix, distinct converted names get
    distinct identifiers -/
theorem identRec_injective (R : List (List Nat)) (sfx x y : List Nat) (hs : sfx ≠ [])
    (h : identRec R sfx x = identRec R sfx y) : x = y := by
  unfold identRec at h
  cases h1 : needs R sfx x <;> cases h2 : needs R sfx y <;>
    simp only [h1, h2, if_true, Bool.false_eq_true, if_false] at h
  · exact h
  · exfalso
    have := needs_append R sfx y hs h2
    rw [← h, h1] at this; exact Bool.false_ne_true this
  · exfalso
    have := needs_append R sfx x hs h1
    rw [h, h2] at this; exact Bool.false_ne_true this
  · exact List.append_cancel_right h

/-- the recursive rule still never yields a reserved word, provided no reserved word ends with the suffix after a reserved or
    suffixed stem (true of the table: decided over the regenerated table in `Props/C08.lean`) -/
theorem identRec_not_reserved (R : List (List Nat)) (sfx x : List Nat) :
    needs R sfx (identRec R sfx x) = false ∨ needs R sfx x = true := by
  unfold identRec
  by_cases h : needs R sfx x = true
  · exact Or.inr h
  · left; simp only [h]; simpa using h

theorem needs_of_reserved (R : List (List Nat)) (sfx x : List Nat) (h : x ∈ R) : needs R sfx x = true := by
  unfold needs
  cases x.length <;> simp [needsF, h]

/-! ### PascalCase -/

theorem toUp_injective_on_lower {c d : Nat} (hc : isLo c = true) (hd : isLo d = true) (h : toUp c = toUp d) : c = d := by
  unfold toUp at h
  simp only [hc, hd, if_true] at h
  unfold isLo at hc hd
  have hb1 : 97 ≤ c ∧ c ≤ 122 := by simpa using hc
  have hb2 : 97 ≤ d ∧ d ≤ 122 := by simpa using hd
  omega

theorem contains_us_of_alnum {s : List Nat} (h : alnum s) : s.contains us = false := by
  cases hc : s.contains us with
  | false => rfl
  | true =>
    have : us ∈ s := by simpa using hc
    exact absurd rfl (alnum_ne_us (h _ this))

theorem pascal_of_alnum {s : List Nat} (h : alnum s) : pascal s = cap s := by
  unfold pascal; rw [contains_us_of_alnum h]; simp

/-- member names (first character a lower-case letter): PascalCase is injective -/
theorem pascal_injective {a b : List Nat} (ha : alnum a) (hb : alnum b)
    (ha0 : ∃ c r, a = c :: r ∧ isLo c = true) (hb0 : ∃ c r, b = c :: r ∧ isLo c = true)
    (h : pascal a = pascal b) : a = b := by
  rw [pascal_of_alnum ha, pascal_of_alnum hb] at h
  obtain ⟨c, r, rfl, hc⟩ := ha0
  obtain ⟨d, r', rfl, hd⟩ := hb0
  simp only [cap, List.cons.injEq] at h
  rw [toUp_injective_on_lower hc hd h.1, h.2]

/-- the method names the generated C++ derives from two steps coincide exactly when one step's PascalCase name is the
    other's followed by `Impl` (the open finding: steps `foo` and `fooImpl`) -/
theorem cpp_write_impl_collision_iff (a b : List Nat) :
    str "Write" ++ pascal a ++ str "Impl" = str "Write" ++ pascal b ↔ pascal b = pascal a ++ str "Impl" := by
  constructor
  · intro h
    rw [List.append_assoc] at h
    exact (List.append_cancel_left h).symm
  · intro h; rw [h, List.append_assoc]

/-! ### accepted members get distinct identifiers -/

theorem alnum_of_memberName {n : List Nat} (h : memberName n = true) : alnum n ∧ n ≠ [] := by
  cases n with
  | nil => simp [memberName] at h
  | cons c r =>
    simp only [memberName, Bool.and_eq_true, List.all_eq_true, decide_eq_true_eq] at h
    refine ⟨?_, by simp⟩
    intro x hx
    rcases List.mem_cons.1 hx with h1 | h1
    · subst h1; simp [isAlnum, h.1.1]
    · exact h.1.2 x h1

theorem membersOk_spec : ∀ (names seenNames seenSnake : List (List Nat)), membersOk names seenNames seenSnake = true →
    (∀ n ∈ names, memberName n = true) ∧ (names.map snake).Nodup ∧ (∀ n ∈ names, snake n ∉ seenSnake) := by
  intro names
  induction names with
  | nil => intro _ _ _; exact ⟨by simp, by simp, by simp⟩
  | cons n rest ih =>
    intro sn ss h
    simp only [membersOk, Bool.and_eq_true, Bool.not_eq_true', List.contains_eq_mem, decide_eq_false_iff_not] at h
    obtain ⟨⟨⟨h1, _⟩, h3⟩, h4⟩ := h
    obtain ⟨i1, i2, i3⟩ := ih _ _ h4
    refine ⟨?_, ?_, ?_⟩
    · intro m hm
      rcases List.mem_cons.1 hm with e | e
      · subst e; exact h1
      · exact i1 m e
    · simp only [List.map_cons, List.nodup_cons]
      refine ⟨?_, i2⟩
      intro hmem
      obtain ⟨m, hm, e⟩ := List.mem_map.1 hmem
      have := i3 m hm
      rw [e] at this
      exact this (List.mem_cons_self)
    · intro m hm
      rcases List.mem_cons.1 hm with e | e
      · subst e; simpa using h3
      · intro hc
        exact i3 m e (List.mem_cons_of_mem _ hc)

theorem nodup_map_of_inj_on {α β : Type} (f : α → β) : ∀ (l : List α), l.Nodup →
    (∀ a ∈ l, ∀ b ∈ l, f a = f b → a = b) → (l.map f).Nodup := by
  intro l
  induction l with
  | nil => intro _ _; simp
  | cons x r ih =>
    intro hn hinj
    rw [List.nodup_cons] at hn
    simp only [List.map_cons, List.nodup_cons]
    refine ⟨?_, ih hn.2 (fun a ha b hb => hinj a (List.mem_cons_of_mem _ ha) b (List.mem_cons_of_mem _ hb))⟩
    intro hm
    obtain ⟨y, hy, e⟩ := List.mem_map.1 hm
    have := hinj y (List.mem_cons_of_mem _ hy) x (List.mem_cons_self) e
    subst this
    exact hn.1 hy

/-- **the members of an accepted record (or the steps of an accepted protocol) get pairwise distinct identifiers** in Python and MATLAB
    (suffix `_`) and in C++ (the recursive `_field` rule) — for every reserved table -/
theorem accepted_members_get_distinct_identifiers (Rpy Rmat Rcpp : List (List Nat)) (names : List (List Nat))
    (h : membersOk names [] [] = true) :
    (names.map fun n => ident Rpy [us] (snake n)).Nodup ∧ (names.map fun n => ident Rmat [us] (snake n)).Nodup ∧
    (names.map fun n => identRec Rcpp (str "_field") (snake n)).Nodup := by
  obtain ⟨hm, hnd, _⟩ := membersOk_spec names [] [] h
  have last : ∀ x ∈ names.map snake, x.getLast? ≠ some us := by
    intro x hx
    obtain ⟨n, hn, e⟩ := List.mem_map.1 hx
    subst e
    have := alnum_of_memberName (hm n hn)
    exact snake_last this.1 this.2
  have e1 : ∀ (R : List (List Nat)), (names.map fun n => ident R [us] (snake n)) = (names.map snake).map (ident R [us]) := by
    intro R; simp [List.map_map]
  have e3 : (names.map fun n => identRec Rcpp (str "_field") (snake n)) = (names.map snake).map (identRec Rcpp (str "_field")) := by
    simp [List.map_map]
  refine ⟨?_, ?_, ?_⟩
  · rw [e1]
    exact nodup_map_of_inj_on _ _ hnd (fun a ha b hb e => ident_underscore_injective Rpy a b (last a ha) (last b hb) e)
  · rw [e1]
    exact nodup_map_of_inj_on _ _ hnd (fun a ha b hb e => ident_underscore_injective Rmat a b (last a ha) (last b hb) e)
  · rw [e3]
    exact nodup_map_of_inj_on _ _ hnd (fun a _ b _ e => identRec_injective Rcpp _ a b (by decide) e)

/-- non-vacuity: an ordinary record is accepted; the pair the validator exists to reject is rejected -/
example : membersOk [str "class", str "classField", str "fooBar", str "x1"] [] [] = true ∧
    membersOk [str "fooBar", str "fooBAR"] [] [] = false ∧ membersOk [str "a", str "a"] [] [] = false ∧ membersOk [str "Abc"] [] [] = false := by decide

end Yardl.Case
