import YardlModel.Namespaces

/-!
  YardlProofs.Namespaces — every parsed namespace ends up with exactly the namespaces of its imports as `References`,
  in manifest order, whichever importer reached an imported package first (for every acyclic import graph).
-/

namespace Yardl.Namespaces

theorem get_append (ps : Parsed) (n m : Nat) (r : List Nat) :
    get (ps ++ [(n, r)]) m = match get ps m with | some l => some l | none => if n = m then some r else none := by
  induction ps with
  | nil => simp [get]
  | cons e t ih =>
    simp only [List.cons_append, get]
    split
    · rfl
    · exact ih

theorem has_append (ps : Parsed) (n m : Nat) (r : List Nat) : has (ps ++ [(n, r)]) m = (has ps m || n == m) := by
  unfold has
  rw [get_append]
  cases get ps m <;> by_cases h : n = m <;> simp [h]

theorem get_append_of_has (ps : Parsed) (n m : Nat) (r : List Nat) (h : has ps m = true) : get (ps ++ [(n, r)]) m = get ps m := by
  unfold has at h
  rw [get_append]
  cases hg : get ps m with
  | none => simp [hg] at h
  | some l => rfl

theorem get_append_new (ps : Parsed) (n : Nat) (r : List Nat) (h : has ps n = false) : get (ps ++ [(n, r)]) n = some r := by
  unfold has at h
  rw [get_append]
  cases hg : get ps n with
  | none => simp
  | some l => simp [hg] at h

theorem get_addRef_other (ps : Parsed) (n r m : Nat) (h : m ≠ n) : get (addRef ps n r) m = get ps m := by
  induction ps with
  | nil => rfl
  | cons e t ih =>
    simp only [addRef, get]
    by_cases hn : e.1 = n
    · have hm : ¬ e.1 = m := fun e' => h (e'.symm.trans hn)
      have hnm : ¬ n = m := fun x => h x.symm
      simp [hn, hnm, ih]
    · simp only [hn, if_false]
      by_cases hm : e.1 = m <;> simp [hm, ih]

theorem get_addRef_self (ps : Parsed) (n r : Nat) (l : List Nat) (h : get ps n = some l) : get (addRef ps n r) n = some (l ++ [r]) := by
  induction ps with
  | nil => simp [get] at h
  | cons e t ih =>
    simp only [get] at h
    simp only [addRef, get]
    by_cases hn : e.1 = n
    · simp only [hn, if_true, Option.some.injEq] at h
      simp [hn, h]
    · simp only [hn, if_false] at h
      simp [hn, ih h]

theorem has_addRef (ps : Parsed) (n r m : Nat) : has (addRef ps n r) m = has ps m := by
  by_cases h : m = n
  · subst h
    unfold has
    cases hg : get ps m with
    | none =>
      have : get (addRef ps m r) m = none := by
        induction ps with
        | nil => rfl
        | cons e t ih =>
          simp only [get] at hg
          by_cases hn : e.1 = m
          · simp [hn] at hg
          · simp only [hn, if_false] at hg
            simp [addRef, get, hn, ih hg]
      simp [this]
    | some l => simp [get_addRef_self ps m r l hg]
  · unfold has; rw [get_addRef_other ps n r m h]

theorem has_of_get (ps : Parsed) (n : Nat) (l : List Nat) (h : get ps n = some l) : has ps n = true := by
  simp [has, h]

/-- what one call of `parseNs` does to the table -/
structure CallSpec (G : Nat → List Nat) (ps ps' : Parsed) (n : Nat) : Prop where
  /-- entries that existed are not touched -/
  frame : ∀ m, has ps m = true → get ps' m = get ps m
  /-- nothing disappears, the namespace itself is there -/
  mono : ∀ m, has ps m = true → has ps' m = true
  self : has ps' n = true
  /-- every entry added by the call holds exactly the namespaces its package imports, in order -/
  complete : ∀ m, has ps m = false → has ps' m = true → get ps' m = some (G m)

theorem parseNs_spec (G : Nat → List Nat) (rank : Nat → Nat) (hr : ∀ n, ∀ i ∈ G n, rank i < rank n) :
    ∀ (f n : Nat) (ps : Parsed), rank n < f → CallSpec G ps (parseNs G f n ps) n
  | 0, _, _, h => by omega
  | f + 1, n, ps, hf => by
    unfold parseNs
    by_cases hn : has ps n = true
    · simp only [hn, if_true]
      exact ⟨fun _ _ => rfl, fun _ h => h, hn, fun m h1 h2 => by rw [h1] at h2; exact absurd h2 (by simp)⟩
    · simp only [Bool.not_eq_true] at hn
      simp only [hn, Bool.false_eq_true, if_false]
      -- loop invariant over the imports processed so far
      have key : ∀ (post pre : List Nat) (acc : Parsed), G n = pre ++ post →
          (∀ m, has ps m = true → get acc m = get ps m) → (∀ m, has ps m = true → has acc m = true) →
          get acc n = some pre →
          (∀ m, has ps m = false → m ≠ n → has acc m = true → get acc m = some (G m)) →
          let res := post.foldl (fun acc i => addRef (parseNs G f i acc) n i) acc
          (∀ m, has ps m = true → get res m = get ps m) ∧ (∀ m, has ps m = true → has res m = true) ∧
          get res n = some (G n) ∧ (∀ m, has ps m = false → m ≠ n → has res m = true → get res m = some (G m)) := by
        intro post
        induction post with
        | nil =>
          intro pre acc hG h1 h2 h3 h4
          simp only [List.append_nil] at hG
          simp only [List.foldl_nil]
          exact ⟨h1, h2, by rw [hG]; exact h3, h4⟩
        | cons i rest ih =>
          intro pre acc hG h1 h2 h3 h4
          simp only [List.foldl_cons]
          have hi : i ∈ G n := by rw [hG]; simp
          have hrank : rank i < f := by have := hr n i hi; omega
          have spec := parseNs_spec G rank hr f i acc hrank
          have hne : i ≠ n := by
            intro e; have := hr n i hi; rw [e] at this; omega
          have hnacc : has acc n = true := has_of_get acc n pre h3
          -- the entry of n is untouched by the nested call, then gets the reference appended
          have hgn : get (parseNs G f i acc) n = some pre := by rw [spec.frame n hnacc]; exact h3
          apply ih (pre ++ [i]) (addRef (parseNs G f i acc) n i) (by simp [hG])
          · intro m hm
            have hmn : m ≠ n := by intro e; rw [e] at hm; rw [hn] at hm; exact absurd hm (by simp)
            rw [get_addRef_other _ _ _ _ hmn, spec.frame m (h2 m hm)]
            exact h1 m hm
          · intro m hm
            rw [has_addRef]
            exact spec.mono m (h2 m hm)
          · exact get_addRef_self _ n i pre hgn
          · intro m hm hmn hin
            rw [has_addRef] at hin
            rw [get_addRef_other _ _ _ _ hmn]
            by_cases hacc : has acc m = true
            · rw [spec.frame m hacc]
              exact h4 m hm hmn hacc
            · simp only [Bool.not_eq_true] at hacc
              exact spec.complete m hacc hin
      have start := key (G n) [] (ps ++ [(n, [])]) (by simp)
        (fun m hm => get_append_of_has ps n m [] hm)
        (fun m hm => by rw [has_append]; simp [hm])
        (get_append_new ps n [] hn)
        (fun m hm hmn hin => by
          rw [has_append, hm] at hin
          simp only [Bool.false_or, beq_iff_eq] at hin
          exact absurd hin.symm hmn)
      obtain ⟨r1, r2, r3, r4⟩ := start
      refine ⟨r1, r2, has_of_get _ n _ r3, ?_⟩
      intro m hm hin
      by_cases hmn : m = n
      · subst hmn; exact r3
      · exact r4 m hm hmn hin

/-- after parsing from the root with an empty table: every parsed namespace holds exactly the namespaces of its imports,
    in manifest order -/
theorem references_are_the_imports (G : Nat → List Nat) (rank : Nat → Nat) (hr : ∀ n, ∀ i ∈ G n, rank i < rank n)
    (f root : Nat) (hf : rank root < f) :
    ∀ m, has (parseNs G f root []) m = true → get (parseNs G f root []) m = some (G m) :=
  fun m hm => (parseNs_spec G rank hr f root [] hf).complete m (by simp [has, get]) hm

end Yardl.Namespaces

/-! ### `flattenNamespaces`: imports before importers, each namespace once -/

namespace Yardl.Namespaces

/-- every element's references occur earlier in the list, and nothing occurs twice -/
def Ordered (refs : Nat → List Nat) (l : List Nat) : Prop :=
  l.Nodup ∧ ∀ (pre : List Nat) (m : Nat) (post : List Nat), l = pre ++ m :: post → ∀ i ∈ refs m, i ∈ pre

theorem Ordered.snoc {refs : Nat → List Nat} {l : List Nat} {n : Nat} (h : Ordered refs l) (hn : n ∉ l)
    (hr : ∀ i ∈ refs n, i ∈ l) : Ordered refs (l ++ [n]) := by
  refine ⟨?_, ?_⟩
  · rw [List.nodup_append]
    refine ⟨h.1, by simp, ?_⟩
    intro a ha b hb
    simp only [List.mem_singleton] at hb
    subst hb
    exact fun e => hn (e ▸ ha)
  · intro pre m post heq i hi
    rcases List.append_eq_append_iff.mp heq with ⟨a', h1, h2⟩ | ⟨c', h1, h2⟩
    · -- pre = l ++ a' and [n] = a' ++ m :: post
      cases a' with
      | nil =>
        simp only [List.nil_append, List.cons.injEq] at h2
        simp only [List.append_nil] at h1
        rw [h1]; exact hr i (h2.1 ▸ hi)
      | cons x xs =>
        simp only [List.cons_append, List.cons.injEq] at h2
        have := h2.2
        cases xs <;> simp at this
    · -- l = pre ++ c' and m :: post = c' ++ [n]
      cases c' with
      | nil =>
        simp only [List.nil_append, List.cons.injEq] at h2
        simp only [List.append_nil] at h1
        rw [← h1]; exact hr i (h2.1 ▸ hi)
      | cons x xs =>
        simp only [List.cons_append, List.cons.injEq] at h2
        have : l = pre ++ m :: xs := by rw [h1, h2.1]
        exact h.2 pre m xs this i hi

/-- what one call of `flatten` does -/
structure FlatSpec (refs : Nat → List Nat) (seen res : List Nat) (n : Nat) : Prop where
  ext : ∃ added, res = seen ++ added
  self : n ∈ res
  ordered : Ordered refs seen → Ordered refs res

theorem flatten_spec (refs : Nat → List Nat) (rank : Nat → Nat) (hr : ∀ n, ∀ i ∈ refs n, rank i < rank n) :
    ∀ (f n : Nat) (seen : List Nat), rank n < f → FlatSpec refs seen (flatten refs f n seen) n
  | 0, _, _, h => by omega
  | f + 1, n, seen, hf => by
    unfold flatten
    by_cases hc : seen.contains n = true
    · simp only [hc, if_true]
      exact ⟨⟨[], by simp⟩, by simpa using hc, fun h => h⟩
    · simp only [hc, Bool.false_eq_true, if_false]
      -- the loop over the references
      have key : ∀ (l : List Nat) (acc : List Nat), (∀ i ∈ l, i ∈ refs n) →
          (∃ added, l.foldl (fun acc i => flatten refs f i acc) acc = acc ++ added) ∧
          (∀ i ∈ l, i ∈ l.foldl (fun acc i => flatten refs f i acc) acc) ∧
          (Ordered refs acc → Ordered refs (l.foldl (fun acc i => flatten refs f i acc) acc)) := by
        intro l
        induction l with
        | nil => intro acc _; exact ⟨⟨[], by simp⟩, by simp, fun h => h⟩
        | cons i rest ih =>
          intro acc hl
          have hi : rank i < f := by have := hr n i (hl i (by simp)); omega
          have spec := flatten_spec refs rank hr f i acc hi
          obtain ⟨⟨a2, e2⟩, m2, o2⟩ := ih (flatten refs f i acc) (fun x hx => hl x (by simp [hx]))
          obtain ⟨a1, e1⟩ := spec.ext
          simp only [List.foldl_cons]
          refine ⟨⟨a1 ++ a2, by rw [e2, e1]; simp⟩, ?_, fun h => o2 (spec.ordered h)⟩
          intro x hx
          rcases List.mem_cons.mp hx with rfl | hx
          · rw [e2]; exact List.mem_append_left _ spec.self
          · exact m2 x hx
      obtain ⟨⟨added, e⟩, hm, ho⟩ := key (refs n) seen (fun i hi => hi)
      by_cases hc2 : (List.foldl (fun acc i => flatten refs f i acc) seen (refs n)).contains n = true
      · simp only [hc2, if_true]
        exact ⟨⟨added, e⟩, by simpa using hc2, ho⟩
      · simp only [hc2, Bool.false_eq_true, if_false]
        refine ⟨⟨added ++ [n], by rw [e]; simp⟩, by simp, fun h => ?_⟩
        exact (ho h).snoc (by simpa using hc2) hm

/-- the namespaces the passes and generators see: every namespace once, each after all the namespaces it refers to -/
theorem flatten_ordered (refs : Nat → List Nat) (rank : Nat → Nat) (hr : ∀ n, ∀ i ∈ refs n, rank i < rank n)
    (f root : Nat) (hf : rank root < f) :
    Ordered refs (flatten refs f root []) ∧ root ∈ flatten refs f root [] := by
  have s := flatten_spec refs rank hr f root [] hf
  exact ⟨s.ordered ⟨List.nodup_nil, by intro pre m post h; simp at h⟩, s.self⟩

end Yardl.Namespaces
