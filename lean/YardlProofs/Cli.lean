import YardlModel.Cli

namespace Yardl.Cli

/-- If the first `k` calls do not write and call `k` fails with its error returned, nothing is
    written and the command fails — whatever the other calls do. -/
theorem runFrom_stops (fails : Nat → Bool) (effect : Nat → FS → FS) :
    ∀ (cs : List Call) (i k : Nat) (fs : FS) (c : Call),
      cs[k]? = some c → (∀ j, j < k → ∀ cj, cs[j]? = some cj → cj.writes = false) →
      c.writes = false → c.errReturned = true → fails (i + k) = true →
      (∀ j, j < k → fails (i + j) = true → ∀ cj, cs[j]? = some cj → cj.errReturned = true) →
      runFrom fails effect i cs fs = (fs, false) := by
  intro cs
  induction cs with
  | nil => intro i k fs c h; simp at h
  | cons c0 cs ih =>
    intro i k fs c hk hpure hcw hcr hfail hearlier
    cases k with
    | zero =>
      simp at hk; subst hk
      simp at hfail
      simp [runFrom, hfail, hcr, hcw]
    | succ k =>
      have h0 : c0.writes = false := hpure 0 (by omega) c0 (by simp)
      simp only [runFrom, h0]
      by_cases hf : fails i
      · have hr : c0.errReturned = true := hearlier 0 (by omega) (by simpa using hf) c0 (by simp)
        simp [hf, hr]
      · simp only [hf, if_false, Bool.false_eq_true]
        apply ih (i + 1) k fs c (by simpa using hk)
        · intro j hj cj hcj; exact hpure (j + 1) (by omega) cj (by simpa using hcj)
        · exact hcw
        · exact hcr
        · have : i + 1 + k = i + (k + 1) := by omega
          rw [this]; exact hfail
        · intro j hj hfj cj hcj
          have : i + 1 + j = i + (j + 1) := by omega
          rw [this] at hfj
          exact hearlier (j + 1) (by omega) hfj cj (by simpa using hcj)

end Yardl.Cli
