import YardlModel.Imports

/-! What a successful load guarantees, for every import graph (any size, any shape). -/

namespace Yardl.Imports

/-- `dir'` is reachable from `dir` by following imports. -/
inductive Reach (w : World) : Nat → Nat → Prop
  | refl (d : Nat) : Reach w d d
  | step (d i e : Nat) (p : Pkg) : w d = some p → i ∈ p.imports → Reach w i e → Reach w d e

theorem Reach.trans' {w : World} {a b c : Nat} (h1 : Reach w a b) (h2 : Reach w b c) : Reach w a c := by
  induction h1 with
  | refl d => exact h2
  | step d i e p hp hi _ ih => exact Reach.step d i c p hp hi (ih h2)

/-- One directory per namespace. -/
def Fn (c : Coll) : Prop := ∀ ns d, (ns, d) ∈ c → lookupNs c ns = some d

/-- The package at `x.2` claims namespace `x.1` and all its imports have been collected. -/
def Closed (w : World) (c : Coll) (x : Nat × Nat) : Prop :=
  ∃ p, w x.2 = some p ∧ p.ns = x.1 ∧ ∀ i ∈ p.imports, ∃ q, w i = some q ∧ (q.ns, i) ∈ c

theorem Closed.mono {w : World} {c c' : Coll} {x : Nat × Nat} (h : Closed w c x) (hs : ∀ y ∈ c, y ∈ c') :
    Closed w c' x := by
  obtain ⟨p, h1, h2, h3⟩ := h
  exact ⟨p, h1, h2, fun i hi => by obtain ⟨q, hq, hm⟩ := h3 i hi; exact ⟨q, hq, hs _ hm⟩⟩

theorem lookupNs_none_not_mem (c : Coll) (ns : Nat) (h : lookupNs c ns = none) : ∀ d, (ns, d) ∉ c := by
  induction c with
  | nil => intro d; simp
  | cons x r ih =>
    obtain ⟨n, d0⟩ := x
    intro d hm
    simp only [lookupNs] at h
    by_cases hn : n = ns
    · simp [hn] at h
    · simp only [hn, if_false] at h
      simp only [List.mem_cons, Prod.mk.injEq] at hm
      rcases hm with ⟨h1, _⟩ | hm
      · exact hn h1.symm
      · exact ih h d hm

theorem Fn_cons (c : Coll) (ns dir : Nat) (hf : Fn c) (hn : lookupNs c ns = none) : Fn ((ns, dir) :: c) := by
  intro n d hm
  simp only [List.mem_cons, Prod.mk.injEq] at hm
  simp only [lookupNs]
  rcases hm with ⟨h1, h2⟩ | hm
  · simp [h1, h2]
  · by_cases h : ns = n
    · subst h; exact absurd hm (lookupNs_none_not_mem c ns hn d)
    · simp [h, hf n d hm]

/-- Specification of one successful resolution step. -/
def StepSpec (w : World) (dir : Nat) (coll coll' : Coll) : Prop :=
  (∀ x ∈ coll, x ∈ coll') ∧
  (∃ p, w dir = some p ∧ (p.ns, dir) ∈ coll') ∧
  (∀ x ∈ coll', x ∉ coll → Closed w coll' x ∧ Reach w dir x.2) ∧
  (Fn coll → Fn coll')

theorem foldE_spec (w : World) (f : Nat → Coll → Except LoadErr Coll)
    (hf : ∀ i c c', f i c = .ok c' → StepSpec w i c c') :
    ∀ (is : List Nat) (c c' : Coll), foldE f is c = .ok c' →
      (∀ x ∈ c, x ∈ c') ∧ (∀ i ∈ is, ∃ q, w i = some q ∧ (q.ns, i) ∈ c') ∧
      (∀ x ∈ c', x ∉ c → Closed w c' x ∧ ∃ i ∈ is, Reach w i x.2) ∧ (Fn c → Fn c') := by
  intro is
  induction is with
  | nil =>
    intro c c' h
    simp [foldE] at h
    subst h
    exact ⟨fun _ h => h, by simp, fun x hx hn => absurd hx hn, id⟩
  | cons i is ih =>
    intro c c' h
    simp only [foldE] at h
    cases hfi : f i c with
    | error e => simp [hfi] at h
    | ok c1 =>
      simp only [hfi] at h
      obtain ⟨s1, ⟨q, hq, hqm⟩, s3, s4⟩ := hf i c c1 hfi
      obtain ⟨t1, t2, t3, t4⟩ := ih c1 c' h
      refine ⟨fun x hx => t1 x (s1 x hx), ?_, ?_, fun hfn => t4 (s4 hfn)⟩
      · intro j hj
        simp only [List.mem_cons] at hj
        rcases hj with rfl | hj
        · exact ⟨q, hq, t1 _ hqm⟩
        · exact t2 j hj
      · intro x hx hn
        by_cases h1 : x ∈ c1
        · obtain ⟨cl, rc⟩ := s3 x h1 hn
          exact ⟨cl.mono t1, i, by simp, rc⟩
        · obtain ⟨cl, j, hj, rc⟩ := t3 x hx h1
          exact ⟨cl, j, by simp [hj], rc⟩

theorem collect_spec (w : World) : ∀ (d : Nat) (chain : List Nat) (dir : Nat) (coll coll' : Coll),
    collect w d chain dir coll = .ok coll' → StepSpec w dir coll coll' := by
  intro d
  induction d with
  | zero =>
    intro chain dir coll coll' h
    unfold collect at h
    cases hw : w dir with
    | none => simp [hw] at h
    | some p =>
      simp only [hw] at h
      by_cases hc : p.ns ∈ chain
      · simp [hc] at h
      · simp only [hc, if_false] at h
        cases hl : lookupNs coll p.ns with
        | none => simp [hl] at h
        | some dir' =>
          simp only [hl] at h
          by_cases hd : dir' = dir
          · simp only [hd, if_true] at h
            cases h
            refine ⟨fun _ h => h, ⟨p, hw, ?_⟩, fun x hx hn => absurd hx hn, id⟩
            subst hd
            exact lookup_mem coll p.ns dir' hl
          · simp [hd] at h
  | succ d ih =>
    intro chain dir coll coll' h
    unfold collect at h
    cases hw : w dir with
    | none => simp [hw] at h
    | some p =>
      simp only [hw] at h
      by_cases hc : p.ns ∈ chain
      · simp [hc] at h
      · simp only [hc, if_false] at h
        cases hl : lookupNs coll p.ns with
        | some dir' =>
          simp only [hl] at h
          by_cases hd : dir' = dir
          · simp only [hd, if_true] at h
            cases h
            refine ⟨fun _ h => h, ⟨p, hw, ?_⟩, fun x hx hn => absurd hx hn, id⟩
            subst hd
            exact lookup_mem coll p.ns dir' hl
          · simp [hd] at h
        | none =>
          simp only [hl] at h
          obtain ⟨t1, t2, t3, t4⟩ := foldE_spec w (collect w d (p.ns :: chain))
            (fun i c c' hh => ih (p.ns :: chain) i c c' hh) p.imports ((p.ns, dir) :: coll) coll' h
          have hself : (p.ns, dir) ∈ coll' := t1 _ (by simp)
          refine ⟨fun x hx => t1 x (by simp [hx]), ⟨p, hw, hself⟩, ?_, fun hfn => t4 (Fn_cons coll p.ns dir hfn hl)⟩
          intro x hx hn
          by_cases hx0 : x = (p.ns, dir)
          · subst hx0
            exact ⟨⟨p, hw, rfl, t2⟩, Reach.refl dir⟩
          · have hn' : x ∉ (p.ns, dir) :: coll := by simp [hx0, hn]
            obtain ⟨cl, i, hi, rc⟩ := t3 x hx hn'
            exact ⟨cl, Reach.step dir i x.2 p hw hi rc⟩
where
  lookup_mem (c : Coll) (ns d : Nat) (h : lookupNs c ns = some d) : (ns, d) ∈ c := by
    induction c with
    | nil => simp [lookupNs] at h
    | cons x r ih =>
      obtain ⟨n, d0⟩ := x
      simp only [lookupNs] at h
      by_cases hn : n = ns
      · simp [hn] at h; simp [hn, h]
      · simp only [hn, if_false] at h
        simp [ih h]

/-- Everything a successful load guarantees. -/
theorem load_ok (w : World) (limit root : Nat) (c : Coll) (h : load w limit root = .ok c) :
    (∃ p, w root = some p ∧ (p.ns, root) ∈ c) ∧
    (∀ x ∈ c, Closed w c x ∧ Reach w root x.2) ∧ Fn c := by
  obtain ⟨_, s2, s3, s4⟩ := collect_spec w limit [] root [] c h
  exact ⟨s2, fun x hx => s3 x hx (by simp), s4 (by intro ns d hm; simp at hm)⟩

theorem closed_reach (w : World) (c : Coll) (hall : ∀ x ∈ c, Closed w c x) (d e : Nat)
    (hr : Reach w d e) : (∃ p, w d = some p ∧ (p.ns, d) ∈ c) → ∃ q, w e = some q ∧ (q.ns, e) ∈ c := by
  induction hr with
  | refl d => exact id
  | step d i e p hp hi _ ih =>
    intro ⟨p0, hp0, hm⟩
    apply ih
    obtain ⟨p1, hp1, _, himp⟩ := hall _ hm
    simp only at hp1
    rw [hp] at hp1
    cases hp1
    exact himp i hi

/-- Every package reachable from the root has been loaded (under its own namespace). -/
theorem reachable_loaded (w : World) (limit root : Nat) (c : Coll) (h : load w limit root = .ok c)
    (dir : Nat) (hr : Reach w root dir) : ∃ p, w dir = some p ∧ (p.ns, dir) ∈ c := by
  obtain ⟨hroot, hall, _⟩ := load_ok w limit root c h
  exact closed_reach w c (fun x hx => (hall x hx).1) root dir hr hroot

/-- Two reachable directories never share a namespace after a successful load. -/
theorem no_namespace_conflict (w : World) (limit root : Nat) (c : Coll) (h : load w limit root = .ok c)
    (d₁ d₂ : Nat) (p₁ p₂ : Pkg) (h₁ : Reach w root d₁) (h₂ : Reach w root d₂)
    (w₁ : w d₁ = some p₁) (w₂ : w d₂ = some p₂) (hns : p₁.ns = p₂.ns) : d₁ = d₂ := by
  obtain ⟨q₁, e₁, m₁⟩ := reachable_loaded w limit root c h d₁ h₁
  obtain ⟨q₂, e₂, m₂⟩ := reachable_loaded w limit root c h d₂ h₂
  rw [w₁] at e₁; rw [w₂] at e₂
  cases e₁; cases e₂
  have hfn := (load_ok w limit root c h).2.2
  have a := hfn _ _ m₁
  have b := hfn _ _ m₂
  rw [hns] at a
  rw [a] at b
  exact Option.some.inj b

end Yardl.Imports
