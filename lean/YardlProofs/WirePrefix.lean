import YardlProofs.WireStream

/-! Decoders only look at the bytes they consume (`*_append`), hence no proper prefix of a valid
    encoding decodes (`*_proper_prefix`): the format is self-delimiting / prefix-free. -/

namespace Yardl

theorem decVar_append (bs m : Bytes) (n : Nat) (r : Bytes) (h : decVar bs = some (n, r)) :
    decVar (bs ++ m) = some (n, r ++ m) := by
  induction bs generalizing n r with
  | nil => simp [decVar] at h
  | cons b bs ih =>
    simp only [decVar, List.cons_append] at h ⊢
    by_cases hb : b.toNat < 128
    · simp only [hb, if_true, Option.some.injEq, Prod.mk.injEq] at h ⊢
      exact ⟨h.1, by rw [h.2]⟩
    · simp only [hb, if_false] at h ⊢
      cases hd : decVar bs with
      | none => simp [hd] at h
      | some p =>
        obtain ⟨n', r'⟩ := p
        simp only [hd, Option.some.injEq, Prod.mk.injEq] at h
        simp only [ih n' r' hd, Option.some.injEq, Prod.mk.injEq]
        exact ⟨h.1, by rw [h.2]⟩

theorem decLE_append (w : Nat) (bs m : Bytes) (n : Nat) (r : Bytes) (h : decLE w bs = some (n, r)) :
    decLE w (bs ++ m) = some (n, r ++ m) := by
  induction w generalizing bs n r with
  | zero => simp [decLE] at h ⊢; exact ⟨h.1, by rw [h.2]⟩
  | succ w ih =>
    cases bs with
    | nil => simp [decLE] at h
    | cons b bs =>
      simp only [decLE, List.cons_append] at h ⊢
      cases hd : decLE w bs with
      | none => simp [hd] at h
      | some p =>
        obtain ⟨n', r'⟩ := p
        simp only [hd, Option.some.injEq, Prod.mk.injEq] at h
        simp only [ih bs n' r' hd, Option.some.injEq, Prod.mk.injEq]
        exact ⟨h.1, by rw [h.2]⟩

theorem takeN_append' (k : Nat) (bs m : Bytes) (t r : Bytes) (h : takeN k bs = some (t, r)) :
    takeN k (bs ++ m) = some (t, r ++ m) := by
  induction k generalizing bs t r with
  | zero => simp [takeN] at h ⊢; exact ⟨h.1, by rw [h.2]⟩
  | succ k ih =>
    cases bs with
    | nil => simp [takeN] at h
    | cons b bs =>
      simp only [takeN, List.cons_append] at h ⊢
      cases hd : takeN k bs with
      | none => simp [hd] at h
      | some p =>
        obtain ⟨t', r'⟩ := p
        simp only [hd, Option.some.injEq, Prod.mk.injEq] at h
        simp only [ih bs t' r' hd, Option.some.injEq, Prod.mk.injEq]
        exact ⟨h.1, by rw [h.2]⟩

theorem decPrim_append (p : Prim) (bs m : Bytes) (v : Val) (r : Bytes) (h : decPrim p bs = some (v, r)) :
    decPrim p (bs ++ m) = some (v, r ++ m) := by
  cases p <;> simp only [decPrim] at h ⊢
  case bool | int8 | uint8 =>
    cases bs with
    | nil => simp at h
    | cons b bs => simp at h ⊢; exact ⟨h.1, by rw [h.2]⟩
  case int16 | int32 | int64 | date | time | datetime | uint16 | uint32 | uint64 | size =>
    cases hd : decVar bs with
    | none => simp [hd] at h
    | some q =>
      obtain ⟨n, r'⟩ := q
      simp only [hd, Option.some.injEq, Prod.mk.injEq] at h
      simp only [decVar_append bs m n r' hd, Option.some.injEq, Prod.mk.injEq]
      exact ⟨h.1, by rw [h.2]⟩
  case float32 =>
    cases hd : decLE 4 bs with
    | none => simp [hd] at h
    | some q =>
      obtain ⟨n, r'⟩ := q
      simp only [hd, Option.some.injEq, Prod.mk.injEq] at h
      simp only [decLE_append 4 bs m n r' hd, Option.some.injEq, Prod.mk.injEq]
      exact ⟨h.1, by rw [h.2]⟩
  case float64 =>
    cases hd : decLE 8 bs with
    | none => simp [hd] at h
    | some q =>
      obtain ⟨n, r'⟩ := q
      simp only [hd, Option.some.injEq, Prod.mk.injEq] at h
      simp only [decLE_append 8 bs m n r' hd, Option.some.injEq, Prod.mk.injEq]
      exact ⟨h.1, by rw [h.2]⟩
  case complexfloat32 =>
    cases hd : decLE 4 bs with
    | none => simp [hd] at h
    | some q =>
      obtain ⟨n, r'⟩ := q
      simp only [hd] at h
      cases hd2 : decLE 4 r' with
      | none => simp [hd2] at h
      | some q2 =>
        obtain ⟨n2, r2⟩ := q2
        simp only [hd2, Option.some.injEq, Prod.mk.injEq] at h
        simp only [decLE_append 4 bs m n r' hd, decLE_append 4 r' m n2 r2 hd2, Option.some.injEq, Prod.mk.injEq]
        exact ⟨h.1, by rw [h.2]⟩
  case complexfloat64 =>
    cases hd : decLE 8 bs with
    | none => simp [hd] at h
    | some q =>
      obtain ⟨n, r'⟩ := q
      simp only [hd] at h
      cases hd2 : decLE 8 r' with
      | none => simp [hd2] at h
      | some q2 =>
        obtain ⟨n2, r2⟩ := q2
        simp only [hd2, Option.some.injEq, Prod.mk.injEq] at h
        simp only [decLE_append 8 bs m n r' hd, decLE_append 8 r' m n2 r2 hd2, Option.some.injEq, Prod.mk.injEq]
        exact ⟨h.1, by rw [h.2]⟩
  case string =>
    cases hd : decVar bs with
    | none => simp [hd] at h
    | some q =>
      obtain ⟨n, r'⟩ := q
      simp only [hd] at h
      cases hd2 : takeN n r' with
      | none => simp [hd2] at h
      | some q2 =>
        obtain ⟨t, r2⟩ := q2
        simp only [hd2, Option.some.injEq, Prod.mk.injEq] at h
        simp only [decVar_append bs m n r' hd, takeN_append' n r' m t r2 hd2, Option.some.injEq, Prod.mk.injEq]
        exact ⟨h.1, by rw [h.2]⟩

/-- A decoder that only looks at what it consumes. -/
def Extends (f : Bytes → Option (Val × Bytes)) : Prop :=
  ∀ bs m v r, f bs = some (v, r) → f (bs ++ m) = some (v, r ++ m)

theorem decList_append (f : Bytes → Option (Val × Bytes)) (hf : Extends f) (n : Nat) :
    ∀ (bs m : Bytes) (vs : List Val) (r : Bytes), decList f n bs = some (vs, r) →
      decList f n (bs ++ m) = some (vs, r ++ m) := by
  induction n with
  | zero => intro bs m vs r h; simp [decList] at h ⊢; exact ⟨h.1, by rw [h.2]⟩
  | succ n ih =>
    intro bs m vs r h
    simp only [decList] at h ⊢
    cases hd : f bs with
    | none => simp [hd] at h
    | some q =>
      obtain ⟨v, r1⟩ := q
      simp only [hd] at h
      cases hd2 : decList f n r1 with
      | none => simp [hd2] at h
      | some q2 =>
        obtain ⟨vs', r2⟩ := q2
        simp only [hd2, Option.some.injEq, Prod.mk.injEq] at h
        simp only [hf bs m v r1 hd, ih r1 m vs' r2 hd2, Option.some.injEq, Prod.mk.injEq]
        exact ⟨h.1, by rw [h.2]⟩

theorem decKVs_append (fk fv : Bytes → Option (Val × Bytes)) (hk : Extends fk) (hv : Extends fv) (n : Nat) :
    ∀ (bs m : Bytes) (kvs : List (Val × Val)) (r : Bytes), decKVs fk fv n bs = some (kvs, r) →
      decKVs fk fv n (bs ++ m) = some (kvs, r ++ m) := by
  induction n with
  | zero => intro bs m vs r h; simp [decKVs] at h ⊢; exact ⟨h.1, by rw [h.2]⟩
  | succ n ih =>
    intro bs m kvs r h
    simp only [decKVs] at h ⊢
    cases hd : fk bs with
    | none => simp [hd] at h
    | some q =>
      obtain ⟨k, r1⟩ := q
      simp only [hd] at h
      cases hd1 : fv r1 with
      | none => simp [hd1] at h
      | some q1 =>
        obtain ⟨v, r1'⟩ := q1
        simp only [hd1] at h
        cases hd2 : decKVs fk fv n r1' with
        | none => simp [hd2] at h
        | some q2 =>
          obtain ⟨kvs', r2⟩ := q2
          simp only [hd2, Option.some.injEq, Prod.mk.injEq] at h
          simp only [hk bs m k r1 hd, hv r1 m v r1' hd1, ih r1' m kvs' r2 hd2, Option.some.injEq, Prod.mk.injEq]
          exact ⟨h.1, by rw [h.2]⟩

theorem decDims_append (n : Nat) : ∀ (bs m : Bytes) (ds : List Nat) (r : Bytes),
    decDims n bs = some (ds, r) → decDims n (bs ++ m) = some (ds, r ++ m) := by
  induction n with
  | zero => intro bs m vs r h; simp [decDims] at h ⊢; exact ⟨h.1, by rw [h.2]⟩
  | succ n ih =>
    intro bs m ds r h
    simp only [decDims] at h ⊢
    cases hd : decVar bs with
    | none => simp [hd] at h
    | some q =>
      obtain ⟨d, r1⟩ := q
      simp only [hd] at h
      cases hd2 : decDims n r1 with
      | none => simp [hd2] at h
      | some q2 =>
        obtain ⟨ds', r2⟩ := q2
        simp only [hd2, Option.some.injEq, Prod.mk.injEq] at h
        simp only [decVar_append bs m d r1 hd, ih r1 m ds' r2 hd2, Option.some.injEq, Prod.mk.injEq]
        exact ⟨h.1, by rw [h.2]⟩

mutual
  theorem dec_append : (t : Ty) → Extends (dec t)
    | .prim p => by
      intro bs m v r h
      simp only [dec] at h ⊢
      exact decPrim_append p bs m v r h
    | .enum b f s => by
      intro bs m v r h
      simp only [dec] at h ⊢
      exact decPrim_append b bs m v r h
    | .record fs => by
      intro bs m v r h
      simp only [dec] at h ⊢
      cases hd : decFields fs bs with
      | none => simp [hd] at h
      | some q =>
        obtain ⟨vs, r1⟩ := q
        simp only [hd, Option.some.injEq, Prod.mk.injEq] at h
        simp only [decFields_append fs bs m vs r1 hd, Option.some.injEq, Prod.mk.injEq]
        exact ⟨h.1, by rw [h.2]⟩
    | .optional t => by
      intro bs m v r h
      cases bs with
      | nil => simp [dec] at h
      | cons b bs =>
        simp only [dec, List.cons_append] at h ⊢
        by_cases hb : b = 0
        · simp only [hb, if_true, Option.some.injEq, Prod.mk.injEq] at h ⊢
          exact ⟨h.1, by rw [h.2]⟩
        · simp only [hb, if_false] at h ⊢
          cases hd : dec t bs with
          | none => simp [hd] at h
          | some q =>
            obtain ⟨x, r1⟩ := q
            simp only [hd, Option.some.injEq, Prod.mk.injEq] at h
            simp only [dec_append t bs m x r1 hd, Option.some.injEq, Prod.mk.injEq]
            exact ⟨h.1, by rw [h.2]⟩
    | .union hn cs => by
      intro bs m v r h
      simp only [dec] at h ⊢
      cases hd : decVar bs with
      | none => simp [hd] at h
      | some q =>
        obtain ⟨i, r1⟩ := q
        simp only [hd] at h
        simp only [decVar_append bs m i r1 hd]
        cases hn with
        | true =>
          simp only [if_true] at h ⊢
          cases i with
          | zero => simp at h ⊢; exact ⟨h.1, by rw [h.2]⟩
          | succ j =>
            simp only at h ⊢
            cases hd2 : decCase cs j r1 with
            | none => simp [hd2] at h
            | some q2 =>
              obtain ⟨x, r2⟩ := q2
              simp only [hd2, Option.some.injEq, Prod.mk.injEq] at h
              simp only [decCase_append cs j r1 m x r2 hd2, Option.some.injEq, Prod.mk.injEq]
              exact ⟨h.1, by rw [h.2]⟩
        | false =>
          simp only [Bool.false_eq_true, if_false] at h ⊢
          cases hd2 : decCase cs i r1 with
          | none => simp [hd2] at h
          | some q2 =>
            obtain ⟨x, r2⟩ := q2
            simp only [hd2, Option.some.injEq, Prod.mk.injEq] at h
            simp only [decCase_append cs i r1 m x r2 hd2, Option.some.injEq, Prod.mk.injEq]
            exact ⟨h.1, by rw [h.2]⟩
    | .vector t len => by
      intro bs m v r h
      have hl := decList_append (dec t) (dec_append t)
      cases len with
      | none =>
        simp only [dec] at h ⊢
        cases hd : decVar bs with
        | none => simp [hd] at h
        | some q =>
          obtain ⟨n, r1⟩ := q
          simp only [hd] at h
          cases hd2 : decList (dec t) n r1 with
          | none => simp [hd2] at h
          | some q2 =>
            obtain ⟨vs, r2⟩ := q2
            simp only [hd2, Option.some.injEq, Prod.mk.injEq] at h
            simp only [decVar_append bs m n r1 hd, hl n r1 m vs r2 hd2, Option.some.injEq, Prod.mk.injEq]
            exact ⟨h.1, by rw [h.2]⟩
      | some n =>
        simp only [dec] at h ⊢
        cases hd2 : decList (dec t) n bs with
        | none => simp [hd2] at h
        | some q2 =>
          obtain ⟨vs, r2⟩ := q2
          simp only [hd2, Option.some.injEq, Prod.mk.injEq] at h
          simp only [hl n bs m vs r2 hd2, Option.some.injEq, Prod.mk.injEq]
          exact ⟨h.1, by rw [h.2]⟩
    | .array t k => by
      intro bs m v r h
      have hl := decList_append (dec t) (dec_append t)
      cases k with
      | dynamic =>
        simp only [dec] at h ⊢
        cases hd : decVar bs with
        | none => simp [hd] at h
        | some q =>
          obtain ⟨nd, r1⟩ := q
          simp only [hd] at h
          cases hd1 : decDims nd r1 with
          | none => simp [hd1] at h
          | some q1 =>
            obtain ⟨shape, r1'⟩ := q1
            simp only [hd1] at h
            cases hd2 : decList (dec t) (prod shape) r1' with
            | none => simp [hd2] at h
            | some q2 =>
              obtain ⟨vs, r2⟩ := q2
              simp only [hd2, Option.some.injEq, Prod.mk.injEq] at h
              simp only [decVar_append bs m nd r1 hd, decDims_append nd r1 m shape r1' hd1,
                hl _ r1' m vs r2 hd2, Option.some.injEq, Prod.mk.injEq]
              exact ⟨h.1, by rw [h.2]⟩
      | rank nd =>
        simp only [dec] at h ⊢
        cases hd1 : decDims nd bs with
        | none => simp [hd1] at h
        | some q1 =>
          obtain ⟨shape, r1'⟩ := q1
          simp only [hd1] at h
          cases hd2 : decList (dec t) (prod shape) r1' with
          | none => simp [hd2] at h
          | some q2 =>
            obtain ⟨vs, r2⟩ := q2
            simp only [hd2, Option.some.injEq, Prod.mk.injEq] at h
            simp only [decDims_append nd bs m shape r1' hd1, hl _ r1' m vs r2 hd2, Option.some.injEq, Prod.mk.injEq]
            exact ⟨h.1, by rw [h.2]⟩
      | fixed dims =>
        simp only [dec] at h ⊢
        cases hd2 : decList (dec t) (prod dims) bs with
        | none => simp [hd2] at h
        | some q2 =>
          obtain ⟨vs, r2⟩ := q2
          simp only [hd2, Option.some.injEq, Prod.mk.injEq] at h
          simp only [hl _ bs m vs r2 hd2, Option.some.injEq, Prod.mk.injEq]
          exact ⟨h.1, by rw [h.2]⟩
    | .map kt vt => by
      intro bs m v r h
      have hl := decKVs_append (dec kt) (dec vt) (dec_append kt) (dec_append vt)
      simp only [dec] at h ⊢
      cases hd : decVar bs with
      | none => simp [hd] at h
      | some q =>
        obtain ⟨n, r1⟩ := q
        simp only [hd] at h
        cases hd2 : decKVs (dec kt) (dec vt) n r1 with
        | none => simp [hd2] at h
        | some q2 =>
          obtain ⟨kvs, r2⟩ := q2
          simp only [hd2, Option.some.injEq, Prod.mk.injEq] at h
          simp only [decVar_append bs m n r1 hd, hl n r1 m kvs r2 hd2, Option.some.injEq, Prod.mk.injEq]
          exact ⟨h.1, by rw [h.2]⟩
  theorem decFields_append : (fs : Fields) → ∀ (bs m : Bytes) (vs : List Val) (r : Bytes),
      decFields fs bs = some (vs, r) → decFields fs (bs ++ m) = some (vs, r ++ m)
    | .nil => by
      intro bs m vs r h
      simp [decFields] at h ⊢; exact ⟨h.1, by rw [h.2]⟩
    | .cons n t fs => by
      intro bs m vs r h
      simp only [decFields] at h ⊢
      cases hd : dec t bs with
      | none => simp [hd] at h
      | some q =>
        obtain ⟨v, r1⟩ := q
        simp only [hd] at h
        cases hd2 : decFields fs r1 with
        | none => simp [hd2] at h
        | some q2 =>
          obtain ⟨vs', r2⟩ := q2
          simp only [hd2, Option.some.injEq, Prod.mk.injEq] at h
          simp only [dec_append t bs m v r1 hd, decFields_append fs r1 m vs' r2 hd2, Option.some.injEq, Prod.mk.injEq]
          exact ⟨h.1, by rw [h.2]⟩
  theorem decCase_append : (cs : Fields) → ∀ (i : Nat) (bs m : Bytes) (v : Val) (r : Bytes),
      decCase cs i bs = some (v, r) → decCase cs i (bs ++ m) = some (v, r ++ m)
    | .nil => by
      intro i bs m v r h
      simp [decCase] at h
    | .cons n t cs => by
      intro i bs m v r h
      cases i with
      | zero =>
        simp only [decCase] at h ⊢
        exact dec_append t bs m v r h
      | succ j =>
        simp only [decCase] at h ⊢
        exact decCase_append cs j bs m v r h
end

/-- No proper prefix of a valid value encoding decodes. -/
theorem dec_proper_prefix (t : Ty) (v : Val) (q more : Bytes) (ht : HasType t v = true)
    (hq : q ++ more = enc t v) (hm : more ≠ []) : dec t q = none := by
  cases hd : dec t q with
  | none => rfl
  | some p =>
    obtain ⟨v', r⟩ := p
    have h1 := dec_append t q more v' r hd
    have h2 := dec_enc t v [] ht
    rw [List.append_nil, ← hq, h1] at h2
    simp only [Option.some.injEq, Prod.mk.injEq] at h2
    have := h2.2
    simp at this
    exact absurd this.2 hm

theorem decBlocks_append (t : Ty) (fuel : Nat) : ∀ (bs m : Bytes) (vs : List Val) (r : Bytes),
    decBlocks t fuel bs = some (vs, r) → decBlocks t fuel (bs ++ m) = some (vs, r ++ m) := by
  induction fuel with
  | zero => intro bs m vs r h; simp [decBlocks] at h
  | succ fuel ih =>
    intro bs m vs r h
    simp only [decBlocks] at h ⊢
    cases hd : decVar bs with
    | none => simp [hd] at h
    | some q =>
      obtain ⟨n, r1⟩ := q
      simp only [hd] at h
      simp only [decVar_append bs m n r1 hd]
      by_cases hn : n = 0
      · simp only [hn, if_true, Option.some.injEq, Prod.mk.injEq] at h ⊢
        exact ⟨h.1, by rw [h.2]⟩
      · simp only [hn, if_false] at h ⊢
        cases hd1 : decList (dec t) n r1 with
        | none => simp [hd1] at h
        | some q1 =>
          obtain ⟨ws, r1'⟩ := q1
          simp only [hd1] at h
          cases hd2 : decBlocks t fuel r1' with
          | none => simp [hd2] at h
          | some q2 =>
            obtain ⟨ws2, r2⟩ := q2
            simp only [hd2, Option.some.injEq, Prod.mk.injEq] at h
            simp only [decList_append (dec t) (dec_append t) n r1 m ws r1' hd1, ih r1' m ws2 r2 hd2,
              Option.some.injEq, Prod.mk.injEq]
            exact ⟨h.1, by rw [h.2]⟩

theorem decSteps_append (p : Proto) (fuel : Nat) : ∀ (bs m : Bytes) (vs : List StepVal) (r : Bytes),
    decSteps p fuel bs = some (vs, r) → decSteps p fuel (bs ++ m) = some (vs, r ++ m) := by
  induction p with
  | nil => intro bs m vs r h; simp [decSteps] at h ⊢; exact ⟨h.1, by rw [h.2]⟩
  | cons s ss ih =>
    intro bs m vs r h
    simp only [decSteps] at h ⊢
    by_cases hs : s.isStream
    · simp only [hs, if_true] at h ⊢
      cases hd : decBlocks s.ty fuel bs with
      | none => simp [hd] at h
      | some q =>
        obtain ⟨items, r1⟩ := q
        simp only [hd] at h
        cases hd2 : decSteps ss fuel r1 with
        | none => simp [hd2] at h
        | some q2 =>
          obtain ⟨vs', r2⟩ := q2
          simp only [hd2, Option.some.injEq, Prod.mk.injEq] at h
          simp only [decBlocks_append s.ty fuel bs m items r1 hd, ih r1 m vs' r2 hd2, Option.some.injEq, Prod.mk.injEq]
          exact ⟨h.1, by rw [h.2]⟩
    · simp only [hs, if_false, Bool.false_eq_true] at h ⊢
      cases hd : dec s.ty bs with
      | none => simp [hd] at h
      | some q =>
        obtain ⟨v, r1⟩ := q
        simp only [hd] at h
        cases hd2 : decSteps ss fuel r1 with
        | none => simp [hd2] at h
        | some q2 =>
          obtain ⟨vs', r2⟩ := q2
          simp only [hd2, Option.some.injEq, Prod.mk.injEq] at h
          simp only [dec_append s.ty bs m v r1 hd, ih r1 m vs' r2 hd2, Option.some.injEq, Prod.mk.injEq]
          exact ⟨h.1, by rw [h.2]⟩

/-- No proper prefix of a valid protocol body decodes as a complete body. -/
theorem decSteps_proper_prefix (p : Proto) (parts : List (List Nat)) (vals : List StepVal) (fuel : Nat)
    (q more : Bytes) (ht : hasStepVals p vals = true) (hp : partsOk p parts vals fuel)
    (hq : q ++ more = encSteps p parts vals) (hm : more ≠ []) : decSteps p fuel q = none := by
  cases hd : decSteps p fuel q with
  | none => rfl
  | some pr =>
    obtain ⟨v', r⟩ := pr
    have h1 := decSteps_append p fuel q more v' r hd
    have h2 := decSteps_encSteps p parts vals fuel [] ht hp
    rw [List.append_nil, ← hq, h1] at h2
    simp only [Option.some.injEq, Prod.mk.injEq] at h2
    have := h2.2
    simp at this
    exact absurd this.2 hm

end Yardl
