import YardlProofs.StreamsW
import YardlProofs.CppStreamSeq
import YardlProofs.PyStreamSeq

/-!
  YardlProofs.StreamCompose — writer and reader stream models composed.

  What either buffered output stream (C++ / Python model) emits for a sequence of items is read back by
  either buffered input stream (C++ / Python model) as exactly those items, whatever the four buffer
  capacities and refill boundaries are. Both languages' streams, both directions: the stream-level core of
  "written by one, read by the other".
-/

namespace Yardl

namespace CItem

def toW : CItem → WOp
  | .byte b => .byte b
  | .var32 n => .var32 n
  | .var64 n => .var64 n
  | .bytes bs => .bytes bs

def toR : CItem → RItem
  | .byte b => .byte b
  | .var32 n => .var n
  | .var64 n => .var n
  | .bytes bs => .bytes bs

def rval : CVal → RVal
  | .byte b => .byte b
  | .num n => .num n
  | .bytes bs => .bytes bs

end CItem

theorem spec_toW (items : List CItem) : ((items.map CItem.toW).map WOp.spec).flatten = encCItems items := by
  induction items with
  | nil => rfl
  | cons i r ih => cases i <;> simp_all [CItem.toW, WOp.spec, encCItems, CItem.enc]

theorem enc_toR (items : List CItem) : encItems (items.map CItem.toR) = encCItems items := by
  induction items with
  | nil => rfl
  | cons i r ih => cases i <;> simp_all [CItem.toR, encItems, encCItems, CItem.enc, RItem.enc]

theorem ok_toW (items : List CItem) (cap : Nat) (hi : ∀ i ∈ items, i.ok) : ∀ op ∈ items.map CItem.toW, op.ok cap := by
  intro op hop
  obtain ⟨i, him, rfl⟩ := List.mem_map.mp hop
  have := hi i him
  cases i <;> simp_all [CItem.toW, CItem.ok, WOp.ok]

theorem fits_toR (items : List CItem) (cap : Nat) : ∀ i ∈ items.map CItem.toR, i.fits cap := by
  intro j hj
  obtain ⟨i, _, rfl⟩ := List.mem_map.mp hj
  cases i <;> simp [CItem.toR, RItem.fits]

theorem val_toR (items : List CItem) : (items.map CItem.toR).map RItem.val = (items.map CItem.val).map CItem.rval := by
  induction items with
  | nil => rfl
  | cons i r ih => cases i <;> simp_all [CItem.toR, RItem.val, CItem.val, CItem.rval]

/-- the bytes either writer model has emitted for `items`, starting from an empty stream -/
theorem writers_emit (items : List CItem) (w : COS) (hw : 10 ≤ w.cap) (hwinv : w.Inv) (hwe : w.abs = [])
    (hi : ∀ i ∈ items, i.ok) :
    (Cpp.run w (items.map CItem.toW)).abs = encCItems items ∧ (Py.run w (items.map CItem.toW)).abs = encCItems items := by
  have h1 := (Cpp.run_spec (items.map CItem.toW) w hw hwinv (ok_toW items w.cap hi)).1
  have h2 := (Py.run_spec (items.map CItem.toW) w hw hwinv (ok_toW items w.cap hi)).1
  rw [hwe, spec_toW] at h1 h2
  exact ⟨by simpa using h1, by simpa using h2⟩

/-- **2 × 2**: written through either output stream model, read through either input stream model. `out` is what the
    chosen writer emitted; all capacities independent. -/
theorem written_by_either_read_by_either (items : List CItem) (hi : ∀ i ∈ items, i.ok)
    (w : COS) (hw : 10 ≤ w.cap) (hwinv : w.Inv) (hwe : w.abs = []) (out : Bytes)
    (hout : out = (Cpp.run w (items.map CItem.toW)).abs ∨ out = (Py.run w (items.map CItem.toW)).abs)
    (rest : Bytes) :
    (∀ r : CIS, 10 ≤ r.cap → r.Inv → r.pending = out ++ rest →
      ∃ r', r.readItems items = .ok (items.map CItem.val) r' ∧ r'.pending = rest) ∧
    (∀ r : PIS, 0 < r.cap → r.Inv → r.pending = out ++ rest →
      ∃ r', r.readItems (items.map CItem.toR) = .ok ((items.map CItem.val).map CItem.rval) r' ∧ r'.pending = rest) := by
  have hw2 := writers_emit items w hw hwinv hwe hi
  have hout' : out = encCItems items := by
    rcases hout with h | h
    · rw [h, hw2.1]
    · rw [h, hw2.2]
  subst hout'
  refine ⟨fun r hr hrinv hp => ?_, fun r hr hrinv hp => ?_⟩
  · obtain ⟨r', h, hp', _, _⟩ := CIS.readItems_ok items r hr hrinv hi rest hp
    exact ⟨r', h, hp'⟩
  · obtain ⟨r', h, hp', _, _⟩ := PIS.readItems_ok (items.map CItem.toR) r hr hrinv (fits_toR items r.cap) rest
      (by rw [enc_toR]; exact hp)
    exact ⟨r', by rw [← val_toR]; exact h, hp'⟩

/-! ### Python to Python, fixed-size numbers included -/

/-- a fixed-size number written little-endian is what the reader's `struct` decoding of those bytes returns -/
theorem encLE_leVal : ∀ (bs : Bytes), encLE bs.length (CIS.leVal bs) = bs
  | [] => rfl
  | b :: r => by
    have ih := encLE_leVal r
    have hb : b.toNat < 256 := b.toNat_lt
    simp only [List.length_cons, encLE, CIS.leVal]
    have h1 : (b.toNat + 256 * CIS.leVal r) % 256 = b.toNat := by omega
    have h2 : (b.toNat + 256 * CIS.leVal r) / 256 = CIS.leVal r := by omega
    rw [h1, h2, ih]
    simp

namespace RItem

def toW : RItem → WOp
  | .byte b => .byte b
  | .fixed bs => .fixed bs.length (CIS.leVal bs)
  | .var n => .var64 n
  | .bytes bs => .bytes bs

/-- what the Python writer accepts: varints below 2^64, fixed-size numbers no wider than the buffer -/
def wok (cap : Nat) : RItem → Prop
  | .var n => n < 2 ^ 64
  | .fixed bs => bs.length ≤ cap
  | _ => True

end RItem

theorem spec_rtoW (items : List RItem) : ((items.map RItem.toW).map WOp.spec).flatten = encItems items := by
  induction items with
  | nil => rfl
  | cons i r ih => cases i <;> simp_all [RItem.toW, WOp.spec, encItems, RItem.enc, encLE_leVal]

/-- written through the Python output stream model, read through the Python input stream model: bytes, fixed-size
    numbers, varints, byte runs — any sequence, both capacities independent -/
theorem python_stream_round_trip (items : List RItem) (w : COS) (hw : 10 ≤ w.cap) (hwinv : w.Inv) (hwe : w.abs = [])
    (hi : ∀ i ∈ items, i.wok w.cap) (r : PIS) (hr : 0 < r.cap) (hrinv : r.Inv) (hf : ∀ i ∈ items, i.fits r.cap)
    (rest : Bytes) (hp : r.pending = (Py.run w (items.map RItem.toW)).abs ++ rest) :
    ∃ r', r.readItems items = .ok (items.map RItem.val) r' ∧ r'.pending = rest := by
  have hok : ∀ op ∈ items.map RItem.toW, op.ok w.cap := by
    intro op hop
    obtain ⟨i, him, rfl⟩ := List.mem_map.mp hop
    have := hi i him
    cases i <;> simp_all [RItem.toW, RItem.wok, WOp.ok]
  have h := (Py.run_spec (items.map RItem.toW) w hw hwinv hok).1
  rw [hwe, spec_rtoW] at h
  obtain ⟨r', e, hp', _, _⟩ := PIS.readItems_ok items r hr hrinv hf rest (by rw [hp, h]; simp)
  exact ⟨r', e, hp'⟩

end Yardl
