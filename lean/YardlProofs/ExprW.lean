import YardlModel.Expr

/-!
  YardlProofs.ExprW — arithmetic carried out in a fixed-width integer type yields the mathematical value whenever the
  operands, the intermediate results and the result are in the range of the type.
-/

namespace Yardl

theorem Rng.wrap_of_contains (r : Rng) (v : Int) (h : r.contains v = true) : r.wrap v = v := by
  simp only [Rng.contains, Bool.and_eq_true, decide_eq_true_eq] at h
  unfold Rng.wrap
  have h1 : 0 ≤ v - r.lo := by omega
  have h2 : v - r.lo < r.hi - r.lo + 1 := by omega
  rw [Int.emod_eq_of_lt h1 h2]
  omega

theorem Expr.evalW_exact (r : Rng) (ρ : Nat → Int) : ∀ (e : Expr), e.inRange r ρ = true → e.evalW r ρ = e.eval ρ
  | .lit n, h => by
    simp only [Expr.inRange] at h
    simp [Expr.evalW, Expr.eval, Rng.wrap_of_contains r n h]
  | .var i, h => by
    simp only [Expr.inRange] at h
    simp [Expr.evalW, Expr.eval, Rng.wrap_of_contains r (ρ i) h]
  | .neg e, h => by
    simp only [Expr.inRange, Bool.and_eq_true] at h
    have ih := Expr.evalW_exact r ρ e h.1
    have h2 := h.2
    simp only [Expr.eval] at h2
    cases hv : e.eval ρ with
    | none => simp [hv] at h2
    | some x =>
      simp only [hv, Option.map_some] at h2
      simp [Expr.evalW, Expr.eval, ih, hv, Rng.wrap_of_contains r (-x) h2]
  | .bin op l r', h => by
    simp only [Expr.inRange, Bool.and_eq_true] at h
    have ihl := Expr.evalW_exact r ρ l h.1.1
    have ihr := Expr.evalW_exact r ρ r' h.1.2
    have h2 := h.2
    simp only [Expr.eval] at h2
    simp only [Expr.evalW, Expr.eval, ihl, ihr]
    cases hx : l.eval ρ with
    | none => simp [hx] at h2
    | some x =>
      cases hy : r'.eval ρ with
      | none => simp [hx, hy] at h2
      | some y =>
        simp only [hx, hy] at h2 ⊢
        cases op with
        | add => simp only at h2 ⊢; simp [Rng.wrap_of_contains r _ h2]
        | sub => simp only at h2 ⊢; simp [Rng.wrap_of_contains r _ h2]
        | mul => simp only at h2 ⊢; simp [Rng.wrap_of_contains r _ h2]
        | div =>
          simp only at h2 ⊢
          by_cases hz : y = 0
          · simp [hz] at h2
          · simp only [hz, if_false] at h2 ⊢
            simp [Rng.wrap_of_contains r _ h2]
        | pow => simp at h2

end Yardl

/-! ### integer literals -/

namespace Yardl

theorem litType_contains (n : Int) (t : IntTy) (h : litType n = some t) : t.rng.contains n = true := by
  unfold litType at h
  split at h
  · split at h
    · cases h; simp [IntTy.rng, Rng.contains]; omega
    · split at h
      · cases h; simp [IntTy.rng, Rng.contains]; omega
      · split at h
        · cases h; simp [IntTy.rng, Rng.contains]; omega
        · split at h
          · cases h; simp [IntTy.rng, Rng.contains]; omega
          · cases h
  · split at h
    · cases h; simp [IntTy.rng, Rng.contains]; omega
    · split at h
      · cases h; simp [IntTy.rng, Rng.contains]; omega
      · split at h
        · cases h; simp [IntTy.rng, Rng.contains]; omega
        · split at h
          · cases h; simp [IntTy.rng, Rng.contains]; omega
          · cases h

/-- no narrower type of the same signedness holds the literal -/
theorem litType_narrowest (n : Int) (t t' : IntTy) (h : litType n = some t) (hv : t'.valid = true) (hs : t'.signed = t.signed)
    (hn : t'.bits < t.bits) : t'.rng.contains n = false := by
  obtain ⟨s', b'⟩ := t'
  simp only [IntTy.valid, Bool.or_eq_true, beq_iff_eq] at hv
  unfold litType at h
  split at h
  · split at h
    · cases h; simp at hn; omega
    · split at h
      · cases h; simp at hs hn; subst hs
        rcases hv with ((rfl | rfl) | rfl) | rfl <;> simp [IntTy.rng, Rng.contains] at hn ⊢ <;> omega
      · split at h
        · cases h; simp at hs hn; subst hs
          rcases hv with ((rfl | rfl) | rfl) | rfl <;> simp [IntTy.rng, Rng.contains] at hn ⊢ <;> omega
        · split at h
          · cases h; simp at hs hn; subst hs
            rcases hv with ((rfl | rfl) | rfl) | rfl <;> simp [IntTy.rng, Rng.contains] at hn ⊢ <;> omega
          · cases h
  · split at h
    · cases h; simp at hn; omega
    · split at h
      · cases h; simp at hs hn; subst hs
        rcases hv with ((rfl | rfl) | rfl) | rfl <;> simp [IntTy.rng, Rng.contains] at hn ⊢ <;> omega
      · split at h
        · cases h; simp at hs hn; subst hs
          rcases hv with ((rfl | rfl) | rfl) | rfl <;> simp [IntTy.rng, Rng.contains] at hn ⊢ <;> omega
        · split at h
          · cases h; simp at hs hn; subst hs
            rcases hv with ((rfl | rfl) | rfl) | rfl <;> simp [IntTy.rng, Rng.contains] at hn ⊢ <;> omega
          · cases h

/-- a literal is rejected exactly when no 64-bit type holds it -/
theorem litType_none_iff (n : Int) : litType n = none ↔ (n < -9223372036854775808 ∨ 18446744073709551615 < n) := by
  unfold litType
  constructor
  · intro h
    split at h
    · split at h; · cases h
      split at h; · cases h
      split at h; · cases h
      split at h; · cases h
      omega
    · split at h; · cases h
      split at h; · cases h
      split at h; · cases h
      split at h; · cases h
      omega
  · intro h
    rcases h with h | h
    · have : ¬ (0 ≤ n) := by omega
      simp only [this, if_false]
      repeat' split
      all_goals first | rfl | omega
    · have : 0 ≤ n := by omega
      simp only [this, if_true]
      repeat' split
      all_goals first | rfl | omega

end Yardl
