import YardlModel.Expr

/-!
  YardlProofs.ExprW — arithmetic carried out in a fixed-width integer type yields the mathematical value whenever the
  operands, the intermediate results and the result are in the range of the type.
-/

namespace Yardl

theorem Rng.wrap_of_contains (r : Rng) (v : Int) (h : r.contains v = true) : r.wrap v = v := by
  simp only [Rng.contains, Bool.and_eq_true, decide_eq_true_eq] at h
  unfold Rng.wrap
  have h1 : 0 ≤ v - r.lo := by omega
  have h2 : v - r.lo < r.hi - r.lo + 1 := by omega
  rw [Int.emod_eq_of_lt h1 h2]
  omega

theorem Expr.evalW_exact (r : Rng) (ρ : Nat → Int) : ∀ (e : Expr), e.inRange r ρ = true → e.evalW r ρ = e.eval ρ
  | .lit n, h => by
    simp only [Expr.inRange] at h
    simp [Expr.evalW, Expr.eval, Rng.wrap_of_contains r n h]
  | .var i, h => by
    simp only [Expr.inRange] at h
    simp [Expr.evalW, Expr.eval, Rng.wrap_of_contains r (ρ i) h]
  | .neg e, h => by
    simp only [Expr.inRange, Bool.and_eq_true] at h
    have ih := Expr.evalW_exact r ρ e h.1
    have h2 := h.2
    simp only [Expr.eval] at h2
    cases hv : e.eval ρ with
    | none => simp [hv] at h2
    | some x =>
      simp only [hv, Option.map_some] at h2
      simp [Expr.evalW, Expr.eval, ih, hv, Rng.wrap_of_contains r (-x) h2]
  | .bin op l r', h => by
    simp only [Expr.inRange, Bool.and_eq_true] at h
    have ihl := Expr.evalW_exact r ρ l h.1.1
    have ihr := Expr.evalW_exact r ρ r' h.1.2
    have h2 := h.2
    simp only [Expr.eval] at h2
    simp only [Expr.evalW, Expr.eval, ihl, ihr]
    cases hx : l.eval ρ with
    | none => simp [hx] at h2
    | some x =>
      cases hy : r'.eval ρ with
      | none => simp [hx, hy] at h2
      | some y =>
        simp only [hx, hy] at h2 ⊢
        cases op with
        | add => simp only at h2 ⊢; simp [Rng.wrap_of_contains r _ h2]
        | sub => simp only at h2 ⊢; simp [Rng.wrap_of_contains r _ h2]
        | mul => simp only at h2 ⊢; simp [Rng.wrap_of_contains r _ h2]
        | div =>
          simp only at h2 ⊢
          by_cases hz : y = 0
          · simp [hz] at h2
          · simp only [hz, if_false] at h2 ⊢
            simp [Rng.wrap_of_contains r _ h2]
        | pow => simp at h2

end Yardl
