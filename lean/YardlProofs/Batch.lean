import YardlModel.Batch

/-! Whatever mixture of single-item and batched reads (any capacities) a client issues, and however
    the writer partitioned the stream into blocks, the reader delivers the written items in order,
    each exactly once, and reports the end only when nothing is left. -/

namespace Yardl
namespace BS

theorem readCount_wf (s : BS) (h : s.Wf) (hc : s.cbr = 0) (he : s.sawEnd = false) : s.readCount.Wf := by
  unfold readCount
  cases hs : s.sizes with
  | nil =>
    refine ⟨?_, ?_, ?_⟩
    · have := h.1; simp [hs, partSum', hc] at this ⊢; omega
    · simp [hs]
    · intro _; simp [hs]
  | cons n r =>
    refine ⟨?_, ?_, ?_⟩
    · have := h.1; simp [hs, partSum', hc] at this ⊢; omega
    · intro m hm; exact h.2.1 m (by simp [hs, hm])
    · intro hh; simp [he] at hh

theorem readCount_items (s : BS) : s.readCount.items = s.items := by
  unfold readCount; cases s.sizes <;> rfl

/-- After `readCount` from a well-formed state with `cbr = 0`: either the end was seen and no
    items remain, or a positive count was read. -/
theorem readCount_cases (s : BS) (h : s.Wf) (hc : s.cbr = 0) :
    (s.readCount.sawEnd = true ∧ s.items = [] ∧ s.readCount.cbr = 0) ∨
    (0 < s.readCount.cbr ∧ s.readCount.sawEnd = s.sawEnd) := by
  unfold readCount
  cases hs : s.sizes with
  | nil =>
    left
    have := h.1
    simp [hs, partSum', hc] at this
    exact ⟨rfl, List.eq_nil_of_length_eq_zero this.symm, rfl⟩
  | cons n r =>
    right
    exact ⟨h.2.1 n (by simp [hs]), rfl⟩

theorem readBlock_spec (s : BS) (h : s.Wf) (he : s.sawEnd = false) :
    (s.readBlock).2.Wf ∧
    (match (s.readBlock).1 with
     | some v => s.items = v :: (s.readBlock).2.items
     | none => s.items = [] ∧ (s.readBlock).2.items = [] ∧ (s.readBlock).2.sawEnd = true) := by
  unfold readBlock
  by_cases hc : s.cbr = 0
  · simp only [hc, if_true]
    have hwf := readCount_wf s h hc he
    rcases readCount_cases s h hc with ⟨h1, h2, h3⟩ | ⟨h1, h2⟩
    · simp only [h3, if_true]
      exact ⟨hwf, h2, by rw [readCount_items]; exact h2, h1⟩
    · have hne : ¬ s.readCount.cbr = 0 := by omega
      simp only [hne, if_false]
      have hl := hwf.1
      cases hi : s.readCount.items with
      | nil => rw [hi] at hl; simp at hl; omega
      | cons v r =>
        simp only
        refine ⟨⟨?_, hwf.2.1, ?_⟩, ?_⟩
        · rw [hi] at hl; simp at hl ⊢; omega
        · intro hh; rw [h2, he] at hh; simp at hh
        · rw [← readCount_items, hi]
  · simp only [hc, if_false]
    have hl := h.1
    cases hi : s.items with
    | nil => rw [hi] at hl; simp at hl; omega
    | cons v r =>
      simp only
      refine ⟨⟨?_, h.2.1, ?_⟩, trivial⟩
      · rw [hi] at hl; simp at hl ⊢; omega
      · intro hh; rw [he] at hh; simp at hh

theorem batchLoop_spec : ∀ (fuel : Nat) (s : BS) (remCap : Nat) (acc : List Val),
    s.Wf → s.sawEnd = false ∨ s.cbr = 0 → 0 < remCap → remCap ≤ fuel →
    (batchLoop fuel s remCap acc).2.Wf ∧
    (∃ taken, (batchLoop fuel s remCap acc).1 = acc ++ taken ∧
      taken ++ (batchLoop fuel s remCap acc).2.items = s.items ∧ taken.length ≤ remCap ∧
      ((batchLoop fuel s remCap acc).2.cbr ≠ 0 → taken.length = remCap) ∧
      ((batchLoop fuel s remCap acc).2.cbr = 0 ∧ s.cbr ≠ 0 →
        (batchLoop fuel s remCap acc).2.sawEnd = true ∧ (batchLoop fuel s remCap acc).2.items = [])) := by
  intro fuel
  induction fuel with
  | zero => intro s remCap acc _ _ h1 h2; omega
  | succ fuel ih =>
    intro s remCap acc hwf hend hcap hfuel
    unfold batchLoop
    by_cases hc : s.cbr = 0
    · simp only [hc, if_true]
      exact ⟨hwf, [], by simp, by simp, by simp, by simp [hc], by simp [hc]⟩
    · simp only [hc, if_false]
      have he : s.sawEnd = false := by
        rcases hend with h | h
        · exact h
        · exact absurd h hc
      have hk1 : 0 < min s.cbr remCap := by omega
      have hlen := hwf.1
      have hkl : min s.cbr remCap ≤ s.items.length := by omega
      have hcb : (s.consume (min s.cbr remCap)).cbr = s.cbr - min s.cbr remCap := rfl
      have hit : (s.consume (min s.cbr remCap)).items = s.items.drop (min s.cbr remCap) := rfl
      have hsa : (s.consume (min s.cbr remCap)).sawEnd = s.sawEnd := rfl
      have hwf1 : (s.consume (min s.cbr remCap)).Wf := by
        refine ⟨?_, hwf.2.1, ?_⟩
        · show s.cbr - min s.cbr remCap + partSum' s.sizes = (s.items.drop (min s.cbr remCap)).length
          simp [List.length_drop]; omega
        · intro hh; rw [hsa, he] at hh; simp at hh
      generalize hs1 : s.consume (min s.cbr remCap) = s1 at *
      by_cases hz : s1.cbr = 0
      · -- block finished: the next count is read eagerly
        simp only [hz, if_true]
        have hwf2 := readCount_wf s1 hwf1 hz (by rw [hsa]; exact he)
        have hcases := readCount_cases s1 hwf1 hz
        by_cases hr : remCap - min s.cbr remCap = 0
        · simp only [hr, if_true]
          refine ⟨hwf2, s.items.take (min s.cbr remCap), rfl, ?_, ?_, ?_, ?_⟩
          · rw [readCount_items, hit]; simp
          · simp [List.length_take]; omega
          · intro _; simp [List.length_take]; omega
          · intro hh
            rcases hcases with ⟨h1, h2, h3⟩ | ⟨h1, h2⟩
            · exact ⟨h1, by rw [readCount_items]; exact h2⟩
            · omega
        · simp only [hr, if_false]
          have hsaw : s1.readCount.sawEnd = false ∨ s1.readCount.cbr = 0 := by
            rcases hcases with ⟨_, _, h3⟩ | ⟨_, h2⟩
            · right; exact h3
            · left; rw [h2, hsa]; exact he
          have := ih s1.readCount (remCap - min s.cbr remCap) (acc ++ s.items.take (min s.cbr remCap)) hwf2 hsaw (by omega) (by omega)
          obtain ⟨hw, taken, e1, e2, e3, e4, e5⟩ := this
          refine ⟨hw, s.items.take (min s.cbr remCap) ++ taken, ?_, ?_, ?_, ?_, ?_⟩
          · rw [e1, List.append_assoc]
          · rw [List.append_assoc, e2, readCount_items, hit]; simp
          · simp [List.length_take]; omega
          · intro hh; have := e4 hh; simp [List.length_take]; omega
          · intro hh
            rcases hcases with ⟨h1, h2, h3⟩ | ⟨h1, _⟩
            · -- the stream ended right here: the recursive call returns immediately
              have hb : batchLoop fuel s1.readCount (remCap - min s.cbr remCap) (acc ++ s.items.take (min s.cbr remCap)) =
                  (acc ++ s.items.take (min s.cbr remCap), s1.readCount) := by
                cases fuel with
                | zero => rfl
                | succ f => unfold batchLoop; simp only [h3, if_true]
              rw [hb]
              exact ⟨h1, by rw [readCount_items]; exact h2⟩
            · exact e5 ⟨hh.1, by omega⟩
      · -- block not finished: the destination must be full
        simp only [hz, if_false]
        have hr : remCap - min s.cbr remCap = 0 := by omega
        simp only [hr, if_true]
        refine ⟨hwf1, s.items.take (min s.cbr remCap), rfl, by rw [hit]; simp, ?_, ?_, ?_⟩
        · simp [List.length_take]; omega
        · intro _; simp [List.length_take]; omega
        · intro hh; exact absurd hh.1 hz

theorem readBatch_spec (s : BS) (cap : Nat) (hwf : s.Wf) (he : s.sawEnd = false) (hcap : 0 < cap) :
    (s.readBatch cap).2.Wf ∧ (s.readBatch cap).1 ++ (s.readBatch cap).2.items = s.items ∧
    (s.readBatch cap).1.length ≤ cap := by
  unfold readBatch
  by_cases hc : s.cbr = 0
  · simp only [hc, if_true]
    have hwf1 := readCount_wf s hwf hc he
    have hsaw : s.readCount.sawEnd = false ∨ s.readCount.cbr = 0 := by
      rcases readCount_cases s hwf hc with ⟨_, _, h3⟩ | ⟨_, h2⟩
      · right; exact h3
      · left; rw [h2]; exact he
    obtain ⟨hw, taken, e1, e2, e3, _, _⟩ := batchLoop_spec (cap + 1) s.readCount cap [] hwf1 hsaw hcap (by omega)
    refine ⟨hw, ?_, ?_⟩
    · rw [e1]; simp; rw [e2, readCount_items]
    · rw [e1]; simpa using e3
  · simp only [hc, if_false]
    obtain ⟨hw, taken, e1, e2, e3, _, _⟩ := batchLoop_spec (cap + 1) s cap [] hwf (Or.inl he) hcap (by omega)
    refine ⟨hw, ?_, ?_⟩
    · rw [e1]; simp; exact e2
    · rw [e1]; simpa using e3

def opsOk : List Op → Prop
  | [] => True
  | .single :: r => opsOk r
  | .batch cap :: r => 0 < cap ∧ opsOk r

/-- Delivered items followed by the items still in the stream are always exactly the items written. -/
theorem runOps_prefix : ∀ (ops : List Op) (s : BS) (acc : List Val), s.Wf → opsOk ops →
    (runOps ops s acc).1 ++ (runOps ops s acc).2.items = acc ++ s.items ∧ (runOps ops s acc).2.Wf := by
  intro ops
  induction ops with
  | nil => intro s acc h _; exact ⟨rfl, h⟩
  | cons op ops ih =>
    intro s acc hwf hok
    unfold runOps
    by_cases he : s.sawEnd
    · simp only [he, if_true]; exact ⟨trivial, hwf⟩
    · simp only [he, if_false, Bool.false_eq_true]
      have he' : s.sawEnd = false := by simpa using he
      cases op with
      | single =>
        have hsp := readBlock_spec s hwf he'
        simp only [opsOk] at hok
        cases hr : s.readBlock with
        | mk o s' =>
          rw [hr] at hsp
          cases o with
          | none =>
            simp only at hsp ⊢
            have := ih s' acc hsp.1 hok
            rw [this.1, hsp.2.1, hsp.2.2.1]
            exact ⟨rfl, this.2⟩
          | some v =>
            simp only at hsp ⊢
            have := ih s' (acc ++ [v]) hsp.1 hok
            rw [this.1, hsp.2]
            exact ⟨by simp, this.2⟩
      | batch cap =>
        simp only [opsOk] at hok
        have hsp := readBatch_spec s cap hwf he' hok.1
        simp only
        have := ih (s.readBatch cap).2 (acc ++ (s.readBatch cap).1) hsp.1 hok.2
        rw [this.1, List.append_assoc, hsp.2.1]
        exact ⟨rfl, this.2⟩

/-- When the reader has reported the end of the stream, it has delivered exactly the items written. -/
theorem runOps_complete (ops : List Op) (part : List Nat) (items : List Val)
    (hp : partSum' part = items.length) (hpos : ∀ n ∈ part, 0 < n) (hok : opsOk ops)
    (hend : (runOps ops (init part items) []).2.sawEnd = true) :
    (runOps ops (init part items) []).1 = items := by
  have hwf : (init part items).Wf := by
    refine ⟨by simp [init, hp], by simpa [init] using hpos, by simp [init]⟩
  have h := runOps_prefix ops (init part items) [] hwf hok
  have h3 := h.2.2.2 hend
  have hl := h.2.1
  rw [h3.1, h3.2] at hl
  simp [partSum'] at hl
  have : (runOps ops (init part items) []).2.items = [] := List.eq_nil_of_length_eq_zero hl.symm
  have h1 := h.1
  rw [this] at h1
  simpa [init] using h1

end BS
end Yardl
