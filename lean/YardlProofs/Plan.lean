import YardlModel.Plan

/-!
  YardlProofs.Plan — (1) the bytes depend on the plan only; (2) every back end's serializer
  expression denotes the plan.
-/

namespace Yardl.Plan
open Yardl

mutual
  theorem enc_erase : ∀ (t : Ty) (v : Val), enc (erase t) v = enc t v
    | .prim p, v => by simp [erase]
    | .enum b _ _, v => by simp [erase, enc]
    | .record fs, v => by
      cases v <;> simp [erase, enc, encFields_erase]
    | .optional t, v => by
      cases v <;> simp [erase, enc, enc_erase t]
    | .union hn cs, v => by
      cases v <;> simp [erase, enc, encCase_erase]
    | .vector t l, v => by
      have h : enc (erase t) = enc t := funext (enc_erase t)
      cases v <;> simp [erase, enc, h]
    | .array t k, v => by
      have h : enc (erase t) = enc t := funext (enc_erase t)
      cases v <;> simp [erase, enc, h]
    | .map k w, v => by
      have h1 : enc (erase k) = enc k := funext (enc_erase k)
      have h2 : enc (erase w) = enc w := funext (enc_erase w)
      cases v <;> simp [erase, enc, h1, h2]
  theorem encFields_erase : ∀ (fs : Fields) (vs : List Val), encFields (eraseF fs) vs = encFields fs vs
    | .nil, vs => by simp [eraseF, encFields]
    | .cons _ t r, vs => by
      cases vs <;> simp [eraseF, encFields, enc_erase t, encFields_erase r]
  theorem encCase_erase : ∀ (fs : Fields) (i : Nat) (x : Val), encCase (eraseF fs) i x = encCase fs i x
    | .nil, i, x => by simp [eraseF, encCase]
    | .cons _ t r, i, x => by
      cases i <;> simp [eraseF, encCase, enc_erase t, encCase_erase r]
end

mutual
  theorem dec_erase : ∀ (t : Ty) (bs : Bytes), dec (erase t) bs = dec t bs
    | .prim p, bs => by simp [erase]
    | .enum b _ _, bs => by simp [erase, dec]
    | .record fs, bs => by simp [erase, dec, decFields_erase]
    | .optional t, bs => by
      have h : dec (erase t) = dec t := funext (dec_erase t)
      simp [erase, dec, h]
    | .union hn cs, bs => by
      have h : decCase (eraseF cs) = decCase cs := funext fun i => funext (decCase_erase cs i)
      simp [erase, dec, h]
    | .vector t l, bs => by
      have h : dec (erase t) = dec t := funext (dec_erase t)
      simp [erase, dec, h]
    | .array t k, bs => by
      have h : dec (erase t) = dec t := funext (dec_erase t)
      simp [erase, dec, h]
    | .map k w, bs => by
      have h1 : dec (erase k) = dec k := funext (dec_erase k)
      have h2 : dec (erase w) = dec w := funext (dec_erase w)
      simp [erase, dec, h1, h2]
  theorem decFields_erase : ∀ (fs : Fields) (bs : Bytes), decFields (eraseF fs) bs = decFields fs bs
    | .nil, bs => by simp [eraseF, decFields]
    | .cons _ t r, bs => by
      have h : decFields (eraseF r) = decFields r := funext (decFields_erase r)
      simp [eraseF, decFields, dec_erase t, h]
  theorem decCase_erase : ∀ (fs : Fields) (i : Nat) (bs : Bytes), decCase (eraseF fs) i bs = decCase fs i bs
    | .nil, i, bs => by simp [eraseF, decCase]
    | .cons _ t r, i, bs => by
      cases i <;> simp [eraseF, decCase, dec_erase t, decCase_erase r]
end

theorem emit_ne_none (b : Backend) (t : Ty) : emit b t ≠ .noneSer := by
  cases t with
  | union hn cs => cases hn <;> simp [emit]
  | vector t l => cases l <;> simp [emit]
  | array t k => cases k <;> simp [emit]
  | _ => simp [emit]

theorem denote_union_nonnull (b : Backend) (e : SE) (r : SEs) (s : Bool) (k : List Nat) (h : e ≠ .noneSer) :
    denote b (.union (.cons e r) s k) =
      (match denoteF b (.cons e r) with
       | some fs => some (.union false fs)
       | none => none) := by
  cases e <;> first | (exact absurd rfl h) | (simp only [denote]; try rfl)

mutual
  theorem denote_emit (b : Backend) : ∀ t : Ty, denote b (emit b t) = some (erase t)
    | .prim p => by simp [emit, denote, erase]
    | .enum base fl syms => by simp [emit, denote, erase]
    | .record fs => by simp [emit, denote, erase, denoteF_emitF b fs]
    | .optional t => by simp [emit, denote, erase, denote_emit b t]
    | .union true cs => by simp [emit, denote, erase, denoteF_emitF b cs]
    | .union false .nil => by simp [emit, emitF, denote, denoteF, erase, eraseF]
    | .union false (.cons n t r) => by
      have h2 := denoteF_emitF b (.cons n t r)
      simp only [emit, emitF] at *
      rw [denote_union_nonnull b _ _ _ _ (emit_ne_none b t), h2]
      simp [erase]
    | .vector t none => by simp [emit, denote, erase, denote_emit b t]
    | .vector t (some n) => by simp [emit, denote, erase, denote_emit b t]
    | .array t .dynamic => by simp [emit, denote, erase, denote_emit b t]
    | .array t (.rank n) => by simp [emit, denote, erase, denote_emit b t]
    | .array t (.fixed dims) => by
      cases h : b.reversesFixedDims <;> simp [emit, denote, erase, denote_emit b t, h]
    | .map k v => by simp [emit, denote, erase, denote_emit b k, denote_emit b v]
  theorem denoteF_emitF (b : Backend) : ∀ fs : Fields, denoteF b (emitF b fs) = some (eraseF fs)
    | .nil => by simp [emitF, denoteF, eraseF]
    | .cons n t r => by simp [emitF, denoteF, eraseF, denote_emit b t, denoteF_emitF b r]
end


theorem denote_union_null (b : Backend) (r : SEs) (s : Bool) (k : List Nat) :
    denote b (.union (.cons .noneSer r) s k) =
      (match denoteF b r with
       | some fs => some (.union true fs)
       | none => none) := by
  simp only [denote]; try rfl

theorem strip_union_aux (b : Backend) (e : SE) (r : SEs) (s : Bool) (k : List Nat) (p : Ty) (hne : e ≠ .noneSer)
    (ih : ∀ fs, denoteF b (.cons e r) = some fs → stripF (.cons e r) = stripF (emitF b fs))
    (h : denote b (.union (.cons e r) s k) = some p) : strip (.union (.cons e r) s k) = strip (emit b p) := by
  rw [denote_union_nonnull b e r s k hne] at h
  cases hd : denoteF b (.cons e r) with
  | none => simp [hd] at h
  | some fs =>
    simp [hd] at h; subst h
    simp only [emit, strip]
    rw [ih fs hd]

mutual
  theorem strip_of_denote (b : Backend) : ∀ (e : SE) (p : Ty), denote b e = some p → strip e = strip (emit b p)
    | .prim q, p, h => by
      simp [denote] at h; subst h; simp [emit, strip]
    | .noneSer, p, h => by simp [denote] at h
    | .enumSer base fl, p, h => by
      cases base <;> simp [denote] at h
      subst h; simp [emit, strip]
    | .optional e, p, h => by
      cases hd : denote b e with
      | none => simp [denote, hd] at h
      | some t =>
        simp [denote, hd] at h; subst h
        simp [emit, strip, strip_of_denote b e t hd]
    | .union .nil s k, p, h => by
      simp [denote, denoteF] at h; subst h; simp [emit, emitF, strip, stripF]
    | .union (.cons .noneSer r) s k, p, h => by
      rw [denote_union_null] at h
      cases hd : denoteF b r with
      | none => simp [hd] at h
      | some fs =>
        simp [hd] at h; subst h
        simp [emit, strip, stripF, stripF_of_denoteF b r fs hd]
    | .union (.cons (.prim q) r) s k, p, h => strip_union_aux b _ r s k p (by simp) (stripF_of_denoteF b (.cons (.prim q) r)) h
    | .union (.cons (.enumSer a f) r) s k, p, h => strip_union_aux b _ r s k p (by simp) (stripF_of_denoteF b (.cons (.enumSer a f) r)) h
    | .union (.cons (.optional a) r) s k, p, h => strip_union_aux b _ r s k p (by simp) (stripF_of_denoteF b (.cons (.optional a) r)) h
    | .union (.cons (.union a f g) r) s k, p, h => strip_union_aux b _ r s k p (by simp) (stripF_of_denoteF b (.cons (.union a f g) r)) h
    | .union (.cons (.vector a) r) s k, p, h => strip_union_aux b _ r s k p (by simp) (stripF_of_denoteF b (.cons (.vector a) r)) h
    | .union (.cons (.fixedVector a n) r) s k, p, h => strip_union_aux b _ r s k p (by simp) (stripF_of_denoteF b (.cons (.fixedVector a n) r)) h
    | .union (.cons (.ndarray a n) r) s k, p, h => strip_union_aux b _ r s k p (by simp) (stripF_of_denoteF b (.cons (.ndarray a n) r)) h
    | .union (.cons (.fixedNdarray a n) r) s k, p, h => strip_union_aux b _ r s k p (by simp) (stripF_of_denoteF b (.cons (.fixedNdarray a n) r)) h
    | .union (.cons (.dynNdarray a) r) s k, p, h => strip_union_aux b _ r s k p (by simp) (stripF_of_denoteF b (.cons (.dynNdarray a) r)) h
    | .union (.cons (.map a c) r) s k, p, h => strip_union_aux b _ r s k p (by simp) (stripF_of_denoteF b (.cons (.map a c) r)) h
    | .union (.cons (.record a) r) s k, p, h => strip_union_aux b _ r s k p (by simp) (stripF_of_denoteF b (.cons (.record a) r)) h
    | .vector e, p, h => by
      cases hd : denote b e with
      | none => simp [denote, hd] at h
      | some t =>
        simp [denote, hd] at h; subst h
        simp [emit, strip, strip_of_denote b e t hd]
    | .fixedVector e n, p, h => by
      cases hd : denote b e with
      | none => simp [denote, hd] at h
      | some t =>
        simp [denote, hd] at h; subst h
        simp [emit, strip, strip_of_denote b e t hd]
    | .ndarray e n, p, h => by
      cases hd : denote b e with
      | none => simp [denote, hd] at h
      | some t =>
        simp [denote, hd] at h; subst h
        simp [emit, strip, strip_of_denote b e t hd]
    | .fixedNdarray e d, p, h => by
      cases hd : denote b e with
      | none => simp [denote, hd] at h
      | some t =>
        simp [denote, hd] at h; subst h
        cases hr : b.reversesFixedDims <;> simp [emit, strip, strip_of_denote b e t hd, hr]
    | .dynNdarray e, p, h => by
      cases hd : denote b e with
      | none => simp [denote, hd] at h
      | some t =>
        simp [denote, hd] at h; subst h
        simp [emit, strip, strip_of_denote b e t hd]
    | .map k v, p, h => by
      cases hk : denote b k with
      | none => simp [denote, hk] at h
      | some kt =>
        cases hv : denote b v with
        | none => simp [denote, hk, hv] at h
        | some vt =>
          simp [denote, hk, hv] at h; subst h
          simp [emit, strip, strip_of_denote b k kt hk, strip_of_denote b v vt hv]
    | .record fs, p, h => by
      cases hd : denoteF b fs with
      | none => simp [denote, hd] at h
      | some fs' =>
        simp [denote, hd] at h; subst h
        simp [emit, strip, stripF_of_denoteF b fs fs' hd]
  theorem stripF_of_denoteF (b : Backend) : ∀ (es : SEs) (fs : Fields), denoteF b es = some fs → stripF es = stripF (emitF b fs)
    | .nil, fs, h => by
      simp [denoteF] at h; subst h; simp [emitF, stripF]
    | .cons e r, fs, h => by
      cases he : denote b e with
      | none => simp [denoteF, he] at h
      | some t =>
        cases hr : denoteF b r with
        | none => simp [denoteF, he, hr] at h
        | some fr =>
          simp [denoteF, he, hr] at h; subst h
          simp [emitF, stripF, strip_of_denote b e t he, stripF_of_denoteF b r fr hr]
end

theorem denote_injective (b : Backend) (e₁ e₂ : SE) (p : Ty) (h₁ : denote b e₁ = some p) (h₂ : denote b e₂ = some p) :
    strip e₁ = strip e₂ := by
  rw [strip_of_denote b e₁ p h₁, strip_of_denote b e₂ p h₂]

end Yardl.Plan
