import YardlModel.Streams
import YardlProofs.WireRoundTrip
import YardlProofs.StreamsW

/-! The buffered C++ reader refines the byte-level decoders for every capacity ≥ 10, every way
    the bytes are split between window and underlying stream; a cut inside a primitive is reported
    as end-of-stream and no read ever leaves the valid window. -/

namespace Yardl
namespace CIS

theorem ensure_none (s : CIS) (hinv : s.Inv) (hp : s.pending = []) : s.ensure = none := by
  unfold pending at hp
  have hw : s.win = [] := (List.append_eq_nil_iff.mp hp).1
  have hs : s.src = [] := (List.append_eq_nil_iff.mp hp).2
  unfold ensure fillOrThrow fill
  simp [hw, hs]
  cases s.atEof <;> simp

theorem ensure_some (s : CIS) (hc : 0 < s.cap) (hinv : s.Inv) (hp : s.pending ≠ []) :
    ∃ s1, s.ensure = some s1 ∧ s1.pending = s.pending ∧ s1.win ≠ [] ∧ s1.Inv ∧ s1.cap = s.cap := by
  unfold ensure
  by_cases hw : s.win.isEmpty
  · have hw' : s.win = [] := List.isEmpty_iff.mp hw
    have hsrc : s.src ≠ [] := by
      intro h; apply hp; simp [pending, hw', h]
    have hne : s.atEof = false := by
      cases h : s.atEof with
      | false => rfl
      | true => exact absurd (hinv.2 h) hsrc
    simp only [hw, if_true, fillOrThrow, fill, hne]
    have htake : (s.src.take s.cap) ≠ [] := by
      cases hs : s.src with
      | nil => exact absurd hs hsrc
      | cons b r =>
        cases hcap : s.cap with
        | zero => omega
        | succ k => simp
    have : (List.take s.cap s.src).isEmpty = false := by
      cases h : List.take s.cap s.src with
      | nil => exact absurd h htake
      | cons _ _ => rfl
    simp only [Bool.false_eq_true, if_false, this]
    refine ⟨_, rfl, ?_, htake, ?_, rfl⟩
    · simp [pending, hw']
    · constructor
      · simp [List.length_take]; omega
      · intro h
        simp at h
        simp [List.drop_eq_nil_iff]; omega
  · simp only [hw, if_false, Bool.false_eq_true]
    refine ⟨s, rfl, rfl, ?_, hinv, rfl⟩
    intro h; simp [h] at hw

/-! ### single byte -/

theorem readByte_ok (s : CIS) (hc : 0 < s.cap) (hinv : s.Inv) (b : UInt8) (rest : Bytes)
    (hp : s.pending = b :: rest) :
    ∃ s', s.readByte = .ok b s' ∧ s'.pending = rest ∧ s'.Inv ∧ s'.cap = s.cap := by
  obtain ⟨s1, he, hp1, hw1, hinv1, hc1⟩ := ensure_some s hc hinv (by rw [hp]; simp)
  unfold readByte
  rw [he]
  cases hw : s1.win with
  | nil => exact absurd hw hw1
  | cons b' w =>
    have : b' = b ∧ w ++ s1.src = rest := by
      have := hp1.trans hp
      simp [pending, hw] at this
      exact this
    refine ⟨{ s1 with win := w }, by simp only [hw, this.1], by simp [pending, this.2], ?_, hc1⟩
    constructor
    · have := hinv1.1; rw [hw] at this; simp at this ⊢; omega
    · exact hinv1.2

theorem readByte_trunc (s : CIS) (hinv : s.Inv) (hp : s.pending = []) : s.readByte = .eos := by
  unfold readByte
  rw [ensure_none s hinv hp]

/-! ### varints -/

/-- Value of the LEB128 bytes `encVar n`, as accumulated by the shift/or loop. -/
theorem varLoop_ok : ∀ (n : Nat) (fuel : Nat) (s : CIS) (shift acc : Nat) (rest : Bytes),
    0 < s.cap → s.Inv → s.pending = encVar n ++ rest → (encVar n).length ≤ fuel →
    ∃ s', varLoop fuel s shift acc = .ok (acc + n * 2 ^ shift) s' ∧ s'.pending = rest ∧ s'.Inv ∧
      s'.cap = s.cap := by
  intro n
  induction n using Nat.strongRecOn with
  | _ n ih =>
    intro fuel s shift acc rest hc hinv hp hf
    have hne : s.pending ≠ [] := by
      rw [hp]; unfold encVar; split <;> simp
    obtain ⟨s1, he, hp1, hw1, hinv1, hc1⟩ := ensure_some s hc hinv hne
    cases fuel with
    | zero =>
      unfold encVar at hf; split at hf <;> simp at hf
    | succ fuel =>
      unfold varLoop
      rw [he]
      cases hw : s1.win with
      | nil => exact absurd hw hw1
      | cons b w =>
        simp only [hw]
        have hp2 : b :: (w ++ s1.src) = encVar n ++ rest := by
          have := hp1.trans hp
          simpa [pending, hw] using this
        have hinvw : ({ s1 with win := w } : CIS).Inv := by
          constructor
          · have := hinv1.1; rw [hw] at this; simp at this ⊢; omega
          · exact hinv1.2
        unfold encVar at hp2 hf
        by_cases hlt : n < 128
        · simp only [hlt, if_true, List.cons_append, List.nil_append, List.cons.injEq] at hp2
          have hb : b.toNat = n := by rw [hp2.1]; exact u8_ofNat_toNat n (by omega)
          have h1 : b.toNat < 128 := by omega
          simp only [h1, if_true]
          refine ⟨{ s1 with win := w }, ?_, by simp [pending, hp2.2], hinvw, hc1⟩
          rw [hb, Nat.mod_eq_of_lt hlt]
        · simp only [hlt, if_false, List.cons_append, List.cons.injEq] at hp2
          simp only [hlt, if_false, List.length_cons] at hf
          have hb : b.toNat = n % 128 + 128 := by rw [hp2.1]; exact u8_ofNat_toNat _ (by omega)
          have h1 : ¬ b.toNat < 128 := by omega
          simp only [h1, if_false]
          have := ih (n / 128) (by omega) fuel { s1 with win := w } (shift + 7)
            (acc + b.toNat % 128 * 2 ^ shift) rest (by simpa [hc1] using hc) hinvw
            (by simp [pending, hp2.2]) (by omega)
          obtain ⟨s', h1', h2', h3', h4'⟩ := this
          refine ⟨s', ?_, h2', h3', by simpa [hc1] using h4'⟩
          rw [h1']
          congr 1
          have e1 : b.toNat % 128 = n % 128 := by omega
          rw [e1, Nat.pow_add, Nat.add_assoc]
          congr 1
          have : n = n % 128 + 128 * (n / 128) := by omega
          calc n % 128 * 2 ^ shift + n / 128 * (2 ^ shift * 2 ^ 7)
              = (n % 128 + 128 * (n / 128)) * 2 ^ shift := by
                rw [Nat.add_mul]
                congr 1
                have : (2:Nat) ^ 7 = 128 := by decide
                rw [this, Nat.mul_comm (2 ^ shift) 128, ← Nat.mul_assoc, Nat.mul_comm (n / 128) 128]
            _ = n * 2 ^ shift := by rw [← this]

/-- A varint cut by the end of the stream: the loop raises end-of-stream. -/
theorem varLoop_trunc : ∀ (n : Nat) (fuel : Nat) (s : CIS) (shift acc : Nat) (more : Bytes),
    0 < s.cap → s.Inv → s.pending ++ more = encVar n → more ≠ [] → s.pending.length < fuel →
    varLoop fuel s shift acc = .eos := by
  intro n
  induction n using Nat.strongRecOn with
  | _ n ih =>
    intro fuel s shift acc more hc hinv hp hm hf
    cases fuel with
    | zero => omega
    | succ fuel =>
      unfold varLoop
      by_cases hpe : s.pending = []
      · rw [ensure_none s hinv hpe]
      · obtain ⟨s1, he, hp1, hw1, hinv1, hc1⟩ := ensure_some s hc hinv hpe
        rw [he]
        cases hw : s1.win with
        | nil => exact absurd hw hw1
        | cons b w =>
          simp only [hw]
          have hpb : s.pending = b :: (w ++ s1.src) := by
            rw [← hp1]; simp [pending, hw]
          rw [hpb] at hp hf
          have hinvw : ({ s1 with win := w } : CIS).Inv := by
            constructor
            · have := hinv1.1; rw [hw] at this; simp at this ⊢; omega
            · exact hinv1.2
          unfold encVar at hp
          by_cases hlt : n < 128
          · simp only [hlt, if_true, List.cons_append, List.cons.injEq] at hp
            have := hp.2
            simp at this
            exact absurd this.2.2 hm
          · simp only [hlt, if_false, List.cons_append, List.cons.injEq] at hp
            have hb : b.toNat = n % 128 + 128 := by rw [hp.1]; exact u8_ofNat_toNat _ (by omega)
            have h1 : ¬ b.toNat < 128 := by omega
            simp only [h1, if_false]
            exact ih (n / 128) (by omega) fuel { s1 with win := w } _ _ more
              (by simpa [hc1] using hc) hinvw (by simpa [pending, List.append_assoc] using hp.2) hm
              (by simp [pending] at hf ⊢; omega)

theorem varFast_ok (s : CIS) (hinv : s.Inv) (n : Nat) (rest : Bytes)
    (hp : s.pending = encVar n ++ rest) (hlen : (encVar n).length ≤ s.win.length) :
    ∃ s', s.varFast = .ok n s' ∧ s'.pending = rest ∧ s'.Inv ∧ s'.cap = s.cap := by
  -- the window starts with the whole varint
  have hsplit : s.win = encVar n ++ s.win.drop (encVar n).length := by
    have h1 : (s.win ++ s.src).take (encVar n).length = encVar n := by
      have := congrArg (List.take (encVar n).length) hp
      simpa [pending] using this
    have h2 : (s.win ++ s.src).take (encVar n).length = s.win.take (encVar n).length := by
      rw [List.take_append_of_le_length hlen]
    rw [h2] at h1
    conv => lhs; rw [← List.take_append_drop (encVar n).length s.win]
    rw [h1]
  unfold varFast
  rw [hsplit, decVar_encVar]
  refine ⟨_, rfl, ?_, ?_, rfl⟩
  · have := hp
    unfold pending at this ⊢
    rw [hsplit, List.append_assoc] at this
    exact List.append_cancel_left this
  · constructor
    · have := hinv.1; simp [List.length_drop]; omega
    · exact hinv.2

theorem varSlow_ok (s : CIS) (hc : 10 ≤ s.cap) (hinv : s.Inv) (n : Nat) (rest : Bytes)
    (hn : n < 2 ^ 64) (hp : s.pending = encVar n ++ rest) :
    ∃ s', s.varSlow = .ok n s' ∧ s'.pending = rest ∧ s'.Inv ∧ s'.cap = s.cap := by
  have hl10 := encVar_length_le10 n hn
  have hne : s.pending ≠ [] := by rw [hp]; unfold encVar; split <;> simp
  have hlen : (encVar n).length ≤ s.pending.length := by rw [hp]; simp
  unfold varSlow
  by_cases hw : s.win.isEmpty
  · simp only [hw, if_true]
    obtain ⟨s1, he, hp1, hw1, hinv1, hc1⟩ := ensure_some s (by omega) hinv hne
    have he' : s.fillOrThrow = some s1 := by simpa [ensure, hw] using he
    rw [he']
    by_cases h10 : 10 ≤ s1.win.length
    · simp only [h10, if_true]
      obtain ⟨s', h1, h2, h3, h4⟩ := varFast_ok s1 hinv1 n rest (hp1.trans hp) (by omega)
      exact ⟨s', h1, h2, h3, by rw [h4, hc1]⟩
    · simp only [h10, if_false]
      obtain ⟨s', h1, h2, h3, h4⟩ := varLoop_ok n (s1.pending.length + 1) s1 0 0 rest (by omega) hinv1
        (hp1.trans hp) (by rw [hp1]; omega)
      refine ⟨s', ?_, h2, h3, by rw [h4, hc1]⟩
      simpa using h1
  · simp only [hw, if_false, Bool.false_eq_true]
    obtain ⟨s', h1, h2, h3, h4⟩ := varLoop_ok n (s.pending.length + 1) s 0 0 rest (by omega) hinv hp (by omega)
    exact ⟨s', by simpa using h1, h2, h3, h4⟩

theorem varSlow_trunc (s : CIS) (hc : 10 ≤ s.cap) (hinv : s.Inv) (n : Nat) (more : Bytes)
    (hn : n < 2 ^ 64) (hp : s.pending ++ more = encVar n) (hm : more ≠ []) :
    s.varSlow = .eos := by
  have hl10 := encVar_length_le10 n hn
  have hlen : s.pending.length < 10 := by
    have := congrArg List.length hp
    simp at this
    have : 0 < more.length := List.length_pos_iff.mpr hm
    omega
  unfold varSlow
  by_cases hw : s.win.isEmpty
  · simp only [hw, if_true]
    by_cases hpe : s.pending = []
    · have := ensure_none s hinv hpe
      simp only [ensure, hw, if_true] at this
      rw [this]
    · obtain ⟨s1, he, hp1, hw1, hinv1, hc1⟩ := ensure_some s (by omega) hinv hpe
      have he' : s.fillOrThrow = some s1 := by simpa [ensure, hw] using he
      rw [he']
      have h10 : ¬ 10 ≤ s1.win.length := by
        have : s1.win.length ≤ s1.pending.length := by simp [pending]
        rw [hp1] at this; omega
      simp only [h10, if_false]
      exact varLoop_trunc n _ s1 0 0 more (by omega) hinv1 (by rw [hp1]; exact hp) hm (by omega)
  · simp only [hw, if_false, Bool.false_eq_true]
    exact varLoop_trunc n _ s 0 0 more (by omega) hinv hp hm (by omega)

theorem readVar64_ok (s : CIS) (hc : 10 ≤ s.cap) (hinv : s.Inv) (n : Nat) (rest : Bytes)
    (hn : n < 2 ^ 64) (hp : s.pending = encVar n ++ rest) :
    ∃ s', s.readVar64 = .ok n s' ∧ s'.pending = rest ∧ s'.Inv ∧ s'.cap = s.cap := by
  unfold readVar64
  by_cases h : s.win.length < 10
  · simp only [h, if_true]; exact varSlow_ok s hc hinv n rest hn hp
  · simp only [h, if_false]
    exact varFast_ok s hinv n rest hp (by have := encVar_length_le10 n hn; omega)

theorem readVar64_trunc (s : CIS) (hc : 10 ≤ s.cap) (hinv : s.Inv) (n : Nat) (more : Bytes)
    (hn : n < 2 ^ 64) (hp : s.pending ++ more = encVar n) (hm : more ≠ []) :
    s.readVar64 = .eos := by
  have hl10 := encVar_length_le10 n hn
  have hlen : s.win.length < 10 := by
    have := congrArg List.length hp
    simp [pending] at this
    have : 0 < more.length := List.length_pos_iff.mpr hm
    omega
  unfold readVar64
  simp only [hlen, if_true]
  exact varSlow_trunc s hc hinv n more hn hp hm

theorem readVar32_ok (s : CIS) (hc : 10 ≤ s.cap) (hinv : s.Inv) (n : Nat) (rest : Bytes)
    (hn : n < 2 ^ 32) (hp : s.pending = encVar n ++ rest) :
    ∃ s', s.readVar32 = .ok n s' ∧ s'.pending = rest ∧ s'.Inv ∧ s'.cap = s.cap := by
  have hn64 : n < 2 ^ 64 := Nat.lt_of_lt_of_le hn (by decide)
  unfold readVar32
  by_cases h : s.win.length < 5
  · simp only [h, if_true]; exact varSlow_ok s hc hinv n rest hn64 hp
  · simp only [h, if_false]
    exact varFast_ok s hinv n rest hp (by have := encVar_length_le5 n hn; omega)

theorem readVar32_trunc (s : CIS) (hc : 10 ≤ s.cap) (hinv : s.Inv) (n : Nat) (more : Bytes)
    (hn : n < 2 ^ 32) (hp : s.pending ++ more = encVar n) (hm : more ≠ []) :
    s.readVar32 = .eos := by
  have hn64 : n < 2 ^ 64 := Nat.lt_of_lt_of_le hn (by decide)
  have hl5 := encVar_length_le5 n hn
  have hlen : s.win.length < 5 := by
    have := congrArg List.length hp
    simp [pending] at this
    have : 0 < more.length := List.length_pos_iff.mpr hm
    omega
  unfold readVar32
  simp only [hlen, if_true]
  exact varSlow_trunc s hc hinv n more hn64 hp hm

/-! ### raw bytes -/

theorem bytesLoop_ok : ∀ (fuel : Nat) (s : CIS) (n : Nat) (acc bs rest : Bytes),
    0 < s.cap → s.Inv → s.pending = bs ++ rest → bs.length = n → n < fuel →
    ∃ s', bytesLoop fuel s n acc = .ok (acc ++ bs) s' ∧ s'.pending = rest ∧ s'.Inv ∧ s'.cap = s.cap := by
  intro fuel
  induction fuel with
  | zero => intro s n acc bs rest _ _ _ _ h; omega
  | succ fuel ih =>
    intro s n acc bs rest hc hinv hp hl hf
    unfold bytesLoop
    by_cases hn : n = 0
    · subst hn
      have : bs = [] := List.eq_nil_of_length_eq_zero hl
      subst this
      simp only [if_true, List.append_nil]
      exact ⟨s, rfl, by simpa using hp, hinv, rfl⟩
    · simp only [hn, if_false]
      have hne : s.pending ≠ [] := by
        rw [hp]; intro h
        have hb : bs = [] := (List.append_eq_nil_iff.mp h).1
        rw [hb] at hl; simp at hl; omega
      obtain ⟨s1, he, hp1, hw1, hinv1, hc1⟩ := ensure_some s hc hinv hne
      rw [he]
      simp only
      have hk1 : 0 < min n s1.win.length := by
        have : 0 < s1.win.length := List.length_pos_iff.mpr hw1
        omega
      have hpp : s1.win ++ s1.src = bs ++ rest := by simpa [pending] using hp1.trans hp
      have htake : s1.win.take (min n s1.win.length) = bs.take (min n s1.win.length) := by
        have h1 := congrArg (List.take (min n s1.win.length)) hpp
        rw [List.take_append_of_le_length (by omega), List.take_append_of_le_length (by omega)] at h1
        exact h1
      have hdrop : s1.win.drop (min n s1.win.length) ++ s1.src = bs.drop (min n s1.win.length) ++ rest := by
        have h1 := congrArg (List.drop (min n s1.win.length)) hpp
        rw [List.drop_append_of_le_length (by omega), List.drop_append_of_le_length (by omega)] at h1
        exact h1
      have := ih { s1 with win := s1.win.drop (min n s1.win.length) } (n - min n s1.win.length)
        (acc ++ s1.win.take (min n s1.win.length)) (bs.drop (min n s1.win.length)) rest
        (by simpa [hc1] using hc)
        (by constructor
            · have := hinv1.1; simp [List.length_drop]; omega
            · exact hinv1.2)
        (by simpa [pending] using hdrop)
        (by simp [List.length_drop]; omega) (by omega)
      obtain ⟨s', h1, h2, h3, h4⟩ := this
      refine ⟨s', ?_, h2, h3, by simpa [hc1] using h4⟩
      rw [h1, htake, List.append_assoc, List.take_append_drop]

theorem bytesLoop_trunc : ∀ (fuel : Nat) (s : CIS) (n : Nat) (acc : Bytes),
    0 < s.cap → s.Inv → s.pending.length < n → s.pending.length < fuel →
    bytesLoop fuel s n acc = .eos := by
  intro fuel
  induction fuel with
  | zero => intro s n acc _ _ _ h; omega
  | succ fuel ih =>
    intro s n acc hc hinv hlt hf
    unfold bytesLoop
    have hn : n ≠ 0 := by omega
    simp only [hn, if_false]
    by_cases hpe : s.pending = []
    · rw [ensure_none s hinv hpe]
    · obtain ⟨s1, he, hp1, hw1, hinv1, hc1⟩ := ensure_some s hc hinv hpe
      rw [he]
      simp only
      have hwl : 0 < s1.win.length := List.length_pos_iff.mpr hw1
      have hpl : s1.win.length + s1.src.length = s.pending.length := by
        rw [← hp1]; simp [pending]
      have hk : min n s1.win.length = s1.win.length := by omega
      rw [hk]
      apply ih
      · simpa [hc1] using hc
      · constructor
        · simp
        · exact hinv1.2
      · simp [pending]; omega
      · simp [pending]; omega

theorem readBytes_ok (s : CIS) (hc : 0 < s.cap) (hinv : s.Inv) (bs rest : Bytes)
    (hp : s.pending = bs ++ rest) :
    ∃ s', s.readBytes bs.length = .ok bs s' ∧ s'.pending = rest ∧ s'.Inv ∧ s'.cap = s.cap := by
  have := bytesLoop_ok (bs.length + 1) s bs.length [] bs rest hc hinv hp rfl (by omega)
  simpa [readBytes] using this

theorem readBytes_trunc (s : CIS) (hc : 0 < s.cap) (hinv : s.Inv) (n : Nat) (h : s.pending.length < n) :
    s.readBytes n = .eos :=
  bytesLoop_trunc (n + 1) s n [] hc hinv h (by omega)

/-! ### end of stream check -/

theorem verifyFinished_ok (s : CIS) (hc : 0 < s.cap) (hinv : s.Inv) (hp : s.pending = []) :
    ∃ s', s.verifyFinished = .ok () s' := by
  unfold pending at hp
  have hw : s.win = [] := (List.append_eq_nil_iff.mp hp).1
  have hs : s.src = [] := (List.append_eq_nil_iff.mp hp).2
  unfold verifyFinished fill
  cases h : s.atEof <;> simp [hw, hs, hc]

theorem verifyFinished_leftover (s : CIS) (hc : 0 < s.cap) (hinv : s.Inv) (hp : s.pending ≠ []) :
    s.verifyFinished = .notFinished := by
  unfold verifyFinished fill
  cases h : s.atEof with
  | true =>
    have hs := hinv.2 h
    have hw : s.win ≠ [] := by intro hw; apply hp; simp [pending, hw, hs]
    cases hw' : s.win with
    | nil => exact absurd hw' hw
    | cons _ _ => simp
  | false =>
    cases hw' : s.win with
    | cons _ _ => simp
    | nil =>
      have hs : s.src ≠ [] := by intro hs; apply hp; simp [pending, hw', hs]
      cases hs' : s.src with
      | nil => exact absurd hs' hs
      | cons b r =>
        cases hcap : s.cap with
        | zero => omega
        | succ k => simp

end CIS
end Yardl
