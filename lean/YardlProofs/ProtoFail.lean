import YardlModel.ProtoFail
import YardlProofs.Proto

namespace Yardl.Proto

theorem cppWF_step (p : Shape) (s : WPos) (op : WOpF) (h : s.openS = false) :
    (specWcppF p s op).map (·.k) = cppWF p s.k op := by
  cases op with
  | op o => exact cppW_step p s o h
  | fail i =>
    obtain ⟨k, o⟩ := s
    simp only [specWcppF, cppWF, apply_ite (Option.map (fun (x : WPos) => x.k)), Option.map_some, Option.map_none] at * <;> grind

theorem cppWF_closed (p : Shape) (s : WPos) (op : WOpF) (h : s.openS = false) :
    ∀ s', specWcppF p s op = some s' → s'.openS = false := by
  cases op with
  | op o => exact cppW_closed p s o h
  | fail i =>
    obtain ⟨k, o⟩ := s
    intro s'
    simp only [specWcppF] at * <;> grind

theorem pyWF_step (p : Shape) (s : WPos) (op : WOpF) (h : WInv p s) :
    (specWpyF p s op).map encW = pyWF p (encW s) op := by
  cases op with
  | op o => exact pyW_step p s o h
  | fail i =>
    obtain ⟨k, o⟩ := s
    unfold WInv at h
    cases o <;> simp only [specWpyF, pyWF, encW, apply_ite (Option.map encW), Option.map_some, Option.map_none] at * <;> grind

theorem pyWF_inv (p : Shape) (s : WPos) (op : WOpF) (h : WInv p s) : ∀ s', specWpyF p s op = some s' → WInv p s' := by
  cases op with
  | op o => exact pyW_inv p s o h
  | fail i =>
    obtain ⟨k, o⟩ := s
    unfold WInv at *
    intro s'
    cases o <;> simp only [specWpyF] at * <;> grind

theorem cppWF_run (p : Shape) (ops : List WOpF) : ∀ (s : WPos), s.openS = false →
    (runWSF (specWcppF p) s ops).map (·.k) = runWF (cppWF p) s.k ops := by
  induction ops with
  | nil => intro s _; simp [runWSF, runWF]
  | cons op ops ih =>
    intro s h
    have h1 := cppWF_step p s op h
    simp only [runWSF, runWF]
    cases hs : specWcppF p s op with
    | none => rw [hs] at h1; simp at h1; simp [← h1]
    | some s' =>
      rw [hs] at h1; simp at h1
      simp only [← h1]
      exact ih s' (cppWF_closed p s op h s' hs)

theorem pyWF_run (p : Shape) (ops : List WOpF) : ∀ (s : WPos), WInv p s →
    (runWSF (specWpyF p) s ops).map encW = runWF (pyWF p) (encW s) ops := by
  induction ops with
  | nil => intro s _; simp [runWSF, runWF]
  | cons op ops ih =>
    intro s h
    have h1 := pyWF_step p s op h
    simp only [runWSF, runWF]
    cases hs : specWpyF p s op with
    | none => rw [hs] at h1; simp at h1; simp [← h1]
    | some s' =>
      rw [hs] at h1; simp at h1
      simp only [← h1]
      exact ih s' (pyWF_inv p s op h s' hs)

/-- after a failed write that ended the previous stream implicitly, that stream cannot be written to again, and the retry of the
    failed step is accepted without ending anything a second time (the position is "ready for step i", not "inside stream i-1") -/
theorem failed_write_keeps_the_implicit_end (p : Shape) (s s' : WPos) (i : Nat) (hi : i = s.k + 1) (ho : s.openS = true)
    (h : specWpyF p s (.fail i) = some s') :
    s' = ⟨i, false⟩ ∧ specWpyF p s' (.op (.write s.k)) = none := by
  obtain ⟨k, o⟩ := s
  simp only at hi ho
  subst hi; subst ho
  simp only [specWpyF] at h
  split at h
  · have h' : s' = ⟨k + 1, false⟩ := by
      have : ¬ (k + 1 = k) := by omega
      simp [this] at h; exact h.symm
    subst h'
    refine ⟨rfl, ?_⟩
    simp only [specWpyF, specWpy]
    have h1 : ¬ (k = k + 1) := by omega
    have h2 : ¬ (k = k + 1 + 1) := by omega
    simp [h1, h2]
  · cases h

end Yardl.Proto
