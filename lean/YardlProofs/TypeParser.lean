import YardlModel.TypeParser

/-!
  YardlProofs.TypeParser — the recursive-descent parser of the shorthand grammar reads back every canonical tree
  from its printed token sequence: `parse (pr s) = some s`.
-/

namespace Yardl.TypeParser
open Yardl.Syntax

/-! ### array dimensions -/

/-- what can follow a dimension: `,` or `]` -/
def dimFollow : List Tok → Bool
  | .sym c :: _ => c == ',' || c == ']'
  | _ => false

theorem pDim_prDim (d : Dim) (rest : List Tok) (hd : dimOk d = true) (hr : dimFollow rest = true) :
    pDim (prDim d ++ rest) = some (d, rest) := by
  obtain ⟨n, l⟩ := d
  match rest, hr with
  | .sym c :: r, hr =>
    simp only [dimFollow, Bool.or_eq_true, beq_iff_eq] at hr
    cases n <;> cases l <;> simp only [dimOk, Bool.and_true, Bool.true_and, Bool.and_eq_true] at hd <;>
      rcases hr with rfl | rfl <;>
      simp [pDim, prDim, openParens, pDimCore, closeParens, hd]

theorem dimFollow_rest (ds : List Dim) (rest : List Tok) : dimFollow (prDimsRest ds ++ rest) = true := by
  cases ds <;> simp [prDimsRest, dimFollow]

theorem pDimsRest_pr : ∀ (ds : List Dim) (f : Nat) (rest : List Tok), ds.all dimOk = true → ds.length + 1 ≤ f →
    pDimsRest f (prDimsRest ds ++ rest) = some (ds, rest)
  | [], f + 1, rest, _, _ => by simp [prDimsRest, pDimsRest]
  | d :: r, f + 1, rest, h, hf => by
    simp only [List.all_cons, Bool.and_eq_true] at h
    have h1 := pDim_prDim d (prDimsRest r ++ rest) h.1 (dimFollow_rest r rest)
    have ih := pDimsRest_pr r f rest h.2 (by simp at hf <;> omega)
    simp [prDimsRest, pDimsRest, h1, ih]
  | [], 0, _, _, hf => by simp at hf
  | _ :: _, 0, _, _, hf => by simp at hf

theorem prDimsRest_length (ds : List Dim) : ds.length + 1 ≤ (prDimsRest ds).length := by
  induction ds with
  | nil => simp [prDimsRest]
  | cons d r ih => simp [prDimsRest]; omega

theorem pArray_pr (ds : List Dim) (rest : List Tok) (h : dimsOk ds = true) :
    pArray (prDims ds ++ rest) = some (ds, rest) := by
  simp only [dimsOk, Bool.and_eq_true, Bool.not_eq_true', beq_eq_false_iff_ne, ne_eq] at h
  cases ds with
  | nil => simp [prDims, pArray]
  | cons d r =>
    have hall := h.1
    simp only [List.all_cons, Bool.and_eq_true] at hall
    have h1 := pDim_prDim d (prDimsRest r ++ rest) hall.1 (dimFollow_rest r rest)
    have hlen := prDimsRest_length r
    have h2 := pDimsRest_pr r ((prDimsRest r ++ rest).length + 1) rest hall.2 (by simp; omega)
    -- the first token is not `]`
    have hne : ∀ x, prDim d ++ (prDimsRest r ++ rest) ≠ .sym ']' :: x := by
      intro x
      obtain ⟨n, l⟩ := d
      cases n <;> cases l <;> simp [prDim]
      -- the empty dimension: then `r` is not empty
      cases r with
      | nil => exact absurd rfl h.2
      | cons e r' => simp [prDimsRest]
    have : pArray (prDim d ++ (prDimsRest r ++ rest)) =
        match pDim (prDim d ++ (prDimsRest r ++ rest)) with
        | some (d, ts') => (pDimsRest (ts'.length + 1) ts').map fun r => (d :: r.1, r.2)
        | none => none := by
      generalize hts : prDim d ++ (prDimsRest r ++ rest) = ts at hne
      unfold pArray
      split
      · exact absurd rfl (hne _)
      · rfl
    simp only [prDims, List.append_assoc, this, h1, h2, Option.map_some]

/-! ### types -/

/-- what can follow a type: nothing, `)`, `,`, `>` -/
def okRest : List Tok → Bool
  | [] => true
  | .sym c :: _ => c == ')' || c == ',' || c == '>'
  | _ => false

/-- empty or starting with a punctuation token other than `<` and not an integer -/
def symHead : List Tok → Bool
  | [] => true
  | .sym c :: _ => c != '<'
  | _ => false

theorem symHead_of_okRest (rest : List Tok) (h : okRest rest = true) : symHead rest = true := by
  match rest, h with
  | [], _ => rfl
  | .sym c :: _, h =>
    simp only [okRest, Bool.or_eq_true, beq_iff_eq] at h
    rcases h with (rfl | rfl) | rfl <;> simp [symHead]

theorem symHead_tails (tails : Tails) (rest : List Tok) (h : okRest rest = true) :
    symHead (prTails tails ++ rest) = true := by
  cases tails with
  | nil => simpa [prTails] using symHead_of_okRest rest h
  | cons t r =>
    cases t with
    | optional => simp [prTails, prTail, symHead]
    | mapValue v => simp [prTails, prTail, symHead]
    | vector l => cases l <;> simp [prTails, prTail, symHead]
    | array d => simp [prTails, prTail, symHead]

theorem pTails_stop (f : Nat) (rest : List Tok) (h : okRest rest = true) : pTails (f + 1) rest = some (.nil, rest) := by
  match rest, h with
  | [], _ => simp [pTails]
  | .sym c :: r, h =>
    simp only [okRest, Bool.or_eq_true, beq_iff_eq] at h
    rcases h with (rfl | rfl) | rfl <;> simp [pTails]

theorem pArgsOpt_none (f : Nat) (rest : List Tok) (h : symHead rest = true) : pArgsOpt (f + 1) rest = some (.nil, rest) := by
  match rest, h with
  | [], _ => unfold pArgsOpt; rfl
  | .sym c :: r, h =>
    simp only [symHead, bne_iff_ne, ne_eq] at h
    unfold pArgsOpt
    split
    · rename_i heq; simp at heq
    · rename_i heq1 heq2
      simp only [List.cons.injEq, Tok.sym.injEq] at heq2
      exact absurd heq2.1 h
    · rfl

theorem pTails_star (f : Nat) (rest : List Tok) (h : symHead rest = true) :
    pTails (f + 1) (.sym '*' :: rest) = (pTails f rest).map fun r => (.cons (.vector none) r.1, r.2) := by
  match rest, h with
  | [], _ => simp [pTails]
  | .sym c :: r, _ => simp [pTails]

mutual
  def needS : S → Nat
    | .named _ args tails => 1 + max (needArgs args) (needTails tails)
    | .sub s tails => 1 + max (needS s) (needTails tails)
  def needArgs : SL → Nat
    | .nil => 1
    | .cons s r => 1 + max (needS s) (needRest r)
  def needRest : SL → Nat
    | .nil => 1
    | .cons s r => 1 + max (needS s) (needRest r)
  def needTails : Tails → Nat
    | .nil => 1
    | .cons t r => 1 + max (needTail t) (needTails r)
  def needTail : Tail → Nat
    | .mapValue v => needS v
    | _ => 0
end

mutual
  theorem pType_pr : ∀ (s : S) (f : Nat) (rest : List Tok), canon s = true → okRest rest = true → needS s ≤ f →
      pType f (pr s ++ rest) = some (s, rest)
    | .named n args tails, 0, _, _, _, hf => by simp [needS] at hf <;> omega
    | .sub s tails, 0, _, _, _, hf => by simp [needS] at hf <;> omega
    | .named n args tails, f + 1, rest, hc, hr, hf => by
      simp only [canon, Bool.and_eq_true] at hc
      simp only [needS] at hf
      have h1 := pArgsOpt_pr args f (prTails tails ++ rest) hc.1 (symHead_tails tails rest hr) (by omega)
      have h2 := pTails_pr tails f rest hc.2 hr (by omega)
      simp [pr, pType, h1, h2]
    | .sub s tails, f + 1, rest, hc, hr, hf => by
      simp only [canon, Bool.and_eq_true] at hc
      simp only [needS] at hf
      have h1 := pType_pr s f (.sym ')' :: (prTails tails ++ rest)) hc.1 (by simp [okRest]) (by omega)
      have h2 := pTails_pr tails f rest hc.2 hr (by omega)
      simp [pr, pType, h1, h2]
  theorem pArgsOpt_pr : ∀ (args : SL) (f : Nat) (rest : List Tok), canonL args = true → symHead rest = true → needArgs args ≤ f →
      pArgsOpt f (prArgs args ++ rest) = some (args, rest)
    | .nil, 0, _, _, _, hf => by simp [needArgs] at hf
    | .cons _ _, 0, _, _, _, hf => by simp [needArgs] at hf <;> omega
    | .nil, f + 1, rest, _, hr, _ => by simpa [prArgs] using pArgsOpt_none f rest hr
    | .cons s r, f + 1, rest, hc, _, hf => by
      simp only [canonL, Bool.and_eq_true] at hc
      simp only [needArgs] at hf
      have hok : okRest (prRest r ++ rest) = true := by cases r <;> simp [prRest, okRest]
      have h1 := pType_pr s f (prRest r ++ rest) hc.1 hok (by omega)
      have h2 := pRest_pr r f rest hc.2 (by omega)
      simp [prArgs, pArgsOpt, h1, h2]
  theorem pRest_pr : ∀ (r : SL) (f : Nat) (rest : List Tok), canonL r = true → needRest r ≤ f →
      pArgsRest f (prRest r ++ rest) = some (r, rest)
    | .nil, 0, _, _, hf => by simp [needRest] at hf
    | .cons _ _, 0, _, _, hf => by simp [needRest] at hf <;> omega
    | .nil, f + 1, rest, _, _ => by simp [prRest, pArgsRest]
    | .cons s r, f + 1, rest, hc, hf => by
      simp only [canonL, Bool.and_eq_true] at hc
      simp only [needRest] at hf
      have hok : okRest (prRest r ++ rest) = true := by cases r <;> simp [prRest, okRest]
      have h1 := pType_pr s f (prRest r ++ rest) hc.1 hok (by omega)
      have h2 := pRest_pr r f rest hc.2 (by omega)
      simp [prRest, pArgsRest, h1, h2]
  theorem pTails_pr : ∀ (tails : Tails) (f : Nat) (rest : List Tok), canonT tails = true → okRest rest = true → needTails tails ≤ f →
      pTails f (prTails tails ++ rest) = some (tails, rest)
    | .nil, 0, _, _, _, hf => by simp [needTails] at hf
    | .cons _ _, 0, _, _, _, hf => by simp [needTails] at hf <;> omega
    | .nil, f + 1, rest, _, hr, _ => by simpa [prTails] using pTails_stop f rest hr
    | .cons .optional r, f + 1, rest, hc, hr, hf => by
      simp only [canonT, canonTail, Bool.true_and] at hc
      simp only [needTails] at hf
      have h2 := pTails_pr r f rest hc hr (by omega)
      simp [prTails, prTail, pTails, h2]
    | .cons (.mapValue v) r, f + 1, rest, hc, hr, hf => by
      simp only [canonT, Bool.and_eq_true] at hc
      simp only [needTails, needTail] at hf
      have hnil : r = .nil := by
        cases r with
        | nil => rfl
        | cons _ _ => simp at hc
      subst hnil
      have h1 := pType_pr v f rest hc.1 hr (by omega)
      have hf1 : 1 ≤ f := by
        have : 1 ≤ needS v := by cases v <;> simp [needS] <;> omega
        omega
      obtain ⟨g, rfl⟩ : ∃ g, f = g + 1 := ⟨f - 1, by omega⟩
      have h2 := pTails_stop g rest hr
      simp [prTails, prTail, pTails, h1, h2]
    | .cons (.vector (some n)) r, f + 1, rest, hc, hr, hf => by
      simp only [canonT, canonTail, Bool.and_eq_true] at hc
      simp only [needTails] at hf
      have h2 := pTails_pr r f rest hc.2 hr (by omega)
      simp [prTails, prTail, pTails, hc.1, h2]
    | .cons (.vector none) r, f + 1, rest, hc, hr, hf => by
      simp only [canonT, canonTail, Bool.true_and] at hc
      simp only [needTails] at hf
      have h2 := pTails_pr r f rest hc hr (by omega)
      have := pTails_star f (prTails r ++ rest) (symHead_tails r rest hr)
      simp [prTails, prTail, this, h2]
    | .cons (.array dims) r, f + 1, rest, hc, hr, hf => by
      simp only [canonT, canonTail, Bool.and_eq_true] at hc
      simp only [needTails] at hf
      have h1 := pArray_pr dims (prTails r ++ rest) hc.1
      have h2 := pTails_pr r f rest hc.2 hr (by omega)
      simp [prTails, prTail, pTails, h1, h2]
end

/-! ### the fuel `parse` supplies is enough -/

mutual
  theorem needS_le : ∀ (s : S), needS s ≤ (pr s).length + 1
    | .named n args tails => by
      have h1 := needArgs_le args
      have h2 := needTails_le tails
      simp only [needS, pr, List.length_cons, List.length_append]
      omega
    | .sub s tails => by
      have h1 := needS_le s
      have h2 := needTails_le tails
      simp only [needS, pr, List.length_cons, List.length_append]
      omega
  theorem needArgs_le : ∀ (a : SL), needArgs a ≤ (prArgs a).length + 1
    | .nil => by simp [needArgs]
    | .cons s r => by
      have h1 := needS_le s
      have h2 := needRest_le r
      simp only [needArgs, prArgs, List.length_cons, List.length_append]
      omega
  theorem needRest_le : ∀ (a : SL), needRest a ≤ (prRest a).length
    | .nil => by simp [needRest, prRest]
    | .cons s r => by
      have h1 := needS_le s
      have h2 := needRest_le r
      have h3 : 1 ≤ (prRest r).length := by cases r <;> simp [prRest]
      simp only [needRest, prRest, List.length_cons, List.length_append]
      omega
  theorem needTails_le : ∀ (t : Tails), needTails t ≤ (prTails t).length + 1
    | .nil => by simp [needTails]
    | .cons t r => by
      have h1 := needTail_le t
      have h2 := needTails_le r
      simp only [needTails, prTails, List.length_append]
      omega
  theorem needTail_le : ∀ (t : Tail), needTail t + 1 ≤ (prTail t).length
    | .optional => by simp [needTail, prTail]
    | .mapValue v => by
      have := needS_le v
      simp only [needTail, prTail, List.length_cons]
      omega
    | .vector (some n) => by simp [needTail, prTail]
    | .vector none => by simp [needTail, prTail]
    | .array d => by simp [needTail, prTail]
end

/-- every canonical tree is read back from its printed form -/
theorem parse_pr (s : S) (h : canon s = true) : parse (pr s) = some s := by
  have hn := needS_le s
  have := pType_pr s (2 * (pr s).length + 2) [] h rfl (by omega)
  simp only [List.append_nil] at this
  simp [parse, this]

end Yardl.TypeParser
