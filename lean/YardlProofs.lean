import YardlProofs.WireRoundTrip
import YardlProofs.WireStream
import YardlProofs.WirePrefix
import YardlProofs.StreamsW
import YardlProofs.StreamsR
import YardlProofs.Batch
import YardlProofs.Imports
import YardlProofs.Determinism
