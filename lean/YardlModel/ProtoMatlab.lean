import YardlModel.Proto

/-!
  YardlModel.ProtoMatlab — the generated MATLAB `<P>WriterBase.m` / `<P>ReaderBase.m` as *tables*: every public method is
  `if self.state_ ~= <guard> … raise` followed by the delegating call and, for some, `self.state_ = <next>` (readers of a stream step:
  `has_<s>` moves on only when the delegate answers "no more"). MATLAB cannot be executed in this sandbox: `harness/py/matlabproto.py`
  reads these tables out of the generated text and the driver compares them with the tables below, for which the theorems of
  `YardlProofs/ProtoMatlab.lean` show that the machine a table denotes accepts exactly the sequences of the step-order specification.
-/

namespace Yardl.Proto

inductive MKind
  | write      -- write_<step>(value)
  | endS       -- end_<step>()
  | read       -- value = read_<step>()
  | has        -- more = has_<step>()   (stream steps of a reader)
  | close
  deriving DecidableEq, Repr

/-- one generated method: kind, step ordinal, the state it requires, the state it moves to (`none`: stays) and, for `has`, the state it
    moves to when there are no more items -/
structure MRow where
  kind : MKind
  step : Nat
  guard : Nat
  next : Option Nat
  deriving DecidableEq, Repr

/-- the methods of `<P>WriterBase.m` in file order, for the steps from ordinal `k` on -/
def wRows : Shape → Nat → List MRow
  | [], k => [⟨.close, 0, k, none⟩]
  | s :: rest, k => (if s then [⟨.write, k, k, none⟩, ⟨.endS, k, k, some (k + 1)⟩] else [⟨.write, k, k, some (k + 1)⟩]) ++ wRows rest (k + 1)

def matWriterRows (p : Shape) : List MRow := wRows p 0

def rRows : Shape → Nat → List MRow
  | [], k => [⟨.close, 0, k, none⟩]
  | s :: rest, k => (if s then [⟨.has, k, k, some (k + 1)⟩, ⟨.read, k, k, none⟩] else [⟨.read, k, k, some (k + 1)⟩]) ++ rRows rest (k + 1)

def matReaderRows (p : Shape) : List MRow := rRows p 0

def findRow (rows : List MRow) (k : MKind) (i : Nat) : Option MRow :=
  rows.find? fun r => r.kind == k && (k == .close || r.step == i)

/-- the writer a table denotes -/
def matW (rows : List MRow) (st : Nat) : WOp → Option Nat
  | .write i => match findRow rows .write i with
    | some r => if st = r.guard then some (r.next.getD st) else none
    | none => none
  | .endS i => match findRow rows .endS i with
    | some r => if st = r.guard then some (r.next.getD st) else none
    | none => none
  | .close => match findRow rows .close 0 with
    | some r => if st = r.guard then some st else none
    | none => none

/-- MATLAB reader operations: `got` = `has_<s>` answered true -/
inductive MROp
  | read (i : Nat)
  | has (i : Nat) (more : Bool)
  | close
  deriving DecidableEq, Repr

def matR (rows : List MRow) (st : Nat) : MROp → Option Nat
  | .read i => match findRow rows .read i with
    | some r => if st = r.guard then some (r.next.getD st) else none
    | none => none
  | .has i more => match findRow rows .has i with
    | some r => if st = r.guard then some (if more then st else r.next.getD st) else none
    | none => none
  | .close => match findRow rows .close 0 with
    | some r => if st = r.guard then some st else none
    | none => none

/-- specification of the MATLAB reader: position `k`; a non-stream step is read once; a stream step is polled with `has` (which ends it when it
    answers false) and read item by item while it is the current step -/
def specRmat (p : Shape) (k : Nat) : MROp → Option Nat
  | .read i => if i = k ∧ i < p.length then some (if isStream p i then k else k + 1) else none
  | .has i more => if i = k ∧ i < p.length ∧ isStream p i then some (if more then k else k + 1) else none
  | .close => if k = p.length then some k else none

def runMR (f : Nat → MROp → Option Nat) : Nat → List MROp → Option Nat
  | st, [] => some st
  | st, op :: ops => match f st op with
    | none => none
    | some st' => runMR f st' ops

end Yardl.Proto
