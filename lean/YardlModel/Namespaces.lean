/-!
  YardlModel.Namespaces — from the loaded package tree to the list of namespaces the passes and generators see
  (internal/cmd/validatecommand.go: `parsePackageNamespaces`, `flattenNamespaces`).

  After `collectPackages` succeeded every namespace names one package; `G ns` lists the namespaces that package
  imports, in manifest order.

  * `parseNs`   the memoised depth-first walk: a namespace is parsed once (`alreadyParsed`), and *every* importer
                appends the namespace object of each of its imports to its own `References` — whether the import was
                parsed by this call or had been parsed before through another importer.
  * `flatten`   post-order, each namespace once: imports before importers (the order of `env.Namespaces`).
-/

namespace Yardl.Namespaces

/-- `alreadyParsed`, in order of first registration: namespace ↦ its `References` so far -/
abbrev Parsed := List (Nat × List Nat)

def get : Parsed → Nat → Option (List Nat)
  | [], _ => none
  | e :: t, n => if e.1 = n then some e.2 else get t n

def has (ps : Parsed) (n : Nat) : Bool := (get ps n).isSome

/-- `namespace.References = append(namespace.References, ns)` -/
def addRef : Parsed → Nat → Nat → Parsed
  | [], _, _ => []
  | e :: t, n, r => (if e.1 = n then (e.1, e.2 ++ [r]) else e) :: addRef t n r

/-- `parsePackageNamespaces(p, alreadyParsed)`; `fuel` bounds the nesting (the loader has already bounded it) -/
def parseNs (G : Nat → List Nat) : Nat → Nat → Parsed → Parsed
  | 0, _, ps => ps
  | f + 1, n, ps =>
    if has ps n then ps
    else (G n).foldl (fun acc i => addRef (parseNs G f i acc) n i) (ps ++ [(n, [])])

/-- `flattenNamespaces(ns, duplicate)`: the references first, then the namespace itself, each once -/
def flatten (refs : Nat → List Nat) : Nat → Nat → List Nat → List Nat
  | 0, _, seen => seen
  | f + 1, n, seen =>
    if seen.contains n then seen
    else
      -- `duplicate[ns] = true` is set before the children are walked; the namespace itself is appended after them
      let seen' := (refs n).foldl (fun acc i => flatten refs f i acc) seen
      if seen'.contains n then seen' else seen' ++ [n]

end Yardl.Namespaces
