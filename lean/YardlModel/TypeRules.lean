import YardlModel.Rules
import YardlModel.Wire

/-!
  YardlModel.TypeRules — the rules the validator applies to each *type node* (validation_unions.go:
  validateUnionCases; validation_maps.go: validateMaps; validation.go: validateArrayAndVectorDimensions),
  as one predicate `nodeOk` on surface types whose names are primitives (or aliases of primitives), so that
  no definition has to be resolved. `Rules.validType nodeOk t` is then the verdict on a whole type.

  Union nodes (an optional `T?` is the union `[null, T]`):
  * at least one case, and `null` is not the only one;
  * `null` may only be the first case;
  * with more than one case, no case is itself an optional or a union of several cases;
  * no two cases are the same type (`TypesEqual`: `int` and `int32` are the same);
  * tags (for a real union — more than two cases, or two without `null` — or when explicit tags are given):
    explicit ones are camelCase member names; a case without an explicit tag is tagged by its type's short
    syntax, which has to be a plain name (a vector, array, map or optional case needs an explicit tag);
    tags are distinct.
  Map nodes: the key is a primitive scalar type. Array nodes: dimension names are camelCase and distinct,
  lengths are given for all dimensions or for none.
-/

namespace Yardl.TypeRules
open Yardl.Syntax Yardl.Rules

def isLowerC (c : Char) : Bool := 'a' ≤ c && c ≤ 'z'
def isAlnumC (c : Char) : Bool := isLowerC c || ('A' ≤ c && c ≤ 'Z') || ('0' ≤ c && c ≤ '9')

/-- `memberNameRegex`: `^[a-z][a-zA-Z0-9]{0,63}$` -/
def memberName (s : String) : Bool :=
  match s.toList with
  | [] => false
  | c :: r => isLowerC c && r.all isAlnumC && r.length ≤ 63

/-- canonical name of a primitive type name (`int` → `int32`), `none` for anything else -/
abbrev Canon := String → Option String

def SurC.toList : SurC → List (Option String × Option Sur)
  | .nil => []
  | .null tag r => (tag, none) :: SurC.toList r
  | .cons tag t r => (tag, some t) :: SurC.toList r

/-- `GetUnderlyingType`: a single non-null case, tagged or not, is looked through -/
def under : Nat → Sur → Sur
  | 0, t => t
  | fuel + 1, .union (.cons _ t .nil) => under fuel t
  | _, t => t

/-- a `GeneralizedType` with more than one case of its own and no dimensionality -/
def unionLike : Sur → Bool
  | .opt _ => true
  | .union cs => decide ((SurC.toList cs).length > 1)
  | _ => false

/-- the cases of a scalar generalized type -/
def casesOf (t : Sur) : Option (List (Option Sur)) :=
  match under 8 t with
  | .opt t => some [none, some t]
  | .union cs => some ((SurC.toList cs).map (·.2))
  | _ => none

/-- `size` and `uint64` are the same type for `TypesEqual` -/
def eqv (p : String) : String := if p == "size" then "uint64" else p

mutual
  /-- `TypesEqual` -/
  def eqSur (canon : Canon) : Nat → Sur → Sur → Bool
    | 0, _, _ => false
    | fuel + 1, a, b =>
      match casesOf a, casesOf b with
      | some ca, some cb => eqCases canon fuel ca cb
      | none, none =>
        (match under 8 a, under 8 b with
         | .named n _, .named m _ => (match canon n, canon m with
            | some x, some y => eqv x == eqv y
            | _, _ => n == m)
         | .vector x l, .vector y l' => eqSur canon fuel x y && l == l'
         | .array x d, .array y d' => eqSur canon fuel x y && d == d'
         | .map k v, .map k' v' => eqSur canon fuel k k' && eqSur canon fuel v v'
         | _, _ => false)
      | _, _ => false
  def eqCases (canon : Canon) : Nat → List (Option Sur) → List (Option Sur) → Bool
    | _, [], [] => true
    | fuel, none :: r, none :: r' => eqCases canon fuel r r'
    | fuel, some a :: r, some b :: r' => eqSur canon fuel a b && eqCases canon fuel r r'
    | _, _, _ => false
end

mutual
  def size : Sur → Nat
    | .named _ args => sizeL args + 1
    | .opt t => size t + 1
    | .union cs => sizeC cs + 1
    | .vector t _ => size t + 1
    | .array t _ => size t + 1
    | .map k v => size k + size v + 1
  def sizeL : SurL → Nat
    | .nil => 0
    | .cons t r => size t + sizeL r + 1
  def sizeC : SurC → Nat
    | .nil => 0
    | .null _ r => sizeC r + 1
    | .cons _ t r => size t + sizeC r + 1
end

/-- is some pair of cases the same type? -/
def hasDup (canon : Canon) : List (Option Sur) → Bool
  | [] => false
  | c :: r =>
    r.any (fun d => match c, d with
      | none, none => true
      | some a, some b => eqSur canon (size a + size b + 1) a b
      | _, _ => false) || hasDup canon r

/-- `TypeToShortSyntax` of a case type, when it is a plain name -/
def derivedTag (canon : Canon) : Option Sur → Option String
  | none => some "null"
  | some t => match under 8 t with
    | .named n .nil => some ((canon n).getD n)
    | _ => none

def isUnionCases (l : List (Option String × Option Sur)) : Bool :=
  decide (l.length > 2) || (l.length == 2 && (match l with | (_, none) :: _ => false | _ => true))

def tagOf (canon : Canon) (c : Option String × Option Sur) : Option String :=
  match c.1 with
  | some t => some t
  | none => derivedTag canon c.2

def distinctStr : List String → Bool
  | [] => true
  | x :: r => !r.contains x && distinctStr r

def tagsOk (canon : Canon) (l : List (Option String × Option Sur)) : Bool :=
  let applies := isUnionCases l || (match l with | (some _, _) :: _ => true | _ => false)
  if !applies then true
  else
    l.all (fun c => match c.1 with
      | some t => memberName t
      | none => match derivedTag canon c.2 with
        | some d => memberName d.toLower
        | none => false) &&
    distinctStr (l.filterMap (tagOf canon))

def unionOk (canon : Canon) (l : List (Option String × Option Sur)) : Bool :=
  !l.isEmpty &&
  !(l.length == 1 && (match l with | [(_, none)] => true | _ => false)) &&
  (l.drop 1).all (fun c => c.2.isSome) &&
  (l.length ≤ 1 || l.all (fun c => match c.2 with | some t => !unionLike t | none => true)) &&
  !hasDup canon (l.map (·.2)) &&
  tagsOk canon l

def dimsOk : Option (List Dim) → Bool
  | none => true
  | some ds =>
    ds.all (fun d => match d.name with | some n => memberName n | none => true) &&
    distinctStr (ds.filterMap (·.name)) &&
    (ds.all (fun d => d.length.isSome) || ds.all (fun d => d.length.isNone))

def keyOk (canon : Canon) (k : Sur) : Bool :=
  match under 8 k with
  | .named n .nil => (canon n).isSome
  | _ => false

/-- the rules of one type node -/
def nodeOk (canon : Canon) : Sur → Bool
  | .named n args => (canon n).isSome && (match args with | .nil => true | _ => false)
  | .opt t => unionOk canon [(none, none), (none, some t)]
  | .union cs => unionOk canon (SurC.toList cs)
  | .vector _ _ => true
  | .array _ dims => dimsOk dims
  | .map k _ => keyOk canon k

/-- the verdict on a whole type: every node obeys the rules -/
def typeOk (canon : Canon) (t : Sur) : Bool := validType (nodeOk canon) t

end Yardl.TypeRules

/-! ### enum / flags definitions (validation_enums.go: validateEnums) -/

namespace Yardl.TypeRules
open Yardl

def distinctInt : List Int → Bool
  | [] => true
  | x :: r => !r.contains x && distinctInt r

/-- symbols are camelCase member names and distinct, values are distinct and fit the base type, the base type is an
    integer type (`none`: the default `int32`). Symbols are assumed to stay distinct in UPPER_SNAKE_CASE (true of
    all-lowercase symbols; the case conversion is not modelled). -/
def enumOk (base : Option Prim) (values : List (String × Int)) : Bool :=
  values.all (fun v => memberName v.1) &&
  distinctStr (values.map (·.1)) &&
  distinctInt (values.map (·.2)) &&
  (match (base.getD .int32) with
   | .int8 | .int16 | .int32 | .int64 | .uint8 | .uint16 | .uint32 | .uint64 | .size =>
     (match (base.getD .int32).range with
      | some (lo, hi) => values.all fun v => lo ≤ v.2 && v.2 ≤ hi
      | none => false)
   | _ => false)

end Yardl.TypeRules
