import YardlModel.Wire
import YardlModel.Json

/-!
  YardlModel.Evolution — the structural core of schema-evolution change detection
  (tooling/pkg/dsl/evolution.go: compareTypes, compareSimpleTypes/compareOtherSimpleTypes on resolved
  definitions, compareGeneralizedToSimpleTypes, compareSimpleToGeneralizedTypes, compareGeneralizedTypes,
  detectPrimitiveTypeChange, detectOptionalChanges, detectUnionChanges, detectVector/Array/MapChanges,
  compareRecordDefinitions, compareEnumDefinitions) and of its classification into
  error / warning / silent (evolution_changes.go: typeChangeIsError, typeChangeWarningReason;
  evolution.go: validateTypeDefinitionChanges, validateProtocolChanges).

  Types are *resolved* (aliases unfolded, generics substituted) but records and enums stay nominal:
  definitions are paired across versions by name. What is **not** modelled: the pairing of
  definitions through aliases and generic instantiations (resolveAllChanges, SemanticPairs) — that
  part is exercised by the edit-class differential of checks/c06.py only.
-/

namespace Yardl.Evo
open Yardl

mutual
  inductive ETy
    | prim (p : Prim)
    | enum (name : Nat) (isFlags : Bool) (base : Prim) (syms : List (Nat × Int))
    | record (name : Nat) (fs : EFields)
    | optional (t : ETy)
    /-- cases in order; a `null` case is `none` -/
    | union (cases : ECases)
    | vector (t : ETy) (len : Option Nat)
    | array (t : ETy) (k : ArrKind)
    | map (k v : ETy)
    /-- a type parameter of the enclosing generic definition (by position) -/
    | tparam (i : Nat)
    /-- a generic record applied to type arguments: `args` by parameter position, `body` the fields of the
        (open) generic definition, in which the parameters occur as `tparam` -/
    | inst (name : Nat) (args : EFields) (body : EFields)
  inductive EFields
    | nil
    | cons (name : Nat) (t : ETy) (rest : EFields)
  inductive ECases
    | nil
    | null (rest : ECases)
    | cons (t : ETy) (rest : ECases)
end

instance : Inhabited ETy := ⟨.prim .bool⟩

def EFields.toList : EFields → List (Nat × ETy)
  | .nil => []
  | .cons n t r => (n, t) :: r.toList

def ECases.toList : ECases → List (Option ETy)
  | .nil => []
  | .null r => none :: r.toList
  | .cons t r => some t :: r.toList

/-- what `compareTypes` returns, abstracted to what its callers distinguish -/
inductive Cls
  /-- `nil` -/
  | same
  /-- `TypeChangeDefinitionChanged`: same definition, which itself changed compatibly -/
  | defChanged
  /-- a change with no warning text (wrapped definition change, reordered union) -/
  | silent
  /-- a partially compatible change: accepted with a warning -/
  | warn
  /-- `TypeChangeIncompatible` (possibly nested): rejected -/
  | error
  deriving DecidableEq, Repr, Inhabited

inductive Sev
  | ok | warn | err
  deriving DecidableEq, Repr, Inhabited

def Sev.max : Sev → Sev → Sev
  | .err, _ | _, .err => .err
  | .warn, _ | _, .warn => .warn
  | _, _ => .ok

def Cls.matches : Cls → Bool
  | .same | .defChanged => true
  | _ => false

/-- the message a step / field / alias emits for a change of this class -/
def Cls.sev : Cls → Sev
  | .error => .err
  | .warn => .warn
  | _ => .ok

/-- `TypeChange{Stream,Vector,Optional}TypeChanged{inner}` -/
def Cls.wrap : Cls → Cls
  | .same => .same
  | .defChanged => .silent
  | c => c

inductive PKind
  | bool | integer | float | complex | string | date | time | datetime
  deriving DecidableEq, Repr

def pkind : Prim → PKind
  | .bool => .bool
  | .int8 | .int16 | .int32 | .int64 | .uint8 | .uint16 | .uint32 | .uint64 | .size => .integer
  | .float32 | .float64 => .float
  | .complexfloat32 | .complexfloat64 => .complex
  | .string => .string
  | .date => .date | .time => .time | .datetime => .datetime

def PKind.isNumber : PKind → Bool
  | .integer | .float => true
  | _ => false

/-- detectPrimitiveTypeChange -/
def primChange (new old : Prim) : Cls :=
  if new = old then .same
  else if old = .string && (pkind new).isNumber then .warn
  else if (pkind old).isNumber && (new = .string || (pkind new).isNumber) then .warn
  else if pkind old = .complex && pkind new = .complex then .warn
  else .error

def lookupSym (syms : List (Nat × Int)) (s : Nat) : Option Int :=
  match syms.find? (fun e => e.1 == s) with
  | some (_, v) => some v
  | none => none

def enumBreaks (newBase : Prim) (newSyms : List (Nat × Int)) (oldBase : Prim) (oldSyms : List (Nat × Int)) : Bool :=
  let removed := oldSyms.any fun e => (lookupSym newSyms e.1).isNone
  let changed := oldSyms.any fun e => match lookupSym newSyms e.1 with
    | some v => v != e.2
    | none => false
  newBase != oldBase || removed || changed

/-- compareEnumDefinitions, as seen by a type that refers to the enum -/
def enumChange (newFlags : Bool) (newBase : Prim) (newSyms : List (Nat × Int))
    (oldFlags : Bool) (oldBase : Prim) (oldSyms : List (Nat × Int)) : Cls :=
  if newFlags != oldFlags then .error
  else if enumBreaks newBase newSyms oldBase oldSyms || newSyms.any (fun e => (lookupSym oldSyms e.1).isNone) then .defChanged
  else .same

/-- the messages of the EnumChange / DefinitionChangeIncompatible branches of validateTypeDefinitionChanges -/
def enumSev (newFlags : Bool) (newBase : Prim) (newSyms : List (Nat × Int))
    (oldFlags : Bool) (oldBase : Prim) (oldSyms : List (Nat × Int)) : Sev :=
  if newFlags != oldFlags || enumBreaks newBase newSyms oldBase oldSyms then .err else .ok

def isNullable : ETy → Bool
  | .optional _ => true
  | .union cs => cs.toList.any Option.isNone
  | _ => false

def isScalarGen : ETy → Bool
  | .optional _ | .union _ => true
  | _ => false

def isDim : ETy → Bool
  | .vector _ _ | .array _ _ | .map _ _ => true
  | _ => false

/-- the cases of a scalar generalized type, `null` first for optionals -/
def casesOf : ETy → List (Option ETy)
  | .optional t => [none, some t]
  | .union cs => cs.toList
  | t => [some t]

section
variable (f : ETy → ETy → Cls)

/-- compare two `TypeCase`s (null against null is no change, null against a type is incompatible) -/
def cmpCase : Option ETy → Option ETy → Cls
  | none, none => .same
  | some a, some b => f a b
  | _, _ => .error

/-- first old case (from index `j`) not yet matched that matches `c`; returns its index and class -/
def findMatch (c : Option ETy) : List (Option ETy) → List Bool → Nat → Option (Nat × Cls)
  | [], _, _ => none
  | _ :: _, [], _ => none
  | o :: os, m :: ms, j =>
    if m then findMatch c os ms (j + 1)
    else
      let r := cmpCase f c o
      if r.matches then some (j, r) else findMatch c os ms (j + 1)

def setTrue : List Bool → Nat → List Bool
  | [], _ => []
  | _ :: r, 0 => true :: r
  | b :: r, n + 1 => b :: setTrue r n

structure UState where
  oldMatches : List Bool
  newMatches : List Bool   -- reversed
  reordered : Bool
  defsChanged : Bool

/-- the greedy first-fit matching of detectUnionChanges -/
def unionLoop (olds : List (Option ETy)) : List (Option ETy) → Nat → UState → UState
  | [], _, st => st
  | c :: cs, i, st =>
    match findMatch f c olds st.oldMatches 0 with
    | some (j, r) =>
      unionLoop olds cs (i + 1)
        { oldMatches := setTrue st.oldMatches j, newMatches := true :: st.newMatches,
          reordered := st.reordered || i != j, defsChanged := st.defsChanged || r == .defChanged }
    | none => unionLoop olds cs (i + 1) { st with newMatches := false :: st.newMatches }

def unionChange (news olds : List (Option ETy)) : Cls :=
  let st := unionLoop f olds news 0 ⟨olds.map fun _ => false, [], false, false⟩
  let anyMatch := st.newMatches.any id
  let allMatch := st.newMatches.all id && st.oldMatches.all id
  if !anyMatch then .error
  else if !allMatch then .warn
  else if st.reordered || st.defsChanged then .silent
  else .same

/-- is there a case of `cs` that `g` accepts (nil or definition changed)? -/
def anyCase (g : ETy → Cls) : List (Option ETy) → Bool
  | [] => false
  | none :: r => anyCase g r
  | some t :: r => (g t).matches || anyCase g r

def lookupField (fs : List (Nat × ETy)) (n : Nat) : Option ETy :=
  match fs.find? (fun e => e.1 == n) with
  | some (_, t) => some t
  | none => none

def indexOfField (fs : List (Nat × ETy)) (n : Nat) : Nat := fs.findIdx (fun e => e.1 == n)

/-- compareRecordDefinitions: did anything change (field added, removed, moved, or of changed type)? -/
def recordOldChanged (newFs : List (Nat × ETy)) : List (Nat × ETy) → Nat → Bool
  | [], _ => false
  | (n, t) :: r, i =>
    (match lookupField newFs n with
     | none => true
     | some t' => indexOfField newFs n != i || f t' t != .same) || recordOldChanged newFs r (i + 1)

def recordChange (newFs oldFs : List (Nat × ETy)) : Cls :=
  if newFs.any (fun e => (lookupField oldFs e.1).isNone) || recordOldChanged f newFs oldFs 0 then .defChanged else .same

/-- compareSemanticallyEquivalentTypes on type arguments: each pair must be unchanged or a changed definition;
    `some true` when at least one argument's definition changed, `none` when the arguments are not compatible -/
def argsChange : List (Nat × ETy) → List (Nat × ETy) → Option Bool
  | [], [] => some false
  | a :: r, a' :: r' =>
    let c := f a.2 a'.2
    if c.matches then (argsChange r r').map (fun b => b || c == .defChanged) else none
  | _, _ => none

end

def arrKindSame : ArrKind → ArrKind → Bool
  | .dynamic, .dynamic => true
  | .rank a, .rank b => a == b
  | .fixed a, .fixed b => a == b
  | _, _ => false

/-- compareTypes on resolved types, `fuel` bounding the nesting depth -/
def cmp : Nat → ETy → ETy → Cls
  | 0, _, _ => .error
  | fuel + 1, new, old =>
    let f := cmp fuel
    match new, old with
    -- simple against simple
    | .prim a, .prim b => primChange a b
    | .enum n fl b s, .enum n' fl' b' s' => if n = n' then enumChange fl b s fl' b' s' else .error
    | .record n fs, .record n' fs' => if n = n' then recordChange f fs.toList fs'.toList else .error
    -- generic type parameters are compared by name, instantiated generics by definition and argument-wise
    | .tparam i, .tparam j => if i = j then .same else .error
    | .inst n as b, .inst n' as' b' =>
      if n = n' then
        match argsChange f as.toList as'.toList with
        | none => .error
        | some argChanged => if recordChange f b.toList b'.toList != .same || argChanged then .defChanged else .same
      else .error
    -- dimensioned against dimensioned
    | .vector t len, .vector t' len' =>
      let inner := f t t'
      if inner = .error then .error
      else if len != len' then .error
      else inner.wrap
    | .array t k, .array t' k' =>
      if f t t' != .same then .error
      else if !arrKindSame k k' then .error
      else .same
    | .map k v, .map k' v' =>
      if f v v' != .same then .error
      else if f k k' != .same then .error
      else .same
    -- scalar generalized against scalar generalized
    | .optional t, .optional t' => (f t t').wrap
    | .optional t, .union cs' =>
      -- UnionToOptional: only a union with a null option
      if cs'.toList.any Option.isNone && anyCase (fun c => f t c) (cs'.toList.drop 1) then .warn else .error
    | .union cs, .optional t' =>
      if cs.toList.any Option.isNone && anyCase (fun c => f c t') (cs.toList.drop 1) then .warn else .error
    | .union cs, .union cs' => unionChange f cs.toList cs'.toList
    -- simple against scalar generalized and back
    | new, .optional t' =>
      if isDim new then .error
      else if (f new t').matches then .warn else .error
    | new, .union cs' =>
      if isDim new then .error
      else if anyCase (fun c => f new c) cs'.toList then .warn else .error
    | .optional t, old =>
      if isDim old then .error
      else if (f t old).matches then .warn else .error
    | .union cs, old =>
      if isDim old then .error
      else if anyCase (fun c => f c old) cs.toList then .warn else .error
    | _, _ => .error

mutual
  def depth : ETy → Nat
    | .prim _ => 1
    | .enum _ _ _ _ => 1
    | .record _ fs => depthF fs + 1
    | .optional t => depth t + 1
    | .union cs => depthC cs + 1
    | .vector t _ => depth t + 1
    | .array t _ => depth t + 1
    | .map k v => max (depth k) (depth v) + 1
    | .tparam _ => 1
    | .inst _ a b => max (depthF a) (depthF b) + 1
  def depthF : EFields → Nat
    | .nil => 0
    | .cons _ t r => max (depth t) (depthF r)
  def depthC : ECases → Nat
    | .nil => 0
    | .null r => depthC r
    | .cons t r => max (depth t) (depthC r)
end

/-- the definitions of a version, by name (`record` / `enum` nodes) -/
abbrev Env := List (Nat × ETy)

def Env.find (env : Env) (n : Nat) : Option ETy :=
  match List.find? (fun e => e.1 == n) env with
  | some (_, t) => some t
  | none => none

section
variable (f : ETy → ETy → Cls)

/-- messages of the RecordChange branch of validateTypeDefinitionChanges -/
def recordSev (newFs oldFs : List (Nat × ETy)) : Sev :=
  let addSev : Sev := if newFs.any (fun e => (lookupField oldFs e.1).isNone && !isNullable e.2) then .warn else .ok
  oldFs.foldl (fun acc e =>
    acc.max (match lookupField newFs e.1 with
      | none => if isNullable e.2 then .ok else .warn
      | some t' => (f t' e.2).sev)) addSev
end

/-- severity of the messages emitted for every old definition reachable from `old` (the definitions
    validateChanges looks at once a step that uses them has changed), against the same-named
    definitions of the new version -/
def defsSev (newEnv : Env) : Nat → ETy → Sev
  | 0, _ => .ok
  | fuel + 1, old =>
    match old with
    | .prim _ => .ok
    | .enum n fl b s =>
      (match newEnv.find n with
       | some (.enum _ fl' b' s') => enumSev fl' b' s' fl b s
       | _ => .ok)
    | .record n fs =>
      let own := match newEnv.find n with
        | some (.record _ fs') => recordSev (cmp (depth (.record n fs') + depth (.record n fs))) fs'.toList fs.toList
        | _ => .ok
      fs.toList.foldl (fun acc e => acc.max (defsSev newEnv fuel e.2)) own
    | .optional t => defsSev newEnv fuel t
    | .union cs => cs.toList.foldl (fun acc c => match c with
        | some t => acc.max (defsSev newEnv fuel t)
        | none => acc) .ok
    | .vector t _ => defsSev newEnv fuel t
    | .array t _ => defsSev newEnv fuel t
    | .map k v => (defsSev newEnv fuel k).max (defsSev newEnv fuel v)
    | .tparam _ => .ok
    | .inst n as b =>
      -- the (open) generic definition is compared once with its same-named counterpart; the arguments are walked as well
      let own := match newEnv.find n with
        | some (.inst _ as' b') => recordSev (cmp (depth (.inst n as' b') + depth (.inst n as b))) b'.toList b.toList
        | _ => .ok
      let s1 := as.toList.foldl (fun acc e => acc.max (defsSev newEnv fuel e.2)) own
      b.toList.foldl (fun acc e => acc.max (defsSev newEnv fuel e.2)) s1

/-- verdict for a protocol step whose type changed from `old` to `new` -/
def stepVerdict (newEnv : Env) (new old : ETy) : Sev :=
  let c := cmp (depth new + depth old) new old
  if c = .same then .ok else c.sev.max (defsSev newEnv (depth old + 1) old)

structure EStep where
  name : Nat
  ty : ETy
  stream : Bool

/-- the `TypeChangeStepAdded` branch of validateProtocolChanges: the added step's type can be "empty" -/
def canBeEmpty (s : EStep) : Bool :=
  s.stream || isNullable s.ty || match s.ty with
    | .vector _ _ | .map _ _ => true
    | _ => false

def findStep (steps : List EStep) (n : Nat) : Option (Nat × EStep) :=
  match steps.findIdx? (fun s => s.name == n) with
  | some i => (steps[i]?).map fun s => (i, s)
  | none => none

/-- verdict of one matched step (stream steps compare their item types; StreamTypeChanged wraps) -/
def matchedStepVerdict (newEnv : Env) (new old : EStep) : Sev :=
  if new.stream != old.stream then .err
  else if new.stream then
    let c := cmp (depth new.ty + depth old.ty) new.ty old.ty
    if c = .same then .ok else c.wrap.sev.max (defsSev newEnv (depth old.ty + 1) old.ty)
  else stepVerdict newEnv new.ty old.ty

/-- compareProtocolDefinitions + validateProtocolChanges -/
def protoLoop (newEnv : Env) (old : List EStep) : List EStep → Nat → Sev → Sev
  | [], _, acc => acc
  | s :: r, expected, acc =>
    match findStep old s.name with
    | none => protoLoop newEnv old r expected (acc.max (if canBeEmpty s then .ok else .err))
    | some (i, o) =>
      protoLoop newEnv old r (expected + 1) ((acc.max (if i != expected then .err else .ok)).max (matchedStepVerdict newEnv s o))

def protoVerdict (newEnv : Env) (new old : List EStep) : Sev :=
  let removed := old.any fun o => (findStep new o.name).isNone
  protoLoop newEnv old new 0 (if removed then .err else .ok)

end Yardl.Evo

/-! ### value conversion between versions (C05)

  `conv reading src dst v`: the value of type `dst` that the generated C++ produces from the value `v`
  of type `src` — `reading = true`: `src` is the previous version's type and `dst` the latest one
  (reader of the latest version given an old stream); `reading = false`: `src` is the latest version's
  type and `dst` the previous one (writer of the latest version asked for `Version::<label>`).
  Mirrors writeTypeConversion / writeCompatibilitySerializers (cpp/binary/binary.go).
  Primitive conversions that involve floating point (and numbers <-> strings other than canonical
  decimal integers) are not modelled: `conv` answers `unsupported` there. -/

namespace Yardl.Evo
open Yardl

inductive CRes
  | ok (v : Val)
  /-- the generated code throws std::runtime_error -/
  | err (msg : String)
  | unsupported (why : String)
  deriving Inhabited

def zeroPrim : Prim → Val
  | .bool => .bool false
  | .float32 => .f32 0 | .float64 => .f64 0
  | .complexfloat32 => .c32 0 0 | .complexfloat64 => .c64 0 0
  | .string => .str []
  | _ => .int 0

/-- `T x = {}` in C++ -/
def zero : Nat → ETy → Val
  | 0, _ => .none
  | fuel + 1, t =>
    match t with
    | .prim p => zeroPrim p
    | .enum _ _ _ _ => .int 0
    | .record _ fs => .record (fs.toList.map fun e => zero fuel e.2)
    | .optional _ => .none
    | .union cs =>
      (match cs.toList with
       | none :: _ => .none
       | some t :: _ => .case 0 (zero fuel t)
       | [] => .none)
    | .vector t len =>
      (match len with
       | some n => .list (List.replicate n (zero fuel t))
       | none => .list [])
    | .array t k =>
      (match k with
       | .fixed dims => .arr dims (List.replicate (dims.foldl (· * ·) 1) (zero fuel t))
       | .rank n => .arr (List.replicate n 0) []
       | .dynamic => .arr [] [zero fuel t])   -- a default xt::xarray is 0-dimensional and holds one element
    | .map _ _ => .map []
    -- generic instances are substituted before values are looked at (the harness inlines them)
    | .tparam _ => .none
    | .inst _ _ _ => .none

def digitsOk (bs : List UInt8) : Bool := !bs.isEmpty && bs.all fun b => 48 ≤ b.toNat && b.toNat ≤ 57

def parseDec (bs : List UInt8) : Option Int :=
  match bs with
  | 45 :: r => if digitsOk r then some (-(Int.ofNat (r.foldl (fun a b => a * 10 + (b.toNat - 48)) 0))) else none
  | r => if digitsOk r then some (Int.ofNat (r.foldl (fun a b => a * 10 + (b.toNat - 48)) 0)) else none

def showDec (i : Int) : List UInt8 := (toString i).toUTF8.toList

/-- primitive conversions that are modelled: integer <-> integer with the generated overflow checks,
    integer <-> string through canonical decimal text, identical primitives -/
def convPrim (src dst : Prim) (v : Val) : CRes :=
  if src = dst then .ok v
  else match pkind src, pkind dst, v with
    | .integer, .integer, .int i =>
      (match dst.range with
       | some (lo, hi) => if lo ≤ i && i ≤ hi then .ok (.int i) else .err "Numeric overflow"
       | none => .unsupported "range")
    | .integer, .string, .int i => .ok (.str (showDec i))
    | .string, .integer, .str bs =>
      (match parseDec bs, dst.range with
       | some i, some (lo, hi) => if lo ≤ i && i ≤ hi then .ok (.int i) else .unsupported "out-of-range text (std::sto* narrowing)"
       | none, _ => if bs.all (fun b => b.toNat > 57 && b.toNat < 127) then .err "Unable to convert string" else .unsupported "non-canonical text"
       | _, none => .unsupported "range")
    -- float32 -> float64 is exact; float64 -> float32 is guarded by the generated range check (infinities fail it) and rounds to nearest
    | .float, .float, .f32 b =>
      if src = .float32 && dst = .float64 then
        (if (b >>> 23) % 256 = 255 && b % 2 ^ 23 ≠ 0 then .unsupported "NaN payload" else .ok (.f64 (Json.widen b)))
      else .unsupported "floating point conversion"
    | .float, .float, .f64 b =>
      if src = .float64 && dst = .float32 then
        let mag := b % 2 ^ 63
        if (b >>> 52) % 2048 = 2047 && b % 2 ^ 52 ≠ 0 then .unsupported "NaN"
        else if mag > 0x47EFFFFFE0000000 then .err "Numeric overflow"
        else .ok (.f32 (Json.narrow b))
      else .unsupported "floating point conversion"
    | _, _, _ => .unsupported "floating point / complex conversion"

def hasNullL (cs : List (Option ETy)) : Bool := cs.any Option.isNone

/-- index in the full case list of the non-null case number `i` (as `Val.case` counts them) -/
def toFull (cs : List (Option ETy)) (i : Nat) : Nat := if hasNullL cs then i + 1 else i
def ofFull (cs : List (Option ETy)) (j : Nat) : Nat := if hasNullL cs then j - 1 else j

section
variable (f : ETy → ETy → Cls)

/-- the pairs (index in new, index in old) the greedy matching of detectUnionChanges finds -/
def unionPairsLoop (olds : List (Option ETy)) : List (Option ETy) → Nat → List Bool → List (Nat × Nat) → List (Nat × Nat)
  | [], _, _, acc => acc.reverse
  | c :: cs, i, om, acc =>
    match findMatch f c olds om 0 with
    | some (j, _) => unionPairsLoop olds cs (i + 1) (setTrue om j) ((i, j) :: acc)
    | none => unionPairsLoop olds cs (i + 1) om acc

def unionPairs (news olds : List (Option ETy)) : List (Nat × Nat) :=
  unionPairsLoop f olds news 0 (olds.map fun _ => false) []

/-- index of the first non-null case accepted by `g` -/
def firstCase (g : ETy → Cls) : List (Option ETy) → Nat → Option Nat
  | [], _ => none
  | none :: r, i => firstCase g r (i + 1)
  | some t :: r, i => if (g t).matches then some i else firstCase g r (i + 1)
end

def mapM' (g : Val → CRes) : List Val → List Val → CRes
  | [], acc => .ok (.list acc.reverse)
  | v :: r, acc =>
    match g v with
    | .ok x => mapM' g r (x :: acc)
    | e => e

def CRes.map (f : Val → Val) : CRes → CRes
  | .ok v => .ok (f v)
  | e => e

/-- record conversion: every destination field takes the converted value of the source field of the same
    name, or the zero value when there is none -/
def convFields (c : ETy → ETy → Val → CRes) (svals : List ((Nat × ETy) × Val)) : List (Nat × ETy) → List Val → CRes
  | [], acc => .ok (.record acc.reverse)
  | (n, dt) :: r, acc =>
    match svals.find? (fun e => e.1.1 == n) with
    | some ((_, st), sv) =>
      (match c st dt sv with
       | .ok x => convFields c svals r (x :: acc)
       | e => e)
    | none => convFields c svals r (zero (depth dt + 1) dt :: acc)

def conv (reading : Bool) : Nat → ETy → ETy → Val → CRes
  | 0, _, _, _ => .unsupported "fuel"
  | fuel + 1, src, dst, v =>
    let c := conv reading fuel
    -- cmp is always asked as (latest, previous)
    let k (a b : ETy) : Cls := if reading then cmp (depth a + depth b) b a else cmp (depth a + depth b) a b
    match src, dst, v with
    | .prim a, .prim b, v => convPrim a b v
    | .enum _ _ _ _, .enum _ _ _ _, v => .ok v
    | .record _ sfs, .record _ dfs, .record vs =>
      convFields c (sfs.toList.zip vs) dfs.toList []
    | .vector st _, .vector dt _, .list vs => mapM' (c st dt) vs []
    | .array _ _, .array _ _, v => .ok v
    | .map _ _, .map _ _, v => .ok v
    | .optional st, .optional dt, v =>
      (match v with
       | .some x => (c st dt x).map .some
       | _ => .ok .none)
    -- optional <-> union
    | .optional st, .union dcs, v =>
      (match v with
       | .some x =>
         (match firstCase (fun t => k st t) (dcs.toList.drop 1) 1 with
          | some j => (c st ((dcs.toList.getD j none).getD st) x).map (.case (ofFull dcs.toList j))
          | none => .unsupported "no matching union case")
       | _ => .ok .none)
    | .union scs, .optional dt, v =>
      (match v with
       | .case i x =>
         (match firstCase (fun t => k t dt) (scs.toList.drop 1) 1 with
          | some j => if toFull scs.toList i = j then (c ((scs.toList.getD j none).getD dt) dt x).map .some else .ok .none
          | none => .unsupported "no matching union case")
       | _ => .ok .none)
    | .union scs, .union dcs, v =>
      let pairs := if reading then unionPairs (fun a b => cmp (depth a + depth b) a b) dcs.toList scs.toList
                   else (unionPairs (fun a b => cmp (depth a + depth b) a b) scs.toList dcs.toList).map fun p => (p.2, p.1)
      -- pairs : (index in dst, index in src)
      (match v with
       | .case i x =>
         (match pairs.find? (fun p => p.2 == toFull scs.toList i) with
          | some (j, si) =>
            (match scs.toList.getD si none, dcs.toList.getD j none with
             | some st, some dt => (c st dt x).map (.case (ofFull dcs.toList j))
             | _, _ => .unsupported "null paired with a type")
          | none => .err "Source type incompatible with target union type")
       | _ =>
         if hasNullL dcs.toList then .ok .none else .err "Source type incompatible with target union type")
    -- scalar <-> optional / union
    | .optional st, dt, v =>
      (match v with
       | .some x => c st dt x
       | _ => .ok (zero (depth dt + 1) dt))
    | st, .optional dt, v => (c st dt v).map .some
    | .union scs, dt, v =>
      (match v with
       | .case i x =>
         (match firstCase (fun t => k t dt) scs.toList 0 with
          | some j => if toFull scs.toList i = j then c ((scs.toList.getD j none).getD dt) dt x else .ok (zero (depth dt + 1) dt)
          | none => .unsupported "no matching union case")
       | _ => .ok (zero (depth dt + 1) dt))
    | st, .union dcs, v =>
      (match firstCase (fun t => k st t) dcs.toList 0 with
       | some j => (c st ((dcs.toList.getD j none).getD st) v).map (.case (ofFull dcs.toList j))
       | none => .unsupported "no matching union case")
    | _, _, _ => .unsupported "shape"

end Yardl.Evo

/-! ### well-formedness and typing predicates (hypotheses of the reflexivity theorems of C05 / C06)

  `wfT`: field names of every record are distinct, symbol names of every enum are distinct, every union
  has at least one case — what the validator enforces before evolution is looked at.
  `fitsT t v`: the value has the shape of the type (what a generated writer accepts). -/

namespace Yardl.Evo
open Yardl

def namesDistinct {α : Type} : List (Nat × α) → Bool
  | [] => true
  | e :: r => !(r.any fun x => x.1 == e.1) && namesDistinct r

mutual
  def wfT : ETy → Bool
    | .prim _ => true
    | .enum _ _ _ syms => namesDistinct syms
    | .record _ fs => namesDistinct fs.toList && wfF fs
    | .optional t => wfT t
    | .union cs => !cs.toList.isEmpty && wfC cs
    | .vector t _ => wfT t
    | .array t _ => wfT t
    | .map k v => wfT k && wfT v
    | .tparam _ => true
    | .inst _ a b => namesDistinct b.toList && wfF b && wfF a
  def wfF : EFields → Bool
    | .nil => true
    | .cons _ t r => wfT t && wfF r
  def wfC : ECases → Bool
    | .nil => true
    | .null r => wfC r
    | .cons t r => wfT t && wfC r
end

def stepNamesDistinct : List EStep → Bool
  | [] => true
  | s :: r => !(r.any fun x => x.name == s.name) && stepNamesDistinct r

-- the value has the shape of the type (what a generated writer accepts)
mutual
  def fitsT : ETy → Val → Bool
    | .prim _, _ => true
    | .enum _ _ _ _, _ => true
    | .record _ fs, .record vs => fitsF fs vs
    | .optional _, .none => true
    | .optional t, .some x => fitsT t x
    | .union cs, .none => hasNullL cs.toList
    | .union cs, .case i x => fitsC cs (toFull cs.toList i) x
    | .vector t _, .list vs => vs.all (fitsT t)
    | .array _ _, _ => true
    | .map _ _, _ => true
    | _, _ => false
  def fitsF : EFields → List Val → Bool
    | .nil, [] => true
    | .cons _ t r, v :: vs => fitsT t v && fitsF r vs
    | _, _ => false
  def fitsC : ECases → Nat → Val → Bool
    | .cons t _, 0, x => fitsT t x
    | .cons _ r, j + 1, x => fitsC r j x
    | .null r, j + 1, x => fitsC r j x
    | _, _, _ => false
end

/-- a protocol is well formed: distinct step names, well-formed step types -/
def wfSteps (steps : List EStep) : Bool := stepNamesDistinct steps && steps.all fun s => wfT s.ty

end Yardl.Evo
