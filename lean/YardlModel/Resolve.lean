/-!
  YardlModel.Resolve — which namespaces a package can refer to (pkg/dsl/validation_type_resolution.go: `symbolsVisibleFrom`,
  `resolveTypeByName`; pkg/dsl/types.go: `Namespace.GetAllChildReferences`).

  The symbol table holds the definitions of *all* loaded packages under their qualified names. A namespace resolves names against
  the part of it that belongs to itself and to the namespaces it imports, directly or through its imports
  (`GetAllChildReferences`: the same set the generators emit imports / includes for).
-/

namespace Yardl.Resolve

/-- `GetAllChildReferences`: post-order over `References`, each namespace once (`checked` = already in the result) -/
def allRefs (refs : Nat → List Nat) : Nat → Nat → List Nat → List Nat
  | 0, _, acc => acc
  | f + 1, n, acc => (refs n).foldl (fun a r => if a.contains r then a else allRefs refs f r a ++ [r]) acc

/-- the namespaces whose symbols `n` sees -/
def visible (refs : Nat → List Nat) (fuel n : Nat) : List Nat := n :: allRefs refs fuel n []

/-- a type name as written: `T` or `M.T` -/
inductive Name
  | unq (t : Nat)
  | qual (m t : Nat)
  deriving DecidableEq, Repr

/-- `resolveTypeByName` against the visible part of the symbol table: first the name as written (a qualified name is a key of the
    table), then the name qualified with the current namespace; `defs` = (namespace, name) of every definition of every loaded package -/
def resolve (defs : List (Nat × Nat)) (vis : List Nat) (cur : Nat) : Name → Option (Nat × Nat)
  | .qual m t => if vis.contains m && defs.contains (m, t) then some (m, t) else none
  | .unq t => if vis.contains cur && defs.contains (cur, t) then some (cur, t) else none

/-- `m` is imported by `n`, directly or through imports -/
inductive Reach (refs : Nat → List Nat) : Nat → Nat → Prop
  | direct {n m : Nat} : m ∈ refs n → Reach refs n m
  | step {n r m : Nat} : r ∈ refs n → Reach refs r m → Reach refs n m

end Yardl.Resolve
