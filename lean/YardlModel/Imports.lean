/-!
  YardlModel.Imports — package import resolution (pkg/packaging/packageinfo.go `collectPackages`).

  Directories and namespaces are natural numbers (strings only exist at the driver boundary, so
  that witnesses can be closed by `decide`). `World` maps a directory to the manifest found there.
  The recursion is structural on `depthRemaining`, exactly the counter the Go code decrements.
-/

namespace Yardl.Imports

structure Pkg where
  ns : Nat
  imports : List Nat      -- directories, in manifest order
  deriving DecidableEq, Repr

abbrev World := Nat → Option Pkg

inductive LoadErr | missing | cycle | conflict | depth
  deriving DecidableEq, Repr

/-- `alreadyCollected`: namespace ↦ directory. -/
abbrev Coll := List (Nat × Nat)

def lookupNs (c : Coll) (ns : Nat) : Option Nat :=
  match c with
  | [] => none
  | (n, d) :: r => if n = ns then some d else lookupNs r ns

/-- Sequentially resolve a list of import directories, threading `alreadyCollected`. -/
def foldE (f : Nat → Coll → Except LoadErr Coll) : List Nat → Coll → Except LoadErr Coll
  | [], c => .ok c
  | i :: is, c =>
    match f i c with
    | .error e => .error e
    | .ok c' => foldE f is c'

/-- `collectPackages(dir, alreadyCollected, importChain, depthRemaining)`; `chain` lists the
    namespaces with `importChain[ns] == true`. -/
def collect (w : World) : Nat → List Nat → Nat → Coll → Except LoadErr Coll
  | d, chain, dir, coll =>
    match w dir with
    | none => .error .missing
    | some p =>
      if p.ns ∈ chain then .error .cycle
      else
        match lookupNs coll p.ns with
        | some dir' => if dir' = dir then .ok coll else .error .conflict
        | none =>
          match d with
          | 0 => .error .depth
          | d' + 1 => foldE (collect w d' (p.ns :: chain)) p.imports ((p.ns, dir) :: coll)

/-- The tool's fixed nesting limit (`MaxImportRecursionDepth`); the generated constant is checked
    against it by `Props/C18.lean`. -/
def load (w : World) (limit : Nat) (root : Nat) : Except LoadErr Coll := collect w limit [] root []

end Yardl.Imports
