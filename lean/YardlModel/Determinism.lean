/-!
  YardlModel.Determinism — why output does not depend on Go's randomised map iteration order.

  * `Diag`, `less`: the diagnostic sinks (`internal/validation/errorsink.go`, `warningsink.go`)
    sort by (file, line, column, message) before rendering. File names and messages are
    order-isomorphic codes (`Nat`); strings only exist at the boundary.
  * Map iteration is an adversarial permutation of the entries; the three disciplines by which
    yardl's loops over maps stay deterministic are modelled as list functions.
-/

namespace Yardl.Det

structure Diag where
  file : Nat
  line : Option Nat
  col : Option Nat
  msg : Nat
  deriving DecidableEq, Repr

/-- The `less(i, j)` function handed to `sort.Slice` (`pointerValueOrDefault(…, 0)` for line/column). -/
def less (a b : Diag) : Bool :=
  if a.file ≠ b.file then a.file < b.file
  else if a.line.getD 0 ≠ b.line.getD 0 then a.line.getD 0 < b.line.getD 0
  else if a.col.getD 0 ≠ b.col.getD 0 then a.col.getD 0 < b.col.getD 0
  else a.msg < b.msg

/-- What `sort.Slice` guarantees about its result (whatever algorithm, stable or not). -/
def Sorted (l : List Diag) : Prop := l.Pairwise (fun a b => less b a = false)

/-- Line/column numbers come from the YAML parser and are ≥ 1 when present. -/
def Wf (d : Diag) : Prop := d.line ≠ some 0 ∧ d.col ≠ some 0

end Yardl.Det

/-! ### regeneration: every back end writes through `iocommon.WriteFileIfNeeded` -/

namespace Yardl.Det

/-- an output tree: path code ↦ content -/
abbrev Fs := List (Nat × List UInt8)

def Fs.get (fs : Fs) (p : Nat) : Option (List UInt8) :=
  match fs.find? (fun e => e.1 == p) with
  | some e => some e.2
  | none => none

def Fs.set (fs : Fs) (p : Nat) (c : List UInt8) : Fs :=
  (p, c) :: fs.filter (fun e => e.1 != p)

/-- `WriteFileIfNeeded`: the file is (re)written — and its modification time changes — exactly when it does not
    exist or holds other bytes; `touched` collects the paths written -/
def writeIfNeeded (st : Fs × List Nat) (f : Nat × List UInt8) : Fs × List Nat :=
  if st.1.get f.1 = some f.2 then st else (st.1.set f.1 f.2, f.1 :: st.2)

/-- one `yardl generate`: the generators emit `files` (path, content) in order -/
def generate (files : List (Nat × List UInt8)) (fs : Fs) : Fs × List Nat :=
  files.foldl writeIfNeeded (fs, [])

def pathsDistinct : List (Nat × List UInt8) → Bool
  | [] => true
  | f :: r => !(r.any fun g => g.1 == f.1) && pathsDistinct r

end Yardl.Det
