/-!
  YardlModel.Determinism — why output does not depend on Go's randomised map iteration order.

  * `Diag`, `less`: the diagnostic sinks (`internal/validation/errorsink.go`, `warningsink.go`)
    sort by (file, line, column, message) before rendering. File names and messages are
    order-isomorphic codes (`Nat`); strings only exist at the boundary.
  * Map iteration is an adversarial permutation of the entries; the three disciplines by which
    yardl's loops over maps stay deterministic are modelled as list functions.
-/

namespace Yardl.Det

structure Diag where
  file : Nat
  line : Option Nat
  col : Option Nat
  msg : Nat
  deriving DecidableEq, Repr

/-- The `less(i, j)` function handed to `sort.Slice` (`pointerValueOrDefault(…, 0)` for line/column). -/
def less (a b : Diag) : Bool :=
  if a.file ≠ b.file then a.file < b.file
  else if a.line.getD 0 ≠ b.line.getD 0 then a.line.getD 0 < b.line.getD 0
  else if a.col.getD 0 ≠ b.col.getD 0 then a.col.getD 0 < b.col.getD 0
  else a.msg < b.msg

/-- What `sort.Slice` guarantees about its result (whatever algorithm, stable or not). -/
def Sorted (l : List Diag) : Prop := l.Pairwise (fun a b => less b a = false)

/-- Line/column numbers come from the YAML parser and are ≥ 1 when present. -/
def Wf (d : Diag) : Prop := d.line ≠ some 0 ∧ d.col ≠ some 0

end Yardl.Det
