import Lean.Data.Json
import YardlModel.Wire

/-! JSON (de)serialisation of `Ty`, `Val`, protocols for the line-protocol drivers.
    Driver glue only: nothing here is used in a theorem. -/

namespace Yardl
open Lean

def hexDigit (n : Nat) : Char :=
  if n < 10 then Char.ofNat (48 + n) else Char.ofNat (87 + n)

def toHex (bs : Bytes) : String :=
  String.ofList (bs.foldr (fun b acc => hexDigit (b.toNat / 16) :: hexDigit (b.toNat % 16) :: acc) [])

def hexVal (c : Char) : Option Nat :=
  if '0' ≤ c ∧ c ≤ '9' then some (c.toNat - 48)
  else if 'a' ≤ c ∧ c ≤ 'f' then some (c.toNat - 87)
  else if 'A' ≤ c ∧ c ≤ 'F' then some (c.toNat - 55)
  else none

def ofHexAux : List Char → List UInt8 → Option Bytes
  | [], acc => some acc.reverse
  | [_], _ => none
  | a :: b :: r, acc => do
    let x ← hexVal a
    let y ← hexVal b
    ofHexAux r (UInt8.ofNat (x * 16 + y) :: acc)

def ofHex (s : String) : Option Bytes := ofHexAux s.toList []

def primOfString : String → Option Prim
  | "bool" => some .bool | "int8" => some .int8 | "int16" => some .int16 | "int32" => some .int32
  | "int64" => some .int64 | "uint8" => some .uint8 | "uint16" => some .uint16 | "uint32" => some .uint32
  | "uint64" => some .uint64 | "size" => some .size | "float32" => some .float32 | "float64" => some .float64
  | "complexfloat32" => some .complexfloat32 | "complexfloat64" => some .complexfloat64
  | "string" => some .string | "date" => some .date | "time" => some .time | "datetime" => some .datetime
  | _ => none

def Prim.name : Prim → String
  | .bool => "bool" | .int8 => "int8" | .int16 => "int16" | .int32 => "int32" | .int64 => "int64"
  | .uint8 => "uint8" | .uint16 => "uint16" | .uint32 => "uint32" | .uint64 => "uint64" | .size => "size"
  | .float32 => "float32" | .float64 => "float64" | .complexfloat32 => "complexfloat32"
  | .complexfloat64 => "complexfloat64" | .string => "string" | .date => "date" | .time => "time"
  | .datetime => "datetime"

def jErr {α} (msg : String) : Except String α := .error msg

def jNat (j : Json) : Except String Nat := do
  let i ← j.getInt?
  if i < 0 then jErr s!"expected nat, got {i}" else pure i.toNat

def fieldsOfList : List (String × Ty) → Fields
  | [] => .nil
  | (n, t) :: r => .cons n t (fieldsOfList r)

def Fields.toList : Fields → List (String × Ty)
  | .nil => []
  | .cons n t r => (n, t) :: r.toList

/-- Ty JSON: ["prim",p] | ["enum",base,isFlags,[[sym,val]…]] | ["rec",[[name,ty]…]] | ["opt",t]
    | ["union",hasNull,[[tag,ty]…]] | ["vec",t,len|null] | ["arr",t,["dyn"]|["rank",n]|["fixed",[d…]]]
    | ["map",k,v] -/
partial def tyOfJson (j : Json) : Except String Ty := do
  let a ← j.getArr?
  let tag ← (a[0]?.getD Json.null).getStr?
  let arg (i : Nat) : Json := a[i]?.getD Json.null
  match tag with
  | "prim" =>
    let s ← (arg 1).getStr?
    match primOfString s with
    | some p => pure (.prim p)
    | none => jErr s!"unknown prim {s}"
  | "enum" =>
    let s ← (arg 1).getStr?
    let some b := primOfString s | jErr s!"unknown prim {s}"
    let fl ← (arg 2).getBool?
    let syms ← (arg 3).getArr?
    let syms ← syms.toList.mapM fun e => do
      let p ← e.getArr?
      let n ← (p[0]?.getD Json.null).getStr?
      let v ← (p[1]?.getD Json.null).getInt?
      pure (n, v)
    pure (.enum b fl syms)
  | "rec" =>
    let fs ← (arg 1).getArr?
    let fs ← fs.toList.mapM fun e => do
      let p ← e.getArr?
      let n ← (p[0]?.getD Json.null).getStr?
      let t ← tyOfJson (p[1]?.getD Json.null)
      pure (n, t)
    pure (.record (fieldsOfList fs))
  | "opt" => do pure (.optional (← tyOfJson (arg 1)))
  | "union" =>
    let hn ← (arg 1).getBool?
    let fs ← (arg 2).getArr?
    let fs ← fs.toList.mapM fun e => do
      let p ← e.getArr?
      let n ← (p[0]?.getD Json.null).getStr?
      let t ← tyOfJson (p[1]?.getD Json.null)
      pure (n, t)
    pure (.union hn (fieldsOfList fs))
  | "vec" =>
    let t ← tyOfJson (arg 1)
    if (arg 2).isNull then pure (.vector t none) else pure (.vector t (some (← jNat (arg 2))))
  | "arr" =>
    let t ← tyOfJson (arg 1)
    let k ← (arg 2).getArr?
    let kt ← (k[0]?.getD Json.null).getStr?
    match kt with
    | "dyn" => pure (.array t .dynamic)
    | "rank" => pure (.array t (.rank (← jNat (k[1]?.getD Json.null))))
    | "fixed" =>
      let ds ← (k[1]?.getD Json.null).getArr?
      pure (.array t (.fixed (← ds.toList.mapM jNat)))
    | _ => jErr s!"bad array kind {kt}"
  | "map" => do pure (.map (← tyOfJson (arg 1)) (← tyOfJson (arg 2)))
  | _ => jErr s!"bad type tag {tag}"

partial def valOfJson (j : Json) : Except String Val := do
  let a ← j.getArr?
  let tag ← (a[0]?.getD Json.null).getStr?
  let arg (i : Nat) : Json := a[i]?.getD Json.null
  match tag with
  | "b" => pure (.bool (← (arg 1).getBool?))
  | "i" => pure (.int (← (arg 1).getInt?))
  | "f32" => pure (.f32 (← jNat (arg 1)))
  | "f64" => pure (.f64 (← jNat (arg 1)))
  | "c32" => pure (.c32 (← jNat (arg 1)) (← jNat (arg 2)))
  | "c64" => pure (.c64 (← jNat (arg 1)) (← jNat (arg 2)))
  | "s" =>
    let h ← (arg 1).getStr?
    match ofHex h with
    | some bs => pure (.str bs)
    | none => jErr "bad hex"
  | "none" => pure .none
  | "some" => pure (.some (← valOfJson (arg 1)))
  | "case" => pure (.case (← jNat (arg 1)) (← valOfJson (arg 2)))
  | "list" =>
    let vs ← (arg 1).getArr?
    pure (.list (← vs.toList.mapM valOfJson))
  | "arr" =>
    let ds ← (arg 1).getArr?
    let vs ← (arg 2).getArr?
    pure (.arr (← ds.toList.mapM jNat) (← vs.toList.mapM valOfJson))
  | "map" =>
    let kvs ← (arg 1).getArr?
    let kvs ← kvs.toList.mapM fun e => do
      let p ← e.getArr?
      pure ((← valOfJson (p[0]?.getD Json.null)), (← valOfJson (p[1]?.getD Json.null)))
    pure (.map kvs)
  | "rec" =>
    let vs ← (arg 1).getArr?
    pure (.record (← vs.toList.mapM valOfJson))
  | _ => jErr s!"bad value tag {tag}"

def jn (n : Nat) : Json := Json.num (JsonNumber.fromNat n)
def ji (i : Int) : Json := Json.num (JsonNumber.fromInt i)

partial def valToJson : Val → Json
  | .bool b => Json.arr #["b", Json.bool b]
  | .int i => Json.arr #["i", ji i]
  | .f32 b => Json.arr #["f32", jn b]
  | .f64 b => Json.arr #["f64", jn b]
  | .c32 r i => Json.arr #["c32", jn r, jn i]
  | .c64 r i => Json.arr #["c64", jn r, jn i]
  | .str bs => Json.arr #["s", Json.str (toHex bs)]
  | .none => Json.arr #["none"]
  | .some v => Json.arr #["some", valToJson v]
  | .case i v => Json.arr #["case", jn i, valToJson v]
  | .list vs => Json.arr #["list", Json.arr (vs.map valToJson).toArray]
  | .arr sh vs => Json.arr #["arr", Json.arr (sh.map jn).toArray, Json.arr (vs.map valToJson).toArray]
  | .map kvs => Json.arr #["map", Json.arr (kvs.map fun (k, v) => Json.arr #[valToJson k, valToJson v]).toArray]
  | .record vs => Json.arr #["rec", Json.arr (vs.map valToJson).toArray]

def stepOfJson (j : Json) : Except String Step := do
  let n ← (← j.getObjVal? "name").getStr?
  let t ← tyOfJson (← j.getObjVal? "ty")
  let s ← (← j.getObjVal? "stream").getBool?
  pure { name := n, ty := t, isStream := s }

def protoOfJson (j : Json) : Except String Proto := do
  let a ← j.getArr?
  a.toList.mapM stepOfJson

def stepValOfJson (j : Json) : Except String StepVal := do
  let a ← j.getArr?
  let tag ← (a[0]?.getD Json.null).getStr?
  match tag with
  | "single" => pure (.single (← valOfJson (a[1]?.getD Json.null)))
  | "stream" =>
    let vs ← (a[1]?.getD Json.null).getArr?
    pure (.stream (← vs.toList.mapM valOfJson))
  | _ => jErr s!"bad stepval tag {tag}"

def stepValToJson : StepVal → Json
  | .single v => Json.arr #["single", valToJson v]
  | .stream vs => Json.arr #["stream", Json.arr (vs.map valToJson).toArray]

end Yardl
