/-!
  YardlModel.Proto — the step-order state machines of generated readers and writers.

  `Shape` = which steps are streams. Each implementation machine keeps a *number*
  (`state_` / `_state`), exactly as the generated code does
  (cpp/protocols/protocols.go, python/protocols/protocols.go); each specification machine keeps
  a descriptive position. `none` = the call raises.

  Operations carry the data-dependent outcome of the underlying read as a parameter
  (`got` = the item-read returned a value, `more` = the batch read says more items remain), so the
  theorems hold for every stream content.
-/

namespace Yardl.Proto

abbrev Shape := List Bool

def isStream (p : Shape) (i : Nat) : Bool := p.getD i false

/-! ### Writers -/

inductive WOp
  | write (i : Nat)      -- C++: Write<Step>(value) / Write<Step>(vector) ; Python: write_<step>(value | iterable)
  | endS (i : Nat)       -- C++: End<Step>()  (no Python counterpart)
  | close
  deriving DecidableEq, Repr

/-- Specification position of a writer: next step `k`; `openS` = the stream step `k` has been
    written to (only used by the Python discipline, where streams are ended implicitly). -/
structure WPos where
  k : Nat
  openS : Bool
  deriving DecidableEq, Repr

/-- C++ discipline: every stream step is ended explicitly. -/
def specWcpp (p : Shape) (s : WPos) : WOp → Option WPos
  | .write i => if i = s.k ∧ i < p.length then some (if isStream p i then s else ⟨s.k + 1, false⟩) else none
  | .endS i => if i = s.k ∧ i < p.length ∧ isStream p i then some ⟨s.k + 1, false⟩ else none
  | .close => if s.k = p.length then some s else none

/-- Generated C++ `WriterBase`: `state_ == i` guards. -/
def cppW (p : Shape) (st : Nat) : WOp → Option Nat
  | .write i => if st = i ∧ i < p.length then some (if isStream p i then st else i + 1) else none
  | .endS i => if st = i ∧ i < p.length ∧ isStream p i then some (i + 1) else none
  | .close => if st = p.length then some st else none

/-- Python discipline: a stream step that has been written to is ended by the next step's write or
    by `close()`. -/
def specWpy (p : Shape) (s : WPos) : WOp → Option WPos
  | .write i =>
    if i < p.length then
      if i = s.k then some (if isStream p i then ⟨s.k, true⟩ else ⟨s.k + 1, false⟩)
      else if i = s.k + 1 ∧ s.openS then some (if isStream p i then ⟨i, true⟩ else ⟨i + 1, false⟩)
      else none
    else none
  | .endS _ => none
  | .close =>
    if s.k = p.length then some s
    else if s.k + 1 = p.length ∧ s.openS then some ⟨p.length, false⟩
    else none

/-- Generated Python `WriterBase`: `_state = 2*i` ready, `2*i+1` inside stream `i`. -/
def pyW (p : Shape) (st : Nat) : WOp → Option Nat
  | .write i =>
    if i < p.length then
      if isStream p i then
        -- `if self._state == 2i-1: end_stream; state = 2i  elif self._state & ~1 != 2i: raise`
        (if (i > 0 ∧ st = 2 * i - 1) ∨ st = 2 * i ∨ st = 2 * i + 1 then some (2 * i + 1) else none)
      else
        (if (i > 0 ∧ st = 2 * i - 1) ∨ st = 2 * i then some (2 * i + 2) else none)
    else none
  | .endS _ => none
  | .close =>
    -- `if self._state == 2n-1: end_stream; return` (generated only when the last step is a stream)
    if p.length > 0 ∧ isStream p (p.length - 1) ∧ st = 2 * p.length - 1 then some (2 * p.length)
    else if st = 2 * p.length then some st else none

/-- In the Python encoding an odd state `2i-1` only arises when step `i-1` is a stream. -/
def pyWInv (p : Shape) (st : Nat) : Prop := st % 2 = 1 → isStream p (st / 2) = true

def encW (s : WPos) : Nat := 2 * s.k + (if s.openS then 1 else 0)

/-! ### Readers -/

inductive ROp
  | read (i : Nat) (got : Bool)       -- C++ Read<Step>(value&): `got` = a value was produced
  | batch (i : Nat) (more : Bool)     -- C++ Read<Step>(vector&): `more` = Impl says more items remain
  | close
  deriving DecidableEq, Repr

/-- Specification position of a C++ reader: current step `k`; `drained` = a batch read emptied
    stream `k` but the end has not been reported to the caller yet. -/
structure RPos where
  k : Nat
  drained : Bool
  deriving DecidableEq, Repr

def specRcpp (p : Shape) (s : RPos) : ROp → Option RPos
  | .read i got =>
    if i < p.length then
      if i = s.k then
        if s.drained then some ⟨s.k + 1, false⟩                       -- reports the end (returns false)
        else if isStream p i then some (if got then s else ⟨s.k + 1, false⟩)
        else some ⟨s.k + 1, false⟩
      else if i = s.k + 1 ∧ s.drained then                             -- previous stream already drained
        (if isStream p i then some (if got then ⟨i, false⟩ else ⟨i + 1, false⟩) else some ⟨i + 1, false⟩)
      else none
    else none
  | .batch i more =>
    if i < p.length ∧ isStream p i then
      if i = s.k then
        if s.drained then some ⟨s.k + 1, false⟩
        else some ⟨s.k, !more⟩
      else if i = s.k + 1 ∧ s.drained then some ⟨i, !more⟩
      else none
    else none
  | .close =>
    if s.k = p.length ∧ s.drained = false then some s
    else if s.k + 1 = p.length ∧ s.drained then some ⟨p.length, false⟩
    else none

/-- Generated C++ `ReaderBase`: `state_ = 2*i` ready for step `i`, `2*i+1` = stream `i` drained
    by a batch read, completion not yet observed. -/
def cppR (p : Shape) (st : Nat) : ROp → Option Nat
  | .read i got =>
    if i < p.length then
      if st = 2 * i then
        (if isStream p i then some (if got then st else 2 * i + 2) else some (2 * i + 2))
      else if isStream p i ∧ st = 2 * i + 1 then some (2 * i + 2)
      else if i > 0 ∧ isStream p (i - 1) ∧ st = 2 * i - 1 then
        (if isStream p i then some (if got then 2 * i else 2 * i + 2) else some (2 * i + 2))
      else none
    else none
  | .batch i more =>
    if i < p.length ∧ isStream p i then
      if st = 2 * i then some (if more then st else 2 * i + 1)
      else if st = 2 * i + 1 then some (2 * i + 2)
      else if i > 0 ∧ isStream p (i - 1) ∧ st = 2 * i - 1 then some (if more then 2 * i else 2 * i + 1)
      else none
    else none
  | .close =>
    if st = 2 * p.length then some st
    else if p.length > 0 ∧ isStream p (p.length - 1) ∧ st = 2 * p.length - 1 then some (2 * p.length)
    else none

def encR (s : RPos) : Nat := 2 * s.k + (if s.drained then 1 else 0)

/-- Reachable reader positions: `drained` only on a stream step. -/
def RInv (p : Shape) (s : RPos) : Prop := s.drained = true → isStream p s.k = true ∧ s.k < p.length

/-! ### Python reader -/

inductive PROp
  | read (i : Nat)       -- read_<step>(): returns the value, or a lazy iterable for a stream step
  | exhaust (i : Nat)    -- the iterable returned by read_<step>() has been consumed to its end
  | abandon (i : Nat)    -- the iterable returned by read_<step>() has been dropped before its end (generator.close())
  | close
  deriving DecidableEq, Repr

/-- position: step `k`; `inS` = the iterable of stream step `k` has been handed out and not yet exhausted;
    `dead` = that iterable was abandoned: nothing can be taken from it any more -/
structure PRPos where
  k : Nat
  inS : Bool
  dead : Bool
  deriving DecidableEq, Repr

def specRpy (p : Shape) (s : PRPos) : PROp → Option PRPos
  | .read i =>
    if i < p.length ∧ i = s.k ∧ s.inS = false then some (if isStream p i then ⟨s.k, true, false⟩ else ⟨s.k + 1, false, false⟩) else none
  | .exhaust i => if i = s.k ∧ s.inS ∧ s.dead = false then some ⟨s.k + 1, false, false⟩ else none
  -- an abandoned stream is still the current step: the reader does not move on, and the stream cannot be read again
  | .abandon i => if i = s.k ∧ s.inS ∧ s.dead = false then some ⟨s.k, true, true⟩ else none
  | .close => if s.k = p.length ∧ s.inS = false then some s else none

/-- Generated Python `ReaderBase`: `_state = 2i` ready, `2i+1` iterable of stream `i` outstanding;
    `_wrap_iterable` sets `2i+2` when the iterable is exhausted (the statement after its `yield from`), and only then:
    closing the generator early raises GeneratorExit at the `yield from` and the assignment is not reached.
    The second component is the generator object's own state (closed or not), not a variable of the reader. -/
def pyR (p : Shape) (st : Nat × Bool) : PROp → Option (Nat × Bool)
  | .read i => if i < p.length ∧ st.1 = 2 * i then some (if isStream p i then (2 * i + 1, false) else (2 * i + 2, false)) else none
  | .exhaust i => if st.1 = 2 * i + 1 ∧ st.2 = false then some (2 * i + 2, false) else none
  | .abandon i => if st.1 = 2 * i + 1 ∧ st.2 = false then some (st.1, true) else none
  | .close => if st.1 = 2 * p.length then some st else none

def encPR (s : PRPos) : Nat × Bool := (2 * s.k + (if s.inS then 1 else 0), s.dead)

def runPR (f : Nat × Bool → PROp → Option (Nat × Bool)) : Nat × Bool → List PROp → Option (Nat × Bool)
  | st, [] => some st
  | st, op :: ops => match f st op with
    | none => none
    | some st' => runPR f st' ops

def runPRS (f : PRPos → PROp → Option PRPos) : PRPos → List PROp → Option PRPos
  | s, [] => some s
  | s, op :: ops => match f s op with
    | none => none
    | some s' => runPRS f s' ops

def runW (f : Nat → WOp → Option Nat) : Nat → List WOp → Option Nat
  | st, [] => some st
  | st, op :: ops => match f st op with
    | none => none
    | some st' => runW f st' ops

def runWS (f : WPos → WOp → Option WPos) : WPos → List WOp → Option WPos
  | s, [] => some s
  | s, op :: ops => match f s op with
    | none => none
    | some s' => runWS f s' ops

def runR (f : Nat → ROp → Option Nat) : Nat → List ROp → Option Nat
  | st, [] => some st
  | st, op :: ops => match f st op with
    | none => none
    | some st' => runR f st' ops

def runRS (f : RPos → ROp → Option RPos) : RPos → List ROp → Option RPos
  | s, [] => some s
  | s, op :: ops => match f s op with
    | none => none
    | some s' => runRS f s' ops

end Yardl.Proto
