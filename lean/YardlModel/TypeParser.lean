import YardlModel.Syntax

/-!
  YardlModel.TypeParser — the shorthand type grammar: text → tokens → `Syntax.S`
  (tooling/pkg/dsl/parser/typeparser.go, a participle grammar over Go's text/scanner):

      Type      := (TypeName | '(' Type ')') TypeTail*
      TypeName  := Ident ('.' Ident)* ('<' Type (',' Type)* '>')?
      TypeTail  := '?' | '-' '>' Type | '*' Int? | '[' Array
      Array     := ']' | Dim (',' Dim)* ']'
      Dim       := '('* ( Ident (':' Int)? | Int | ε ) ')'*          (ArrayDimension.Parse, balanced)

  * `lex`     the scanner, restricted to the alphabet the grammar can accept: identifiers, decimal integers
              without leading zeros, the punctuation of the grammar, white space; dotted names are merged into
              one identifier token (the grammar concatenates them into `TypeName.Name`). Anything else
              (quotes, comments, floats, hex, …) is answered `unmodelled` and is not compared.
  * `pType`   recursive descent over tokens, on fuel (`parse` supplies more than it can use).
  * `pr`      the canonical printer of an `S`.
  `YardlProofs/TypeParser.lean` proves `parse (pr s) = some s` for every canonical `s`, and that whatever
  `parse` returns is canonical.
-/

namespace Yardl.TypeParser
open Yardl.Syntax

inductive Tok
  | ident (s : String)
  | int (n : Nat)
  | sym (c : Char)
  deriving DecidableEq, Repr, Inhabited

/-! ### parser -/

/-- `strconv.ParseUint(_, 10, 64)` succeeds -/
def fitsU64 (n : Nat) : Bool := n < 18446744073709551616

/-- a single identifier. The scanner model joins `Ident ('.' Ident)*` into one token, which is what a type name is; a
    dimension name is one identifier: after it `ArrayDimension.Parse` finds the `.`, which nothing that may follow a
    dimension starts with -/
def plainName (n : String) : Bool := !(n.toList.contains '.')

def pDimCore : List Tok → Option (Dim × List Tok)
  | .ident n :: .sym ':' :: .int l :: ts => if plainName n && fitsU64 l then some (⟨some n, some l⟩, ts) else none
  | .ident _ :: .sym ':' :: _ => none
  | .ident n :: ts => if plainName n then some (⟨some n, none⟩, ts) else none
  | .int l :: ts => if fitsU64 l then some (⟨none, some l⟩, ts) else none
  | ts => some (⟨none, none⟩, ts)

def openParens : List Tok → Nat × List Tok
  | .sym '(' :: ts => let r := openParens ts; (r.1 + 1, r.2)
  | ts => (0, ts)

def closeParens : Nat → List Tok → Option (List Tok)
  | 0, ts => some ts
  | k + 1, .sym ')' :: ts => closeParens k ts
  | _ + 1, _ => none

/-- ArrayDimension.Parse -/
def pDim (ts : List Tok) : Option (Dim × List Tok) :=
  let r := openParens ts
  match pDimCore r.2 with
  | some (d, ts') => (closeParens r.1 ts').map fun ts'' => (d, ts'')
  | none => none

/-- `(',' Dim)* ']'` -/
def pDimsRest : Nat → List Tok → Option (List Dim × List Tok)
  | 0, _ => none
  | _ + 1, .sym ']' :: ts => some ([], ts)
  | f + 1, .sym ',' :: ts =>
    match pDim ts with
    | some (d, ts') => (pDimsRest f ts').map fun r => (d :: r.1, r.2)
    | none => none
  | _ + 1, _ => none

/-- what follows `[` -/
def pArray (ts : List Tok) : Option (List Dim × List Tok) :=
  match ts with
  | .sym ']' :: r => some ([], r)
  | _ =>
    match pDim ts with
    | some (d, ts') => (pDimsRest (ts'.length + 1) ts').map fun r => (d :: r.1, r.2)
    | none => none

mutual
  def pType : Nat → List Tok → Option (S × List Tok)
    | 0, _ => none
    | f + 1, .ident n :: ts =>
      match pArgsOpt f ts with
      | some (args, ts') =>
        match pTails f ts' with
        | some (tails, ts'') => some (.named n args tails, ts'')
        | none => none
      | none => none
    | f + 1, .sym '(' :: ts =>
      match pType f ts with
      | some (s, .sym ')' :: ts') =>
        match pTails f ts' with
        | some (tails, ts'') => some (.sub s tails, ts'')
        | none => none
      | _ => none
    | _ + 1, _ => none
  /-- `('<' Type (',' Type)* '>')?` -/
  def pArgsOpt : Nat → List Tok → Option (SL × List Tok)
    | 0, _ => none
    | f + 1, .sym '<' :: ts =>
      match pType f ts with
      | some (s, ts') => (pArgsRest f ts').map fun r => (.cons s r.1, r.2)
      | none => none
    | _ + 1, ts => some (.nil, ts)
  def pArgsRest : Nat → List Tok → Option (SL × List Tok)
    | 0, _ => none
    | _ + 1, .sym '>' :: ts => some (.nil, ts)
    | f + 1, .sym ',' :: ts =>
      match pType f ts with
      | some (s, ts') => (pArgsRest f ts').map fun r => (.cons s r.1, r.2)
      | none => none
    | _ + 1, _ => none
  /-- `TypeTail*` -/
  def pTails : Nat → List Tok → Option (Tails × List Tok)
    | 0, _ => none
    | f + 1, .sym '?' :: ts => (pTails f ts).map fun r => (.cons .optional r.1, r.2)
    | f + 1, .sym '-' :: .sym '>' :: ts =>
      match pType f ts with
      | some (v, ts') => (pTails f ts').map fun r => (.cons (.mapValue v) r.1, r.2)
      | none => none
    | _ + 1, .sym '-' :: _ => none
    | f + 1, .sym '*' :: .int n :: ts =>
      if fitsU64 n then (pTails f ts).map fun r => (.cons (.vector (some n)) r.1, r.2) else none
    | f + 1, .sym '*' :: ts => (pTails f ts).map fun r => (.cons (.vector none) r.1, r.2)
    | f + 1, .sym '[' :: ts =>
      match pArray ts with
      | some (dims, ts') => (pTails f ts').map fun r => (.cons (.array dims) r.1, r.2)
      | none => none
    | _ + 1, ts => some (.nil, ts)
end

/-- `parser.ParseType` on a token list: the whole input must be consumed -/
def parse (ts : List Tok) : Option S :=
  match pType (2 * ts.length + 2) ts with
  | some (s, []) => some s
  | _ => none

/-! ### printer -/

def prDim : Dim → List Tok
  | ⟨some n, some l⟩ => [.ident n, .sym ':', .int l]
  | ⟨some n, none⟩ => [.ident n]
  | ⟨none, some l⟩ => [.int l]
  | ⟨none, none⟩ => []

def prDimsRest : List Dim → List Tok
  | [] => [.sym ']']
  | d :: r => .sym ',' :: (prDim d ++ prDimsRest r)

def prDims : List Dim → List Tok
  | [] => [.sym ']']
  | d :: r => prDim d ++ prDimsRest r

mutual
  def pr : S → List Tok
    | .named n args tails => .ident n :: (prArgs args ++ prTails tails)
    | .sub s tails => .sym '(' :: (pr s ++ .sym ')' :: prTails tails)
  def prArgs : SL → List Tok
    | .nil => []
    | .cons s r => .sym '<' :: (pr s ++ prRest r)
  def prRest : SL → List Tok
    | .nil => [.sym '>']
    | .cons s r => .sym ',' :: (pr s ++ prRest r)
  def prTails : Tails → List Tok
    | .nil => []
    | .cons t r => prTail t ++ prTails r
  def prTail : Tail → List Tok
    | .optional => [.sym '?']
    | .mapValue v => .sym '-' :: .sym '>' :: pr v
    | .vector (some n) => [.sym '*', .int n]
    | .vector none => [.sym '*']
    | .array dims => .sym '[' :: prDims dims
end

/-! ### canonical trees: what the parser can produce -/

def dimOk (d : Dim) : Bool :=
  (match d.name with
   | some n => plainName n
   | none => true) &&
  (match d.length with
   | some l => fitsU64 l
   | none => true)

/-- the dimension list of an array tail: lengths fit `uint64`, and a single dimension is not the empty one
    (`[]` is the array without dimensions) -/
def dimsOk (ds : List Dim) : Bool :=
  ds.all dimOk && !(ds == [⟨none, none⟩])

mutual
  def canon : S → Bool
    | .named _ args tails => canonL args && canonT tails
    | .sub s tails => canon s && canonT tails
  def canonL : SL → Bool
    | .nil => true
    | .cons s r => canon s && canonL r
  /-- a map-value tail swallows every tail that follows it, so it is always the last one -/
  def canonT : Tails → Bool
    | .nil => true
    | .cons (.mapValue v) r => canon v && (match r with | .nil => true | _ => false)
    | .cons t r => canonTail t && canonT r
  def canonTail : Tail → Bool
    | .optional => true
    | .mapValue v => canon v
    | .vector (some n) => fitsU64 n
    | .vector none => true
    | .array dims => dimsOk dims
end

/-! ### scanner -/

inductive LexRes
  | ok (ts : List Tok)
  /-- the input uses something outside the modelled alphabet -/
  | unmodelled
  deriving Repr

def isLetter (c : Char) : Bool := ('a' ≤ c && c ≤ 'z') || ('A' ≤ c && c ≤ 'Z') || c == '_'
def isDigit (c : Char) : Bool := '0' ≤ c && c ≤ '9'
def isSpace (c : Char) : Bool := c == ' ' || c == '\t' || c == '\n' || c == '\r'
def isPunct (c : Char) : Bool := "()<>,?-*[]:".toList.contains c

def takeWhileC (p : Char → Bool) : List Char → List Char × List Char
  | [] => ([], [])
  | c :: r => if p c then let x := takeWhileC p r; (c :: x.1, x.2) else ([], c :: r)

def skipSpace : List Char → List Char
  | [] => []
  | c :: r => if isSpace c then skipSpace r else c :: r

def digitsVal (ds : List Char) : Nat := ds.foldl (fun a c => a * 10 + (c.toNat - 48)) 0

/-- after an identifier: `('.' Ident)*`, white space allowed around the dots; `fuel` bounds the number of parts -/
def dotted : Nat → String → List Char → Option (String × List Char)
  | 0, _, _ => none
  | f + 1, acc, cs =>
    match skipSpace cs with
    | '.' :: r =>
      (match skipSpace r with
       | c :: r' =>
         if isLetter c then
           let x := takeWhileC (fun c => isLetter c || isDigit c) (c :: r')
           dotted f (acc ++ "." ++ String.ofList x.1) x.2
         else none
       | [] => none)
    | _ => some (acc, cs)

def lexLoop : Nat → List Char → List Tok → LexRes
  | 0, _, _ => .unmodelled
  | f + 1, cs, acc =>
    match cs with
    | [] => .ok acc.reverse
    | c :: r =>
      if isSpace c then lexLoop f r acc
      else if isLetter c then
        let x := takeWhileC (fun c => isLetter c || isDigit c) (c :: r)
        match dotted (x.2.length + 1) (String.ofList x.1) x.2 with
        | some (name, rest) => lexLoop f rest (.ident name :: acc)
        | none => .unmodelled      -- a dot that is not followed by an identifier: a float or a parse error, not compared
      else if isDigit c then
        let x := takeWhileC isDigit (c :: r)
        -- leading zeros (octal for one of the two integer readers), and digits running into letters, dots or
        -- underscores (hex, floats, digit separators) are scanned differently by text/scanner
        if (c == '0' && x.1.length > 1) then .unmodelled
        else match x.2 with
          | d :: _ => if isLetter d || d == '.' then .unmodelled else lexLoop f x.2 (.int (digitsVal x.1) :: acc)
          | [] => lexLoop f x.2 (.int (digitsVal x.1) :: acc)
      else if isPunct c then lexLoop f r (.sym c :: acc)
      else .unmodelled

def lex (s : String) : LexRes := lexLoop (s.length + 1) s.toList []

/-- text → tree: `none` = the real parser reports an error -/
inductive Res
  | tree (s : S)
  | error
  | unmodelled

def parseText (s : String) : Res :=
  match lex s with
  | .ok ts => (match parse ts with | some t => .tree t | none => .error)
  | .unmodelled => .unmodelled

/-! ### rendering for the driver: the same text Go's `Type.String()` produces, with `Sub` kept visible -/

def dimText (d : Dim) : String :=
  "[" ++ " ".intercalate ((match d.name with | some n => [n] | none => []) ++ (match d.length with | some l => [toString l] | none => [])) ++ "]"

mutual
  def sexp : S → String
    | .named n args tails => sexpTails (match args with
        | .nil => "'" ++ n ++ "'"
        | _ => "(Generic '" ++ n ++ "'" ++ sexpArgs args ++ ")") tails
    | .sub s tails => sexpTails ("(Sub " ++ sexp s ++ ")") tails
  def sexpArgs : SL → String
    | .nil => ""
    | .cons s r => " " ++ sexp s ++ sexpArgs r
  def sexpTails (target : String) : Tails → String
    | .nil => target
    | .cons t r => sexpTails (sexpTail target t) r
  def sexpTail (target : String) : Tail → String
    | .optional => "(Optional " ++ target ++ ")"
    | .mapValue v => "(Map " ++ target ++ " " ++ sexp v ++ ")"
    | .vector (some n) => "(Vector[" ++ toString n ++ "] " ++ target ++ ")"
    | .vector none => "(Vector " ++ target ++ ")"
    | .array [] => "(Array " ++ target ++ ")"
    | .array dims => "(Array[" ++ String.join (dims.map dimText) ++ "] " ++ target ++ ")"
end

end Yardl.TypeParser
