import YardlModel.Streams

/-!
  YardlModel.PyStream — the Python `CodedInputStream` of `_binary.py` as a buffer state machine.

  State: the part of the buffer not yet consumed (`win` = `buffer[offset : last_read_count]`), whether
  the last `readinto` left the buffer partly filled (`short` = `last_read_count < len(buffer)`), and what
  the underlying stream still holds. `readinto` of a `BufferedReader` / `BytesIO` fills the slice it is
  given as far as the stream has bytes.

  One quirk is modelled as it is written: `_fill_buffer` moves the unconsumed bytes to the front with
  `self._buffer[:remaining] = memoryview(self._buffer)[offset : offset + remaining + 1]` — when the
  buffer is not full the right-hand side is one byte longer than the target, a resize of a bytearray
  that has an exported view (`self._view`): Python raises `BufferError`. It can only happen after the
  underlying stream ran dry, i.e. on truncated input (`bufferError` below; proved in PyStreamR).
-/

namespace Yardl

structure PIS where
  cap : Nat
  win : Bytes
  short : Bool
  src : Bytes
  deriving Repr

inductive POut (α : Type)
  | ok (a : α) (s : PIS)
  /-- `EOFError("Unexpected EOF")` -/
  | eof
  /-- `BufferError: Existing exports of data: object cannot be re-sized` -/
  | bufferError

namespace PIS

def pending (s : PIS) : Bytes := s.win ++ s.src

/-- what `_fill_buffer` does to the buffer: the unconsumed bytes move to the front, `readinto` fills the rest as far
    as the stream has bytes -/
def refill (s : PIS) : PIS :=
  let k := min (s.cap - s.win.length) s.src.length
  { s with win := s.win ++ s.src.take k, src := s.src.drop k, short := decide (s.win.length + k < s.cap) }

/-- `_fill_buffer(min_count)` -/
def fill (s : PIS) (minCount : Nat) : POut Unit :=
  if 0 < s.win.length ∧ s.short = true then .bufferError
  else if 0 < minCount ∧ s.refill.win.length < minCount then .eof
  else .ok () s.refill

/-- `if self._last_read_count - self._offset < n: self._fill_buffer(n)` -/
def ensure (s : PIS) (n : Nat) : POut Unit :=
  if s.win.length < n then s.fill n else .ok () s

def readByte (s : PIS) : POut UInt8 :=
  match s.ensure 1 with
  | .ok _ s1 =>
    (match s1.win with
     | b :: w => .ok b { s1 with win := w }
     | [] => .eof)
  | .eof => .eof
  | .bufferError => .bufferError

/-- `read(struct.Struct(...))` of a little-endian unsigned integer of `w` bytes -/
def readFixed (s : PIS) (w : Nat) : POut Nat :=
  match s.ensure w with
  | .ok _ s1 => .ok (CIS.leVal (s1.win.take w)) { s1 with win := s1.win.drop w }
  | .eof => .eof
  | .bufferError => .bufferError

/-- the loop of `read_unsigned_varint` -/
def varLoop : Nat → PIS → Nat → Nat → POut Nat
  | 0, _, _, _ => .eof
  | fuel + 1, s, shift, acc =>
    match s.ensure 1 with
    | .ok _ s1 =>
      (match s1.win with
       | [] => .eof
       | b :: w =>
         let acc' := acc + (b.toNat % 128) * 2 ^ shift
         if b.toNat < 128 then .ok acc' { s1 with win := w }
         else varLoop fuel { s1 with win := w } (shift + 7) acc')
    | .eof => .eof
    | .bufferError => .bufferError

def readVar (s : PIS) : POut Nat := varLoop (s.pending.length + 1) s 0 0

/-- `read_view(count)` / `read_bytearray(count)` -/
def readBytes (s : PIS) (n : Nat) : POut Bytes :=
  if n ≤ s.win.length then .ok (s.win.take n) { s with win := s.win.drop n }
  else if s.cap < n then
    -- a local buffer: the unconsumed bytes, then `readinto` straight from the stream
    let need := n - s.win.length
    if s.src.length < need then .eof
    else .ok (s.win ++ s.src.take need) { s with win := [], src := s.src.drop need }
  else
    match s.fill n with
    | .ok _ s1 => .ok (s1.win.take n) { s1 with win := s1.win.drop n }
    | .eof => .eof
    | .bufferError => .bufferError

def init (cap : Nat) (src : Bytes) : PIS := { cap := cap, win := [], short := true, src := src }

end PIS
end Yardl
