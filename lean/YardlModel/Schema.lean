import Lean.Data.Json
import YardlModel.WireJson

/-!
  YardlModel.Schema — a reader that only sees the *schema text* embedded in a stream/generated code
  (docs/reference/protocol-schema.md; pkg/dsl/protocolschema.go + json.go) and reconstructs from it
  how every protocol step is encoded (`Proto` with resolved wire types).

  If this function succeeds on yardl's schema and returns the true wire types, the schema pins down
  the encoding: two protocols that encode differently cannot share a schema text.

  `types` entries carry unqualified names but are sorted by qualified name, and every reference in
  the schema is qualified; the binding is therefore positional: the sorted list of all qualified
  names mentioned in the schema is zipped with `types`.
-/

namespace Yardl.Schema
open Lean Yardl

def primNames : List String :=
  ["bool", "int8", "int16", "int32", "int64", "uint8", "uint16", "uint32", "uint64", "size", "float32", "float64",
   "complexfloat32", "complexfloat64", "string", "date", "time", "datetime"]

/-- every qualified name (contains a '.') occurring as a type reference in a JSON type tree -/
partial def refsOfType (j : Json) (acc : List String) : List String :=
  match j with
  | .str s => if s.contains '.' && !acc.contains s then s :: acc else acc
  | .arr a => a.foldl (fun acc c => refsOfCase c acc) acc
  | .obj _ =>
    match j.getObjVal? "name" with
    | .ok (.str n) =>
      let acc := if n.contains '.' && !acc.contains n then n :: acc else acc
      match j.getObjVal? "typeArguments" with
      | .ok (.arr args) => args.foldl (fun acc a => refsOfType a acc) acc
      | _ => acc
    | _ =>
      let sub (k : String) (f : String) (acc : List String) : List String :=
        match j.getObjVal? k with
        | .ok o => match o.getObjVal? f with
          | .ok t => refsOfType t acc
          | _ => acc
        | _ => acc
      let acc := sub "vector" "items" acc
      let acc := sub "array" "items" acc
      let acc := sub "stream" "items" acc
      let acc := sub "map" "keys" acc
      sub "map" "values" acc
  | _ => acc
where
  refsOfCase (c : Json) (acc : List String) : List String :=
    match c.getObjVal? "tag" with
    | .ok _ => match c.getObjVal? "type" with
      | .ok t => refsOfType t acc
      | _ => acc
    | _ => refsOfType c acc

def refsOfDef (d : Json) (acc : List String) : List String :=
  let acc := match d.getObjVal? "fields" with
    | .ok (.arr fs) => fs.foldl (fun acc f => match f.getObjVal? "type" with | .ok t => refsOfType t acc | _ => acc) acc
    | _ => acc
  let acc := match d.getObjVal? "type" with
    | .ok t => refsOfType t acc
    | _ => acc
  match d.getObjVal? "base" with
  | .ok t => refsOfType t acc
  | _ => acc

def insertSorted (s : String) : List String → List String
  | [] => [s]
  | x :: xs => if s < x then s :: x :: xs else x :: insertSorted s xs

def sortStrings (l : List String) : List String := l.foldl (fun acc s => insertSorted s acc) []

def lastComponent (q : String) : String := (q.splitOn ".").getLast!

/-- positional binding of qualified names to `types` entries -/
def bindTypes (schema : Json) : Except String (List (String × Json)) := do
  let proto ← schema.getObjVal? "protocol"
  let seq ← (← proto.getObjVal? "sequence").getArr?
  let types := match schema.getObjVal? "types" with
    | .ok (.arr a) => a.toList
    | _ => []
  let refs := seq.foldl (fun acc s => match s.getObjVal? "type" with | .ok t => refsOfType t acc | _ => acc) []
  let refs := types.foldl (fun acc d => refsOfDef d acc) refs
  let sorted := sortStrings refs
  if sorted.length != types.length then
    throw s!"schema mentions {sorted.length} named types {sorted} but defines {types.length}"
  let pairs := sorted.zip types
  for (q, d) in pairs do
    let n ← (← d.getObjVal? "name").getStr?
    if lastComponent q != n then throw s!"definition '{n}' found where '{q}' was expected"
  pure pairs

abbrev TEnv := List (String × Ty)

/-- Resolve a JSON type to a wire type. `fuel` bounds alias/generic unfolding depth. -/
partial def resolveTy (defs : List (String × Json)) (env : TEnv) (j : Json) : Except String Ty := do
  match j with
  | .str s =>
    match primOfString s with
    | some p => pure (.prim p)
    | none =>
      if s.contains '.' then named defs s []
      else match env.lookup s with
        | some t => pure t
        | none => throw s!"unbound type parameter or unknown type '{s}'"
  | .arr cases => unionOf defs env cases.toList
  | .obj _ =>
    match j.getObjVal? "name" with
    | .ok (.str n) =>
      let args := match j.getObjVal? "typeArguments" with
        | .ok (.arr a) => a.toList
        | _ => []
      let args ← args.mapM (resolveTy defs env)
      named defs n args
    | _ =>
      if let .ok v := j.getObjVal? "vector" then
        let t ← items defs env (← v.getObjVal? "items")
        match v.getObjVal? "length" with
        | .ok l => pure (.vector t (some (← jNat l)))
        | _ => pure (.vector t none)
      else if let .ok a := j.getObjVal? "array" then
        let t ← items defs env (← a.getObjVal? "items")
        match a.getObjVal? "dimensions" with
        | .ok (.arr ds) =>
          let lens := ds.toList.map fun d => match d.getObjVal? "length" with | .ok l => (jNat l).toOption | _ => none
          if lens.all Option.isSome then pure (.array t (.fixed (lens.map (·.getD 0))))
          else if lens.all Option.isNone then pure (.array t (.rank ds.size))
          else throw "array dimensions partially specified"
        | .ok n => pure (.array t (.rank (← jNat n)))
        | _ => pure (.array t .dynamic)
      else if let .ok m := j.getObjVal? "map" then
        let k ← resolveTy defs env (← m.getObjVal? "keys")
        let v ← items defs env (← m.getObjVal? "values")
        pure (.map k v)
      else if let .ok s := j.getObjVal? "stream" then
        items defs env (← s.getObjVal? "items")
      else throw s!"unrecognised type {j.compress}"
  | _ => throw s!"unrecognised type {j.compress}"
where
  /-- `TypeCases` marshal as the single case itself or as an array of cases -/
  items (defs : List (String × Json)) (env : TEnv) (j : Json) : Except String Ty :=
    match j with
    | .arr cases => unionOf defs env cases.toList
    | _ => resolveTy defs env j
  unionOf (defs : List (String × Json)) (env : TEnv) (cases : List Json) : Except String Ty := do
    let hasNull := match cases with
      | Json.null :: _ => true
      | _ => false
    let rest := if hasNull then cases.drop 1 else cases
    let cs ← rest.mapM fun c => do
      match c.getObjVal? "tag" with
      | .ok (.str tag) => pure (tag, ← resolveTy defs env (← c.getObjVal? "type"))
      | _ => pure ("", ← resolveTy defs env c)
    match hasNull, cs with
    | true, [(_, t)] => pure (.optional t)
    | _, [] => throw "empty union"
    | false, [(_, t)] => pure t
    | _, _ => pure (.union hasNull (fieldsOfList cs))
  named (defs : List (String × Json)) (q : String) (args : List Ty) : Except String Ty := do
    match defs.lookup q with
    | none => throw s!"type '{q}' is referenced but not defined in the schema"
    | some d =>
      let params := match d.getObjVal? "typeParameters" with
        | .ok (.arr ps) => ps.toList.filterMap fun (p : Json) => match p with | Json.str s => some s | _ => none
        | _ => []
      if params.length != args.length then throw s!"'{q}' expects {params.length} type arguments, got {args.length}"
      let env' : TEnv := params.zip args
      if let .ok (.arr fs) := d.getObjVal? "fields" then
        let fs ← fs.toList.mapM fun f => do
          pure ((← (← f.getObjVal? "name").getStr?), ← resolveTy defs env' (← f.getObjVal? "type"))
        pure (.record (fieldsOfList fs))
      else if let .ok (.arr vs) := d.getObjVal? "values" then
        let base ← match d.getObjVal? "base" with
          | .ok b => do
            match ← resolveTy defs env' b with
            | .prim p => pure p
            | _ => throw s!"enum '{q}' has a non-primitive base"
          | _ => pure Prim.int32
        let syms ← vs.toList.mapM fun v => do
          pure ((← (← v.getObjVal? "symbol").getStr?), ← (← v.getObjVal? "value").getInt?)
        pure (.enum base false syms)     -- enum vs flags is not recorded in the schema (known finding C04)
      else if let .ok t := d.getObjVal? "type" then
        resolveTy defs env' t
      else throw s!"definition '{q}' is neither record, enum nor alias"

def isStreamType (j : Json) : Bool :=
  match j.getObjVal? "stream" with
  | .ok _ => true
  | _ => false

/-- How every step of the protocol is encoded, from the schema text alone. -/
def planOfSchema (schema : Json) : Except String Proto := do
  let defs ← bindTypes schema
  let proto ← schema.getObjVal? "protocol"
  let seq ← (← proto.getObjVal? "sequence").getArr?
  seq.toList.mapM fun s => do
    let name ← (← s.getObjVal? "name").getStr?
    let t ← s.getObjVal? "type"
    pure { name := name, ty := ← resolveTy defs [] t, isStream := isStreamType t }

/-- inverse of `tyOfJson` -/
partial def tyToJson : Ty → Json
  | .prim p => Json.arr #["prim", p.name]
  | .enum b f syms => Json.arr #["enum", b.name, Json.bool f, Json.arr (syms.map fun (s, v) => Json.arr #[Json.str s, ji v]).toArray]
  | .record fs => Json.arr #["rec", Json.arr (fs.toList.map fun (n, t) => Json.arr #[Json.str n, tyToJson t]).toArray]
  | .optional t => Json.arr #["opt", tyToJson t]
  | .union hn cs => Json.arr #["union", Json.bool hn, Json.arr (cs.toList.map fun (n, t) => Json.arr #[Json.str n, tyToJson t]).toArray]
  | .vector t none => Json.arr #["vec", tyToJson t, Json.null]
  | .vector t (some n) => Json.arr #["vec", tyToJson t, jn n]
  | .array t .dynamic => Json.arr #["arr", tyToJson t, Json.arr #["dyn"]]
  | .array t (.rank n) => Json.arr #["arr", tyToJson t, Json.arr #["rank", jn n]]
  | .array t (.fixed ds) => Json.arr #["arr", tyToJson t, Json.arr #["fixed", Json.arr (ds.map jn).toArray]]
  | .map k v => Json.arr #["map", tyToJson k, tyToJson v]

end Yardl.Schema
