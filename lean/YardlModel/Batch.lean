import YardlModel.Wire

/-!
  YardlModel.Batch — how generated C++ readers consume a stream step
  (serializers.h `ReadBlock`, `ReadBlocksIntoVector`; the `current_block_remaining_` member).

  The stream step is abstracted to its block structure: the block sizes still to come (`sizes`,
  all positive; the terminating 0 is implicit after the last one) and the flat list of items still
  to come. `cbr` is `current_block_remaining_`.
-/

namespace Yardl

structure BS where
  cbr : Nat
  sizes : List Nat
  items : List Val
  sawEnd : Bool      -- the terminating 0 has been consumed

namespace BS

/-- `ReadInteger(stream, current_block_remaining)`. -/
def readCount (s : BS) : BS :=
  match s.sizes with
  | [] => { s with cbr := 0, sawEnd := true }
  | n :: r => { s with cbr := n, sizes := r }

/-- `ReadBlock`: one item, or `none` at the end of the stream. -/
def readBlock (s : BS) : Option Val × BS :=
  let s1 := if s.cbr = 0 then s.readCount else s
  if s1.cbr = 0 then (none, s1)
  else
    match s1.items with
    | [] => (none, s1)        -- malformed (fewer items than announced); unreachable under `Wf`
    | v :: r => (some v, { s1 with cbr := s1.cbr - 1, items := r })

/-- `k` items copied out of the current block. -/
def consume (s : BS) (k : Nat) : BS := { s with cbr := s.cbr - k, items := s.items.drop k }

/-- The `while (current_block_remaining > 0)` loop of `ReadBlocksIntoVector`;
    `remCap` = remaining capacity, `acc` = items placed so far. -/
def batchLoop : Nat → BS → Nat → List Val → List Val × BS
  | 0, s, _, acc => (acc, s)
  | fuel + 1, s, remCap, acc =>
    if s.cbr = 0 then (acc, s)
    else
      let k := min s.cbr remCap
      let s1 : BS := s.consume k
      let acc1 := acc ++ s.items.take k
      let s2 := if s1.cbr = 0 then s1.readCount else s1
      if remCap - k = 0 then (acc1, s2) else batchLoop fuel s2 (remCap - k) acc1

/-- `ReadBlocksIntoVector` with a destination of capacity `cap`; also returns the Impl's result
    `current_block_remaining_ != 0` ("there is more"). -/
def readBatch (s : BS) (cap : Nat) : List Val × BS :=
  let s1 := if s.cbr = 0 then s.readCount else s
  batchLoop (cap + 1) s1 cap []

def partSum' : List Nat → Nat
  | [] => 0
  | n :: r => n + partSum' r

/-- Well-formed reader state: announced counts match the items still to come. -/
def Wf (s : BS) : Prop :=
  s.cbr + partSum' s.sizes = s.items.length ∧ (∀ n ∈ s.sizes, 0 < n) ∧ (s.sawEnd = true → s.cbr = 0 ∧ s.sizes = [])

def init (part : List Nat) (items : List Val) : BS :=
  { cbr := 0, sizes := part, items := items, sawEnd := false }

/-- Reader-side operations on one stream step. -/
inductive Op
  | single
  | batch (cap : Nat)

/-- Run a sequence of reads; collects everything delivered. Stops issuing reads to the stream once
    the end has been reported (as the generated `ReaderBase` state machine does). -/
def runOps : List Op → BS → List Val → List Val × BS
  | [], s, acc => (acc, s)
  | op :: ops, s, acc =>
    if s.sawEnd then (acc, s)
    else
      match op with
      | .single =>
        match s.readBlock with
        | (none, s') => runOps ops s' acc
        | (some v, s') => runOps ops s' (acc ++ [v])
      | .batch cap =>
        let (vs, s') := s.readBatch cap
        runOps ops s' (acc ++ vs)

/-! ### the destination vector of a batch read

`ReadBlocksIntoVector` writes into the vector it is handed, which may still hold the items of an earlier call (any number up to its
capacity): it overwrites from offset 0, grows the vector when a block goes past its size and cuts it to what was read when the stream
ends before the capacity is used up. `batchLoopD` models exactly that (`dest` = the vector's contents, `off` = the write offset). -/

/-- `resize(off + xs.length)` if needed, then overwrite `[off, off + xs.length)` -/
def place (dest : List Val) (off : Nat) (xs : List Val) : List Val :=
  dest.take off ++ xs ++ dest.drop (off + xs.length)

def batchLoopD : Nat → BS → Nat → Nat → List Val → List Val × BS
  | 0, s, _, _, dest => (dest, s)
  | fuel + 1, s, remCap, off, dest =>
    if s.cbr = 0 then ((if 0 < remCap then dest.take off else dest), s)      -- `if (remaining_capacity > 0) destination.resize(offset)`
    else
      let k := min s.cbr remCap
      let s1 : BS := s.consume k
      let dest1 := place dest off (s.items.take k)
      let s2 := if s1.cbr = 0 then s1.readCount else s1
      if remCap - k = 0 then (dest1, s2) else batchLoopD fuel s2 (remCap - k) (off + k) dest1

/-- `ReadBlocksIntoVector(stream, current_block_remaining, destination)` with `destination.capacity() = cap` -/
def readBatchInto (s : BS) (cap : Nat) (dest : List Val) : List Val × BS :=
  let s1 := if s.cbr = 0 then s.readCount else s
  batchLoopD (cap + 1) s1 cap 0 dest

end BS

end Yardl
