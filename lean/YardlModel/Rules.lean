import YardlModel.Syntax

/-!
  YardlModel.Rules — "a rule stated on type nodes is enforced wherever the node occurs".

  `subterms t` lists every type node of a surface type (what a pass built on `Visit` /
  `VisitChildren` reaches); `validType rule t` is a pass that applies `rule` to every node it reaches.
  `Sub s t`: `s` occurs in `t` (at any depth: generic arguments, optional, union cases, vector / array
  items, map keys and values).
-/

namespace Yardl.Rules
open Yardl.Syntax

mutual
  def subterms : Sur → List Sur
    | .named n args => .named n args :: subtermsL args
    | .opt t => .opt t :: subterms t
    | .union cs => .union cs :: subtermsC cs
    | .vector t l => .vector t l :: subterms t
    | .array t d => .array t d :: subterms t
    | .map k v => .map k v :: (subterms k ++ subterms v)
  def subtermsL : SurL → List Sur
    | .nil => []
    | .cons t r => subterms t ++ subtermsL r
  def subtermsC : SurC → List Sur
    | .nil => []
    | .null _ r => subtermsC r
    | .cons _ t r => subterms t ++ subtermsC r
end

def validType (rule : Sur → Bool) (t : Sur) : Bool := (subterms t).all rule

inductive MemL : Sur → SurL → Prop
  | head (t r) : MemL t (.cons t r)
  | tail (t u r) : MemL t r → MemL t (.cons u r)

inductive MemC : Sur → SurC → Prop
  | head (tag t r) : MemC t (.cons tag t r)
  | tail (tag t u r) : MemC t r → MemC t (.cons tag u r)
  | skip (tag t r) : MemC t r → MemC t (.null tag r)

/-- `s` occurs in `t` -/
inductive Sub : Sur → Sur → Prop
  | refl (t) : Sub t t
  | arg (s a n args) : MemL a args → Sub s a → Sub s (.named n args)
  | opt (s t) : Sub s t → Sub s (.opt t)
  | case (s c cs) : MemC c cs → Sub s c → Sub s (.union cs)
  | vec (s t l) : Sub s t → Sub s (.vector t l)
  | arr (s t d) : Sub s t → Sub s (.array t d)
  | key (s k v) : Sub s k → Sub s (.map k v)
  | val (s k v) : Sub s v → Sub s (.map k v)

end Yardl.Rules
