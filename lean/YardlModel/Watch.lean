/-!
  YardlModel.Watch — `yardl generate --watch` (tooling/internal/cmd/generatecommand.go: dedupLoop,
  generateInWatchMode) as a state machine over *versions* of the package contents.

  * `save v`    the user saves: the package directory now holds version `v`; the fsnotify event
                re-arms the 5 ms debounce timer;
  * `fire`      the timer fires and calls `regenerate`;
  * `finish i`  the `i`-th regeneration in flight completes: it writes the output for the contents it
                read when it started (an invalid version writes nothing).

  Three policies for `regenerate`:
  * `concurrent`  every firing starts a regeneration on its own goroutine (the code before the fix);
  * `skipIfBusy`  a firing while a regeneration is in flight is dropped;
  * `serialized`  at most one regeneration runs; a firing while one is in flight is remembered and
                  served when it completes (the code after the fix).
-/

namespace Yardl.Watch

inductive Policy
  | concurrent | skipIfBusy | serialized
  deriving DecidableEq, Repr

structure St where
  content : Nat
  timer : Bool
  running : List Nat
  pending : Bool
  out : Nat
  deriving DecidableEq, Repr

inductive Op
  | save (v : Nat)
  | fire
  | finish (i : Nat)
  deriving DecidableEq, Repr

/-- the watcher generates once before it starts listening -/
def init (v : Nat) : St := { content := v, timer := false, running := [], pending := false, out := v }

def step (p : Policy) (valid : Nat → Bool) (s : St) : Op → St
  | .save v => { s with content := v, timer := true }
  | .fire =>
    if !s.timer then s
    else match p with
      | .concurrent => { s with timer := false, running := s.running ++ [s.content] }
      | .skipIfBusy => if s.running.isEmpty then { s with timer := false, running := [s.content] } else { s with timer := false }
      | .serialized => if s.running.isEmpty then { s with timer := false, running := [s.content] } else { s with timer := false, pending := true }
  | .finish i =>
    match s.running[i]? with
    | none => s
    | some v =>
      let s' := { s with running := s.running.eraseIdx i, out := if valid v then v else s.out }
      if p = .serialized ∧ s.pending then { s' with pending := false, running := s'.running ++ [s.content] } else s'

def run (p : Policy) (valid : Nat → Bool) (s : St) (ops : List Op) : St := ops.foldl (step p valid) s

def quiescent (s : St) : Bool := !s.timer && s.running.isEmpty && !s.pending

end Yardl.Watch
