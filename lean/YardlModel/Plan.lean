import YardlModel.Wire
import YardlModel.Json

/-!
  YardlModel.Plan — the "serialization plan" of a resolved type and the serializer *expressions*
  by which the back ends realise it.

  * `erase t`            the plan of `t`: the composition of element encodings with every name
                         (field names, union tags, enum symbols, enum-vs-flags) forgotten.
  * `SE`                 the common grammar of the serializer expressions the generators print:
                         `_binary.VectorSerializer(e)` / `yardl.binary.VectorSerializer(e)` /
                         `_ndjson.VectorConverter(e)` …
  * `emitPy/emitMat/emitJ`  what typeSerializer (python/binary/binary.go), typeSerializer
                         (matlab/binary/binary.go) and typeConverter (python/ndjson/ndjson.go) print
                         for a type (after the record classes they reference are expanded).
  * `denote`             the plan a serializer expression stands for, given the constructor
                         conventions of the runtime libraries (`rev = true`: MATLAB's
                         FixedNDArraySerializer takes the shape in MATLAB — reversed — order).
-/

namespace Yardl.Plan
open Yardl

mutual
  def erase : Ty → Ty
    | .prim p => .prim p
    | .enum b _ _ => .enum b false []
    | .record fs => .record (eraseF fs)
    | .optional t => .optional (erase t)
    | .union hn cs => .union hn (eraseF cs)
    | .vector t l => .vector (erase t) l
    | .array t k => .array (erase t) k
    | .map k v => .map (erase k) (erase v)
  def eraseF : Fields → Fields
    | .nil => .nil
    | .cons _ t r => .cons "" (erase t) (eraseF r)
end

mutual
  inductive SE
    | prim (p : Prim)
    /-- `none_serializer` / `yardl.binary.NoneSerializer` / `None` as a union option -/
    | noneSer
    /-- EnumSerializer(base, cls); `flags` only distinguishes EnumConverter from FlagsConverter -/
    | enumSer (base : SE) (flags : Bool)
    | optional (e : SE)
    /-- UnionSerializer(cls, [options]); for NDJSON additionally the `simple` flag and the JSON
        data types listed for each non-null option -/
    | union (cases : SEs) (simple : Bool) (kinds : List Nat)
    | vector (e : SE)
    | fixedVector (e : SE) (n : Nat)
    | ndarray (e : SE) (rank : Nat)
    | fixedNdarray (e : SE) (dims : List Nat)
    | dynNdarray (e : SE)
    | map (k v : SE)
    /-- XSerializer(args…) with the record class expanded to its field serializers -/
    | record (fs : SEs)
  inductive SEs
    | nil
    | cons (e : SE) (rest : SEs)
end

instance : Inhabited SE := ⟨.noneSer⟩

inductive Backend
  | pyBinary | matlabBinary | pyNdjson
  /-- the template compositions of the generated C++ `binary/protocols.cc` (typeRwFunction in cpp/binary/binary.go) -/
  | cppBinary
  deriving DecidableEq, Repr

def Backend.reversesFixedDims : Backend → Bool
  | .matlabBinary => true
  | _ => false

def casesKinds : Fields → List Nat
  | .nil => []
  | .cons _ t r => Json.kinds t :: casesKinds r

mutual
  /-- the expression printed by the back end's recursive type → serializer mapping -/
  def emit (b : Backend) : Ty → SE
    | .prim p => .prim p
    | .enum base fl _ => .enumSer (.prim base) (b == .pyNdjson && fl)
    | .record fs => .record (emitF b fs)
    | .optional t => .optional (emit b t)
    | .union true cs =>
      .union (.cons .noneSer (emitF b cs)) (b == .pyNdjson && Json.unionSimplified true cs)
        (if b == .pyNdjson then casesKinds cs else [])
    | .union false cs =>
      .union (emitF b cs) (b == .pyNdjson && Json.unionSimplified false cs)
        (if b == .pyNdjson then casesKinds cs else [])
    | .vector t none => .vector (emit b t)
    | .vector t (some n) => .fixedVector (emit b t) n
    | .array t .dynamic => .dynNdarray (emit b t)
    | .array t (.rank n) => .ndarray (emit b t) n
    | .array t (.fixed dims) => .fixedNdarray (emit b t) (if b.reversesFixedDims then dims.reverse else dims)
    | .map k v => .map (emit b k) (emit b v)
  def emitF (b : Backend) : Fields → SEs
    | .nil => .nil
    | .cons _ t r => .cons (emit b t) (emitF b r)
end

mutual
  /-- the plan a serializer expression denotes under the runtime library's constructor
      conventions; `none` for expressions that are not serializers of a value (a bare
      `NoneSerializer`, an enum over a non-primitive) -/
  def denote (b : Backend) : SE → Option Ty
    | .prim p => some (.prim p)
    | .noneSer => none
    | .enumSer base _ =>
      match base with
      | .prim p => some (.enum p false [])
      | _ => none
    | .optional e =>
      match denote b e with
      | some t => some (.optional t)
      | none => none
    | .union cases _ _ =>
      match cases with
      | .cons .noneSer rest =>
        (match denoteF b rest with
         | some fs => some (.union true fs)
         | none => none)
      | cs =>
        (match denoteF b cs with
         | some fs => some (.union false fs)
         | none => none)
    | .vector e =>
      match denote b e with
      | some t => some (.vector t none)
      | none => none
    | .fixedVector e n =>
      match denote b e with
      | some t => some (.vector t (some n))
      | none => none
    | .ndarray e n =>
      match denote b e with
      | some t => some (.array t (.rank n))
      | none => none
    | .fixedNdarray e dims =>
      match denote b e with
      | some t => some (.array t (.fixed (if b.reversesFixedDims then dims.reverse else dims)))
      | none => none
    | .dynNdarray e =>
      match denote b e with
      | some t => some (.array t .dynamic)
      | none => none
    | .map k v =>
      match denote b k, denote b v with
      | some kt, some vt => some (.map kt vt)
      | _, _ => none
    | .record fs =>
      match denoteF b fs with
      | some fs' => some (.record fs')
      | none => none
  def denoteF (b : Backend) : SEs → Option Fields
    | .nil => some .nil
    | .cons e r =>
      match denote b e, denoteF b r with
      | some t, some fs => some (.cons "" t fs)
      | _, _ => none
end

end Yardl.Plan

namespace Yardl.Plan

mutual
  /-- forget the annotations that do not affect layout -/
  def strip : SE → SE
    | .prim p => .prim p
    | .noneSer => .noneSer
    | .enumSer base _ => .enumSer (strip base) false
    | .optional e => .optional (strip e)
    | .union cs _ _ => .union (stripF cs) false []
    | .vector e => .vector (strip e)
    | .fixedVector e n => .fixedVector (strip e) n
    | .ndarray e n => .ndarray (strip e) n
    | .fixedNdarray e d => .fixedNdarray (strip e) d
    | .dynNdarray e => .dynNdarray (strip e)
    | .map k v => .map (strip k) (strip v)
    | .record fs => .record (stripF fs)
  def stripF : SEs → SEs
    | .nil => .nil
    | .cons e r => .cons (strip e) (stripF r)
end

end Yardl.Plan
