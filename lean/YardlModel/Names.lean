/-!
  YardlModel.Names — identifier derivation of the back ends (cpp/common, python/common, matlab/common:
  FieldIdentifierName, EnumValueIdentifierName, ComputedFieldIdentifierName, TypeIdentifierName):
  the case-converted name, with a suffix when it is in the back end's reserved-name table.
-/

namespace Yardl.Names

/-- `cased` is the name after the back end's case conversion (snake_case, UPPER_SNAKE_CASE, k+PascalCase, ...) -/
def ident (reserved : List String) (suffix : String) (cased : String) : String :=
  if reserved.contains cased then cased ++ suffix else cased

end Yardl.Names
