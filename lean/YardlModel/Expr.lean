import YardlModel.Wire

/-!
  YardlModel.Expr — computed-field expressions: static typing of arithmetic
  (validation_computed_fields.go, `*BinaryExpression` case) and the parenthesisation decision
  of the three emitters (cpp/types, python/types, matlab/types `writeComputedFieldExpression`).
  The primitive tables are parameters; `YardlGenerated.Tables` instantiates them with what the
  current source computes.
-/

namespace Yardl

inductive BinOp | add | sub | mul | div | pow
  deriving DecidableEq, Repr

def BinOp.prec : BinOp → Nat
  | .add | .sub => 0
  | .mul | .div => 1
  | .pow => 2

def BinOp.all : List BinOp := [.add, .sub, .mul, .div, .pow]

def Prim.all : List Prim := [.bool, .int8, .int16, .int32, .int64, .uint8, .uint16, .uint32, .uint64, .size,
  .float32, .float64, .complexfloat32, .complexfloat64, .string, .date, .time, .datetime]

theorem Prim.mem_all (p : Prim) : p ∈ Prim.all := by cases p <;> simp [Prim.all]
theorem BinOp.mem_all (o : BinOp) : o ∈ BinOp.all := by cases o <;> simp [BinOp.all]

def lookup2 (tab : List (Prim × Prim × Option Prim)) (a b : Prim) : Option Prim :=
  match tab.find? (fun r => r.1 == a && r.2.1 == b) with
  | some r => r.2.2
  | none => none

/-- kind: 0 integer, 1 floating point, 2 complex, 3 other (Go's iota order). -/
def lookupKind (tab : List (Prim × Nat × Nat × Bool × Bool × Nat)) (a : Prim) : Nat :=
  match tab.find? (fun r => r.1 == a) with
  | some r => r.2.1
  | none => 3

structure Tables where
  common : List (Prim × Prim × Option Prim)
  info : List (Prim × Nat × Nat × Bool × Bool × Nat)

/-- Static type of `l op r` for primitive operand types `a`, `b` (none = "operator not defined"). -/
def binopType (T : Tables) (op : BinOp) (a b : Prim) : Option Prim :=
  if lookupKind T.info a ≤ 2 && lookupKind T.info b ≤ 2 then
    match lookup2 T.common a b with
    | none => none
    | some c =>
      if op = .pow then (if lookupKind T.info c = 0 then some .float64 else some c)
      else if c = .int8 ∨ c = .uint8 ∨ c = .int16 ∨ c = .uint16 then some .int32 else some c
  else none

/-! ### Parenthesisation -/

inductive Target | cpp | python | matlab
  deriving DecidableEq, Repr

def Target.all : List Target := [.cpp, .python, .matlab]
theorem Target.mem_all (t : Target) : t ∈ Target.all := by cases t <;> simp [Target.all]

/-- The emitters' decision for the *left* operand `child` of `op` (after fix a15986d). -/
def emitParenLeft (tgt : Target) (op child : BinOp) : Bool :=
  match tgt with
  | .python => child.prec < op.prec || (child.prec == op.prec && op == .pow)
  | .cpp | .matlab => child.prec < op.prec

/-- The emitters' decision for the *right* operand. -/
def emitParenRight (tgt : Target) (op child : BinOp) : Bool :=
  match tgt with
  | .python => child.prec < op.prec || (child.prec == op.prec && op != .pow)
  | .cpp | .matlab => child.prec ≤ op.prec

/-- Target grammar: is `op` right-associative in the target's infix syntax? (Python `**`; MATLAB `^`
    and every other operator are left-associative.) C++ emits `std::pow(l, r)`: no infix operator. -/
def rightAssoc (tgt : Target) (op : BinOp) : Bool := tgt == .python && op == .pow

/-- Textbook criterion: an operand must be parenthesised iff the target parser would otherwise
    attach it differently. -/
def mustParenLeft (tgt : Target) (op child : BinOp) : Bool :=
  child.prec < op.prec || (child.prec == op.prec && rightAssoc tgt op)

def mustParenRight (tgt : Target) (op child : BinOp) : Bool :=
  child.prec < op.prec || (child.prec == op.prec && !rightAssoc tgt op)

/-! ### Integer evaluation (reference semantics used by the correspondence run) -/

inductive Expr
  | lit (n : Int)
  | var (i : Nat)
  | neg (e : Expr)
  | bin (op : BinOp) (l r : Expr)

/-- C++ semantics of integer `/`: truncation toward zero. -/
def tdiv (a b : Int) : Int := Int.tdiv a b

def Expr.eval (ρ : Nat → Int) : Expr → Option Int
  | .lit n => some n
  | .var i => some (ρ i)
  | .neg e => (e.eval ρ).map (fun x => -x)
  | .bin op l r =>
    match l.eval ρ, r.eval ρ with
    | some x, some y =>
      match op with
      | .add => some (x + y)
      | .sub => some (x - y)
      | .mul => some (x * y)
      | .div => if y = 0 then none else some (tdiv x y)
      | .pow => none      -- typed float64: outside the integer fragment
    | _, _ => none

end Yardl

/-! ### Evaluation in a fixed-width integer type (C++ `int64_t` / `uint64_t` …, NumPy scalars) -/

namespace Yardl

/-- the value range of a fixed-width integer type -/
structure Rng where
  lo : Int
  hi : Int
  deriving Repr

/-- modular wrap into the range (two's complement for the signed types, mod 2ⁿ for the unsigned ones) -/
def Rng.wrap (r : Rng) (v : Int) : Int := r.lo + (v - r.lo) % (r.hi - r.lo + 1)

def Rng.contains (r : Rng) (v : Int) : Bool := r.lo ≤ v && v ≤ r.hi

/-- evaluation with every operand and every operation's result wrapped into the type's range -/
def Expr.evalW (r : Rng) (ρ : Nat → Int) : Expr → Option Int
  | .lit n => some (r.wrap n)
  | .var i => some (r.wrap (ρ i))
  | .neg e => (e.evalW r ρ).map (fun x => r.wrap (-x))
  | .bin op l r' =>
    match l.evalW r ρ, r'.evalW r ρ with
    | some x, some y =>
      match op with
      | .add => some (r.wrap (x + y))
      | .sub => some (r.wrap (x - y))
      | .mul => some (r.wrap (x * y))
      | .div => if y = 0 then none else some (r.wrap (tdiv x y))
      | .pow => none
    | _, _ => none

/-- every operand, every intermediate result and the result lie in the range of the type -/
def Expr.inRange (r : Rng) (ρ : Nat → Int) : Expr → Bool
  | .lit n => r.contains n
  | .var i => r.contains (ρ i)
  | .neg e => e.inRange r ρ && (match (Expr.neg e).eval ρ with | some v => r.contains v | none => false)
  | .bin op l r' => l.inRange r ρ && r'.inRange r ρ && (match (Expr.bin op l r').eval ρ with | some v => r.contains v | none => false)

end Yardl

/-! ### The type of an integer literal (validation_computed_fields.go, `case *IntegerLiteralExpression`) -/

namespace Yardl

/-- the integer types a literal can get: (signed, bits) -/
structure IntTy where
  signed : Bool
  bits : Nat
  deriving DecidableEq, Repr

def IntTy.rng (t : IntTy) : Rng :=
  if t.signed then ⟨-(2 ^ (t.bits - 1) : Int), 2 ^ (t.bits - 1) - 1⟩ else ⟨0, 2 ^ t.bits - 1⟩

/-- the cascade of comparisons: a non-negative literal gets the narrowest unsigned type that holds it, a negative one the
    narrowest signed type; `none`: "integer literal is too large" -/
def litType (n : Int) : Option IntTy :=
  if 0 ≤ n then
    if n ≤ 255 then some ⟨false, 8⟩
    else if n ≤ 65535 then some ⟨false, 16⟩
    else if n ≤ 4294967295 then some ⟨false, 32⟩
    else if n ≤ 18446744073709551615 then some ⟨false, 64⟩
    else none
  else
    if -128 ≤ n then some ⟨true, 8⟩
    else if -32768 ≤ n then some ⟨true, 16⟩
    else if -2147483648 ≤ n then some ⟨true, 32⟩
    else if -9223372036854775808 ≤ n then some ⟨true, 64⟩
    else none

/-- the widths yardl has -/
def IntTy.valid (t : IntTy) : Bool := t.bits == 8 || t.bits == 16 || t.bits == 32 || t.bits == 64

end Yardl
