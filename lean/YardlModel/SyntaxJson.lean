import Lean.Data.Json
import YardlModel.Syntax

/-! JSON codec for the syntax model (driver boundary only). -/

namespace Yardl.Syntax
open Lean (Json)

private def arg (a : Array Json) (i : Nat) : Json := a[i]?.getD Json.null

def optNat (j : Json) : Except String (Option Nat) :=
  if j.isNull then pure none else do
    let i ← j.getInt?
    if i < 0 then throw "negative" else pure (some i.toNat)

def optStr (j : Json) : Except String (Option String) :=
  if j.isNull then pure none else do pure (some (← j.getStr?))

def dimOfJson (j : Json) : Except String Dim := do
  let a ← j.getArr?
  pure ⟨← optStr (arg a 0), ← optNat (arg a 1)⟩

def dimsOfJson (j : Json) : Except String (List Dim) := do
  (← j.getArr?).toList.mapM dimOfJson

def optDims (j : Json) : Except String (Option (List Dim)) :=
  if j.isNull then pure none else do pure (some (← dimsOfJson j))

mutual
  partial def sOfJson (j : Json) : Except String S := do
    let a ← j.getArr?
    match ← (arg a 0).getStr? with
    | "named" => pure (.named (← (arg a 1).getStr?) (← slOfJson (← (arg a 2).getArr?).toList) (← tailsOfJson (← (arg a 3).getArr?).toList))
    | "sub" => pure (.sub (← sOfJson (arg a 1)) (← tailsOfJson (← (arg a 2).getArr?).toList))
    | t => throw s!"bad S tag {t}"
  partial def slOfJson : List Json → Except String SL
    | [] => pure .nil
    | j :: r => do pure (.cons (← sOfJson j) (← slOfJson r))
  partial def tailsOfJson : List Json → Except String Tails
    | [] => pure .nil
    | j :: r => do pure (.cons (← tailOfJson j) (← tailsOfJson r))
  partial def tailOfJson (j : Json) : Except String Tail := do
    let a ← j.getArr?
    match ← (arg a 0).getStr? with
    | "opt" => pure .optional
    | "map" => pure (.mapValue (← sOfJson (arg a 1)))
    | "vec" => pure (.vector (← optNat (arg a 1)))
    | "arr" => pure (.array (← dimsOfJson (arg a 1)))
    | t => throw s!"bad tail tag {t}"
end

mutual
  partial def yOfJson (j : Json) : Except String Y := do
    let a ← j.getArr?
    match ← (arg a 0).getStr? with
    | "null" => pure .null
    | "str" => pure (.str (← sOfJson (arg a 1)))
    | "generic" => pure (.generic (← (arg a 1).getStr?) (← ylOfJson (← (arg a 2).getArr?).toList))
    | "seq" => pure (.seq (← ylOfJson (← (arg a 1).getArr?).toList))
    | "vector" => pure (.vector (← yOfJson (arg a 1)) (← optNat (arg a 2)))
    | "array" => pure (.array (← yOfJson (arg a 1)) (← optDims (arg a 2)))
    | "arrayN" => pure (.arrayN (← yOfJson (arg a 1)) (← (arg a 2).getNat?))
    | "map" => pure (.map (← yOfJson (arg a 1)) (← yOfJson (arg a 2)))
    | "union" => pure (.union (← ycOfJson (← (arg a 1).getArr?).toList))
    | "stream" => pure (.stream (← yOfJson (arg a 1)))
    | t => throw s!"bad Y tag {t}"
  partial def ylOfJson : List Json → Except String YL
    | [] => pure .nil
    | j :: r => do pure (.cons (← yOfJson j) (← ylOfJson r))
  partial def ycOfJson : List Json → Except String YC
    | [] => pure .nil
    | j :: r => do
      let a ← j.getArr?
      pure (.cons (← (arg a 0).getStr?) (← yOfJson (arg a 1)) (← ycOfJson r))
end

mutual
  partial def surOfJson (j : Json) : Except String Sur := do
    let a ← j.getArr?
    match ← (arg a 0).getStr? with
    | "named" => pure (.named (← (arg a 1).getStr?) (← surlOfJson (← (arg a 2).getArr?).toList))
    | "opt" => pure (.opt (← surOfJson (arg a 1)))
    | "union" => pure (.union (← surcOfJson (← (arg a 1).getArr?).toList))
    | "vector" => pure (.vector (← surOfJson (arg a 1)) (← optNat (arg a 2)))
    | "array" => pure (.array (← surOfJson (arg a 1)) (← optDims (arg a 2)))
    | "map" => pure (.map (← surOfJson (arg a 1)) (← surOfJson (arg a 2)))
    | t => throw s!"bad Sur tag {t}"
  partial def surlOfJson : List Json → Except String SurL
    | [] => pure .nil
    | j :: r => do pure (.cons (← surOfJson j) (← surlOfJson r))
  partial def surcOfJson : List Json → Except String SurC
    | [] => pure .nil
    | j :: r => do
      let a ← j.getArr?
      let tag ← optStr (arg a 0)
      if (arg a 1).isNull then pure (.null tag (← surcOfJson r))
      else pure (.cons tag (← surOfJson (arg a 1)) (← surcOfJson r))
end

def jOptNat : Option Nat → Json
  | none => Json.null
  | some n => Json.num (Lean.JsonNumber.fromNat n)

def jOptStr : Option String → Json
  | none => Json.null
  | some s => Json.str s

def dimsToJson (ds : List Dim) : Json :=
  Json.arr (ds.map fun d => Json.arr #[jOptStr d.name, jOptNat d.length]).toArray

mutual
  partial def tToJson : T → Json
    | .simple n args => Json.arr #["simple", Json.str n, Json.arr (tlToJson args).toArray]
    | .gen cs d => Json.arr #["gen", Json.arr (clToJson cs).toArray, dToJson d]
  partial def tlToJson : TL → List Json
    | .nil => []
    | .cons t r => tToJson t :: tlToJson r
  partial def clToJson : CL → List Json
    | .nil => []
    | .null tag r => Json.arr #[jOptStr tag, Json.null] :: clToJson r
    | .cons tag t r => Json.arr #[jOptStr tag, tToJson t] :: clToJson r
  partial def dToJson : D → Json
    | .scalar => Json.arr #["scalar"]
    | .vector l => Json.arr #["vector", jOptNat l]
    | .array none => Json.arr #["array", Json.null]
    | .array (some ds) => Json.arr #["array", dimsToJson ds]
    | .map k => Json.arr #["map", tToJson k]
    | .stream => Json.arr #["stream"]
end

end Yardl.Syntax
