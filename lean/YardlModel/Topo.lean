/-!
  YardlModel.Topo — the dependency sort of `topologicalSortTypes`
  (tooling/pkg/dsl/validation_topological_sort.go): a depth-first visit per definition with the
  `predecessors` map playing two roles — "on the current path" (a reference to such a definition is a
  reference cycle, reported as an error) and "done" (already emitted).

  Names are natural numbers; `deps n` lists the definitions of the same namespace that definition `n`
  mentions *anywhere* in its body: field / alias / step types, their containers, and the type
  arguments given to generics — local or imported. `none` = a cycle was reported (or fuel ran out;
  `fuel > number of definitions` suffices, the driver checks that).
-/

namespace Yardl.Topo

abbrev Deps := Nat → List Nat

def foldT (f : Nat → List Nat → Option (List Nat)) : List Nat → List Nat → Option (List Nat)
  | [], done => some done
  | n :: ns, done =>
    match f n done with
    | none => none
    | some done' => foldT f ns done'

def visit (deps : Deps) : Nat → List Nat → Nat → List Nat → Option (List Nat)
  | 0, _, _, _ => none
  | d + 1, path, n, done =>
    if n ∈ done then some done
    else if n ∈ path then none
    else match foldT (visit deps d (n :: path)) (deps n) done with
      | some done' => some (done' ++ [n])
      | none => none

/-- `ns.TypeDefinitions` after the pass, for definitions written in the order `roots` -/
def sort (deps : Deps) (fuel : Nat) (roots : List Nat) : Option (List Nat) :=
  foldT (visit deps fuel []) roots []

/-- every definition comes after all the definitions it mentions -/
def Sorted (deps : Deps) (l : List Nat) : Prop :=
  ∀ i (h : i < l.length), ∀ m ∈ deps l[i], m ∈ l.take i

/-- a non-empty chain of references -/
inductive Path (deps : Deps) : Nat → Nat → Prop
  | one (n m : Nat) : m ∈ deps n → Path deps n m
  | step (n m k : Nat) : m ∈ deps n → Path deps m k → Path deps n k

end Yardl.Topo
