/-!
  YardlModel.Syntax — the two spellings of a yardl type and the tree the front end builds from each.

  * `S`       the AST of the shorthand grammar (tooling/pkg/dsl/parser/typeparser.go: `Type`,
              `TypeName`, `TypeTail`), i.e. what participle hands to `convertType`;
  * `Y`       a YAML type node as `UnmarshalTypeYAML` sees it (`!!str`, `!!seq`, `!generic`,
              `!vector`, `!array`, `!map`, `!union`, `!stream`, `!!null`);
  * `T`       `dsl.Type` as built by the parser (`SimpleType` / `GeneralizedType` with `TypeCases`
              and a `Dimensionality`), positions and comments dropped;
  * `convS`   `convertType` + `applyTypeTail` (yaml.go);
  * `convY`   `UnmarshalTypeYAML`, `UnmarshalTypeCases`, `Unmarshal{Vector,Array,Map,Union,Stream}YAML`,
              `UnmarshalGenericNode` (yaml.go);
  * `norm`    what every later consumer looks through: a `GeneralizedType` with a single untagged
              case and no dimensionality *is* its case (`Cases.IsSingle()` → recurse), and a
              dimensioned type whose single case is such a scalar wrapper carries that wrapper's cases.
-/

namespace Yardl.Syntax

structure Dim where
  name : Option String
  length : Option Nat
  deriving DecidableEq, Repr

mutual
  inductive T
    | simple (name : String) (args : TL)
    | gen (cases : CL) (dim : D)
  inductive TL
    | nil
    | cons (t : T) (r : TL)
  /-- `TypeCases`; `tag = none`: no explicit tag -/
  inductive CL
    | nil
    | null (tag : Option String) (r : CL)
    | cons (tag : Option String) (t : T) (r : CL)
  inductive D
    | scalar
    | vector (len : Option Nat)
    | array (dims : Option (List Dim))
    | map (key : T)
    | stream
end

instance : Inhabited T := ⟨.simple "" .nil⟩

mutual
  /-- parser.Type: `Named` or parenthesised `Sub`, then the postfix tails in source order -/
  inductive S
    | named (name : String) (args : SL) (tails : Tails)
    | sub (s : S) (tails : Tails)
  inductive SL
    | nil
    | cons (s : S) (r : SL)
  inductive Tails
    | nil
    | cons (t : Tail) (r : Tails)
  inductive Tail
    | optional
    | mapValue (v : S)
    | vector (len : Option Nat)
    /-- `[]` = no dimensions -/
    | array (dims : List Dim)
end

def Tails.snoc : Tails → Tail → Tails
  | .nil, x => .cons x .nil
  | .cons t r, x => .cons t (r.snoc x)

mutual
  inductive Y
    | null
    | str (s : S)
    | generic (name : String) (args : YL)
    | seq (items : YL)
    | vector (items : Y) (len : Option Nat)
    | array (items : Y) (dims : Option (List Dim))
    /-- `dimensions: <int>` -/
    | arrayN (items : Y) (n : Nat)
    | map (keys : Y) (values : Y)
    | union (cases : YC)
    | stream (items : Y)
  inductive YL
    | nil
    | cons (y : Y) (r : YL)
  inductive YC
    | nil
    | cons (tag : String) (y : Y) (r : YC)
end

/-! ### shorthand → tree (convertType / applyTypeTail) -/

def single (t : T) : CL := .cons none t .nil

mutual
  def convS : S → T
    | .named n args tails => applyTails (.simple n (convSL args)) tails
    | .sub s tails => applyTails (convS s) tails
  def convSL : SL → TL
    | .nil => .nil
    | .cons s r => .cons (convS s) (convSL r)
  def applyTails (inner : T) : Tails → T
    | .nil => inner
    | .cons t r => applyTails (applyTail inner t) r
  def applyTail (inner : T) : Tail → T
    | .optional => .gen (.null none (single inner)) .scalar
    | .mapValue v => .gen (single (convS v)) (.map inner)
    | .vector len => .gen (single inner) (.vector len)
    | .array dims => .gen (single inner) (.array (if dims.isEmpty then none else some dims))
end

/-! ### YAML node → tree (Unmarshal*YAML); `none` = a parse error -/

mutual
  def convY : Y → Option T
    | .null => none                                  -- "type cannot be empty" / nil type
    | .str s => some (convS s)
    | .generic n args =>
      match convYL args with
      | some a => some (.simple n a)
      | none => none
    | .seq items =>
      match casesOfSeq items with
      | some cs => some (.gen cs .scalar)
      | none => none
    | .vector items len =>
      match convCases items with
      | some cs => some (.gen cs (.vector len))
      | none => none
    | .array items dims =>
      match convCases items with
      | some cs => some (.gen cs (.array dims))
      | none => none
    | .arrayN items n =>
      match convCases items with
      | some cs => some (.gen cs (.array (some (List.replicate n ⟨none, none⟩))))
      | none => none
    | .map keys values =>
      match convY keys, convCases values with
      | some k, some cs => some (.gen cs (.map k))
      | _, _ => none
    | .union cases =>
      match convYC cases with
      | some cs => some (.gen cs .scalar)
      | none => none
    | .stream items =>
      match convCases items with
      | some cs => some (.gen cs .stream)
      | none => none
  /-- `UnmarshalTypeCases`: a sequence gives one case per item (null allowed), anything else one case -/
  def convCases : Y → Option CL
    | .seq items => casesOfSeq items
    | .null => none
    | .str s => some (single (convS s))
    | .generic n args =>
      match convYL args with
      | some a => some (single (.simple n a))
      | none => none
    | .vector items len =>
      match convCases items with
      | some cs => some (single (.gen cs (.vector len)))
      | none => none
    | .array items dims =>
      match convCases items with
      | some cs => some (single (.gen cs (.array dims)))
      | none => none
    | .arrayN items n =>
      match convCases items with
      | some cs => some (single (.gen cs (.array (some (List.replicate n ⟨none, none⟩)))))
      | none => none
    | .map keys values =>
      match convY keys, convCases values with
      | some k, some cs => some (single (.gen cs (.map k)))
      | _, _ => none
    | .union cases =>
      match convYC cases with
      | some cs => some (single (.gen cs .scalar))
      | none => none
    | .stream items =>
      match convCases items with
      | some cs => some (single (.gen cs .stream))
      | none => none
  def casesOfSeq : YL → Option CL
    | .nil => some .nil
    | .cons .null r =>
      match casesOfSeq r with
      | some cs => some (.null none cs)
      | none => none
    | .cons y r =>
      match convY y, casesOfSeq r with
      | some t, some cs => some (.cons none t cs)
      | _, _ => none
  def convYL : YL → Option TL
    | .nil => some .nil
    | .cons y r =>
      match convY y, convYL r with
      | some t, some ts => some (.cons t ts)
      | _, _ => none
  def convYC : YC → Option CL
    | .nil => some .nil
    | .cons tag .null r =>
      match convYC r with
      | some cs => some (.null (some tag) cs)
      | none => none
    | .cons tag y r =>
      match convY y, convYC r with
      | some t, some cs => some (.cons (some tag) t cs)
      | _, _ => none
end

/-! ### what consumers look through -/

/-- attach a dimensionality to a normalised scalar: an untagged scalar wrapper donates its cases -/
def withDim (t : T) (d : D) : T :=
  match t with
  | .gen cs .scalar => .gen cs d
  | t => .gen (single t) d

mutual
  def norm : T → T
    | .simple n args => .simple n (normL args)
    | .gen cs d =>
      match normC cs, normD d with
      | .cons none t .nil, .scalar => t
      | .cons none t .nil, d' => withDim t d'
      | cs', d' => .gen cs' d'
  def normL : TL → TL
    | .nil => .nil
    | .cons t r => .cons (norm t) (normL r)
  def normC : CL → CL
    | .nil => .nil
    | .null tag r => .null tag (normC r)
    | .cons tag t r => .cons tag (norm t) (normC r)
  def normD : D → D
    | .map k => .map (norm k)
    | d => d
end

end Yardl.Syntax

/-! ### the model's notion of "a spelling of" — an executable checker over a surface type `Sur` -/

namespace Yardl.Syntax

mutual
  /-- a type as the author means it, independent of how it is spelled -/
  inductive Sur
    | named (n : String) (args : SurL)
    | opt (t : Sur)
    /-- ≥ 2 cases, or tagged -/
    | union (cases : SurC)
    | vector (t : Sur) (len : Option Nat)
    | array (t : Sur) (dims : Option (List Dim))
    | map (k v : Sur)
  inductive SurL
    | nil
    | cons (t : Sur) (r : SurL)
  inductive SurC
    | nil
    | null (tag : Option String) (r : SurC)
    | cons (tag : Option String) (t : Sur) (r : SurC)
end

mutual
  /-- the tree every spelling of `t` normalises to -/
  def tree : Sur → T
    | .named n args => .simple n (treeL args)
    | .opt t => .gen (.null none (single (tree t))) .scalar
    | .union cs => .gen (treeC cs) .scalar
    | .vector t len => withDim (tree t) (.vector len)
    | .array t dims => withDim (tree t) (.array dims)
    | .map k v => withDim (tree v) (.map (tree k))
  def treeL : SurL → TL
    | .nil => .nil
    | .cons t r => .cons (tree t) (treeL r)
  def treeC : SurC → CL
    | .nil => .nil
    | .null tag r => .null tag (treeC r)
    | .cons tag t r => .cons tag (tree t) (treeC r)
end

/-- strip outer redundant parentheses -/
def unparen : S → S
  | .sub s .nil => unparen s
  | s => s

def Tails.unsnoc : Tails → Option (Tails × Tail)
  | .nil => none
  | .cons t .nil => some (.nil, t)
  | .cons t r =>
    match r.unsnoc with
    | some (r', x) => some (.cons t r', x)
    | none => none

/-- split off the outermost (last) tail -/
def S.unsnoc : S → Option (S × Tail)
  | .named n a ts =>
    match ts.unsnoc with
    | some (ts', x) => some (.named n a ts', x)
    | none => none
  | .sub s ts =>
    match ts.unsnoc with
    | some (ts', x) => some (.sub s ts', x)
    | none => none

def dimsOpt (dims : List Dim) : Option (List Dim) := if dims.isEmpty then none else some dims

mutual
  /-- `s` is a shorthand spelling of `t` -/
  def isShort : Sur → S → Bool
    | .named n args, s =>
      match unparen s with
      | .named n' a .nil => n == n' && isShortL args a
      | _ => false
    | .opt t, s =>
      match (unparen s).unsnoc with
      | some (s0, .optional) => isShort t s0
      | _ => false
    | .union _, _ => false
    | .vector t len, s =>
      match (unparen s).unsnoc with
      | some (s0, .vector len') => len == len' && isShort t s0
      | _ => false
    | .array t dims, s =>
      match (unparen s).unsnoc with
      | some (s0, .array ds) => dims == dimsOpt ds && isShort t s0
      | _ => false
    | .map k v, s =>
      match (unparen s).unsnoc with
      | some (s0, .mapValue sv) => isShort k s0 && isShort v sv
      | _ => false
  def isShortL : SurL → SL → Bool
    | .nil, .nil => true
    | .cons t r, .cons s r' => isShort t s && isShortL r r'
    | _, _ => false
end

def SurC.isSingleUntagged : SurC → Bool
  | .cons none _ .nil => true
  | _ => false

def Y.isNull : Y → Bool
  | .null => true
  | _ => false

mutual
  /-- `y` is a spelling (shorthand, expanded, or any mixture) of `t` -/
  def isSpelling : Sur → Y → Bool
    | t, .str s => isShort t s
    | .named n args, .generic n' ys => n == n' && isSpellingL args ys
    | .opt t, .seq (.cons .null (.cons y .nil)) => isSpelling t y
    | .union cs, .seq ys => !cs.isSingleUntagged && isSeqCases cs ys
    | .union cs, .union yc => isTaggedCases cs yc
    | .vector t len, .vector items len' => len == len' && isSpelling t items
    | .array t dims, .array items dims' => dims == dims' && isSpelling t items
    | .array t dims, .arrayN items n => dims == some (List.replicate n ⟨none, none⟩) && isSpelling t items
    | .map k v, .map ky vy => isSpelling k ky && isSpelling v vy
    | _, _ => false
  def isSpellingL : SurL → YL → Bool
    | .nil, .nil => true
    | .cons t r, .cons y r' => isSpelling t y && isSpellingL r r'
    | _, _ => false
  def isSeqCases : SurC → YL → Bool
    | .nil, .nil => true
    | .null none r, .cons .null r' => isSeqCases r r'
    | .cons none t r, .cons y r' => !y.isNull && isSpelling t y && isSeqCases r r'
    | _, _ => false
  def isTaggedCases : SurC → YC → Bool
    | .nil, .nil => true
    | .null (some tag) r, .cons tag' .null r' => tag == tag' && isTaggedCases r r'
    | .cons (some tag) t r, .cons tag' y r' => tag == tag' && !y.isNull && isSpelling t y && isTaggedCases r r'
    | _, _ => false
end

/-- the front end's tree for a YAML node, as consumers see it -/
def sem (y : Y) : Option T := (convY y).map norm

end Yardl.Syntax
