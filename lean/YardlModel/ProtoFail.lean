import YardlModel.Proto

/-!
  YardlModel.ProtoFail — writers whose *implementation* of a step fails.

  The generated `write_<step>` / `Write<Step>` first checks the state, then calls the implementation
  (`_write_<step>` / `Write<Step>Impl`: serialization, I/O), then advances the state. When the
  implementation raises (a value out of range, an I/O error) the step has not been written and the
  caller may go on using the writer:

  * C++: nothing has changed;
  * Python: a stream that the call ended implicitly (`self._end_stream()` ran, the end marker is in the
    output) **stays ended** — `self._state = 2i` is stored before the implementation is called — so the
    stream cannot be written to again and a retry does not end it twice.

  `WOpF.fail i` is a write call on step `i` whose implementation raises; `none` = the call is rejected
  by the state check (the implementation is not reached).
-/

namespace Yardl.Proto

inductive WOpF
  | op (o : WOp)
  | fail (i : Nat)
  deriving DecidableEq, Repr

def specWcppF (p : Shape) (s : WPos) : WOpF → Option WPos
  | .op o => specWcpp p s o
  | .fail i => if i = s.k ∧ i < p.length then some s else none

def cppWF (p : Shape) (st : Nat) : WOpF → Option Nat
  | .op o => cppW p st o
  | .fail i => if st = i ∧ i < p.length then some st else none

def specWpyF (p : Shape) (s : WPos) : WOpF → Option WPos
  | .op o => specWpy p s o
  | .fail i =>
    if i < p.length then
      if i = s.k then some s
      else if i = s.k + 1 ∧ s.openS then some ⟨i, false⟩     -- the previous stream has been ended, step `i` is still to be written
      else none
    else none

def pyWF (p : Shape) (st : Nat) : WOpF → Option Nat
  | .op o => pyW p st o
  | .fail i =>
    if i < p.length then
      if i > 0 ∧ st = 2 * i - 1 then some (2 * i)            -- `self._end_stream(); self._state = 2i` happened before the failure
      else if isStream p i then (if st = 2 * i ∨ st = 2 * i + 1 then some st else none)
      else (if st = 2 * i then some st else none)
    else none

def runWF (f : Nat → WOpF → Option Nat) : Nat → List WOpF → Option Nat
  | st, [] => some st
  | st, op :: ops => match f st op with
    | none => none
    | some st' => runWF f st' ops

def runWSF (f : WPos → WOpF → Option WPos) : WPos → List WOpF → Option WPos
  | s, [] => some s
  | s, op :: ops => match f s op with
    | none => none
    | some s' => runWSF f s' ops

end Yardl.Proto
