/-!
  YardlModel.Cli — `yardl generate` as a sequence of fallible calls over an abstract file system
  (internal/cmd/generatecommand.go `generateImpl`). The list of calls, their order and what happens
  to each error come from `YardlGenerated.Pipeline` (go/ast, regenerated on every run).

  A call either is known not to touch the output directories (`pure`) or may write (`writer`);
  any callee not in the known-pure list is treated as a writer (conservative).
-/

namespace Yardl.Cli

/-- callees of `generateImpl` known not to write under any output directory -/
def pureCallees : List String := ["os.Getwd", "packaging.LoadPackage", "updatePackageInfoFromArgs", "validatePackage"]

structure Call where
  name : String
  errReturned : Bool     -- `if err != nil { return …, err }`
  deriving Repr

def Call.writes (c : Call) : Bool := !(pureCallees.contains c.name)

def ofTable (t : List (String × String × Bool)) : List Call :=
  t.map fun r => { name := r.1, errReturned := r.2.1 == "returned" }

/-- Abstract file system: what the output directories contain (content + modification stamp). -/
abbrev FS := List (String × Nat × Nat)

/-- Run the calls: `fails i` says whether the i-th call returns an error, `effect i` what a
    writing call does to the file system. Returns the final file system and whether the command
    succeeds (exit status 0). -/
def runFrom (fails : Nat → Bool) (effect : Nat → FS → FS) : Nat → List Call → FS → FS × Bool
  | _, [], fs => (fs, true)
  | i, c :: cs, fs =>
    if fails i then
      if c.errReturned then ((if c.writes then effect i fs else fs), false)   -- a failing writer may have written partially
      else runFrom fails effect (i + 1) cs (if c.writes then effect i fs else fs)
    else runFrom fails effect (i + 1) cs (if c.writes then effect i fs else fs)

def run (fails : Nat → Bool) (effect : Nat → FS → FS) (cs : List Call) (fs : FS) : FS × Bool :=
  runFrom fails effect 0 cs fs

end Yardl.Cli
