/-
  YardlModel.Wire — specification of yardl's compact binary format *as implemented*
  (docs/reference/binary.md; tooling/internal/cpp/include/detail/binary/serializers.h;
  tooling/internal/python/static_files/_binary.py).

  Core-only (no Mathlib) so that it links into the `wiredrv` executable.

  Mirrors:
    encVar/decVar       CodedOutputStream::WriteVarInt / CodedInputStream::ReadVarInteger*
    zigzag/unzigzag     ZigZagEncode32/64, ZigZagDecode32/64 (as mathematical functions on in-range ints)
    encLE/decLE         WriteFixedInteger / memcpy of little-endian scalars
    encPrim/decPrim     WriteInteger<1,2,4,8 bytes>, WriteFloatingPoint, WriteString, WriteDate/Time/DateTime
    enc/dec             the composition chosen by typeRwFunction (cpp/binary/binary.go) and
                        typeSerializer (python/binary/binary.go)
-/

namespace Yardl

abbrev Bytes := List UInt8

inductive Prim
  | bool | int8 | int16 | int32 | int64 | uint8 | uint16 | uint32 | uint64 | size
  | float32 | float64 | complexfloat32 | complexfloat64 | string | date | time | datetime
  deriving DecidableEq, Repr, Inhabited

inductive ArrKind
  | dynamic
  | rank (n : Nat)
  | fixed (dims : List Nat)
  deriving DecidableEq, Repr, Inhabited

mutual
  /-- Closed, resolved wire type (aliases unfolded, generics substituted). -/
  inductive Ty
    | prim (p : Prim)
    | enum (base : Prim) (isFlags : Bool) (syms : List (String × Int))
    | record (fs : Fields)
    | optional (t : Ty)
    /-- `hasNull`: the first case is `null`; `cases` are the non-null cases (tag, type). -/
    | union (hasNull : Bool) (cases : Fields)
    | vector (t : Ty) (len : Option Nat)
    | array (t : Ty) (k : ArrKind)
    | map (k : Ty) (v : Ty)
  inductive Fields
    | nil
    | cons (name : String) (t : Ty) (rest : Fields)
end

instance : Inhabited Ty := ⟨.prim .bool⟩

/-- Values. Floats are opaque bit patterns; strings are UTF-8 byte lists. -/
inductive Val
  | bool (b : Bool)
  | int (i : Int)
  | f32 (bits : Nat)
  | f64 (bits : Nat)
  | c32 (re im : Nat)
  | c64 (re im : Nat)
  | str (bytes : List UInt8)
  | none
  | some (v : Val)
  /-- `idx` counts the non-null cases from 0. -/
  | case (idx : Nat) (v : Val)
  | list (vs : List Val)
  | arr (shape : List Nat) (vs : List Val)
  | map (kvs : List (Val × Val))
  | record (vs : List Val)

instance : Inhabited Val := ⟨.none⟩

/-! ### Primitive encodings -/

/-- LEB128 ("varint"). -/
def encVar (n : Nat) : Bytes :=
  if n < 128 then [UInt8.ofNat n] else UInt8.ofNat (n % 128 + 128) :: encVar (n / 128)
termination_by n
decreasing_by omega

def decVar : Bytes → Option (Nat × Bytes)
  | [] => none
  | b :: rest =>
    if b.toNat < 128 then some (b.toNat, rest)
    else match decVar rest with
      | none => none
      | some (n, r) => some (b.toNat - 128 + 128 * n, r)

def zigzag (i : Int) : Nat :=
  if 0 ≤ i then (2 * i).toNat else (-2 * i - 1).toNat

def unzigzag (n : Nat) : Int :=
  if n % 2 = 0 then (n / 2 : Nat) else -(((n + 1) / 2 : Nat) : Int)

/-- `w` little-endian bytes of `n`. -/
def encLE : Nat → Nat → Bytes
  | 0, _ => []
  | w + 1, n => UInt8.ofNat (n % 256) :: encLE w (n / 256)

def decLE : Nat → Bytes → Option (Nat × Bytes)
  | 0, bs => some (0, bs)
  | _ + 1, [] => none
  | w + 1, b :: rest =>
    match decLE w rest with
    | none => none
    | some (n, r) => some (b.toNat + 256 * n, r)

def takeN : Nat → Bytes → Option (Bytes × Bytes)
  | 0, bs => some ([], bs)
  | _ + 1, [] => none
  | n + 1, b :: rest =>
    match takeN n rest with
    | none => none
    | some (t, r) => some (b :: t, r)

/-- Inclusive integer range of the integer-like primitives (as implemented). -/
def Prim.range : Prim → Option (Int × Int)
  | .int8 => some (-128, 127)
  | .int16 => some (-32768, 32767)
  | .int32 => some (-2147483648, 2147483647)
  | .int64 => some (-9223372036854775808, 9223372036854775807)
  | .uint8 => some (0, 255)
  | .uint16 => some (0, 65535)
  | .uint32 => some (0, 4294967295)
  | .uint64 => some (0, 18446744073709551615)
  | .size => some (0, 18446744073709551615)
  | .date => some (-9223372036854775808, 9223372036854775807)
  | .time => some (-9223372036854775808, 9223372036854775807)
  | .datetime => some (-9223372036854775808, 9223372036854775807)
  | _ => none

def Prim.isSigned : Prim → Bool
  | .int8 | .int16 | .int32 | .int64 | .date | .time | .datetime => true
  | _ => false

def primHasType : Prim → Val → Bool
  | .bool, .bool _ => true
  | .float32, .f32 b => b < 4294967296
  | .float64, .f64 b => b < 18446744073709551616
  | .complexfloat32, .c32 r i => r < 4294967296 && i < 4294967296
  | .complexfloat64, .c64 r i => r < 18446744073709551616 && i < 18446744073709551616
  | .string, .str _ => true
  | p, .int i =>
    match p.range with
    | some (lo, hi) => lo ≤ i && i ≤ hi
    | none => false
  | _, _ => false

def encPrim : Prim → Val → Bytes
  | .bool, .bool b => [if b then 1 else 0]
  | .int8, .int i => [UInt8.ofNat (i % 256).toNat]
  | .uint8, .int i => [UInt8.ofNat i.toNat]
  | .int16, .int i | .int32, .int i | .int64, .int i
  | .date, .int i | .time, .int i | .datetime, .int i => encVar (zigzag i)
  | .uint16, .int i | .uint32, .int i | .uint64, .int i | .size, .int i => encVar i.toNat
  | .float32, .f32 b => encLE 4 b
  | .float64, .f64 b => encLE 8 b
  | .complexfloat32, .c32 r i => encLE 4 r ++ encLE 4 i
  | .complexfloat64, .c64 r i => encLE 8 r ++ encLE 8 i
  | .string, .str bs => encVar bs.length ++ bs
  | _, _ => []

def decPrim : Prim → Bytes → Option (Val × Bytes)
  | .bool, bs => match bs with
    | [] => none
    | b :: r => some (.bool (b != 0), r)
  | .int8, bs => match bs with
    | [] => none
    | b :: r => some (.int (if b.toNat < 128 then (b.toNat : Int) else (b.toNat : Int) - 256), r)
  | .uint8, bs => match bs with
    | [] => none
    | b :: r => some (.int b.toNat, r)
  | .int16, bs | .int32, bs | .int64, bs | .date, bs | .time, bs | .datetime, bs =>
    match decVar bs with
    | none => none
    | some (n, r) => some (.int (unzigzag n), r)
  | .uint16, bs | .uint32, bs | .uint64, bs | .size, bs =>
    match decVar bs with
    | none => none
    | some (n, r) => some (.int n, r)
  | .float32, bs => match decLE 4 bs with
    | none => none
    | some (n, r) => some (.f32 n, r)
  | .float64, bs => match decLE 8 bs with
    | none => none
    | some (n, r) => some (.f64 n, r)
  | .complexfloat32, bs => match decLE 4 bs with
    | none => none
    | some (re, r) => match decLE 4 r with
      | none => none
      | some (im, r') => some (.c32 re im, r')
  | .complexfloat64, bs => match decLE 8 bs with
    | none => none
    | some (re, r) => match decLE 8 r with
      | none => none
      | some (im, r') => some (.c64 re im, r')
  | .string, bs => match decVar bs with
    | none => none
    | some (n, r) => match takeN n r with
      | none => none
      | some (s, r') => some (.str s, r')

/-! ### Composite encodings -/

def encList (f : Val → Bytes) : List Val → Bytes
  | [] => []
  | v :: vs => f v ++ encList f vs

def encKVs (fk fv : Val → Bytes) : List (Val × Val) → Bytes
  | [] => []
  | (k, v) :: r => fk k ++ fv v ++ encKVs fk fv r

def encDims : List Nat → Bytes
  | [] => []
  | d :: ds => encVar d ++ encDims ds

def prod : List Nat → Nat
  | [] => 1
  | d :: ds => d * prod ds

mutual
  def enc : Ty → Val → Bytes
    | .prim p, v => encPrim p v
    | .enum b _ _, v => encPrim b v
    | .record fs, v =>
      match v with
      | .record vs => encFields fs vs
      | _ => []
    | .optional t, v =>
      match v with
      | .none => [0]
      | .some x => 1 :: enc t x
      | _ => []
    | .union hn cs, v =>
      match v with
      | .none => encVar 0
      | .case i x => encVar (i + (if hn then 1 else 0)) ++ encCase cs i x
      | _ => []
    | .vector t len, v =>
      match v with
      | .list vs =>
        (match len with
         | none => encVar vs.length
         | some _ => []) ++ encList (enc t) vs
      | _ => []
    | .array t k, v =>
      match v with
      | .arr shape vs =>
        (match k with
         | .dynamic => encVar shape.length ++ encDims shape
         | .rank _ => encDims shape
         | .fixed _ => []) ++ encList (enc t) vs
      | _ => []
    | .map kt vt, v =>
      match v with
      | .map kvs => encVar kvs.length ++ encKVs (enc kt) (enc vt) kvs
      | _ => []
  def encFields : Fields → List Val → Bytes
    | .nil, _ => []
    | .cons _ t rest, vs =>
      match vs with
      | [] => []
      | v :: vs' => enc t v ++ encFields rest vs'
  def encCase : Fields → Nat → Val → Bytes
    | .nil, _, _ => []
    | .cons _ t rest, i, x =>
      match i with
      | 0 => enc t x
      | j + 1 => encCase rest j x
end

def decList (f : Bytes → Option (Val × Bytes)) : Nat → Bytes → Option (List Val × Bytes)
  | 0, bs => some ([], bs)
  | n + 1, bs =>
    match f bs with
    | none => none
    | some (v, r) =>
      match decList f n r with
      | none => none
      | some (vs, r') => some (v :: vs, r')

def decKVs (fk fv : Bytes → Option (Val × Bytes)) : Nat → Bytes → Option (List (Val × Val) × Bytes)
  | 0, bs => some ([], bs)
  | n + 1, bs =>
    match fk bs with
    | none => none
    | some (k, r) =>
      match fv r with
      | none => none
      | some (v, r') =>
        match decKVs fk fv n r' with
        | none => none
        | some (kvs, r'') => some ((k, v) :: kvs, r'')

def decDims : Nat → Bytes → Option (List Nat × Bytes)
  | 0, bs => some ([], bs)
  | n + 1, bs =>
    match decVar bs with
    | none => none
    | some (d, r) =>
      match decDims n r with
      | none => none
      | some (ds, r') => some (d :: ds, r')

mutual
  def dec : Ty → Bytes → Option (Val × Bytes)
    | .prim p, bs => decPrim p bs
    | .enum b _ _, bs => decPrim b bs
    | .record fs, bs =>
      match decFields fs bs with
      | none => none
      | some (vs, r) => some (.record vs, r)
    | .optional t, bs =>
      match bs with
      | [] => none
      | b :: r =>
        if b = 0 then some (.none, r)
        else match dec t r with
          | none => none
          | some (v, r') => some (.some v, r')
    | .union hn cs, bs =>
      match decVar bs with
      | none => none
      | some (i, r) =>
        if hn then
          (match i with
           | 0 => some (.none, r)
           | j + 1 =>
             match decCase cs j r with
             | none => none
             | some (v, r') => some (.case j v, r'))
        else
          (match decCase cs i r with
           | none => none
           | some (v, r') => some (.case i v, r'))
    | .vector t len, bs =>
      match len with
      | none =>
        (match decVar bs with
         | none => none
         | some (n, r) =>
           match decList (dec t) n r with
           | none => none
           | some (vs, r') => some (.list vs, r'))
      | some n =>
        (match decList (dec t) n bs with
         | none => none
         | some (vs, r') => some (.list vs, r'))
    | .array t k, bs =>
      match k with
      | .dynamic =>
        (match decVar bs with
         | none => none
         | some (nd, r) =>
           match decDims nd r with
           | none => none
           | some (shape, r') =>
             match decList (dec t) (prod shape) r' with
             | none => none
             | some (vs, r'') => some (.arr shape vs, r''))
      | .rank nd =>
        (match decDims nd bs with
         | none => none
         | some (shape, r') =>
           match decList (dec t) (prod shape) r' with
           | none => none
           | some (vs, r'') => some (.arr shape vs, r''))
      | .fixed dims =>
        (match decList (dec t) (prod dims) bs with
         | none => none
         | some (vs, r'') => some (.arr dims vs, r''))
    | .map kt vt, bs =>
      match decVar bs with
      | none => none
      | some (n, r) =>
        match decKVs (dec kt) (dec vt) n r with
        | none => none
        | some (kvs, r') => some (.map kvs, r')
  def decFields : Fields → Bytes → Option (List Val × Bytes)
    | .nil, bs => some ([], bs)
    | .cons _ t rest, bs =>
      match dec t bs with
      | none => none
      | some (v, r) =>
        match decFields rest r with
        | none => none
        | some (vs, r') => some (v :: vs, r')
  def decCase : Fields → Nat → Bytes → Option (Val × Bytes)
    | .nil, _, _ => none
    | .cons _ t rest, i, bs =>
      match i with
      | 0 => dec t bs
      | j + 1 => decCase rest j bs
end

/-! ### Typing -/

def allList (f : Val → Bool) : List Val → Bool
  | [] => true
  | v :: vs => f v && allList f vs

def allKVs (fk fv : Val → Bool) : List (Val × Val) → Bool
  | [] => true
  | (k, v) :: r => fk k && fv v && allKVs fk fv r

mutual
  def HasType : Ty → Val → Bool
    | .prim p, v => primHasType p v
    | .enum b _ _, v =>
      match v with
      | .int _ => primHasType b v
      | _ => false
    | .record fs, v =>
      match v with
      | .record vs => HasFields fs vs
      | _ => false
    | .optional t, v =>
      match v with
      | .none => true
      | .some x => HasType t x
      | _ => false
    | .union hn cs, v =>
      match v with
      | .none => hn
      | .case i x => HasCase cs i x
      | _ => false
    | .vector t len, v =>
      match v with
      | .list vs =>
        (match len with
         | none => true
         | some n => vs.length == n) && allList (HasType t) vs
      | _ => false
    | .array t k, v =>
      match v with
      | .arr shape vs =>
        (match k with
         | .dynamic => true
         | .rank n => shape.length == n
         | .fixed dims => shape == dims) && vs.length == prod shape && allList (HasType t) vs
      | _ => false
    | .map kt vt, v =>
      match v with
      | .map kvs => allKVs (HasType kt) (HasType vt) kvs
      | _ => false
  def HasFields : Fields → List Val → Bool
    | .nil, vs => vs.isEmpty
    | .cons _ t rest, vs =>
      match vs with
      | [] => false
      | v :: vs' => HasType t v && HasFields rest vs'
  def HasCase : Fields → Nat → Val → Bool
    | .nil, _, _ => false
    | .cons _ t rest, i, x =>
      match i with
      | 0 => HasType t x
      | j + 1 => HasCase rest j x
end

/-! ### Streams and protocols -/

/-- A stream step on the wire: blocks `(count > 0, items…)*` then a `0` count.
    `part` is the block partition chosen by the writer. -/
def encBlocks (t : Ty) : List Nat → List Val → Bytes
  | [], _ => encVar 0
  | n :: part, items =>
    if n = 0 then encBlocks t part items
    else encVar n ++ encList (enc t) (items.take n) ++ encBlocks t part (items.drop n)

/-- Reference stream decoder; `fuel` bounds the number of blocks (any valid stream of
    `k` blocks decodes with fuel `k+1`). -/
def decBlocks (t : Ty) : Nat → Bytes → Option (List Val × Bytes)
  | 0, _ => none
  | fuel + 1, bs =>
    match decVar bs with
    | none => none
    | some (n, r) =>
      if n = 0 then some ([], r)
      else match decList (dec t) n r with
        | none => none
        | some (vs, r') =>
          match decBlocks t fuel r' with
          | none => none
          | some (ws, r'') => some (vs ++ ws, r'')

structure Step where
  name : String
  ty : Ty
  isStream : Bool

abbrev Proto := List Step

/-- Value of a protocol step: a single value, or the stream's items. -/
inductive StepVal
  | single (v : Val)
  | stream (items : List Val)

def magic : Bytes := [0x79, 0x61, 0x72, 0x64, 0x6c]  -- "yardl"

def encHeader (schema : Bytes) : Bytes :=
  magic ++ encLE 4 1 ++ encVar schema.length ++ schema

/-- Protocol body; `parts` gives one block partition per step (ignored for non-stream steps). -/
def encSteps : Proto → List (List Nat) → List StepVal → Bytes
  | [], _, _ => []
  | s :: ss, parts, vs =>
    match vs with
    | [] => []
    | v :: vs' =>
      (match v with
       | .single x => enc s.ty x
       | .stream items => encBlocks s.ty (parts.headD []) items) ++ encSteps ss parts.tail vs'

def decSteps : Proto → Nat → Bytes → Option (List StepVal × Bytes)
  | [], _, bs => some ([], bs)
  | s :: ss, fuel, bs =>
    if s.isStream then
      match decBlocks s.ty fuel bs with
      | none => none
      | some (items, r) =>
        match decSteps ss fuel r with
        | none => none
        | some (vs, r') => some (.stream items :: vs, r')
    else
      match dec s.ty bs with
      | none => none
      | some (v, r) =>
        match decSteps ss fuel r with
        | none => none
        | some (vs, r') => some (.single v :: vs, r')

end Yardl

namespace Yardl

/-- Reference header decoder: `some (schema, rest)` iff the input starts with a well-formed header. -/
def decHeader (bs : Bytes) : Option (Bytes × Bytes) :=
  match takeN 5 bs with
  | none => none
  | some (m, r) =>
    if m ≠ magic then none
    else match decLE 4 r with
      | none => none
      | some (v, r') =>
        if v ≠ 1 then none
        else match decVar r' with
          | none => none
          | some (n, r'') => takeN n r''

def hasStepVals : Proto → List StepVal → Bool
  | [], vs => vs.isEmpty
  | s :: ss, vs =>
    match vs with
    | [] => false
    | v :: vs' =>
      (match v with
       | .single x => !s.isStream && HasType s.ty x
       | .stream items => s.isStream && allList (HasType s.ty) items) && hasStepVals ss vs'

end Yardl
