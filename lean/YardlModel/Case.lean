/-!
  YardlModel.Case — the case conversions of `tooling/internal/formatting/formatting.go`
  (`ToSnakeCase`, `ToUpperSnakeCase`, `ToPascalCase`) over the alphabet `[A-Za-z0-9_]`, and the
  identifier escaping of the back ends on top of them.

  `delimitWithUnderscores` is two regular-expression passes:

  1. `((?<=\p{Ll})(\p{Lu}))|(?<!(\b|_)\p{Ll})((?<=\p{Ll})(\d))|(?<!\b|_)(\p{Lu})(?=\p{Ll})`, replaced by `_$&`.
     Every alternative consumes exactly one character and looks around it in the *original* string, so
     the pass puts an underscore in front of the character at index `i` iff `brk` holds there:
       * an upper-case letter right after a lower-case letter;
       * a digit right after a lower-case letter that is not the first letter of a word
         (inside the alphabet the only word boundary is the start of the string: `_` is a word character);
       * an upper-case letter followed by a lower-case letter, not at the start and not after `_`.
  2. `_\d+`: the underscore is removed again when the (maximal) digit group is a power of two greater
     than 4 (`int32`, `base64`); `strconv.Atoi`'s error is ignored, an out-of-range group reads as
     `MaxInt64`, which is not a power of two.

  Strings are lists of character codes (`List Nat`: kernel evaluation over `Char` literals is two orders of magnitude slower, and the
  reserved tables have hundreds of entries). Characters outside the alphabet are not modelled (`inAlphabet`): the
  correspondence run only compares names inside it (the validator admits `[a-zA-Z0-9]` only).
-/

namespace Yardl.Case

/-- the code of `_` -/
abbrev us : Nat := 95

/-- a string literal as character codes -/
def str (s : String) : List Nat := s.toList.map Char.toNat

def isLo (c : Nat) : Bool := 97 ≤ c && c ≤ 122
def isUp (c : Nat) : Bool := 65 ≤ c && c ≤ 90
def isDg (c : Nat) : Bool := 48 ≤ c && c ≤ 57
def isAlnum (c : Nat) : Bool := isLo c || isUp c || isDg c
def inAlphabet (c : Nat) : Bool := isAlnum c || c == us

def toLo (c : Nat) : Nat := if isUp c then c + 32 else c
def toUp (c : Nat) : Nat := if isLo c then c - 32 else c

/-- does pass 1 put an underscore in front of `c`? `p2 p1`: the two characters before it, `n`: the one after -/
def brk (p2 p1 : Option Nat) (c : Nat) (n : Option Nat) : Bool :=
  match p1 with
  | none => false
  | some p =>
    (isUp c && isLo p) ||
    (isDg c && isLo p && (match p2 with | none => false | some q => q != us)) ||
    (isUp c && p != us && (match n with | some x => isLo x | none => false))

def pass1 : Option Nat → Option Nat → List Nat → List Nat
  | _, _, [] => []
  | p2, p1, c :: rest =>
    if brk p2 p1 c rest.head? then us :: c :: pass1 p1 (some c) rest else c :: pass1 p1 (some c) rest

def digitsVal (ds : List Nat) : Nat := ds.foldl (fun a d => 10 * a + (d - 48)) 0

/-- `i > 4 && (i & (i-1)) == 0` on what `strconv.Atoi` returns -/
def joinsDigits (n : Nat) : Bool := 4 < n && n < 2 ^ 63 && (n &&& (n - 1)) == 0

/-- is the underscore in front of `rest` removed by pass 2? -/
def dropsUnderscore (rest : List Nat) : Bool :=
  let ds := rest.takeWhile isDg
  !ds.isEmpty && joinsDigits (digitsVal ds)

/-- pass 2; the digits after a removed underscore are copied by the default branch (they cannot start a match) -/
def pass2 : List Nat → List Nat
  | [] => []
  | c :: rest => if c == us && dropsUnderscore rest then pass2 rest else c :: pass2 rest

def delimit (s : List Nat) : List Nat := pass2 (pass1 none none s)
def snake (s : List Nat) : List Nat := (delimit s).map toLo
def upperSnake (s : List Nat) : List Nat := (delimit s).map toUp

/-- `strings.FieldsFunc(s, r == us)` -/
def fieldsAux : List Nat → List Nat → List (List Nat)
  | cur, [] => if cur.isEmpty then [] else [cur.reverse]
  | cur, c :: rest =>
    if c == us then (if cur.isEmpty then fieldsAux [] rest else cur.reverse :: fieldsAux [] rest)
    else fieldsAux (c :: cur) rest

def fields (s : List Nat) : List (List Nat) := fieldsAux [] s

def cap : List Nat → List Nat
  | [] => []
  | c :: r => toUp c :: r

def pascal (s : List Nat) : List Nat :=
  if s.contains us then (fields s).flatMap cap else cap s

/-! ### identifier escaping -/

/-- the escaping all back ends used, and all but the C++ field names still use: suffix when reserved -/
def ident (reserved : List (List Nat)) (suffix cased : List Nat) : List Nat :=
  if reserved.contains cased then cased ++ suffix else cased

/-- `s` without the suffix `sfx`, if it ends with it -/
def stripSuffix (sfx s : List Nat) : Option (List Nat) :=
  if sfx.length ≤ s.length ∧ s.drop (s.length - sfx.length) = sfx then some (s.take (s.length - sfx.length)) else none

/-- C++ field names (`needsFieldSuffix`): a name is suffixed when it is reserved **or** already looks like a suffixed name
    (`class_field`, from the field `classField`, next to the field `class`) -/
def needsF (reserved : List (List Nat)) (sfx : List Nat) : Nat → List Nat → Bool
  | 0, s => reserved.contains s
  | n + 1, s => reserved.contains s ||
      (match stripSuffix sfx s with
       | some t => needsF reserved sfx n t
       | none => false)

def needs (reserved : List (List Nat)) (sfx s : List Nat) : Bool := needsF reserved sfx s.length s

def identRec (reserved : List (List Nat)) (sfx cased : List Nat) : List Nat :=
  if needs reserved sfx cased then cased ++ sfx else cased

/-! ### names the generated C++ protocol classes derive from a step name (`cpp/common`: `Protocol*MethodName`) -/

def cppWriterMethods (step : List Nat) (isStream : Bool) : List (List Nat) :=
  let p := pascal step
  [str "Write" ++ p, str "Write" ++ p ++ str "Impl"] ++
  (if isStream then [str "End" ++ p, str "End" ++ p ++ str "Impl"] else [])

def cppReaderMethods (step : List Nat) : List (List Nat) :=
  let p := pascal step
  [str "Read" ++ p, str "Read" ++ p ++ str "Impl"]

/-! ### the member-name rules of the validator (`validateRecordFieldNames` / `validateProtocolSequenceNames`)

a name must match `^[a-z][a-zA-Z0-9]{0,63}$`, must not repeat an earlier name of the same record / protocol, and its snake_case form must
not repeat the snake_case form of an earlier one (454b119). `membersOk` = no diagnostic from the loop over one record's fields and
computed fields (the same two tables), or over one protocol's steps. -/

/-- `memberNameRegex` -/
def memberName : List Nat → Bool
  | [] => false
  | c :: r => isLo c && r.all isAlnum && decide (r.length ≤ 63)

/-- no diagnostic from the loop: `seenNames` = `fields`, `seenSnake` = the keys of `snakeCased` -/
def membersOk : List (List Nat) → List (List Nat) → List (List Nat) → Bool
  | [], _, _ => true
  | n :: rest, seenNames, seenSnake =>
    memberName n && !seenNames.contains n && !seenSnake.contains (snake n) && membersOk rest (n :: seenNames) (snake n :: seenSnake)

end Yardl.Case
