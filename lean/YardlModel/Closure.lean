/-!
  YardlModel.Closure — the traversal by which `GetProtocolSchema` (pkg/dsl/protocolschema.go)
  collects the named types a protocol transitively uses: a depth-first visit with a visited set
  (`visitedTypeDefinitions`), followed by a sort by qualified name.

  Names are natural numbers; `refs n` lists the names a definition mentions (fields, type
  arguments, alias target, enum base). `none` = fuel exhausted (never happens with
  `fuel > number of definitions`; the driver checks that).
-/

namespace Yardl.Closure

abbrev Refs := Nat → List Nat

def foldV (f : Nat → List Nat → Option (List Nat)) : List Nat → List Nat → Option (List Nat)
  | [], vis => some vis
  | n :: ns, vis =>
    match f n vis with
    | none => none
    | some vis' => foldV f ns vis'

def visit (refs : Refs) : Nat → Nat → List Nat → Option (List Nat)
  | 0, _, _ => none
  | d + 1, n, vis => if n ∈ vis then some vis else foldV (visit refs d) (refs n) (n :: vis)

/-- The named types collected for a protocol whose steps mention `roots`. -/
def closure (refs : Refs) (fuel : Nat) (roots : List Nat) : Option (List Nat) :=
  foldV (visit refs fuel) roots []

inductive Reach (refs : Refs) : Nat → Nat → Prop
  | refl (n : Nat) : Reach refs n n
  | step (n m k : Nat) : m ∈ refs n → Reach refs m k → Reach refs n k

end Yardl.Closure
