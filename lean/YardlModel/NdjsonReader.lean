/-!
  YardlModel.NdjsonReader — the line-oriented step reader of the NDJSON readers
  (`yardl::ndjson::ReadProtocolValue` in serializers.h, `NDJsonProtocolReader._read_json_line` in _ndjson.py)
  with its one-line look-ahead, and the way the generated readers drive it: a non-stream step asks once with
  `required = true`; a stream step asks with `required = false` until the answer is "no value".

  A line is a JSON object with one key, the step name; `α` is whatever the value is.
-/

namespace Yardl.Nd

structure St (α : Type) where
  /-- lines not yet read from the stream -/
  lines : List (Nat × α)
  /-- `unused_step_` / `_unused_value`: a line that was read for a stream step but belongs to a later step -/
  unused : Option (Nat × α)

inductive Out (α : Type)
  | value (v : α) (s : St α)
  /-- `false` / `MISSING_SENTINEL`: the stream step has no more items -/
  | none (s : St α)
  /-- "missing protocol step" / "encountered unexpected protocol value" -/
  | error

/-- `ReadProtocolValue(stream, line, stepName, required, unused_step, value)` -/
def readValue {α : Type} (s : St α) (name : Nat) (required : Bool) : Out α :=
  match s.unused with
  | some (k, v) =>
    if k = name then .value v { s with unused := Option.none }
    else if required then .error
    else .none s
  | Option.none =>
    match s.lines with
    | [] => if required then .error else .none s
    | (k, v) :: rest =>
      if k = name then .value v { s with lines := rest }
      else if required then .error
      else .none { lines := rest, unused := some (k, v) }

inductive StepVal (α : Type)
  | single (v : α)
  | stream (vs : List α)

/-- the user's loop over a stream step: read until "no value" -/
def readStream {α : Type} : Nat → St α → Nat → List α → Option (List α × St α)
  | 0, _, _, _ => Option.none
  | fuel + 1, s, name, acc =>
    match readValue s name false with
    | .value v s' => readStream fuel s' name (v :: acc)
    | .none s' => some (acc.reverse, s')
    | .error => Option.none

/-- reading a whole protocol: `steps` = (name, is a stream) in declaration order -/
def readSteps {α : Type} : List (Nat × Bool) → St α → Option (List (StepVal α) × St α)
  | [], s => some ([], s)
  | (name, isStream) :: rest, s =>
    if isStream then
      match readStream (s.lines.length + 2) s name [] with
      | some (vs, s') => (readSteps rest s').map fun p => (StepVal.stream vs :: p.1, p.2)
      | Option.none => Option.none
    else
      match readValue s name true with
      | .value v s' => (readSteps rest s').map fun p => (StepVal.single v :: p.1, p.2)
      | _ => Option.none

/-- what the writer emits: one line per non-stream value, one per stream item -/
def writeLines {α : Type} : List (Nat × Bool) → List (StepVal α) → List (Nat × α)
  | (name, _) :: rest, .single v :: vals => (name, v) :: writeLines rest vals
  | (name, _) :: rest, .stream vs :: vals => vs.map (fun v => (name, v)) ++ writeLines rest vals
  | _, _ => []

/-- the values have the shape of the steps -/
def shaped {α : Type} : List (Nat × Bool) → List (StepVal α) → Bool
  | [], [] => true
  | (_, false) :: rest, .single _ :: vals => shaped rest vals
  | (_, true) :: rest, .stream _ :: vals => shaped rest vals
  | _, _ => false

def namesDistinct : List (Nat × Bool) → Bool
  | [] => true
  | (n, _) :: r => !(r.any fun e => e.1 == n) && namesDistinct r

end Yardl.Nd
