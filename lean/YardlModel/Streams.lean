import YardlModel.Wire

/-!
  YardlModel.Streams — executable models of the buffered coded streams.

  Writers:  `COS` with C++ semantics (`Cpp.*`, coded_stream.h `CodedOutputStream`) and Python
            semantics (`Py.*`, _binary.py `CodedOutputStream`).
  Reader:   `CIS` with C++ semantics (coded_stream.h `CodedInputStream`, after the `fix:` commit
            that makes refills which yield nothing raise).

  The buffer capacity `cap` is a parameter (65536 in production, small in the correspondence
  driver). An unchecked write past the end of the buffer sets `oob`; a read outside the valid
  window `[buffer_ptr_, buffer_end_ptr_)` yields `ROut.bad`. Stale buffer contents are therefore
  never needed: reading them *is* the failure.
-/

namespace Yardl

/-! ## Output -/

structure COS where
  cap : Nat
  buf : Bytes      -- staged bytes: buffer_[0 .. buffer_ptr_)
  out : Bytes      -- bytes handed to the underlying stream so far
  oob : Bool       -- an unchecked write went past the end of the buffer (C++: UB; Python: IndexError)
  deriving Repr

namespace COS

def rem (s : COS) : Nat := s.cap - s.buf.length

/-- `FlushBuffer()` / `flush()`. -/
def flushBuffer (s : COS) : COS :=
  if s.buf.isEmpty then s else { s with out := s.out ++ s.buf, buf := [] }

/-- Unchecked copy into the buffer (`*buffer_ptr_++ = …`, `memcpy`, `pack_into`, `write_byte_no_check`). -/
def push (s : COS) (bs : Bytes) : COS :=
  { s with buf := s.buf ++ bs, oob := s.oob || decide (s.cap < s.buf.length + bs.length) }

/-- What a reader of the underlying stream would see once everything is flushed. -/
def abs (s : COS) : Bytes := s.out ++ s.buf

def Inv (s : COS) : Prop := s.buf.length ≤ s.cap ∧ s.oob = false

end COS

/-- Primitive writer operations issued by the serializers. -/
inductive WOp
  | byte (b : UInt8)          -- C++ WriteByte;  Python ensure_capacity(1); write_byte_no_check
  | byteNoCheck (b : UInt8)   -- Python write_byte_no_check *without* ensure_capacity (no C++ analogue)
  | var32 (n : Nat)           -- C++ WriteVarInt32 (unsigned, already zig-zagged); Python write_unsigned_varint
  | var64 (n : Nat)           -- C++ WriteVarInt64;                                 Python write_unsigned_varint
  | fixed (w : Nat) (n : Nat) -- C++ WriteFixedInteger / Python write(struct): `w` little-endian bytes
  | bytes (bs : Bytes)        -- C++ WriteBytes / Python write_bytes
  | flush
  deriving Repr

def WOp.spec : WOp → Bytes
  | .byte b => [b]
  | .byteNoCheck b => [b]
  | .var32 n => encVar n
  | .var64 n => encVar n
  | .fixed w n => encLE w n
  | .bytes bs => bs
  | .flush => []

/-- Side conditions under which an operation is a legal call (value fits the width written). -/
def WOp.ok (cap : Nat) : WOp → Prop
  | .byte _ => True
  | .byteNoCheck _ => False
  | .var32 n => n < 2 ^ 32
  | .var64 n => n < 2 ^ 64
  | .fixed w _ => w ≤ cap
  | .bytes _ => True
  | .flush => True

namespace Cpp

def writeBytesFuel : Nat → COS → Bytes → COS
  | 0, s, _ => s
  | fuel + 1, s, bs =>
    if bs.length ≤ s.rem then s.push bs
    else
      let s1 := if 0 < s.rem then s.push (bs.take s.rem) else s
      writeBytesFuel fuel s1.flushBuffer (bs.drop s.rem)

def step (s : COS) : WOp → COS
  | .byte b => (if s.rem = 0 then s.flushBuffer else s).push [b]
  | .byteNoCheck b => s.push [b]
  | .var32 n => (if s.rem < 5 then s.flushBuffer else s).push (encVar n)
  | .var64 n => (if s.rem < 10 then s.flushBuffer else s).push (encVar n)
  | .fixed w n => (if s.rem < w then s.flushBuffer else s).push (encLE w n)
  | .bytes bs => writeBytesFuel (bs.length + 2) s bs
  | .flush => s.flushBuffer

def run (s : COS) (ops : List WOp) : COS := ops.foldl step s

end Cpp

namespace Py

def step (s : COS) : WOp → COS
  | .byte b => (if s.rem < 1 then s.flushBuffer else s).push [b]
  | .byteNoCheck b => s.push [b]
  | .var32 n => (if s.rem < 10 then s.flushBuffer else s).push (encVar n)
  | .var64 n => (if s.rem < 10 then s.flushBuffer else s).push (encVar n)
  | .fixed w n => (if s.rem < w then s.flushBuffer else s).push (encLE w n)
  | .bytes bs =>
    if s.rem < bs.length then
      let s1 := s.flushBuffer
      { s1 with out := s1.out ++ bs }       -- written straight to the underlying stream
    else s.push bs
  | .flush => s.flushBuffer

def run (s : COS) (ops : List WOp) : COS := ops.foldl step s

end Py

/-! ## Input (C++) -/

structure CIS where
  cap : Nat
  win : Bytes      -- valid window buffer_[buffer_ptr_ .. buffer_end_ptr_)
  atEof : Bool     -- at_eof_
  src : Bytes      -- what the underlying stream still holds
  deriving Repr

inductive ROut (α : Type)
  | ok (a : α) (s : CIS)
  | eos            -- EndOfStreamException
  | bad            -- a read outside the valid window (stale or out-of-bounds memory)
  | notFinished    -- VerifyFinished: "Stream was not completely read"

namespace CIS

def pending (s : CIS) : Bytes := s.win ++ s.src

def Inv (s : CIS) : Prop := s.win.length ≤ s.cap ∧ (s.atEof = true → s.src = [])

/-- `FillBuffer()`; only ever called with an empty window. `none` = EndOfStreamException. -/
def fill (s : CIS) : Option CIS :=
  if s.atEof then none
  else some { s with win := s.src.take s.cap, src := s.src.drop s.cap,
                     atEof := decide (s.src.length < s.cap) }

/-- `FillBufferOrThrow()`: a refill that yields nothing is a premature end of stream. -/
def fillOrThrow (s : CIS) : Option CIS :=
  match s.fill with
  | none => none
  | some s' => if s'.win.isEmpty then none else some s'

/-- `if (buffer_ptr_ == buffer_end_ptr_) FillBufferOrThrow();` -/
def ensure (s : CIS) : Option CIS :=
  if s.win.isEmpty then s.fillOrThrow else some s

def readByte (s : CIS) : ROut UInt8 :=
  match s.ensure with
  | none => .eos
  | some s1 =>
    match s1.win with
    | [] => .bad
    | b :: w => .ok b { s1 with win := w }

/-- `ReadVarIntegerFastFromArray` on the window: `none` = ran past `buffer_end_ptr_`. -/
def varFast (s : CIS) : ROut Nat :=
  match decVar s.win with
  | none => .bad
  | some (n, w) => .ok n { s with win := w }

/-- The byte-at-a-time loop of `ReadVarIntegerSlow`; returns the consumed LEB128 bytes' value
    as `acc + 2^shift * value`. -/
def varLoop : Nat → CIS → Nat → Nat → ROut Nat
  | 0, _, _, _ => .bad
  | fuel + 1, s, shift, acc =>
    match s.ensure with
    | none => .eos
    | some s1 =>
      match s1.win with
      | [] => .bad
      | b :: w =>
        let acc' := acc + (b.toNat % 128) * 2 ^ shift
        if b.toNat < 128 then .ok acc' { s1 with win := w }
        else varLoop fuel { s1 with win := w } (shift + 7) acc'

def varSlow (s : CIS) : ROut Nat :=
  if s.win.isEmpty then
    match s.fillOrThrow with
    | none => .eos
    | some s1 =>
      if 10 ≤ s1.win.length then s1.varFast
      else varLoop (s1.pending.length + 1) s1 0 0
  else varLoop (s.pending.length + 1) s 0 0

def readVar32 (s : CIS) : ROut Nat :=
  if s.win.length < 5 then s.varSlow else s.varFast

def readVar64 (s : CIS) : ROut Nat :=
  if s.win.length < 10 then s.varSlow else s.varFast

def bytesLoop : Nat → CIS → Nat → Bytes → ROut Bytes
  | 0, _, _, _ => .bad
  | fuel + 1, s, n, acc =>
    if n = 0 then .ok acc s
    else
      match s.ensure with
      | none => .eos
      | some s1 =>
        let k := min n s1.win.length
        bytesLoop fuel { s1 with win := s1.win.drop k } (n - k) (acc ++ s1.win.take k)

def readBytes (s : CIS) (n : Nat) : ROut Bytes := bytesLoop (n + 1) s n []

def leVal : Bytes → Nat
  | [] => 0
  | b :: r => b.toNat + 256 * leVal r

def fixedFast (s : CIS) (w : Nat) : ROut Nat :=
  if w ≤ s.win.length then .ok (leVal (s.win.take w)) { s with win := s.win.drop w } else .bad

def readFixed (s : CIS) (w : Nat) : ROut Nat :=
  if s.win.length < w then
    -- ReadFixedIntegerSlow
    (if s.win.isEmpty then
      match s.fillOrThrow with
      | none => .eos
      | some s1 =>
        if w ≤ s1.win.length then s1.fixedFast w
        else match s1.readBytes w with
          | .ok bs s2 => .ok (leVal bs) s2
          | .eos => .eos
          | .bad => .bad
          | .notFinished => .notFinished
    else match s.readBytes w with
      | .ok bs s2 => .ok (leVal bs) s2
      | .eos => .eos
      | .bad => .bad
      | .notFinished => .notFinished)
  else s.fixedFast w

def verifyFinished (s : CIS) : ROut Unit :=
  if s.atEof then
    (if s.win.isEmpty then .ok () s else .notFinished)
  else if s.win.isEmpty then
    match s.fill with
    | none => .eos
    | some s1 => if s1.atEof && s1.win.isEmpty then .ok () s1 else .notFinished
  else .notFinished

def init (cap : Nat) (src : Bytes) : CIS := { cap := cap, win := [], atEof := false, src := src }

end CIS

end Yardl
