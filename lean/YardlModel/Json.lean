import YardlModel.Wire

/-!
  YardlModel.Json — the documented NDJSON mapping (docs/reference/ndjson.md) as implemented by the
  generated C++ converters (cpp/ndjson/ndjson.go, detail/ndjson/serializers.h) and the Python
  converters (_ndjson.py), and the union tagging rule of `ndjsoncommon.GetJsonDataType`.

  JSON numbers keep their provenance (`int`, 32-bit float bits, 64-bit float bits); decimal
  rendering/parsing of floats is done at the driver boundary (floats are opaque bit patterns).
  Date/time/datetime strings are produced by a formatting function passed as a parameter.
-/

namespace Yardl.Json
open Yardl

inductive J
  | null
  | bool (b : Bool)
  | int (i : Int)
  | f32 (bits : Nat)
  | f64 (bits : Nat)
  | str (s : List UInt8)
  | arr (xs : List J)
  /-- an array holding the entries of a map: the order of its elements is unspecified -/
  | marr (xs : List J)
  | obj (kvs : List (List UInt8 × J))

instance : Inhabited J := ⟨.null⟩

/-- JSON data-type bits of `GetJsonDataType`: null 1, boolean 2, number 4, string 8, array 16, object 32. -/
abbrev Kinds := Nat

def kNull : Kinds := 1
def kBool : Kinds := 2
def kNum : Kinds := 4
def kStr : Kinds := 8
def kArr : Kinds := 16
def kObj : Kinds := 32

def kindOf : J → Kinds
  | .null => kNull
  | .bool _ => kBool
  | .int _ | .f32 _ | .f64 _ => kNum
  | .str _ => kStr
  | .arr _ => kArr
  | .marr _ => kArr
  | .obj _ => kObj

def Prim.kinds : Prim → Kinds
  | .string => kStr
  | .bool => kBool
  | .complexfloat32 | .complexfloat64 => kArr
  | .date | .time | .datetime => kStr + kNum       -- after fix: written as strings (was Number only)
  | _ => kNum

def isStringKey : Ty → Bool
  | .prim .string => true
  | _ => false

/-- `GetJsonDataType` on resolved types. Unions are never asked (cases cannot be unions). -/
def kinds : Ty → Kinds
  | .prim p => Prim.kinds p
  | .enum _ isFlags _ => if isFlags then kArr + kNum else kStr + kNum   -- flags: names, or the number when not a combination of declared flags
  | .record _ => kObj
  | .optional _ => 0
  | .union _ _ => 0
  | .vector _ _ => kArr
  | .array _ (.fixed _) => kArr
  | .array _ _ => kObj
  | .map k _ => if isStringKey k then kObj else kArr

def disjoint (a b : Kinds) : Bool := a &&& b == 0

/-- the `simplified` decision of writeUnionConverters / the Python generator: all cases (the null
    case counts as Null) have pairwise disjoint JSON data types -/
def casesSimplified : Kinds → Fields → Bool
  | _, .nil => true
  | seen, .cons _ t rest => disjoint (kinds t) seen && casesSimplified (seen ||| kinds t) rest

def unionSimplified (hasNull : Bool) (cs : Fields) : Bool :=
  casesSimplified (if hasNull then kNull else 0) cs

def isNullable : Ty → Bool
  | .optional _ => true
  | .union hn _ => hn
  | _ => false

/-! ### enum / flags symbols -/

def symOfValue : List (String × Int) → Int → Option String
  | [], _ => none
  | (s, v) :: r, x => if v = x then some s else symOfValue r x

def valueOfSym : List (String × Int) → String → Option Int
  | [], _ => none
  | (s, v) :: r, x => if s = x then some v else valueOfSym r x

def strBytes (s : String) : List UInt8 := s.toUTF8.toList

/-- greedy decomposition used by both back ends; `none` = not a combination of declared flags -/
def flagNames : List (String × Int) → Nat → List String → Option (List String)
  | [], remaining, acc => if remaining = 0 then some acc.reverse else none
  | (s, v) :: r, remaining, acc =>
    if remaining = 0 then some acc.reverse
    else if v ≤ 0 then flagNames r remaining acc
    else if v.toNat &&& remaining = v.toNat then flagNames r (remaining ^^^ (remaining &&& v.toNat)) (s :: acc)   -- `remaining &= ~v`
    else flagNames r remaining acc

structure Fmt where
  /-- date/time/datetime → text (ISO forms of the runtime libraries) -/
  fmt : Prim → Int → List UInt8
  parse : Prim → List UInt8 → Option Int

def jList (f : Val → J) : List Val → List J
  | [] => []
  | v :: vs => f v :: jList f vs

def jPairs (fk fv : Val → J) : List (Val × Val) → List J
  | [] => []
  | (k, v) :: r => .arr [fk k, fv v] :: jPairs fk fv r

def jStrObj (fv : Val → J) : List (Val × Val) → List (List UInt8 × J)
  | [] => []
  | (.str k, v) :: r => (k, fv v) :: jStrObj fv r
  | (_, v) :: r => ([], fv v) :: jStrObj fv r

def primToJ (F : Fmt) : Prim → Val → J
  | .bool, .bool b => .bool b
  | .float32, .f32 b => .f32 b
  | .float64, .f64 b => .f64 b
  | .complexfloat32, .c32 r i => .arr [.f32 r, .f32 i]
  | .complexfloat64, .c64 r i => .arr [.f64 r, .f64 i]
  | .string, .str s => .str s
  | .date, .int i => .str (F.fmt .date i)
  | .time, .int i => .str (F.fmt .time i)
  | .datetime, .int i => .str (F.fmt .datetime i)
  | _, .int i => .int i
  | _, _ => .null

mutual
  def toJ (F : Fmt) : Ty → Val → J
    | .prim p, v => primToJ F p v
    | .enum _ isFlags syms, v =>
      match v with
      | .int x =>
        if isFlags then
          if x = 0 then
            (match symOfValue syms 0 with
             | some z => .arr [.str (strBytes z)]
             | none => .arr [])
          else if x < 0 then .int x
          else match flagNames syms x.toNat [] with
            | some names => .arr (names.map fun n => .str (strBytes n))
            | none => .int x
        else match symOfValue syms x with
          | some s => .str (strBytes s)
          | none => .int x
      | _ => .null
    | .record fs, v =>
      match v with
      | .record vs => .obj (fieldsToJ F fs vs)
      | _ => .null
    | .optional t, v =>
      match v with
      | .some x => toJ F t x
      | _ => .null
    | .union hn cs, v =>
      match v with
      | .case i x =>
        if unionSimplified hn cs then caseToJ F cs i x
        else .obj [(caseTag cs i, caseToJ F cs i x)]
      | _ => .null
    | .vector t _, v =>
      match v with
      | .list vs => .arr (jList (toJ F t) vs)
      | _ => .null
    | .array t k, v =>
      match v with
      | .arr shape vs =>
        (match k with
         | .fixed _ => .arr (jList (toJ F t) vs)
         | _ => .obj [(strBytes "shape", .arr (shape.map fun (d : Nat) => J.int (Int.ofNat d))), (strBytes "data", .arr (jList (toJ F t) vs))])
      | _ => .null
    | .map kt vt, v =>
      match v with
      | .map kvs => if isStringKey kt then .obj (jStrObj (toJ F vt) kvs) else .marr (jPairs (toJ F kt) (toJ F vt) kvs)
      | _ => .null
  /-- record members; a nullable field holding null is omitted -/
  def fieldsToJ (F : Fmt) : Fields → List Val → List (List UInt8 × J)
    | .nil, _ => []
    | .cons n t rest, vs =>
      match vs with
      | [] => []
      | v :: vs' =>
        if isNullable t && (match v with | .none => true | _ => false) then fieldsToJ F rest vs'
        else (strBytes n, toJ F t v) :: fieldsToJ F rest vs'
  def caseToJ (F : Fmt) : Fields → Nat → Val → J
    | .nil, _, _ => .null
    | .cons _ t rest, i, x =>
      match i with
      | 0 => toJ F t x
      | j + 1 => caseToJ F rest j x
  def caseTag : Fields → Nat → List UInt8
    | .nil, _ => []
    | .cons n _ rest, i =>
      match i with
      | 0 => strBytes n
      | j + 1 => caseTag rest j
end

/-! ### reading -/

def lookupKey (k : List UInt8) : List (List UInt8 × J) → Option J
  | [] => none
  | (k', v) :: r => if k' = k then some v else lookupKey k r

def fromList (f : J → Option Val) : List J → Option (List Val)
  | [] => some []
  | j :: js =>
    match f j, fromList f js with
    | some v, some vs => some (v :: vs)
    | _, _ => none

def fromPairs (fk fv : J → Option Val) : List J → Option (List (Val × Val))
  | [] => some []
  | .arr [k, v] :: r =>
    match fk k, fv v, fromPairs fk fv r with
    | some k', some v', some r' => some ((k', v') :: r')
    | _, _, _ => none
  | _ :: _ => none

def fromStrObj (fv : J → Option Val) : List (List UInt8 × J) → Option (List (Val × Val))
  | [] => some []
  | (k, v) :: r =>
    match fv v, fromStrObj fv r with
    | some v', some r' => some ((.str k, v') :: r')
    | _, _ => none

def intsOf : List J → Option (List Nat)
  | [] => some []
  | .int i :: r => if i < 0 then none else (intsOf r).map (i.toNat :: ·)
  | _ :: _ => none

def orFlags (syms : List (String × Int)) : List J → Option Int
  | [] => some 0
  | .str s :: r =>
    match syms.find? (fun p => strBytes p.1 = s), orFlags syms r with
    | some p, some acc => some (Int.ofNat (p.2.toNat ||| acc.toNat))
    | _, _ => none
  | _ :: _ => none

def primFromJ (F : Fmt) : Prim → J → Option Val
  | .bool, .bool b => some (.bool b)
  | .float32, .f32 b => some (.f32 b)
  | .float64, .f64 b => some (.f64 b)
  | .complexfloat32, .arr [.f32 r, .f32 i] => some (.c32 r i)
  | .complexfloat64, .arr [.f64 r, .f64 i] => some (.c64 r i)
  | .string, .str s => some (.str s)
  | .date, .str s => (F.parse .date s).map .int
  | .time, .str s => (F.parse .time s).map .int
  | .datetime, .str s => (F.parse .datetime s).map .int
  | .int8, .int i | .int16, .int i | .int32, .int i | .int64, .int i
  | .uint8, .int i | .uint16, .int i | .uint32, .int i | .uint64, .int i | .size, .int i => some (.int i)
  | _, _ => none

mutual
  def fromJ (F : Fmt) : Ty → J → Option Val
    | .prim p, j => primFromJ F p j
    | .enum _ isFlags syms, j =>
      match j with
      | .int i => some (.int i)
      | .str s =>
        if isFlags then none
        else (syms.find? (fun p => strBytes p.1 = s)).map fun p => .int p.2
      | .arr xs => if isFlags then (orFlags syms xs).map .int else none
      | _ => none
    | .record fs, j =>
      match j with
      | .obj kvs => (fieldsFromJ F fs kvs).map .record
      | _ => none
    | .optional t, j =>
      match j with
      | .null => some .none
      | _ => (fromJ F t j).map .some
    | .union hn cs, j =>
      match j with
      | .null => if hn then some .none else none
      | _ =>
        if unionSimplified hn cs then caseByKind F cs 0 j
        else match j with
          | .obj [(tag, inner)] => caseByTag F cs 0 tag inner
          | _ => none
    | .vector t len, j =>
      match j with
      | .arr xs =>
        (match len with
         | some n => if xs.length = n then (fromList (fromJ F t) xs).map .list else none
         | none => (fromList (fromJ F t) xs).map .list)
      | _ => none
    | .array t k, j =>
      match k with
      | .fixed dims =>
        (match j with
         | .arr xs => (fromList (fromJ F t) xs).map (.arr dims)
         | _ => none)
      | _ =>
        (match j with
         | .obj [(_, .arr sh), (_, .arr data)] =>
           match intsOf sh, fromList (fromJ F t) data with
           | some shape, some vs => some (.arr shape vs)
           | _, _ => none
         | _ => none)
    | .map kt vt, j =>
      if isStringKey kt then
        (match j with
         | .obj kvs => (fromStrObj (fromJ F vt) kvs).map .map
         | _ => none)
      else
        (match j with
         | .marr xs => (fromPairs (fromJ F kt) (fromJ F vt) xs).map .map
         | .arr xs => (fromPairs (fromJ F kt) (fromJ F vt) xs).map .map
         | _ => none)
  def fieldsFromJ (F : Fmt) : Fields → List (List UInt8 × J) → Option (List Val)
    | .nil, _ => some []
    | .cons n t rest, kvs =>
      match lookupKey (strBytes n) kvs with
      | some j =>
        (match fromJ F t j, fieldsFromJ F rest kvs with
         | some v, some vs => some (v :: vs)
         | _, _ => none)
      | none =>
        if isNullable t then (fieldsFromJ F rest kvs).map (.none :: ·) else none
  /-- untagged: the first case whose JSON data types include the value's -/
  def caseByKind (F : Fmt) : Fields → Nat → J → Option Val
    | .nil, _, _ => none
    | .cons _ t rest, i, j =>
      if kinds t &&& kindOf j ≠ 0 then (fromJ F t j).map (.case i) else caseByKind F rest (i + 1) j
  def caseByTag (F : Fmt) : Fields → Nat → List UInt8 → J → Option Val
    | .nil, _, _, _ => none
    | .cons n t rest, i, tag, j =>
      if strBytes n = tag then (fromJ F t j).map (.case i) else caseByTag F rest (i + 1) tag j
end

/-! ### well-formedness assumed by the round-trip theorem (YardlProofs/JsonRoundTrip.lean) -/

def Fmt.Ok (F : Fmt) : Prop := ∀ p i, F.parse p (F.fmt p i) = some i

def names : Fields → List (List UInt8)
  | .nil => []
  | .cons n _ r => strBytes n :: names r

def distinct : List (List UInt8) → Bool
  | [] => true
  | x :: r => !r.contains x && distinct r

mutual
  def WF : Ty → Bool
    | .prim _ => true
    | .enum _ _ syms => distinct (syms.map fun p => strBytes p.1)
    | .record fs => distinct (names fs) && WFF fs
    | .optional t => WF t && !isNullable t
    | .union _ cs => distinct (names cs) && WFF cs && casesOk cs
    | .vector t _ => WF t
    | .array t _ => WF t
    | .map k v => WF k && WF v
  def WFF : Fields → Bool
    | .nil => true
    | .cons _ t r => WF t && WFF r
  def casesOk : Fields → Bool
    | .nil => true
    | .cons _ t r => (kinds t != 0) && casesOk r
end

end Yardl.Json

namespace Yardl.Json

/-! ### IEEE-754 double → single rounding (driver boundary: JSON text carries doubles) -/

def bitLength : Nat → Nat := Nat.log2 ∘ (· * 2)   -- bitLength 0 = 0 is handled by the caller

def rshiftRNE (m s : Nat) : Nat :=
  if s = 0 then m
  else
    let q := m >>> s
    let rem := m % (2 ^ s)
    let half := 2 ^ (s - 1)
    if rem > half || (rem == half && q % 2 == 1) then q + 1 else q

/-- bits of the float32 nearest (ties to even) to the float64 with bits `b` -/
def narrow (b : Nat) : Nat :=
  let sign := (b >>> 63) % 2
  let e := (b >>> 52) % 2048
  let m := b % (2 ^ 52)
  let s32 := sign * 2 ^ 31
  if e = 2047 then
    s32 + 0x7f800000 + (if m = 0 then 0 else 0x400000 + m >>> 29)
  else
    let M := if e = 0 then m else m + 2 ^ 52
    if M = 0 then s32
    else
      -- value = M * 2^(E0 - 1075) with E0 = max e 1
      let E0 := if e = 0 then 1 else e
      let bl := Nat.log2 M + 1
      -- unbiased float32 exponent ex = bl - 1 + E0 - 1075 ; biased = ex + 127 = bl + E0 - 949
      if bl + E0 ≥ 950 then
        -- normal float32 (biased exponent >= 1)
        let biased := bl + E0 - 949
        let sig := if bl ≥ 24 then rshiftRNE M (bl - 24) else M <<< (24 - bl)
        let bits := biased * 2 ^ 23 + (sig - 2 ^ 23)
        if bits ≥ 0x7f800000 then s32 + 0x7f800000 else s32 + bits
      else
        -- subnormal: units of 2^-149; value = M * 2^(E0-1075) = M * 2^(E0 - 926) * 2^-149
        let sh := 926 - E0
        s32 + rshiftRNE M sh

/-- exact widening float32 bits → float64 bits -/
def widen (b : Nat) : Nat :=
  let sign := (b >>> 31) % 2
  let e := (b >>> 23) % 256
  let m := b % (2 ^ 23)
  let s64 := sign * 2 ^ 63
  if e = 255 then s64 + 0x7ff0000000000000 + m * 2 ^ 29
  else if e = 0 then
    if m = 0 then s64
    else
      let bl := Nat.log2 m + 1
      -- value = m * 2^-149 = (m << (24 - bl)) / 2^23 * 2^(bl - 1 - 149)
      let e64 := bl - 1 + 1023 - 149 + 0
      let frac := (m <<< (53 - bl)) % (2 ^ 52)
      s64 + (e64 + 0) * 2 ^ 52 + frac
  else s64 + (e + 896) * 2 ^ 52 + m * 2 ^ 29

end Yardl.Json
