import YardlProofs.Plan
import YardlProofs.WireRoundTrip

/-!
# C14 — All target languages follow the same serialization plan

The plan of a resolved type is `Plan.erase t`: the composition of element encodings (field order,
fixed lengths, array kinds/ranks/shapes, map key/value encodings, enum base types, union case order,
null handling) with all names forgotten.

Proved here, for every type:
* `bytes_depend_on_plan_only` — encoder and decoder are functions of the plan: two types with the same
  plan are laid out identically.
* `every_backend_denotes_the_plan` — the serializer expression each back end's recursive
  type → serializer mapping prints (`Plan.emit`, for Python binary, MATLAB binary, Python NDJSON),
  read under that back end's runtime constructor conventions (`Plan.denote`), is the plan; MATLAB's
  reversed fixed-array shape is the same row-major plan (`matlab_fixed_shape_is_reversed`).
* `backends_agree`, `written_by_one_read_by_other`.
* `expression_difference_is_plan_difference` — `denote` is injective up to the annotations that do
  not affect layout, so comparing printed expressions never flags two expressions with equal plans.

Tie (`checks/c14.py`): the expressions are *parsed out of freshly generated code* (Python `binary.py`,
`ndjson.py` by `ast`; MATLAB `+binary/*.m` by a small expression parser), record serializer classes
are expanded, and each protocol step / record field is compared with `Plan.emit` of the resolved type
(and, through C01–C03, the C++ and Python code is *run* against `enc`/`dec` of the same types).
-/

namespace Yardl.C14
open Yardl Yardl.Plan

theorem bytes_depend_on_plan_only (t₁ t₂ : Ty) (h : erase t₁ = erase t₂) :
    (∀ v, enc t₁ v = enc t₂ v) ∧ (∀ bs, dec t₁ bs = dec t₂ bs) := by
  constructor
  · intro v; rw [← enc_erase t₁, ← enc_erase t₂, h]
  · intro bs; rw [← dec_erase t₁, ← dec_erase t₂, h]

theorem every_backend_denotes_the_plan (b : Backend) (t : Ty) : denote b (emit b t) = some (erase t) :=
  denote_emit b t

theorem backends_agree (b₁ b₂ : Backend) (t : Ty) : denote b₁ (emit b₁ t) = denote b₂ (emit b₂ t) := by
  rw [denote_emit, denote_emit]

/-- what one back end writes (according to the plan its expression denotes) every other back end
    reads back as the same value, leaving the rest of the stream untouched -/
theorem written_by_one_read_by_other (b₁ b₂ : Backend) (t : Ty) (v : Val) (rest : Bytes) (hv : HasType t v = true) :
    ∃ p₁ p₂, denote b₁ (emit b₁ t) = some p₁ ∧ denote b₂ (emit b₂ t) = some p₂ ∧
      dec p₂ (enc p₁ v ++ rest) = some (v, rest) := by
  refine ⟨erase t, erase t, denote_emit b₁ t, denote_emit b₂ t, ?_⟩
  rw [enc_erase, dec_erase]
  exact dec_enc t v rest hv

theorem matlab_fixed_shape_is_reversed :
    emit .matlabBinary (.array (.prim .int8) (.fixed [2, 3])) = .fixedNdarray (.prim .int8) [3, 2] ∧
    emit .pyBinary (.array (.prim .int8) (.fixed [2, 3])) = .fixedNdarray (.prim .int8) [2, 3] ∧
    denote .matlabBinary (.fixedNdarray (.prim .int8) [3, 2]) = denote .pyBinary (.fixedNdarray (.prim .int8) [2, 3]) := by
  simp [emit, denote, Backend.reversesFixedDims]

/-- a deviation is visible: an expression with the optional collapsed denotes a different plan -/
theorem collapsed_optional_is_a_different_plan (b : Backend) (e : SE) (p : Ty) (h : denote b e = some p) :
    denote b (.optional (.optional e)) ≠ denote b (.optional e) := by
  simp only [denote, h]
  intro hc
  have := congrArg sizeOf hc
  simp at this

theorem expression_difference_is_plan_difference (b : Backend) (e₁ e₂ : SE) (p : Ty)
    (h₁ : denote b e₁ = some p) (h₂ : denote b e₂ = some p) : strip e₁ = strip e₂ :=
  denote_injective b e₁ e₂ p h₁ h₂

/-- non-vacuity: a nested shape with every constructor -/
example : denote .matlabBinary (emit .matlabBinary
    (.record (.cons "a" (.union true (.cons "x" (.vector (.prim .int32) (some 3)) (.cons "y" (.map (.prim .string) (.enum .uint16 true [("A", 1)])) .nil)))
      (.cons "b" (.optional (.optional (.array (.prim .float32) (.fixed [2, 3])))) .nil))))
    = some (.record (.cons "" (.union true (.cons "" (.vector (.prim .int32) (some 3)) (.cons "" (.map (.prim .string) (.enum .uint16 false [])) .nil)))
      (.cons "" (.optional (.optional (.array (.prim .float32) (.fixed [2, 3])))) .nil))) := by
  simp [emit, emitF, denote, denoteF, Backend.reversesFixedDims]

end Yardl.C14
