import YardlModel.Evolution
import YardlProofs.EvolutionRefl
import YardlProofs.EvolutionClasses
import YardlGenerated.Tables

/-!
# C06 — Schema-evolution verdicts are total, reflexive and match the documented classes

Model: `YardlModel/Evolution.lean` — the structural core of change detection on resolved types with
nominal records/enums (`cmp` = compareTypes and the detect*Changes family, `recordChange`,
`enumChange`, `unionChange` = the greedy matching of detectUnionChanges), the messages of
validateTypeDefinitionChanges (`recordSev`, `enumSev`, `defsSev`) and validateProtocolChanges
(`protoVerdict`).

Proved here:
* `verdict_total` — the verdict is a total function (the model terminates on every pair of types);
  that the *tool* neither panics nor diverges is decided by the differential run.
* `primitive_change_table` — `primChange` agrees, on all 324 ordered pairs, with the table obtained by
  *executing* ValidateEvolution of the current source on one-step protocols (regenerated every run).
* `primitive_change_classes` — the documented classes on primitives: identical = silent; integers,
  floating point numbers and strings convert into each other with a warning; complex to complex with
  a warning; everything else is rejected.
* `primitive_change_error_symmetric` — a pair is rejected in one direction iff in the other (both
  conversions are generated).
* `wrappers_preserve_errors` — a change inside a stream, vector or optional is an error exactly when
  the inner change is; an unchanged inner type stays unchanged.
* `compare_reflexive` — a type compared with itself is unchanged, for **every** well-formed type
  (`wfT`: distinct field names per record, distinct symbols per enum, non-empty unions — what the
  validator enforces), at any nesting depth: records field by field, enums symbol by symbol, unions
  through the greedy first-fit matching of detectUnionChanges (which pairs every case with itself).
  `well_formedness_is_needed`: without distinct field names the statement is false of the model.
* `identical_versions_are_silent` — a protocol with distinct step names and well-formed step types,
  compared with itself, gets the verdict `ok` (no warning, no error), whatever definitions the new
  version has.
The driver reports for every generated version pair whether it satisfies these hypotheses.
* the documented classes of docs/cpp/evolution.md, for **every** well-formed type / protocol (not sample shapes):
  `removing_a_step_is_rejected`; `appending_a_step` (silent iff the step can be empty, else rejected);
  `optional_and_mandatory` (scalar <-> optional: warning, both ways) with `dimensioned_optional_rejected`
  (vectors / arrays / maps: rejected — the open finding of this property, as a theorem of the model);
  `union_case_added_or_removed` (warning, both ways); `adding_a_field` / `removing_a_field` of a record a
  step uses (silent when the field is nullable, warning otherwise; for records whose fields mention no
  other definition, so that the verdict does not depend on the rest of the two versions); `reordering_fields`
  (any permutation: silent); `inserting_a_step` (anywhere); `moving_a_step_is_rejected`;
  `changing_an_enum_definition` (base, enum/flags, removed or renumbered symbol: rejected) and
  `adding_enum_symbols_is_silent`; `scalar_to_vector_or_array` (rejected, both ways); `changing_type_arguments`
  (count or value: rejected); `optional_and_union` (warning, both ways); `reordering_union_cases` (any permutation:
  no message).
-/

namespace Yardl.C06
open Yardl Yardl.Evo

theorem verdict_total (env : Env) (new old : ETy) : ∃ s, stepVerdict env new old = s := ⟨_, rfl⟩

def sevOfCls : Cls → Nat
  | .same => 0 | .defChanged => 0 | .silent => 0 | .warn => 1 | .error => 2

theorem primitive_change_table :
    ∀ e ∈ Generated.primChangeTab, sevOfCls (primChange e.1 e.2.1) = e.2.2 := by
  decide +kernel

theorem primitive_change_table_complete : Generated.primChangeTab.length = 18 * 18 := by decide +kernel

theorem primitive_change_classes (a b : Prim) :
    primChange a a = .same ∧
    (a ≠ b → (pkind a).isNumber ∨ a = .string → (pkind b).isNumber ∨ b = .string → primChange a b = .warn) ∧
    (a ≠ b → pkind a = .complex → pkind b = .complex → primChange a b = .warn) ∧
    (a ≠ b → (pkind a = .bool ∨ pkind a = .date ∨ pkind a = .time ∨ pkind a = .datetime) → primChange a b = .error ∧ primChange b a = .error) := by
  cases a <;> cases b <;> decide

theorem primitive_change_error_symmetric (a b : Prim) : primChange a b = .error ↔ primChange b a = .error := by
  cases a <;> cases b <;> decide

theorem wrappers_preserve_errors (c : Cls) : (c.wrap = .error ↔ c = .error) ∧ (c.wrap = .same ↔ c = .same) ∧ (c.wrap.sev = .err ↔ c.sev = .err) := by
  cases c <;> decide

theorem compare_reflexive (t : ETy) (fuel : Nat) (hw : wfT t = true) (h : depth t ≤ fuel) : cmp fuel t t = .same :=
  cmp_self fuel t hw h

/-- the hypothesis is met by a type that uses every constructor, nested -/
example : wfT (.record 1 (.cons 10 (.union (.null (.cons (.prim .int32) (.cons (.enum 2 false .int32 [(5, 0), (6, 1)]) .nil))))
    (.cons 11 (.map (.prim .string) (.vector (.optional (.array (.prim .float32) .dynamic)) none)) .nil))) = true := by decide

/-- and it is needed: a record that declares the field `10` twice does not compare as unchanged with itself -/
theorem well_formedness_is_needed :
    cmp 5 (.record 1 (.cons 10 (.prim .int32) (.cons 10 (.prim .string) .nil)))
          (.record 1 (.cons 10 (.prim .int32) (.cons 10 (.prim .string) .nil))) = .defChanged := by decide

theorem identical_versions_are_silent (env : Env) (steps : List EStep) (hw : wfSteps steps = true) :
    protoVerdict env steps steps = .ok := by
  simp only [wfSteps, Bool.and_eq_true, List.all_eq_true] at hw
  exact protoVerdict_self env steps hw.1 hw.2

example : wfSteps [⟨1, .prim .int32, false⟩, ⟨2, .record 1 (.cons 10 (.optional (.prim .string)) .nil), true⟩] = true := by decide

theorem removing_a_step_is_rejected (env : Env) (new old : List EStep) (o : EStep) (ho : o ∈ old)
    (hgone : findStep new o.name = none) : protoVerdict env new old = .err :=
  removed_step_is_error env new old o ho hgone

theorem appending_a_step (env : Env) (old : List EStep) (s : EStep) (hw : wfSteps old = true)
    (hfresh : ∀ x ∈ old, x.name ≠ s.name) :
    protoVerdict env (old ++ [s]) old = if canBeEmpty s then .ok else .err := by
  simp only [wfSteps, Bool.and_eq_true, List.all_eq_true] at hw
  exact appended_step_verdict env old s hw.1 hw.2 hfresh

theorem optional_and_mandatory (fuel : Nat) (t : ETy) (hw : wfT t = true) (hs : plainScalar t = true) (h : depth t ≤ fuel) :
    cmp (fuel + 1) (.optional t) t = .warn ∧ cmp (fuel + 1) t (.optional t) = .warn :=
  ⟨make_optional_warns fuel t hw hs h, make_mandatory_warns fuel t hw hs h⟩

theorem dimensioned_optional_rejected (fuel : Nat) (t : ETy) (hd : isDim t = true) :
    cmp (fuel + 1) (.optional t) t = .error ∧ cmp (fuel + 1) t (.optional t) = .error :=
  dimensioned_optional_is_rejected fuel t hd

theorem union_case_added_or_removed (fuel : Nat) (l : List (Option ETy)) (c : Option ETy) (hne : l ≠ [])
    (hw : ∀ t, some t ∈ l → wfT t = true ∧ depth t ≤ fuel) :
    cmp (fuel + 1) (.union (casesOfList (l ++ [c]))) (.union (casesOfList l)) = .warn ∧
    cmp (fuel + 1) (.union (casesOfList l)) (.union (casesOfList (l ++ [c]))) = .warn :=
  Evo.union_case_added_or_removed fuel l c hne hw

theorem adding_a_field (r : Nat) (fs : List (Nat × ETy)) (n : Nat) (t : ETy)
    (hd : namesDistinct fs = true) (hfresh : ∀ e ∈ fs, e.1 ≠ n)
    (hw : ∀ e ∈ fs, wfT e.2 = true) (hdf : ∀ e ∈ fs, defFree e.2 = true) :
    stepVerdict [(r, .record r (fieldsOfList (fs ++ [(n, t)])))]
      (.record r (fieldsOfList (fs ++ [(n, t)]))) (.record r (fieldsOfList fs))
    = if isNullable t then .ok else .warn :=
  field_added_verdict r fs n t hd hfresh hw hdf

theorem removing_a_field (r : Nat) (fs : List (Nat × ETy)) (n : Nat) (t : ETy)
    (hd : namesDistinct fs = true) (hfresh : ∀ e ∈ fs, e.1 ≠ n)
    (hw : ∀ e ∈ fs, wfT e.2 = true) (hdf : ∀ e ∈ fs, defFree e.2 = true) (htd : defFree t = true) :
    stepVerdict [(r, .record r (fieldsOfList fs))]
      (.record r (fieldsOfList fs)) (.record r (fieldsOfList (fs ++ [(n, t)])))
    = if isNullable t then .ok else .warn :=
  field_removed_verdict r fs n t hd hfresh hw hdf htd

theorem reordering_fields (r : Nat) (new old : List (Nat × ETy)) (hp : new.Perm old)
    (hd : namesDistinct old = true) (hw : ∀ e ∈ old, wfT e.2 = true) (hdf : ∀ e ∈ old, defFree e.2 = true) :
    stepVerdict [(r, .record r (fieldsOfList new))] (.record r (fieldsOfList new)) (.record r (fieldsOfList old)) = .ok :=
  fields_reordered_verdict r new old hp hd hw hdf

theorem inserting_a_step (env : Env) (pre suf : List EStep) (s : EStep) (hw : wfSteps (pre ++ suf) = true)
    (hfresh : ∀ x ∈ pre ++ suf, x.name ≠ s.name) :
    protoVerdict env (pre ++ s :: suf) (pre ++ suf) = if canBeEmpty s then .ok else .err := by
  simp only [wfSteps, Bool.and_eq_true, List.all_eq_true] at hw
  exact inserted_step_verdict env pre suf s hw.1 hw.2 hfresh

theorem moving_a_step_is_rejected (env : Env) (pre tail rest : List EStep) (s o : EStep) (i : Nat)
    (hw : wfSteps (pre ++ tail) = true) (hfound : findStep (pre ++ tail) s.name = some (i, o)) (hmoved : i ≠ pre.length) :
    protoVerdict env (pre ++ s :: rest) (pre ++ tail) = .err := by
  simp only [wfSteps, Bool.and_eq_true, List.all_eq_true] at hw
  exact moved_step_is_rejected env pre tail rest s o i hw.1 hw.2 hfound hmoved

theorem changing_an_enum_definition (newFlags oldFlags : Bool) (newBase oldBase : Prim) (newSyms oldSyms : List (Nat × Int)) :
    (newFlags ≠ oldFlags → enumSev newFlags newBase newSyms oldFlags oldBase oldSyms = .err) ∧
    (newBase ≠ oldBase → enumSev newFlags newBase newSyms oldFlags oldBase oldSyms = .err) ∧
    (∀ e ∈ oldSyms, lookupSym newSyms e.1 = none → enumSev newFlags newBase newSyms oldFlags oldBase oldSyms = .err) ∧
    (∀ e ∈ oldSyms, ∀ v, lookupSym newSyms e.1 = some v → v ≠ e.2 → enumSev newFlags newBase newSyms oldFlags oldBase oldSyms = .err) :=
  enum_definition_change newFlags oldFlags newBase oldBase newSyms oldSyms

theorem adding_enum_symbols_is_silent (fl : Bool) (base : Prim) (newSyms oldSyms : List (Nat × Int))
    (hkept : ∀ e ∈ oldSyms, lookupSym newSyms e.1 = some e.2) : enumSev fl base newSyms fl base oldSyms = .ok :=
  enum_symbols_added_is_silent fl base newSyms oldSyms hkept

theorem scalar_to_vector_or_array (fuel : Nat) (t : ETy) (hs : plainScalar t = true) (l : Option Nat) (k : ArrKind) :
    cmp (fuel + 1) (.vector t l) t = .error ∧ cmp (fuel + 1) t (.vector t l) = .error ∧
    cmp (fuel + 1) (.array t k) t = .error ∧ cmp (fuel + 1) t (.array t k) = .error :=
  scalar_to_vector_or_array_rejected fuel t hs l k

theorem changing_type_arguments (fuel : Nat) (n : Nat) :
    (∀ (as as' b b' : EFields), as.toList.length ≠ as'.toList.length → cmp (fuel + 1) (.inst n as b) (.inst n as' b') = .error) ∧
    (∀ (a a' : ETy) (b b' : EFields), (cmp fuel a a').matches = false →
      cmp (fuel + 1) (.inst n (.cons 0 a .nil) b) (.inst n (.cons 0 a' .nil) b') = .error) :=
  ⟨fun as as' b b' h => type_argument_count_change_rejected fuel n as as' b b' h,
   fun a a' b b' h => type_argument_change_rejected fuel n a a' b b' h⟩

theorem optional_and_union (fuel : Nat) (t : ETy) (rest : List (Option ETy)) (hw : wfT t = true) (h : depth t ≤ fuel)
    (hmem : some t ∈ rest) :
    cmp (fuel + 1) (.optional t) (.union (casesOfList (none :: rest))) = .warn ∧
    cmp (fuel + 1) (.union (casesOfList (none :: rest))) (.optional t) = .warn :=
  optional_union_interchange fuel t rest hw h hmem

/-- reordering the cases of a union emits no message: `NoCross` says that cases at different positions do not match
    one another (the validator rejects unions with duplicate case types) -/
theorem reordering_union_cases (fuel : Nat) (news olds : List (Option ETy)) (hp : news.Perm olds) (hne : olds ≠ [])
    (hnd : olds.Nodup) (hnc : NoCross (cmp fuel) olds) (hw : ∀ t, some t ∈ olds → wfT t = true ∧ depth t ≤ fuel) :
    (cmp (fuel + 1) (.union (casesOfList news)) (.union (casesOfList olds))).sev = .ok := by
  have hself := cmpCase_self_of_wf fuel olds hw
  simpa [cmp] using union_cases_reordered (cmp fuel) news olds hp hne hnd hnc hself

/-- the hypothesis is met by a union of an integer, a string and a vector -/
example : NoCross (cmp 3) [some (.prim .int32), some (.prim .string), some (.vector (.prim .float32) none)] := by
  intro i j a b hi hj hij
  match i, j with
  | 0, 0 | 1, 1 | 2, 2 => exact absurd rfl hij
  | 0, 1 | 0, 2 | 1, 0 | 1, 2 | 2, 0 | 2, 1 => simp at hi hj; subst hi; subst hj; decide
  | i + 3, _ => simp at hi
  | 0, j + 3 | 1, j + 3 | 2, j + 3 => simp at hj

/-- the hypotheses are met: a two-field record gaining an optional vector field, a scalar made optional, a union gaining a case -/
example : namesDistinct [(10, ETy.prim .int32), (11, .vector (.prim .string) none)] = true ∧
    plainScalar (.record 1 (.cons 10 (.prim .int32) .nil)) = true ∧ isDim (.vector (.prim .int8) none) = true ∧
    defFree (.map (.prim .string) (.optional (.prim .float64))) = true := by decide

/-- non-vacuity / classes on concrete shapes: a record with an added optional field is a silent
    definition change; an added required field warns; a removed step is an error -/
example :
    let old := ETy.record 1 (.cons 10 (.prim .int32) .nil)
    let new1 := ETy.record 1 (.cons 10 (.prim .int32) (.cons 11 (.optional (.prim .string)) .nil))
    let new2 := ETy.record 1 (.cons 10 (.prim .int32) (.cons 11 (.prim .string) .nil))
    stepVerdict [(1, new1)] new1 old = .ok ∧ stepVerdict [(1, new2)] new2 old = .warn ∧
    protoVerdict [] [⟨1, .prim .int32, false⟩] [⟨1, .prim .int32, false⟩, ⟨2, .prim .int32, false⟩] = .err ∧
    protoVerdict [] [⟨1, .prim .int32, false⟩, ⟨2, .vector (.prim .int8) none, false⟩] [⟨1, .prim .int32, false⟩] = .ok := by
  decide

end Yardl.C06
